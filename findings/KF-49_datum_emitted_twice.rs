// KF-49 (C16): place at rust/tests/demo.rs; fails before the fix
// PRE-EXISTING (clean HEAD) - C16 "scripts and datums placed in a witness set through the typed setters or by
// the builder are emitted once":
// the same datum, byte for byte, is held and serialized TWICE when one copy was constructed through the API
// (PlutusData::new_*, original_bytes == None) and the other one was decoded (PlutusData::from_bytes / from_hex,
// or taken out of a decoded transaction / UTxO: original_bytes == Some(bytes)).
// Cause: rust/src/protocol_types/plutus/plutus_data.rs: PlutusData derives Ord (l.180), which compares `datum` AND
// then `original_bytes` (None < Some), while PartialEq / Hash (l.188-198) look at `datum` only. All de-duplication of
// datums is done with BTreeSet, i.e. with that Ord: PlutusList::deduplicated_clone (l.666, behind
// TransactionWitnessSet::set_plutus_data and new_with_partial_dedup), PlutusList::deduplicated_view (l.649, behind
// to_set_bytes / hash_script_data) and PlutusWitnesses::collect (builders/script_structs/plutus_witnesses.rs).
// So `a == b` and a.to_bytes() == b.to_bytes(), yet both are kept.
// Minimal fix: de-duplicate on the bytes that are written (key the BTreeSet with elem.to_bytes()), or implement Ord
// for PlutusData consistently with the written bytes (compare to_bytes()) instead of deriving it.
use cardano_serialization_lib::*;

fn count_occurrences(haystack: &[u8], needle: &[u8]) -> usize {
    haystack.windows(needle.len()).filter(|w| *w == needle).count()
}

fn big(n: u64) -> BigNum {
    BigNum::from_str(&n.to_string()).unwrap()
}

#[test]
fn setter_holds_a_constructed_and_a_decoded_copy_of_one_datum_once() {
    let constructed = PlutusData::new_bytes(vec![0xAB; 24]);
    let decoded = PlutusData::from_bytes(constructed.to_bytes()).unwrap();
    assert_eq!(constructed, decoded);
    assert_eq!(constructed.to_bytes(), decoded.to_bytes());

    let mut list = PlutusList::new();
    list.add(&constructed);
    list.add(&decoded);
    let mut ws = TransactionWitnessSet::new();
    ws.set_plutus_data(&list);

    let bytes = ws.to_bytes();
    assert_eq!(
        count_occurrences(&bytes, &constructed.to_bytes()),
        1,
        "the witness set serializes the same datum twice: {}",
        hex::encode(&bytes)
    );
    assert_eq!(ws.plutus_data().unwrap().len(), 1);
}

#[test]
fn builder_emits_an_input_datum_that_is_also_an_extra_datum_once() {
    let cfg = TransactionBuilderConfigBuilder::new()
        .fee_algo(&LinearFee::new(&big(44), &big(155381)))
        .pool_deposit(&big(500000000))
        .key_deposit(&big(2000000))
        .max_value_size(4000)
        .max_tx_size(8000)
        .coins_per_utxo_byte(&big(4310))
        .build()
        .unwrap();
    let mut tb = TransactionBuilder::new(&cfg);

    let constructed = PlutusData::new_bytes(vec![0xCD; 24]);
    // e.g. the inline / known datum of the spent UTxO as it came from the chain
    let decoded = PlutusData::from_hex(&constructed.to_hex()).unwrap();

    let script = PlutusScript::new(vec![0x4e, 0x4d, 0x01, 0x00, 0x00, 0x33, 0x22, 0x22, 0x00, 0x51, 0x20, 0x01, 0x20, 0x01, 0x11]);
    let redeemer = Redeemer::new(
        &RedeemerTag::new_spend(),
        &big(0),
        &PlutusData::new_integer(&BigInt::from_str("1").unwrap()),
        &ExUnits::new(&big(1), &big(1)),
    );
    let witness = PlutusWitness::new(&script, &decoded, &redeemer);
    let mut inputs = TxInputsBuilder::new();
    inputs.add_plutus_script_input(
        &witness,
        &TransactionInput::new(&TransactionHash::from_bytes(vec![1; 32]).unwrap(), 0),
        &Value::new(&big(5_000_000)),
    );
    tb.set_inputs(&inputs);
    tb.add_extra_witness_datum(&constructed);
    tb.set_fee(&big(1_000_000));

    let tx = tb.build_tx_unsafe().unwrap();
    let ws_bytes = tx.witness_set().to_bytes();
    assert_eq!(
        count_occurrences(&ws_bytes, &constructed.to_bytes()),
        1,
        "the built transaction carries the same datum twice: {}",
        hex::encode(&ws_bytes)
    );
}

/// Same defect one level down: two byte-identical list datums, one holding a constructed inner list and the other
/// the decoded copy of that inner list (they differ in original_bytes / definite_encoding bookkeeping only).
#[test]
fn setter_holds_byte_identical_nested_datums_once() {
    let mut inner = PlutusList::new();
    inner.add(&PlutusData::new_bytes(vec![0xEF; 24]));
    let a = PlutusData::new_list(&inner);
    let b = PlutusData::new_list(&PlutusList::from_bytes(inner.to_bytes()).unwrap());
    assert_eq!(a.to_bytes(), b.to_bytes());

    let mut list = PlutusList::new();
    list.add(&a);
    list.add(&b);
    let mut ws = TransactionWitnessSet::new();
    ws.set_plutus_data(&list);
    assert_eq!(count_occurrences(&ws.to_bytes(), &a.to_bytes()), 1);
}
