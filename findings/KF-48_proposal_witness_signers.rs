use cardano_serialization_lib::*;

fn root_key() -> Bip32PrivateKey {
    Bip32PrivateKey::from_bip39_entropy(&[7u8; 32], &[])
}

fn key(i: u32) -> PrivateKey {
    root_key().derive(1852 | 0x8000_0000).derive(i).to_raw_key()
}

fn tx_in(n: u8, ix: u32) -> TransactionInput {
    TransactionInput::new(&TransactionHash::from_bytes(vec![n; 32]).unwrap(), ix)
}

fn builder() -> TransactionBuilder {
    let cfg = TransactionBuilderConfigBuilder::new()
        .fee_algo(&LinearFee::new(&BigNum::from(44u64), &BigNum::from(155381u64)))
        .pool_deposit(&BigNum::from(500000000u64))
        .key_deposit(&BigNum::from(2000000u64))
        .max_value_size(5000)
        .max_tx_size(16384)
        .coins_per_utxo_byte(&BigNum::from(4310u64))
        .ex_unit_prices(&ExUnitPrices::new(
            &UnitInterval::new(&BigNum::from(577u64), &BigNum::from(10000u64)),
            &UnitInterval::new(&BigNum::from(721u64), &BigNum::from(10000000u64)),
        ))
        .ref_script_coins_per_byte(&UnitInterval::new(&BigNum::from(15u64), &BigNum::from(1u64)))
        .build()
        .unwrap();
    TransactionBuilder::new(&cfg)
}

fn key_addr(k: &PrivateKey) -> Address {
    EnterpriseAddress::new(0, &Credential::from_keyhash(&k.to_public().hash())).to_address()
}

fn spend_redeemer(n: u64) -> Redeemer {
    Redeemer::new(
        &RedeemerTag::new_spend(),
        &BigNum::zero(),
        &PlutusData::new_integer(&BigInt::from(n)),
        &ExUnits::new(&BigNum::from(1000u64), &BigNum::from(100000u64)),
    )
}

/// signs `tx` with exactly `signers` and returns the byte length of the signed transaction
fn signed_size(tx: &Transaction, signers: &[PrivateKey]) -> usize {
    let hash = FixedTransaction::from_bytes(tx.to_bytes()).unwrap().transaction_hash();
    let mut vkeys = Vkeywitnesses::new();
    for s in signers {
        assert!(vkeys.add(&make_vkey_witness(&hash, s)), "signers must be distinct");
    }
    let mut wit = tx.witness_set();
    wit.set_vkeys(&vkeys);
    Transaction::new(&tx.body(), &wit, tx.auxiliary_data()).to_bytes().len()
}

fn one_vkey_witness_size() -> usize {
    let k = key(99);
    make_vkey_witness(&TransactionHash::from_bytes(vec![0; 32]).unwrap(), &k)
        .to_bytes()
        .len()
}


/// PRE-EXISTING DEFECT (clean HEAD): the signers declared by the Plutus witness of a voting
/// PROPOSAL (PlutusScriptSource::set_required_signers, e.g. a guardrails script supplied by
/// reference that checks a signature) are ignored by count_needed_vkeys: VotingProposalBuilder has
/// no get_required_signers and tx_builder.rs:11-28 never looks at `voting_proposals`, while the
/// same declaration is honoured for inputs, mint, certificates, withdrawals and votes.
/// The mock transaction lacks one key witness, so full_size()/min_fee under-predict.
#[test]
fn signers_declared_by_a_proposal_witness_are_counted() {
    let payer = key(0);
    let k1 = key(1);

    let script = PlutusScript::new_v3(vec![
        0x4e, 0x4d, 0x01, 0x00, 0x00, 0x33, 0x22, 0x22, 0x00, 0x51, 0x20, 0x01, 0x20, 0x01, 0x11,
    ]);
    let mut src = PlutusScriptSource::new(&script);
    let mut signers = Ed25519KeyHashes::new();
    signers.add(&k1.to_public().hash());
    src.set_required_signers(&signers);
    let redeemer = Redeemer::new(
        &RedeemerTag::new_voting_proposal(),
        &BigNum::zero(),
        &PlutusData::new_integer(&BigInt::from(1u64)),
        &ExUnits::new(&BigNum::from(1000u64), &BigNum::from(100000u64)),
    );
    let witness = PlutusWitness::new_with_ref_without_datum(&src, &redeemer);

    let reward = RewardAddress::new(0, &Credential::from_keyhash(&key(8).to_public().hash()));
    let mut tw = TreasuryWithdrawals::new();
    tw.insert(&reward, &BigNum::from(1_000_000u64));
    let action = TreasuryWithdrawalsAction::new_with_policy_hash(&tw, &script.hash());
    let proposal = VotingProposal::new(
        &GovernanceAction::new_treasury_withdrawals_action(&action),
        &Anchor::new(
            &URL::new("https://example.org/a".to_string()).unwrap(),
            &AnchorDataHash::from_bytes(vec![1u8; 32]).unwrap(),
        ),
        &reward,
        &BigNum::from(1_000_000u64),
    );
    let mut proposals = VotingProposalBuilder::new();
    proposals.add_with_plutus_witness(&proposal, &witness).unwrap();

    let mut inputs = TxInputsBuilder::new();
    inputs
        .add_regular_input(&key_addr(&payer), &tx_in(1, 0), &Value::new(&BigNum::from(20_000_000u64)))
        .unwrap();
    let mut collateral = TxInputsBuilder::new();
    collateral
        .add_regular_input(&key_addr(&payer), &tx_in(1, 1), &Value::new(&BigNum::from(5_000_000u64)))
        .unwrap();

    let mut b = builder();
    b.set_inputs(&inputs);
    b.set_collateral(&collateral);
    b.set_voting_proposal_builder(&proposals);
    b.set_script_data_hash(&ScriptDataHash::from_bytes(vec![9u8; 32]).unwrap());
    b.add_change_if_needed(&key_addr(&payer)).unwrap();
    let tx = b.build_tx().unwrap();

    // distinct keys that must sign: the payer and the signer the proposal's script asks for
    let actual = signed_size(&tx, &[payer, k1]);
    let predicted = b.full_size().unwrap();
    assert!(
        predicted >= actual,
        "predicted size {} is smaller than the signed transaction {}",
        predicted,
        actual
    );
    assert!(predicted - actual < one_vkey_witness_size());
}
