// Native replay of KF-29 (property C02): place at rust/tests/demo.rs, run `cargo test --offline --test demo`.
// Nonce::new_from_hash takes raw bytes and returns a Result, but it sliced `hash[..32]` before converting: an input shorter than 32 bytes
// panicked (slice index out of range) instead of producing the error the signature promises.
use cardano_serialization_lib::*;

#[test]
fn a_short_hash_is_an_error_not_a_panic() {
    for len in [0usize, 1, 31] {
        let r = std::panic::catch_unwind(|| Nonce::new_from_hash(vec![7u8; len]));
        assert!(r.is_ok(), "Nonce::new_from_hash panicked on {} bytes", len);
        assert!(r.unwrap().is_err(), "{} bytes accepted as a 32-byte hash", len);
    }
    assert!(Nonce::new_from_hash(vec![7u8; 32]).is_ok());
}
