// KF-50: place at rust/tests/demo.rs; both tests fail before the fix
use cardano_serialization_lib::*;
use std::collections::BTreeMap;

type AssetKey = (Vec<u8>, Vec<u8>);

#[derive(Debug, Default, Clone, PartialEq)]
struct Tot {
    coin: u128,
    assets: BTreeMap<AssetKey, u128>,
}

impl Tot {
    fn add_value(&mut self, v: &Value) {
        self.coin += u64::from(v.coin()) as u128;
        if let Some(ma) = v.multiasset() {
            let pids = ma.keys();
            for i in 0..pids.len() {
                let pid = pids.get(i);
                let assets = ma.get(&pid).unwrap();
                let names = assets.keys();
                for j in 0..names.len() {
                    let n = names.get(j);
                    let q: u64 = assets.get(&n).unwrap().into();
                    if q > 0 {
                        *self.assets.entry((pid.to_bytes(), n.name())).or_insert(0) += q as u128;
                    }
                }
            }
        }
    }
    fn add_coin(&mut self, c: &BigNum) {
        self.coin += u64::from(*c) as u128;
    }
}

fn cfg_builder() -> TransactionBuilderConfigBuilder {
    TransactionBuilderConfigBuilder::new()
        .fee_algo(&LinearFee::new(&BigNum::from(44u64), &BigNum::from(155381u64)))
        .pool_deposit(&BigNum::from(500000000u64))
        .key_deposit(&BigNum::from(2000000u64))
        .max_value_size(5000)
        .max_tx_size(16384)
        .coins_per_utxo_byte(&BigNum::from(4310u64))
}

fn key_hash(x: u8) -> Ed25519KeyHash {
    Ed25519KeyHash::from_bytes(vec![x; 28]).unwrap()
}

fn addr(x: u8) -> Address {
    BaseAddress::new(
        0,
        &Credential::from_keyhash(&key_hash(x)),
        &Credential::from_keyhash(&key_hash(x.wrapping_add(100))),
    )
    .to_address()
}

fn tx_in(x: u8) -> TransactionInput {
    TransactionInput::new(&TransactionHash::from_bytes(vec![x; 32]).unwrap(), 0)
}

fn policy_script(x: u8) -> (NativeScript, PolicyID) {
    let s = NativeScript::new_script_pubkey(&ScriptPubkey::new(&key_hash(x)));
    let h = s.hash();
    (s, h)
}

fn aname(x: u8) -> AssetName {
    AssetName::new(vec![x, x, x, x]).unwrap()
}

/// ledger preservation of value on a body, with the resolved inputs given
fn ledger_sides(
    body: &TransactionBody,
    resolved: &[(TransactionInput, Value)],
    key_deposit: u64,
    pool_deposit: u64,
) -> (Tot, Tot) {
    let mut consumed = Tot::default();
    let mut produced = Tot::default();
    let ins = body.inputs();
    for i in 0..ins.len() {
        let inp = ins.get(i);
        let v = resolved
            .iter()
            .find(|(k, _)| *k == inp)
            .expect("unresolved input");
        consumed.add_value(&v.1);
    }
    if let Some(w) = body.withdrawals() {
        let keys = w.keys();
        for i in 0..keys.len() {
            consumed.add_coin(&w.get(&keys.get(i)).unwrap());
        }
    }
    if let Some(certs) = body.certs() {
        for i in 0..certs.len() {
            let c = certs.get(i);
            if let Some(d) = c.as_stake_deregistration() {
                consumed.coin += d.coin().map(|c| u64::from(c)).unwrap_or(key_deposit) as u128;
            }
            if let Some(d) = c.as_drep_deregistration() {
                consumed.coin += u64::from(d.coin()) as u128;
            }
            if let Some(d) = c.as_stake_registration() {
                produced.coin += d.coin().map(|c| u64::from(c)).unwrap_or(key_deposit) as u128;
            }
            if c.as_pool_registration().is_some() {
                produced.coin += pool_deposit as u128;
            }
            if let Some(d) = c.as_drep_registration() {
                produced.coin += u64::from(d.coin()) as u128;
            }
            if let Some(d) = c.as_stake_registration_and_delegation() {
                produced.coin += u64::from(d.coin()) as u128;
            }
            if let Some(d) = c.as_vote_registration_and_delegation() {
                produced.coin += u64::from(d.coin()) as u128;
            }
            if let Some(d) = c.as_stake_vote_registration_and_delegation() {
                produced.coin += u64::from(d.coin()) as u128;
            }
        }
    }
    if let Some(props) = body.voting_proposals() {
        for i in 0..props.len() {
            produced.coin += u64::from(props.get(i).deposit()) as u128;
        }
    }
    if let Some(mint) = body.mint() {
        let pids = mint.keys();
        // Mint may list a policy several times; go through distinct policies
        let mut seen: Vec<Vec<u8>> = vec![];
        for i in 0..pids.len() {
            let pid = pids.get(i);
            if seen.contains(&pid.to_bytes()) {
                continue;
            }
            seen.push(pid.to_bytes());
            let all = mint.get(&pid).unwrap();
            for k in 0..all.len() {
                let ma = all.get(k).unwrap();
                let names = ma.keys();
                for j in 0..names.len() {
                    let n = names.get(j);
                    let q = ma.get(&n).unwrap();
                    let s = q.to_str();
                    let v: i128 = s.parse().unwrap();
                    if v > 0 {
                        *consumed.assets.entry((pid.to_bytes(), n.name())).or_insert(0) += v as u128;
                    } else if v < 0 {
                        *produced.assets.entry((pid.to_bytes(), n.name())).or_insert(0) +=
                            (-v) as u128;
                    }
                }
            }
        }
    }
    let outs = body.outputs();
    for i in 0..outs.len() {
        produced.add_value(&outs.get(i).amount());
    }
    produced.add_coin(&body.fee());
    if let Some(d) = body.donation() {
        produced.add_coin(&d);
    }
    (consumed, produced)
}

fn assert_balanced(
    body: &TransactionBody,
    resolved: &[(TransactionInput, Value)],
) {
    let (c, p) = ledger_sides(body, resolved, 2000000, 500000000);
    assert_eq!(c, p, "preservation of value violated");
}

fn value_with(coin: u64, assets: &[(PolicyID, AssetName, u64)]) -> Value {
    let mut ma = MultiAsset::new();
    for (p, n, q) in assets {
        ma.set_asset(p, n, &BigNum::from(*q));
    }
    Value::new_with_assets(&BigNum::from(coin), &ma)
}

// PRE-EXISTING (clean HEAD), adjacent to C05: the ledger equation still holds, but the change is not returned to the sender.
// An input whose asset bundle holds no asset (a policy with an empty asset map, or only zero quantities) makes
// add_change_if_needed take the multi-asset branch (has_assets() only counts policies), where the packing loop
// `while change_left.multiasset > {}` never runs, so no change output is created and the whole leftover ADA is
// "added to the last output" -- which is the RECIPIENT's output (and `outputs.last_mut().unwrap()` panics when the
// transaction has no output at all, see the second test). add_change_if_needed nevertheless returns Ok(true).
#[test]
fn empty_asset_bundle_in_input_sends_the_change_to_the_last_user_output() {
    let (_s, pid) = policy_script(7);
    let mut ma = MultiAsset::new();
    ma.insert(&pid, &Assets::new());
    let mut in_val = Value::new(&BigNum::from(10_000_000u64));
    in_val.set_multiasset(&ma);

    let mut b = TransactionBuilder::new(&cfg_builder().build().unwrap());
    b.add_regular_input(&addr(1), &tx_in(1), &in_val).unwrap();
    b.add_output(&TransactionOutput::new(&addr(3), &Value::new(&BigNum::from(2_000_000u64))))
        .unwrap();
    let added = b.add_change_if_needed(&addr(2)).unwrap();
    let body = b.build().unwrap();
    assert_balanced(&body, &vec![(tx_in(1), in_val.clone())]);
    let outs = body.outputs();
    assert_eq!(
        outs.get(0).amount().coin(),
        BigNum::from(2_000_000u64),
        "the payee's output was topped up with the sender's change (add_change_if_needed returned {})",
        added
    );
}

#[test]
fn empty_asset_bundle_in_input_and_no_output_must_not_panic() {
    let (_s, pid) = policy_script(7);
    let mut ma = MultiAsset::new();
    ma.set_asset(&pid, &aname(1), &BigNum::from(0u64));
    let mut in_val = Value::new(&BigNum::from(10_000_000u64));
    in_val.set_multiasset(&ma);
    let mut b = TransactionBuilder::new(&cfg_builder().build().unwrap());
    b.add_regular_input(&addr(1), &tx_in(1), &in_val).unwrap();
    // panics at tx_builder.rs `self.outputs.0.last_mut().unwrap()`
    let _ = b.add_change_if_needed(&addr(2));
}
