use cardano_serialization_lib::*;

#[allow(dead_code)]
fn builder() -> TransactionBuilder {
    let cfg = TransactionBuilderConfigBuilder::new()
        .fee_algo(&LinearFee::new(&BigNum::from_str("44").unwrap(), &BigNum::from_str("155381").unwrap()))
        .pool_deposit(&BigNum::from_str("500000000").unwrap())
        .key_deposit(&BigNum::from_str("2000000").unwrap())
        .max_value_size(5000)
        .max_tx_size(16384)
        .coins_per_utxo_byte(&BigNum::from_str("4310").unwrap())
        .build()
        .unwrap();
    TransactionBuilder::new(&cfg)
}

#[allow(dead_code)]
fn addr(n: u8) -> Address {
    let c1 = Credential::from_keyhash(&Ed25519KeyHash::from_bytes(vec![n; 28]).unwrap());
    let c2 = Credential::from_keyhash(&Ed25519KeyHash::from_bytes(vec![n + 100; 28]).unwrap());
    BaseAddress::new(1, &c1, &c2).to_address()
}

#[allow(dead_code)]
fn input(n: u8) -> TransactionInput {
    TransactionInput::new(&TransactionHash::from_bytes(vec![n; 32]).unwrap(), 0)
}

#[allow(dead_code)]
fn policy(n: u8) -> ScriptHash {
    ScriptHash::from_bytes(vec![n; 28]).unwrap()
}

#[allow(dead_code)]
fn coin(s: &str) -> BigNum {
    BigNum::from_str(s).unwrap()
}

// Conway CDDL: value = coin / [coin, multiasset<positive_coin>], multiasset<a> = {+ policy_id => {+ asset_name => a}}
#[allow(dead_code)]
fn assert_output_clean(o: &TransactionOutput, what: &str) {
    if let Some(ma) = o.amount().multiasset() {
        let ps = ma.keys();
        for j in 0..ps.len() {
            let assets = ma.get(&ps.get(j)).unwrap();
            assert!(assets.len() > 0, "{} has an empty policy bundle: {}", what, hex::encode(o.to_bytes()));
            let ns = assets.keys();
            for k in 0..ns.len() {
                assert!(
                    !assets.get(&ns.get(k)).unwrap().is_zero(),
                    "{} has a zero-quantity asset: {}",
                    what,
                    hex::encode(o.to_bytes())
                );
            }
        }
    }
}

// Conway CDDL: transaction_body = { ..., ? 22 : positive_coin }  with positive_coin = 1 .. 18446744073709551615
#[test]
fn builder_emits_a_zero_donation() {
    let mut b = builder();
    let mut ins = TxInputsBuilder::new();
    ins.add_regular_input(&addr(1), &input(1), &Value::new(&coin("10000000"))).unwrap();
    b.set_inputs(&ins);
    b.set_donation(&BigNum::zero());
    b.add_change_if_needed(&addr(3)).unwrap();
    let tx = b.build_tx().unwrap();
    let bytes = tx.body().to_bytes();
    // the body ends with key 22 (0x16) and the value 0 (0x00)
    assert!(
        !(bytes[bytes.len() - 2] == 0x16 && bytes[bytes.len() - 1] == 0x00),
        "key 22 (donation) written with the value 0: {}",
        hex::encode(&bytes)
    );
    if let Some(d) = tx.body().donation() {
        assert!(!d.is_zero());
    }
}
