// KF-31 / KF-32 (C08) - native replay against the real code, public API only.  Put this file under rust/tests/ of a checkout and run
//   cargo test --offline --test KF-31_32_input_selection_double_counts
// On the tree before the two `fix:` commits (9590e2c, 79d105f):
//   random_improve_actual_inputs_cover_outputs_and_fee  FAILS (214 of 3000 successful RandomImprove selections leave the builder's actual inputs
//       below outputs + min fee: an improvement swap leaves the swapped-in UTxO in the pool of available indices, the fee top-up picks it again,
//       the running total counts it twice while the input map keyed by outpoint holds it once: "actual inputs 2000070 < outputs + min fee 2164225")
//   largest_first_offered_overlaps_existing_input       FAILS (actual inputs 3000000 < outputs + min fee 5164225)
//   largest_first_offered_repeats_a_utxo                FAILS (same numbers)
//   random_improve_two_identical_outputs                FAILS before the third fix (KF-33): 200 of 200 runs, actual inputs 4100000 < outputs + min fee 4171881
// On the repaired tree all four pass.
use cardano_serialization_lib::*;

fn key_hash(x: u8) -> Ed25519KeyHash { Ed25519KeyHash::from_bytes(vec![x; 28]).unwrap() }
fn addr(x: u8) -> Address {
    EnterpriseAddress::new(NetworkInfo::testnet_preprod().network_id(), &Credential::from_keyhash(&key_hash(x))).to_address()
}
fn utxo(x: u8, coin: u64) -> TransactionUnspentOutput {
    TransactionUnspentOutput::new(
        &TransactionInput::new(&TransactionHash::from_bytes(vec![x; 32]).unwrap(), 0),
        &TransactionOutput::new(&addr(x), &Value::new(&BigNum::from(coin))),
    )
}
fn new_builder() -> TransactionBuilder {
    let cfg = TransactionBuilderConfigBuilder::new()
        .fee_algo(&LinearFee::new(&BigNum::from(44u64), &BigNum::from(155381u64)))
        .pool_deposit(&BigNum::from(500_000_000u64))
        .key_deposit(&BigNum::from(2_000_000u64))
        .max_value_size(4000)
        .max_tx_size(8000)
        .coins_per_utxo_byte(&BigNum::from(4310u64))
        .build()
        .unwrap();
    TransactionBuilder::new(&cfg)
}
fn n(c: &BigNum) -> u128 { c.to_str().parse().unwrap() }

#[test]
fn random_improve_actual_inputs_cover_outputs_and_fee() {
    let coins: [u64; 8] = [2_000_010, 2_000_020, 2_000_030, 2_000_040, 2_000_050, 2_000_060, 2_000_070, 2_000_080];
    let mut bad = 0; let mut ok = 0; let mut first: Option<String> = None;
    for _trial in 0..3000 {
        let mut b = new_builder();
        b.add_output(&TransactionOutput::new(&addr(200), &Value::new(&BigNum::from(2_000_000u64)))).unwrap();
        let mut offered = TransactionUnspentOutputs::new();
        for (i, c) in coins.iter().enumerate() { offered.add(&utxo(i as u8 + 1, *c)); }
        if b.add_inputs_from(&offered, CoinSelectionStrategyCIP2::RandomImprove).is_err() { continue; }
        ok += 1;
        let have = n(&b.get_explicit_input().unwrap().coin());
        let need = n(&b.get_explicit_output().unwrap().coin()) + n(&b.min_fee().unwrap());
        if have < need {
            bad += 1;
            if first.is_none() { first = Some(format!("actual inputs {} < outputs + min fee {}", have, need)); }
        }
    }
    eprintln!("ok={} bad={}", ok, bad);
    assert!(bad == 0, "{} of {} successful selections left the builder uncovered; first: {}", bad, ok, first.unwrap());
}

#[test]
fn largest_first_offered_overlaps_existing_input() {
    let mut b = new_builder();
    b.add_output(&TransactionOutput::new(&addr(200), &Value::new(&BigNum::from(5_000_000u64)))).unwrap();
    // the wallet already put UTxO #1 (3 ADA) into the builder by hand and then offers its whole UTxO list, #1 included
    let u1 = utxo(1, 3_000_000);
    b.add_regular_input(&u1.output().address(), &u1.input(), &u1.output().amount()).unwrap();
    let mut offered = TransactionUnspentOutputs::new();
    offered.add(&u1);
    offered.add(&utxo(2, 1_000_000));
    let r = b.add_inputs_from(&offered, CoinSelectionStrategyCIP2::LargestFirst);
    if r.is_ok() {
        let have = n(&b.get_explicit_input().unwrap().coin());
        let need = n(&b.get_explicit_output().unwrap().coin()) + n(&b.min_fee().unwrap());
        assert!(have >= need, "selection reported success but actual inputs {} < outputs + min fee {}", have, need);
    }
}

#[test]
fn largest_first_offered_repeats_a_utxo() {
    let mut b = new_builder();
    b.add_output(&TransactionOutput::new(&addr(200), &Value::new(&BigNum::from(5_000_000u64)))).unwrap();
    let mut offered = TransactionUnspentOutputs::new();
    offered.add(&utxo(1, 3_000_000));
    offered.add(&utxo(1, 3_000_000));
    let r = b.add_inputs_from(&offered, CoinSelectionStrategyCIP2::LargestFirst);
    if r.is_ok() {
        let have = n(&b.get_explicit_input().unwrap().coin());
        let need = n(&b.get_explicit_output().unwrap().coin()) + n(&b.min_fee().unwrap());
        assert!(have >= need, "selection reported success but actual inputs {} < outputs + min fee {}", have, need);
    }
}

#[test]
fn random_improve_two_identical_outputs() {
    let mut bad = 0; let mut ok = 0; let mut first: Option<String> = None;
    for _trial in 0..200 {
        let mut b = new_builder();
        // two payments of the same amount to the same address
        b.add_output(&TransactionOutput::new(&addr(200), &Value::new(&BigNum::from(2_000_000u64)))).unwrap();
        b.add_output(&TransactionOutput::new(&addr(200), &Value::new(&BigNum::from(2_000_000u64)))).unwrap();
        let mut offered = TransactionUnspentOutputs::new();
        for i in 0..6u8 { offered.add(&utxo(i + 1, 2_050_000)); }
        if b.add_inputs_from(&offered, CoinSelectionStrategyCIP2::RandomImprove).is_err() { continue; }
        ok += 1;
        let have = n(&b.get_explicit_input().unwrap().coin());
        let need = n(&b.get_explicit_output().unwrap().coin()) + n(&b.min_fee().unwrap());
        if have < need {
            bad += 1;
            if first.is_none() { first = Some(format!("actual inputs {} < outputs + min fee {}", have, need)); }
        }
    }
    eprintln!("identical outputs: ok={} bad={}", ok, bad);
    assert!(bad == 0, "{} of {} successful selections left the builder uncovered; first: {}", bad, ok, first.unwrap());
}
