use cardano_serialization_lib::*;

fn kh(b: u8) -> Ed25519KeyHash {
    Ed25519KeyHash::from_bytes(vec![b; 28]).unwrap()
}
fn addr(b: u8) -> Address {
    BaseAddress::new(
        0,
        &Credential::from_keyhash(&kh(b)),
        &Credential::from_keyhash(&kh(b.wrapping_add(100))),
    )
    .to_address()
}

/// Same root cause as preexisting_1, through the governance-proposal builder: two proposals whose return
/// accounts differ only above the low 4 bits of the network id are two proposals (two deposits) for the builder
/// and two byte-identical elements of the proposal set on the wire (one proposal, one deposit, for any reader).
#[test]
fn proposals_that_collide_on_the_wire_are_not_double_counted() {
    let cfg = TransactionBuilderConfigBuilder::new()
        .fee_algo(&LinearFee::new(&BigNum::from(44u64), &BigNum::from(155381u64)))
        .pool_deposit(&BigNum::from(500_000_000u64))
        .key_deposit(&BigNum::from(2_000_000u64))
        .max_value_size(5000)
        .max_tx_size(16384)
        .coins_per_utxo_byte(&BigNum::from(4310u64))
        .build()
        .unwrap();
    let mut b = TransactionBuilder::new(&cfg);
    let input_coin: u64 = 1_000_000_000;
    let mut ib = TxInputsBuilder::new();
    ib.add_regular_input(
        &addr(1),
        &TransactionInput::new(&TransactionHash::from_bytes(vec![1; 32]).unwrap(), 0),
        &Value::new(&BigNum::from(input_coin)),
    )
    .unwrap();
    b.set_inputs(&ib);

    let cred = Credential::from_keyhash(&kh(9));
    let mut vb = VotingProposalBuilder::new();
    for net in [1u8, 17u8] {
        vb.add(&VotingProposal::new(
            &GovernanceAction::new_info_action(&InfoAction::new()),
            &Anchor::new(
                &URL::new("https://x.y".into()).unwrap(),
                &AnchorDataHash::from_bytes(vec![1; 32]).unwrap(),
            ),
            &RewardAddress::new(net, &cred),
            &BigNum::from(100_000_000u64),
        ))
        .unwrap();
    }
    b.set_voting_proposal_builder(&vb);

    let balanced = b.add_change_if_needed(&addr(2));
    let tx = match balanced.and_then(|_| b.build_tx()) {
        Ok(tx) => tx,
        Err(_) => return, // refusing is fine
    };
    let bytes = tx.to_bytes();
    let body = Transaction::from_bytes(bytes).expect("released transaction must decode").body();
    let mut out_sum: u128 = 0;
    let outs = body.outputs();
    for i in 0..outs.len() {
        out_sum += u64::from(outs.get(i).amount().coin()) as u128;
    }
    // a set: count each distinct (by bytes) proposal once, as the ledger does
    let props = body.voting_proposals().unwrap();
    let mut distinct = std::collections::BTreeSet::new();
    let mut deposits: u128 = 0;
    for i in 0..props.len() {
        if distinct.insert(props.get(i).to_bytes()) {
            deposits += u64::from(props.get(i).deposit()) as u128;
        }
    }
    assert_eq!(
        input_coin as u128,
        out_sum + u64::from(body.fee()) as u128 + deposits,
        "{} distinct proposal(s) on the wire, {} listed",
        distinct.len(),
        props.len()
    );
}
