// KF-34 (C08) - native replay, public API only: put under rust/tests/ and run cargo test --offline --test KF-34_first_input_fee
// fails on the tree before the fix (inputs 5165313 < outputs + min fee 5170341), passes after
// Native replay for C08: RandomImprove must leave the builder's ACTUAL inputs covering outputs + min fee,
// and must not add the same offered UTxO twice, under every random outcome.
use cardano_serialization_lib::*;

fn key_hash(x: u8) -> Ed25519KeyHash { Ed25519KeyHash::from_bytes(vec![x; 28]).unwrap() }
fn addr(x: u8) -> Address {
    EnterpriseAddress::new(NetworkInfo::testnet_preprod().network_id(), &Credential::from_keyhash(&key_hash(x))).to_address()
}
fn utxo(x: u8, coin: u64) -> TransactionUnspentOutput {
    TransactionUnspentOutput::new(
        &TransactionInput::new(&TransactionHash::from_bytes(vec![x; 32]).unwrap(), 0),
        &TransactionOutput::new(&addr(x), &Value::new(&BigNum::from(coin))),
    )
}
fn new_builder() -> TransactionBuilder {
    let cfg = TransactionBuilderConfigBuilder::new()
        .fee_algo(&LinearFee::new(&BigNum::from(44u64), &BigNum::from(155381u64)))
        .pool_deposit(&BigNum::from(500_000_000u64))
        .key_deposit(&BigNum::from(2_000_000u64))
        .max_value_size(4000)
        .max_tx_size(8000)
        .coins_per_utxo_byte(&BigNum::from(4310u64))
        .build()
        .unwrap();
    TransactionBuilder::new(&cfg)
}
fn n(c: &BigNum) -> u128 { c.to_str().parse().unwrap() }

#[test]
fn first_input_rule_counts_the_fee_of_the_input_it_adds() {
    // implicit input (a withdrawal) covers the output and the minimum fee EXACTLY; the builder has no input yet, so selection adds one offered
    // UTxO "to have at least one input" - its own marginal fee must be covered too
    let reward = RewardAddress::new(NetworkInfo::testnet_preprod().network_id(), &Credential::from_keyhash(&key_hash(77)));
    let mut probe = new_builder();
    probe.add_output(&TransactionOutput::new(&addr(200), &Value::new(&BigNum::from(5_000_000u64)))).unwrap();
    let mut w = Withdrawals::new(); w.insert(&reward, &BigNum::from(6_000_000u64));
    probe.set_withdrawals(&w);
    let fee0 = n(&probe.min_fee().unwrap());
    // now the real builder: withdrawal = output + fee0 exactly
    let mut b = new_builder();
    b.add_output(&TransactionOutput::new(&addr(200), &Value::new(&BigNum::from(5_000_000u64)))).unwrap();
    let mut w = Withdrawals::new(); w.insert(&reward, &BigNum::from((5_000_000u128 + fee0) as u64));
    b.set_withdrawals(&w);
    let mut offered = TransactionUnspentOutputs::new();
    offered.add(&utxo(1, 1_000));      // dust: smaller than the fee its own input + witness adds
    let r = b.add_inputs_from(&offered, CoinSelectionStrategyCIP2::LargestFirst);
    if r.is_ok() {
        let have = n(&b.get_total_input().unwrap().coin());
        let need = n(&b.get_total_output().unwrap().coin()) + n(&b.min_fee().unwrap());
        assert!(have >= need, "selection reported success but inputs {} < outputs + min fee {}", have, need);
    }
}
