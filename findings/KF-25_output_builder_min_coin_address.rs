// Native replay of KF-25 (property C07): place at rust/tests/demo.rs, run `cargo test --offline --test demo`.
// The output builder's min-coin helper computed the minimum ADA for a fixed 57-byte fake base address instead of the output's own
// address: for a longer address (a pointer address with wide pointer fields, a long Byron address) the output it creates is below the minimum-ADA bound of that very output.
use cardano_serialization_lib::*;

#[test]
fn min_coin_helper_uses_the_outputs_own_address() {
    // a pointer address with the widest pointer: 1 + 28 + 3 x 10 = 59 bytes, two more than the fake base address
    let m = BigNum::from(u64::MAX);
    let byron = PointerAddress::new(1, &Credential::from_keyhash(&Ed25519KeyHash::from_bytes(vec![7; 28]).unwrap()), &Pointer::new_pointer(&m, &m, &m)).to_address();
    let data_cost = DataCost::new_coins_per_byte(&BigNum::from(4310u64));
    let mut ma = MultiAsset::new();
    let mut assets = Assets::new();
    assets.insert(&AssetName::new(vec![1, 2, 3, 4]).unwrap(), &BigNum::from(5u64));
    ma.insert(&ScriptHash::from_bytes(vec![9; 28]).unwrap(), &assets);
    let out = TransactionOutputBuilder::new()
        .with_address(&byron)
        .next().unwrap()
        .with_asset_and_min_required_coin_by_utxo_cost(&ma, &data_cost).unwrap()
        .build().unwrap();
    let needed: u64 = min_ada_for_output(&out, &data_cost).unwrap().into();
    let has: u64 = out.amount().coin().into();
    assert!(has >= needed, "the helper created an output with {} lovelace, its own minimum is {}", has, needed);
}
