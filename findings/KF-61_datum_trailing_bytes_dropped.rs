// Pre-existing violation 1 (clean HEAD): the datum decoder accepts input with trailing bytes and
// silently drops them, so "decode -> encode" is not the identity on an accepted input and the
// datum hash differs from the hash of the bytes that were handed in.
//
// Two entry points: PlutusData::from_bytes / from_hex, and the inline datum of a transaction
// output (`[1, 24(h'...')]`), whose embedded byte string is decoded with the same helper.
use cardano_serialization_lib::*;

fn h(s: &str) -> Vec<u8> {
    let s: String = s.chars().filter(|c| !c.is_whitespace()).collect();
    hex::decode(s).unwrap()
}

#[test]
fn plutus_data_from_bytes_accepts_and_drops_trailing_bytes() {
    // integer 1 followed by one more byte
    let input = h("01 02");
    match PlutusData::from_bytes(input.clone()) {
        // rejecting the input would be fine
        Err(_) => (),
        // accepting it obliges the library to give the same bytes (and hash) back
        Ok(pd) => {
            assert_eq!(hex::encode(pd.to_bytes()), hex::encode(&input));
        }
    }
}

#[test]
fn inline_datum_with_trailing_bytes_changes_when_the_output_is_rewritten() {
    // {0: addr, 1: 1000000, 2: [1, 24(h'd87980 00')]}  -- Constr 0 [] followed by a stray 00
    let out_hex = format!(
        "a3 00 581d61{} 01 1a000f4240 02 82 01 d818 44 d8798000",
        "22".repeat(28)
    );
    let input = h(&out_hex);
    match TransactionOutput::from_bytes(input.clone()) {
        Err(_) => (),
        Ok(out) => {
            // the datum carried by the output is the 4 embedded bytes; the library reports 3
            let datum = out.plutus_data().unwrap();
            assert_eq!(hex::encode(datum.to_bytes()), "d8798000");
            assert_eq!(hex::encode(out.to_bytes()), hex::encode(&input));
        }
    }
}
