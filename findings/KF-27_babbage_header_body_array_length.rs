// Native replay of KF-27 (properties C03 / C01): place at rust/tests/demo.rs, run `cargo test --offline --test demo`.
// Babbage / Conway header_body = [ block_number, slot, prev_hash, issuer_vkey, vrf_vkey, vrf_result, block_body_size, block_body_hash,
// operational_cert, protocol_version ]  (10 items, the last two nested arrays).  For a header body with a single VRF result the encoder
// declared an array of 15 items (the Shelley..Alonzo layout with two VRF certs and the two groups inlined) but wrote only 14: the bytes
// are not well-formed CBOR.  The library's own decoder never looks at the declared length, so its round-trip tests do not notice.
use cardano_serialization_lib::*;
use std::convert::TryInto;

/// minimal independent CBOR walker: returns the position after one data item, None if the input ends inside it
fn skip_item(b: &[u8], mut p: usize) -> Option<usize> {
    let ib = *b.get(p)?; p += 1;
    let major = ib >> 5; let ai = ib & 0x1f;
    let (arg, indef) = match ai {
        0..=23 => (ai as u64, false),
        24 => { let v = *b.get(p)? as u64; p += 1; (v, false) }
        25 => { let v = u16::from_be_bytes(b.get(p..p + 2)?.try_into().ok()?) as u64; p += 2; (v, false) }
        26 => { let v = u32::from_be_bytes(b.get(p..p + 4)?.try_into().ok()?) as u64; p += 4; (v, false) }
        27 => { let v = u64::from_be_bytes(b.get(p..p + 8)?.try_into().ok()?); p += 8; (v, false) }
        31 => (0, true),
        _ => return None,
    };
    match major {
        0 | 1 | 7 => Some(p),
        2 | 3 => { if indef { loop { if *b.get(p)? == 0xff { return Some(p + 1); } p = skip_item(b, p)?; } } else { let e = p.checked_add(arg as usize)?; if e <= b.len() { Some(e) } else { None } } }
        4 | 5 => {
            let n = if major == 5 { arg.checked_mul(2)? } else { arg };
            if indef { loop { if *b.get(p)? == 0xff { return Some(p + 1); } p = skip_item(b, p)?; } }
            else { for _ in 0..n { p = skip_item(b, p)?; } Some(p) }
        }
        6 => skip_item(b, p),
        _ => None,
    }
}

fn babbage_header_body() -> HeaderBody {
    let vrf = VRFCert::new(vec![3u8; 32], vec![0u8; 80]).unwrap();
    HeaderBody::new_headerbody(
        1, &BigNum::from_str("2").unwrap(), Some(BlockHash::from_bytes(vec![1u8; 32]).unwrap()),
        &Vkey::new(&PublicKey::from_bytes(&[2u8; 32]).unwrap()), &VRFVKey::from_bytes(vec![4u8; 32]).unwrap(), &vrf,
        5, &BlockHash::from_bytes(vec![6u8; 32]).unwrap(),
        &OperationalCert::new(&KESVKey::from_bytes(vec![7u8; 32]).unwrap(), 8, 9, &Ed25519Signature::from_bytes(vec![10u8; 64]).unwrap()),
        &ProtocolVersion::new(9, 0),
    )
}

#[test]
fn a_single_vrf_result_header_body_is_one_well_formed_cbor_item() {
    let bytes = babbage_header_body().to_bytes();
    assert_eq!(skip_item(&bytes, 0), Some(bytes.len()), "not exactly one well-formed CBOR item: {}", hex::encode(&bytes));
    // and it is the 10-item layout of the Babbage / Conway CDDL
    assert_eq!(bytes[0], 0x8a, "array head {:02x}", bytes[0]);
    assert_eq!(HeaderBody::from_bytes(bytes.clone()).unwrap().to_bytes(), bytes);
}

#[test]
fn a_header_with_it_is_one_well_formed_cbor_item() {
    let h = Header::new(&babbage_header_body(), &KESSignature::from_bytes(vec![11u8; 448]).unwrap());
    let bytes = h.to_bytes();
    assert_eq!(skip_item(&bytes, 0), Some(bytes.len()), "not exactly one well-formed CBOR item");
    assert_eq!(Header::from_bytes(bytes.clone()).unwrap().to_bytes(), bytes);
}
