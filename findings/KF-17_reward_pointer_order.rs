// Native replay of KF-17 (property C10): place at rust/tests/demo.rs and run `cargo test --offline --test demo`.
// Fails on the tree before the fix: commit (reward redeemer indices followed insertion order), passes after it.
use cardano_serialization_lib::*;

fn script_reward(b: u8) -> (RewardAddress, ScriptHash) {
    let h = ScriptHash::from_bytes(vec![b; 28]).unwrap();
    (RewardAddress::new(0, &Credential::from_scripthash(&h)), h)
}
fn wit(h: &ScriptHash, tagbyte: u64) -> PlutusWitness {
    let input = TransactionInput::new(&TransactionHash::from_bytes(vec![7; 32]).unwrap(), 0);
    let src = PlutusScriptSource::new_ref_input(h, &input, &Language::new_plutus_v2(), 10);
    let red = Redeemer::new(&RedeemerTag::new_reward(), &BigNum::from(99u64), &PlutusData::new_integer(&BigInt::from(tagbyte)), &ExUnits::new(&BigNum::from(1u64), &BigNum::from(1u64)));
    PlutusWitness::new_with_ref_without_datum(&src, &red)
}

#[test]
fn reward_pointers_follow_reward_account_order_whatever_the_insertion_order() {
    let (addr_a, ha) = script_reward(0x11);
    let (addr_b, hb) = script_reward(0x22);
    // ledger order: addr_a < addr_b (same network, same credential kind, hash 11.. < 22..)
    assert!(addr_a.to_address().to_bytes() < addr_b.to_address().to_bytes());
    let mut wb = WithdrawalsBuilder::new();
    wb.add_with_plutus_witness(&addr_b, &BigNum::from(5u64), &wit(&hb, 0xb)).unwrap();   // inserted first, sorts second
    wb.add_with_plutus_witness(&addr_a, &BigNum::from(5u64), &wit(&ha, 0xa)).unwrap();   // inserted second, sorts first
    let ws = wb.get_plutus_witnesses();
    assert_eq!(ws.len(), 2);
    for i in 0..ws.len() {
        let w = ws.get(i);
        let r = w.redeemer();
        let which = r.data().as_integer().unwrap().to_str();
        let idx = r.index().to_str();
        if which == "10" { assert_eq!(idx, "0", "redeemer of the FIRST reward account in ledger order must have index 0"); }
        if which == "11" { assert_eq!(idx, "1", "redeemer of the SECOND reward account in ledger order must have index 1"); }
    }
}
