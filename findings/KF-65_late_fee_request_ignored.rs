use cardano_serialization_lib::*;

fn kh(x: u8) -> Ed25519KeyHash {
    Ed25519KeyHash::from_bytes(vec![x; 28]).unwrap()
}

fn base_addr(x: u8) -> Address {
    BaseAddress::new(
        0,
        &Credential::from_keyhash(&kh(x)),
        &Credential::from_keyhash(&kh(x.wrapping_add(100))),
    )
    .to_address()
}

fn tx_in(x: u8, idx: u32) -> TransactionInput {
    TransactionInput::new(&TransactionHash::from_bytes(vec![x; 32]).unwrap(), idx)
}

fn bn(x: u64) -> BigNum {
    BigNum::from(x)
}

fn fake_vkey_witness(i: u8) -> Vkeywitness {
    let mut pk = [7u8; 32];
    pk[0] = i;
    let sig = Ed25519Signature::from_bytes(vec![9u8; 64]).unwrap();
    Vkeywitness::new(&Vkey::new(&PublicKey::from_bytes(&pk).unwrap()), &sig)
}

fn signed_size(tx: &Transaction, n_vkeys: u8) -> usize {
    let mut wits = tx.witness_set();
    let mut vk = Vkeywitnesses::new();
    for i in 0..n_vkeys {
        vk.add(&fake_vkey_witness(i));
    }
    wits.set_vkeys(&vk);
    let signed = Transaction::new(&tx.body(), &wits, tx.auxiliary_data());
    signed.to_bytes().len()
}


fn builder() -> TransactionBuilder {
    let fee_algo = LinearFee::new(&bn(44), &bn(155381));
    let cfg = TransactionBuilderConfigBuilder::new()
        .fee_algo(&fee_algo)
        .pool_deposit(&bn(500000000))
        .key_deposit(&bn(2000000))
        .max_value_size(5000)
        .max_tx_size(16384)
        .coins_per_utxo_byte(&bn(4310))
        .build()
        .unwrap();
    let mut b = TransactionBuilder::new(&cfg);
    let mut inputs = TxInputsBuilder::new();
    inputs
        .add_regular_input(&base_addr(1), &tx_in(1, 0), &Value::new(&bn(10_000_000)))
        .unwrap();
    b.set_inputs(&inputs);
    b.add_output(&TransactionOutput::new(&base_addr(2), &Value::new(&bn(2_000_000))))
        .unwrap();
    b
}

#[test]
fn min_fee_requested_after_change_is_a_lower_bound_or_build_fails() {
    let mut b = builder();
    b.add_change_if_needed(&base_addr(3)).unwrap();
    b.set_min_fee(&bn(1_000_000));
    match b.build_tx() {
        Ok(tx) => assert!(
            tx.body().fee() >= bn(1_000_000),
            "requested minimum fee 1000000 ignored: fee is {:?}",
            tx.body().fee()
        ),
        Err(_) => {}
    }
}

#[test]
fn fixed_fee_requested_after_change_is_used_exactly_or_build_fails() {
    let mut b = builder();
    b.add_change_if_needed(&base_addr(3)).unwrap();
    b.set_fee(&bn(1_000_000));
    match b.build_tx() {
        Ok(tx) => assert!(
            tx.body().fee() == bn(1_000_000),
            "fixed fee 1000000 ignored: fee is {:?}",
            tx.body().fee()
        ),
        Err(_) => {}
    }
}

