// place at rust/tests/demo.rs; cargo test --offline --test demo: fails before the fix (left: a0, right: a10380), passes after
// KF-36 (C04) - native replay, public API only: an EMPTY Plutus script array under witness key 3, 6 or 7 is a witness-set field like any other;
// a transaction loaded in its byte-preserving form and re-serialized untouched must carry it byte for byte.
use cardano_serialization_lib::*;

fn roundtrip(wits_hex: &str) -> String {
    // minimal body: {0: [], 1: [], 2: 0}
    let body = hex::decode("a3008001800200").unwrap();
    let wits = hex::decode(wits_hex).unwrap();
    let tx = FixedTransaction::new(&body, &wits, true).unwrap();
    hex::encode(tx.raw_witness_set())
}

#[test]
fn untouched_empty_plutus_script_fields_are_preserved() {
    for w in ["a10380", "a10680", "a10780", "a103d9010280", "a203800680"] {
        assert_eq!(roundtrip(w), w, "witness set {} was not re-emitted byte for byte", w);
    }
}
