// PRE-EXISTING (clean HEAD) violation of C02: the free JSON decoding helper
// encode_json_str_to_native_script panics for EVERY syntactically valid JSON document when the
// (public, documented as supported) ScriptSchema::Node is selected: rust/src/utils.rs:847 is
// `ScriptSchema::Node => todo!()`.  Minimal fix: return
// Err(JsError::from_str("ScriptSchema::Node is not supported")) (or implement the node format).
use cardano_serialization_lib::*;

#[test]
fn node_schema_returns_a_value_or_an_error() {
    let json = r#"{"type":"sig","keyHash":"e09d36c79dec9bd1b3d9e152247701cd0bb860b5ebfd1de8abb6735a"}"#;
    let r = std::panic::catch_unwind(|| encode_json_str_to_native_script(json, "", ScriptSchema::Node));
    assert!(r.is_ok(), "encode_json_str_to_native_script(.., ScriptSchema::Node) panicked (todo!())");
    let r = std::panic::catch_unwind(|| encode_json_str_to_native_script("{}", "", ScriptSchema::Node));
    assert!(r.is_ok(), "encode_json_str_to_native_script of an empty object with ScriptSchema::Node panicked (todo!())");
}
