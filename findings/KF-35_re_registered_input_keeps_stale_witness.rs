// place at rust/tests/demo.rs and run `cargo test --offline --test demo`: re_registered_input_has_one_spend_pointer FAILS on the current tree (two script uses share the pointer (spend, 0)).
// The repair that makes it pass (push_input removes the entry kept under the previous script hash) is in DESIGN.md 13.19; it is not applied because a suite test pins the stale entry.
// KF-35 (C10, also C09 / C18) - native replay, public API only.
// An input that is registered a second time (same outpoint) under a DIFFERENT script keeps the witness it was first registered with:
// the builder then emits two spending redeemers with the same (purpose, index), and the first script, its language and its signers
// stay in the witness set although nothing is locked by it any more.
use cardano_serialization_lib::*;

fn script(v: u8) -> PlutusScript { PlutusScript::new(vec![v; 20]) }
fn witness(v: u8, datum: u64, redeemer: u64) -> PlutusWitness {
    PlutusWitness::new(
        &script(v),
        &PlutusData::new_integer(&BigInt::from_str(&datum.to_string()).unwrap()),
        &Redeemer::new(&RedeemerTag::new_spend(), &BigNum::from(0u64), &PlutusData::new_integer(&BigInt::from_str(&redeemer.to_string()).unwrap()), &ExUnits::new(&BigNum::from(1u64), &BigNum::from(1u64))),
    )
}
fn input(x: u8) -> TransactionInput { TransactionInput::new(&TransactionHash::from_bytes(vec![x; 32]).unwrap(), 0) }

#[test]
fn re_registered_input_has_one_spend_pointer() {
    let mut b = TxInputsBuilder::new();
    let value = Value::new(&BigNum::from(5_000_000u64));
    b.add_plutus_script_input(&witness(1, 10, 100), &input(7), &value);
    // the caller corrects itself: the UTxO is locked by another script
    b.add_plutus_script_input(&witness(2, 20, 200), &input(7), &value);
    assert_eq!(b.len(), 1);
    let ws = b.get_plutus_input_scripts().expect("one script input");
    let mut pointers = std::collections::BTreeSet::new();
    for i in 0..ws.len() {
        let r = ws.get(i).redeemer();
        assert!(pointers.insert((r.tag().kind() as u8, r.index().to_str())), "two script uses share the pointer (spend, {})", r.index().to_str());
    }
    assert_eq!(ws.len(), 1, "a witness for a script that locks none of the inputs is still emitted");
}

#[test]
fn input_re_registered_as_key_input_has_no_spend_pointer() {
    let mut b = TxInputsBuilder::new();
    let value = Value::new(&BigNum::from(5_000_000u64));
    b.add_plutus_script_input(&witness(1, 10, 100), &input(7), &value);
    b.add_key_input(&Ed25519KeyHash::from_bytes(vec![9; 28]).unwrap(), &input(7), &value);
    assert!(b.get_plutus_input_scripts().is_none(), "a redeemer points at an input that is not script-locked");
    assert!(b.get_native_input_scripts().is_none());
}
