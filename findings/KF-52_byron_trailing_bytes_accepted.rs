use cardano_serialization_lib::*;

#[allow(dead_code)]
fn base_bytes() -> Vec<u8> {
    let base = BaseAddress::new(
        1,
        &Credential::from_keyhash(&Ed25519KeyHash::from_bytes(vec![0x11; 28]).unwrap()),
        &Credential::from_keyhash(&Ed25519KeyHash::from_bytes(vec![0x22; 28]).unwrap()),
    );
    base.to_address().to_bytes()
}

// legacy-format transaction output  [ bytes(addr), 1000 ]
#[allow(dead_code)]
fn output_with_addr_bytes(addr: &[u8]) -> Vec<u8> {
    let mut v = vec![0x82u8];
    assert!(addr.len() >= 24 && addr.len() < 256);
    v.push(0x58);
    v.push(addr.len() as u8);
    v.extend_from_slice(addr);
    v.extend_from_slice(&[0x19, 0x03, 0xe8]);
    v
}

const BYRON: &str = "Ae2tdPwUPEZ4YjgvykNpoFeYUxoyhNj2kg8KfKWN2FizsSpLUPv68MpTVDo";

// Strict stand-alone parsers accept trailing bytes after a Byron address.
#[test]
fn address_from_bytes_accepts_trailing_bytes_after_byron() {
    let b = ByronAddress::from_base58(BYRON).unwrap();
    let mut bytes = b.to_bytes();
    bytes.extend_from_slice(&[0x00, 0x01]);
    assert!(Address::from_bytes(bytes.clone()).is_err(), "Address::from_bytes accepted trailing bytes after a byron address");
}
#[test]
fn byron_from_bytes_accepts_trailing_bytes() {
    let b = ByronAddress::from_base58(BYRON).unwrap();
    let mut bytes = b.to_bytes();
    bytes.extend_from_slice(&[0x00, 0x01]);
    assert!(ByronAddress::from_bytes(bytes.clone()).is_err(), "ByronAddress::from_bytes accepted trailing bytes");
}
#[test]
fn address_from_hex_accepts_trailing_bytes_after_byron() {
    let b = ByronAddress::from_base58(BYRON).unwrap();
    let mut bytes = b.to_bytes();
    bytes.extend_from_slice(&[0x00, 0x01]);
    let hex: String = bytes.iter().map(|x| format!("{:02x}", x)).collect();
    assert!(Address::from_hex(&hex).is_err(), "Address::from_hex accepted trailing bytes after a byron address");
}
// and in a structure the trailing bytes are dropped on write-back
#[test]
fn embedded_byron_with_trailing_bytes_not_verbatim() {
    let b = ByronAddress::from_base58(BYRON).unwrap();
    let mut bytes = b.to_bytes();
    bytes.extend_from_slice(&[0x00, 0x01]);
    let out_bytes = output_with_addr_bytes(&bytes);
    let out = TransactionOutput::from_bytes(out_bytes.clone()).unwrap();
    assert_eq!(out.to_bytes(), out_bytes);
}
