use cardano_serialization_lib::*;

fn cfg(a: u64, b: u64, coins_per_byte: u64, max_value: u32, max_tx: u32) -> TransactionBuilderConfig {
    TransactionBuilderConfigBuilder::new()
        .fee_algo(&LinearFee::new(&BigNum::from(a), &BigNum::from(b)))
        .pool_deposit(&BigNum::from(500000000u64))
        .key_deposit(&BigNum::from(2000000u64))
        .max_value_size(max_value)
        .max_tx_size(max_tx)
        .coins_per_utxo_byte(&BigNum::from(coins_per_byte))
        .build()
        .unwrap()
}

fn base_addr(i: u8) -> Address {
    BaseAddress::new(
        0,
        &Credential::from_keyhash(&Ed25519KeyHash::from_bytes(vec![i; 28]).unwrap()),
        &Credential::from_keyhash(&Ed25519KeyHash::from_bytes(vec![200; 28]).unwrap()),
    )
    .to_address()
}

fn input(i: u32) -> TransactionInput {
    TransactionInput::new(&TransactionHash::from_bytes(vec![0x3b; 32]).unwrap(), i)
}

fn ada_utxo(i: u32, owner: &Address, ada: u64) -> TransactionUnspentOutput {
    TransactionUnspentOutput::new(
        &input(i),
        &TransactionOutput::new(owner, &Value::new(&BigNum::from(ada))),
    )
}

/// (sum of output coins + fee, fee, min fee for the real size, real size, number of inputs) of the only tx
fn single_tx(batches: &TransactionBatchList) -> (u64, u64, u64, usize, usize, Transaction) {
    assert_eq!(batches.len(), 1);
    let batch = batches.get(0);
    assert_eq!(batch.len(), 1);
    let tx = batch.get(0);
    let mut out = 0u64;
    let outs = tx.body().outputs();
    for k in 0..outs.len() {
        out += u64::from(outs.get(k).amount().coin());
    }
    let fee = u64::from(tx.body().fee());
    (out + fee, fee, 0, tx.to_bytes().len(), tx.body().inputs().len(), tx)
}

// Root cause: AssetCategorizer::estimate_fee predicts the coin of the last output as
//   (get_unused_ada() + last_output.total_ada) - new_fee
// but get_unused_ada() has ALREADY subtracted the fee stored in the proposal, so the fee is subtracted twice.
// When (inputs - fee) lies in [2^32, 2^32 + fee) the last output really needs a 9-byte coin while the model
// assumes a 5-byte one (same at 2^16 / 2^8 with exotic parameters). In TxBatchBuilder::build the final
// set_min_ada_for_tx (after add_last_ada_to_last_output) then lowers the fee by 4 bytes' worth although the
// outputs were fixed with the previous fee.

#[test]
fn pre1_unbalanced_and_underpaid_at_2_pow_32() {
    let lf = LinearFee::new(&BigNum::from(44u64), &BigNum::from(155381u64));
    let c = cfg(44, 155381, 4310, 5000, 16384);
    let ada = (1u64 << 32) + 170_000; // 4295.137296 ADA in one pure-ADA UTxO
    let mut utxos = TransactionUnspentOutputs::new();
    utxos.add(&ada_utxo(0, &base_addr(1), ada));
    let batches = create_send_all(&base_addr(9), &utxos, &c).unwrap();
    let (out_plus_fee, fee, _, _size, _, tx) = single_tx(&batches);
    let need = u64::from(min_fee(&tx, &lf).unwrap());
    assert_eq!(out_plus_fee, ada, "inputs != outputs + fee");
    assert!(fee >= need, "fee {} < min fee {} for the real size", fee, need);
}

#[test]
fn pre1_max_tx_size_exceeded_at_2_pow_32() {
    // two pure-ADA UTxOs of one owner; when the second one is appended the fee of the first step is still stored in the
    // proposal and is subtracted a second time: the model sees a 5-byte coin (261 bytes), the real tx has 265 bytes
    let max_tx = 262u32;
    let c = cfg(44, 155381, 4310, 5000, max_tx);
    let mut utxos = TransactionUnspentOutputs::new();
    utxos.add(&ada_utxo(0, &base_addr(1), 1u64 << 32));
    utxos.add(&ada_utxo(1, &base_addr(1), 200_000));
    if let Ok(batches) = create_send_all(&base_addr(9), &utxos, &c) {
        let batch = batches.get(0);
        for i in 0..batch.len() {
            let size = batch.get(i).to_bytes().len();
            assert!(size <= max_tx as usize, "tx {} size {} > max_tx_size {}", i, size, max_tx);
        }
    }
}
