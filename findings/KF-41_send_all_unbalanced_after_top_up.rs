// place at rust/tests/demo.rs; cargo test --offline --test demo: fails before the fix, passes after
// KF-41 (C13) - native replay, public API only: every transaction a successful send-all returns is balanced (inputs == outputs + fee in lovelace).
use cardano_serialization_lib::*;

fn keyhash(i: u8) -> Ed25519KeyHash { Ed25519KeyHash::from_bytes(vec![i; 28]).unwrap() }
fn base_addr(i: u8) -> Address {
    BaseAddress::new(0, &Credential::from_keyhash(&keyhash(i)), &Credential::from_keyhash(&keyhash(200))).to_address()
}
fn utxo(index: u32, addr: &Address, value: &Value) -> TransactionUnspentOutput {
    TransactionUnspentOutput::new(&TransactionInput::new(&TransactionHash::from_bytes(vec![7u8; 32]).unwrap(), index), &TransactionOutput::new(addr, value))
}
fn n(c: &BigNum) -> u128 { c.to_str().parse().unwrap() }

#[test]
fn send_all_transactions_are_balanced_after_the_last_top_up() {
    let cfg = TransactionBuilderConfigBuilder::new()
        .fee_algo(&LinearFee::new(&BigNum::from(44u64), &BigNum::from(155381u64)))
        .pool_deposit(&BigNum::from(500000000u64)).key_deposit(&BigNum::from(2000000u64))
        .max_value_size(5000).max_tx_size(16384).coins_per_utxo_byte(&BigNum::from(4310u64)).build().unwrap();
    let mut bad: Vec<String> = Vec::new();
    for ada in (300_000u64..=312_000).step_by(500) {
        let mut assets = Assets::new();
        assets.insert(&AssetName::new(b"tok".to_vec()).unwrap(), &BigNum::from(1u64));
        let mut ma = MultiAsset::new();
        ma.insert(&ScriptHash::from_bytes(vec![1u8; 28]).unwrap(), &assets);
        let mut v = Value::new(&BigNum::from(1_000_000u64));
        v.set_multiasset(&ma);
        let mut utxos = TransactionUnspentOutputs::new();
        utxos.add(&utxo(0, &base_addr(1), &v));
        utxos.add(&utxo(1, &base_addr(1), &Value::new(&BigNum::from(ada))));
        let batches = match create_send_all(&base_addr(9), &utxos, &cfg) { Ok(b) => b, Err(_) => continue };
        for bi in 0..batches.len() {
            let batch = batches.get(bi);
            for ti in 0..batch.len() {
                let body = batch.get(ti).body();
                let mut inp: u128 = 0;
                for k in 0..body.inputs().len() { let i = body.inputs().get(k); inp += if i.index() == 0 { 1_000_000 } else { ada as u128 }; }
                let mut out: u128 = n(&body.fee());
                for k in 0..body.outputs().len() { out += n(&body.outputs().get(k).amount().coin()); }
                if inp != out { bad.push(format!("pure-ADA UTxO of {}: inputs {} != outputs + fee {}", ada, inp, out)); }
            }
        }
    }
    assert!(bad.is_empty(), "{} unbalanced transactions, first: {}", bad.len(), bad[0]);
}
