// Arguable finding (clean HEAD): adding a key witness that is ALREADY in the set changes nothing in the
// set (Vkeywitnesses::add returns false) but FixedTxWitnessesSet::add_vkey_witness still discards the
// original bytes of field 0, so a no-op "add" re-encodes the field (indefinite -> definite, tag policy,
// repeated elements dropped). Same for add_bootstrap_witness / field 2.
use cardano_serialization_lib::*;

fn h(s: &str) -> Vec<u8> {
    let s: String = s.chars().filter(|c| !c.is_whitespace()).collect();
    hex::decode(s).unwrap()
}

fn body_hex() -> String {
    format!(
        "a3 00 81 82 5820{} 00 01 81 82 581d61{} 1a000f4240 02 1a00029810",
        "11".repeat(32),
        "22".repeat(28)
    )
}

#[test]
fn re_adding_a_present_key_witness_keeps_the_field_bytes() {
    let sk = PrivateKey::from_normal_bytes(&[7u8; 32]).unwrap();

    // sign once to learn the witness, then build a transaction that already carries it,
    // in an indefinite-length untagged array
    let mut probe = FixedTransaction::new_from_body_bytes(&h(&body_hex())).unwrap();
    probe.sign_and_add_vkey_signature(&sk).unwrap();
    let wit = probe.witness_set().vkeys().unwrap().get(0);
    let field0 = format!("9f {} ff", hex::encode(wit.to_bytes()));

    let tx = h(&format!("84 {} a1 00 {} f5 f6", body_hex(), field0));
    let mut ftx = FixedTransaction::from_bytes(tx.clone()).unwrap();
    assert_eq!(ftx.to_bytes(), tx);

    // the same signer signs again: the witness set does not change as a set
    ftx.sign_and_add_vkey_signature(&sk).unwrap();
    assert_eq!(ftx.witness_set().vkeys().unwrap().len(), 1);
    assert_eq!(hex::encode(ftx.to_bytes()), hex::encode(&tx));
}
