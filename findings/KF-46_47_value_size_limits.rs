// KF-46 / KF-47 (C07): place either test file body at rust/tests/demo.rs; both fail before the fixes
// Pre-existing violation on clean HEAD (property C07):
// the collateral-return setters check the minimum ADA of the return output but never its value
// size, so a collateral return whose serialized value is larger than max_value_size is accepted
// (add_output would reject the very same output with "Maximum value size of .. exceeded").
use cardano_serialization_lib::*;

fn bn(x: u64) -> BigNum {
    BigNum::from(x)
}

fn base_address(x: u8) -> Address {
    let pay = Credential::from_keyhash(&Ed25519KeyHash::from_bytes(vec![x; 28]).unwrap());
    let stake = Credential::from_keyhash(&Ed25519KeyHash::from_bytes(vec![x + 1; 28]).unwrap());
    BaseAddress::new(NetworkInfo::testnet_preprod().network_id(), &pay, &stake).to_address()
}

fn multiasset(count: usize) -> MultiAsset {
    let policy = ScriptHash::from_bytes(vec![7u8; 28]).unwrap();
    let mut assets = Assets::new();
    for i in 0..count {
        let mut name = vec![0u8; 32];
        name[0] = (i / 256) as u8;
        name[1] = (i % 256) as u8;
        assets.insert(&AssetName::new(name).unwrap(), &bn(1));
    }
    let mut ma = MultiAsset::new();
    ma.insert(&policy, &assets);
    ma
}

const MAX_VALUE_SIZE: u32 = 5000;

fn builder_with_collateral(ma: &MultiAsset) -> TransactionBuilder {
    let cfg = TransactionBuilderConfigBuilder::new()
        .fee_algo(&LinearFee::new(&bn(44), &bn(155381)))
        .pool_deposit(&bn(500000000))
        .key_deposit(&bn(2000000))
        .max_value_size(MAX_VALUE_SIZE)
        .max_tx_size(16384)
        .coins_per_utxo_byte(&bn(4310))
        .build()
        .unwrap();
    let mut tx_builder = TransactionBuilder::new(&cfg);
    let mut collateral = TxInputsBuilder::new();
    collateral
        .add_regular_input(
            &base_address(1),
            &TransactionInput::new(&TransactionHash::from_bytes(vec![1u8; 32]).unwrap(), 0),
            &Value::new_with_assets(&bn(100_000_000), ma),
        )
        .unwrap();
    tx_builder.set_collateral(&collateral);
    tx_builder.set_fee(&bn(1_000_000));
    tx_builder
}

#[test]
fn collateral_return_value_within_max_value_size_total_and_return() {
    let ma = multiasset(200); // ~7 kB of assets
    let mut tx_builder = builder_with_collateral(&ma);
    // the ordinary output path rejects such a value
    let as_output = TransactionOutput::new(
        &base_address(3),
        &Value::new_with_assets(&bn(95_000_000), &ma),
    );
    assert!(as_output.amount().to_bytes().len() > MAX_VALUE_SIZE as usize);
    assert!(tx_builder.clone().add_output(&as_output).is_err());

    let res = tx_builder.set_total_collateral_and_return(&bn(5_000_000), &base_address(3));
    if res.is_ok() {
        let ret = tx_builder.build().unwrap().collateral_return().unwrap();
        let size = ret.amount().to_bytes().len();
        assert!(
            size <= MAX_VALUE_SIZE as usize,
            "accepted collateral return has a value of {} bytes (max_value_size {})",
            size,
            MAX_VALUE_SIZE
        );
    }
}

#[test]
fn collateral_return_value_within_max_value_size_return_and_total() {
    let ma = multiasset(200);
    let mut tx_builder = builder_with_collateral(&ma);
    let ret_out = TransactionOutput::new(
        &base_address(3),
        &Value::new_with_assets(&bn(95_000_000), &ma),
    );
    let res = tx_builder.set_collateral_return_and_total(&ret_out);
    if res.is_ok() {
        let ret = tx_builder.build().unwrap().collateral_return().unwrap();
        let size = ret.amount().to_bytes().len();
        assert!(
            size <= MAX_VALUE_SIZE as usize,
            "accepted collateral return has a value of {} bytes (max_value_size {})",
            size,
            MAX_VALUE_SIZE
        );
    }
}

// ---- second file
// Pre-existing violation on clean HEAD (property C07):
// the asset-change branch of add_change_if_needed adds "the rest of the ADA" to the last
// change output AFTER that output went through add_output(); the coin field of the value
// then widens from the 5-byte to the 9-byte CBOR encoding and the serialized value of the
// change output becomes larger than the configured max_value_size.
// use cardano_serialization_lib::*;

fn bn(x: u64) -> BigNum {
    BigNum::from(x)
}

fn base_address(x: u8) -> Address {
    let pay = Credential::from_keyhash(&Ed25519KeyHash::from_bytes(vec![x; 28]).unwrap());
    let stake = Credential::from_keyhash(&Ed25519KeyHash::from_bytes(vec![x + 1; 28]).unwrap());
    BaseAddress::new(NetworkInfo::testnet_preprod().network_id(), &pay, &stake).to_address()
}

fn multiasset(count: usize, last_name_len: usize, last_qty: u64) -> MultiAsset {
    let policy = ScriptHash::from_bytes(vec![7u8; 28]).unwrap();
    let mut assets = Assets::new();
    for i in 0..count {
        let mut name = vec![0u8; 32];
        name[0] = (i / 256) as u8;
        name[1] = (i % 256) as u8;
        assets.insert(&AssetName::new(name).unwrap(), &bn(1));
    }
    assets.insert(&AssetName::new(vec![0xffu8; last_name_len]).unwrap(), &bn(last_qty));
    let mut ma = MultiAsset::new();
    ma.insert(&policy, &assets);
    ma
}

#[test]
fn change_output_value_stays_within_max_value_size() {
    const MAX_VALUE_SIZE: usize = 5000;
    // find an asset bundle whose value, with a 5-byte coin, is exactly MAX_VALUE_SIZE bytes
    let mut found = None;
    'outer: for count in 120..150 {
        for last in 1..=32 {
            for qty in [1u64, 100, 1000] {
                let ma = multiasset(count, last, qty);
                let v = Value::new_with_assets(&bn(20_000_000), &ma);
                if v.to_bytes().len() == MAX_VALUE_SIZE {
                    found = Some(ma);
                    break 'outer;
                }
            }
        }
    }
    let ma = found.expect("a bundle of exactly max_value_size bytes exists");

    let cfg = TransactionBuilderConfigBuilder::new()
        .fee_algo(&LinearFee::new(&bn(44), &bn(155381)))
        .pool_deposit(&bn(500000000))
        .key_deposit(&bn(2000000))
        .max_value_size(MAX_VALUE_SIZE as u32)
        .max_tx_size(16384)
        .coins_per_utxo_byte(&bn(4310))
        .build()
        .unwrap();
    let mut tx_builder = TransactionBuilder::new(&cfg);

    // one input: 10 000 ADA + the bundle
    tx_builder
        .add_regular_input(
            &base_address(1),
            &TransactionInput::new(&TransactionHash::from_bytes(vec![1u8; 32]).unwrap(), 0),
            &Value::new_with_assets(&bn(10_000_000_000), &ma),
        )
        .unwrap();
    // an ordinary 2 ADA payment
    tx_builder
        .add_output(&TransactionOutput::new(&base_address(3), &Value::new(&bn(2_000_000))))
        .unwrap();

    // an explicit refusal is fine; a success must respect the limit
    let added = match tx_builder.add_change_if_needed(&base_address(5)) { Ok(a) => a, Err(_) => return };
    assert!(added);

    // the transaction builds (fee and balance checks pass) ...
    let body = tx_builder.build_tx().expect("build_tx succeeds").body();
    let outputs = body.outputs();
    for i in 0..outputs.len() {
        let out = outputs.get(i);
        let value_size = out.amount().to_bytes().len();
        assert!(
            value_size <= MAX_VALUE_SIZE,
            "output {} has a value of {} bytes, max_value_size is {}",
            i,
            value_size,
            MAX_VALUE_SIZE
        );
    }
}
