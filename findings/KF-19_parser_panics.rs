// Native replay of KF-19..KF-23 (property C02, and C14 for the big integer): place at rust/tests/demo.rs, run `cargo test --offline --test demo`.
// Each test fails (panics inside the library) before the corresponding fix: commit and passes after it.
use cardano_serialization_lib::*;
use std::panic::catch_unwind;

#[test]
fn vkeywitnesses_non_break_special_in_indefinite_array() {
    // 9f (indefinite array) f6 (null: a special that is not a break)
    let r = catch_unwind(|| Vkeywitnesses::from_bytes(vec![0x9f, 0xf6]));
    assert!(r.is_ok(), "Vkeywitnesses::from_bytes panicked");
    assert!(r.unwrap().is_err());
}
#[test]
fn bootstrap_witnesses_non_break_special_in_indefinite_array() {
    let r = catch_unwind(|| BootstrapWitnesses::from_bytes(vec![0x9f, 0xf6]));
    assert!(r.is_ok(), "BootstrapWitnesses::from_bytes panicked");
    assert!(r.unwrap().is_err());
}
#[test]
fn legacy_output_truncated_third_element() {
    // a valid legacy output [address, coin] re-opened as a 3-array whose third element is a byte string head announcing 32 bytes, with none following
    let addr = EnterpriseAddress::new(0, &Credential::from_keyhash(&Ed25519KeyHash::from_bytes(vec![1; 28]).unwrap())).to_address();
    let mut bytes = vec![0x83];
    let ab = addr.to_bytes();
    bytes.push(0x58); bytes.push(ab.len() as u8); bytes.extend(ab);
    bytes.push(0x01);
    bytes.extend(vec![0x58, 0x20, 0xaa]);      // bytes(32) but only one content byte
    let r = catch_unwind(move || TransactionOutput::from_bytes(bytes));
    assert!(r.is_ok(), "TransactionOutput::from_bytes panicked on a truncated third element");
    assert!(r.unwrap().is_err());
}
#[test]
fn byron_address_outer_array_of_wrong_length() {
    // 83 (array of 3) instead of the [tag 24 bytes, crc] pair
    let r = catch_unwind(|| ByronAddress::from_bytes(vec![0x83, 0x01, 0x02, 0x03]));
    assert!(r.is_ok(), "ByronAddress::from_bytes panicked");
    assert!(r.unwrap().is_err());
}
#[test]
fn big_int_minus_two_pow_63_serializes() {
    let x = BigInt::from_str("-9223372036854775808").unwrap();
    let r = catch_unwind(move || x.to_bytes());
    assert!(r.is_ok(), "BigInt(-2^63).to_bytes() panicked");
    let bytes = r.unwrap();
    assert_eq!(bytes, vec![0x3b, 0x7f, 0xff, 0xff, 0xff, 0xff, 0xff, 0xff, 0xff]);
    assert_eq!(BigInt::from_bytes(bytes).unwrap().to_str(), "-9223372036854775808");
}
#[test]
fn metadata_json_i64_min() {
    let r = catch_unwind(|| encode_json_str_to_metadatum("-9223372036854775808".to_string(), MetadataJsonSchema::NoConversions));
    assert!(r.is_ok(), "encode_json_str_to_metadatum panicked on i64::MIN");
    let m = r.unwrap().unwrap();
    assert_eq!(m.as_int().unwrap().to_str(), "-9223372036854775808");
}
