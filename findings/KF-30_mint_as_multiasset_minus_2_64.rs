// Native replay of KF-30 (properties C14 / C02): place at rust/tests/demo.rs, run `cargo test --offline --test demo`.
// A CBOR negative integer ranges down to -2^64; Int holds it and the Mint decoder accepts it as a burn quantity.  Its magnitude 2^64 does not
// fit the u64 of an asset quantity: Int::as_negative answers None (correctly), and Mint::as_negative_multiasset unwrapped that None - a
// panic on a value the library itself decoded, instead of an explicit failure.
use cardano_serialization_lib::*;

fn mint_with_quantity(head_and_arg: &[u8]) -> Vec<u8> {
    let mut b = vec![0xa1, 0x58, 0x1c];
    b.extend(vec![0x11u8; 28]);          // policy id
    b.extend([0xa1, 0x41, 0x61]);        // { "a" =>
    b.extend(head_and_arg);              //   quantity }
    b
}

#[test]
fn burning_two_to_the_64_is_not_a_panic() {
    let bytes = mint_with_quantity(&[0x3b, 0xff, 0xff, 0xff, 0xff, 0xff, 0xff, 0xff, 0xff]);   // -2^64
    let mint = match Mint::from_bytes(bytes) { Ok(m) => m, Err(_) => return };                  // rejecting it would also do
    let r = std::panic::catch_unwind(|| mint.as_negative_multiasset());
    assert!(r.is_ok(), "Mint::as_negative_multiasset panicked on a decoded burn of 2^64");
    // exact or explicit failure: the result must not silently hold a different quantity
    let ma = r.unwrap();
    if let Some(assets) = ma.get(&ScriptHash::from_bytes(vec![0x11u8; 28]).unwrap()) {
        if let Some(q) = assets.get(&AssetName::new(vec![0x61]).unwrap()) {
            panic!("a burn of 2^64 was reported as {}", q.to_str());
        }
    }
}

#[test]
fn ordinary_burns_and_mints_still_split_exactly() {
    let mint = Mint::from_bytes(mint_with_quantity(&[0x38, 0x18])).unwrap();                     // -25
    let neg = mint.as_negative_multiasset();
    let q = neg.get(&ScriptHash::from_bytes(vec![0x11u8; 28]).unwrap()).unwrap().get(&AssetName::new(vec![0x61]).unwrap()).unwrap();
    assert_eq!(q.to_str(), "25");
    assert_eq!(mint.as_positive_multiasset().len(), 0);
}
