use cardano_serialization_lib::*;

#[allow(dead_code)]
fn builder() -> TransactionBuilder {
    let cfg = TransactionBuilderConfigBuilder::new()
        .fee_algo(&LinearFee::new(&BigNum::from_str("44").unwrap(), &BigNum::from_str("155381").unwrap()))
        .pool_deposit(&BigNum::from_str("500000000").unwrap())
        .key_deposit(&BigNum::from_str("2000000").unwrap())
        .max_value_size(5000)
        .max_tx_size(16384)
        .coins_per_utxo_byte(&BigNum::from_str("4310").unwrap())
        .build()
        .unwrap();
    TransactionBuilder::new(&cfg)
}

#[allow(dead_code)]
fn addr(n: u8) -> Address {
    let c1 = Credential::from_keyhash(&Ed25519KeyHash::from_bytes(vec![n; 28]).unwrap());
    let c2 = Credential::from_keyhash(&Ed25519KeyHash::from_bytes(vec![n + 100; 28]).unwrap());
    BaseAddress::new(1, &c1, &c2).to_address()
}

#[allow(dead_code)]
fn input(n: u8) -> TransactionInput {
    TransactionInput::new(&TransactionHash::from_bytes(vec![n; 32]).unwrap(), 0)
}

#[allow(dead_code)]
fn policy(n: u8) -> ScriptHash {
    ScriptHash::from_bytes(vec![n; 28]).unwrap()
}

#[allow(dead_code)]
fn coin(s: &str) -> BigNum {
    BigNum::from_str(s).unwrap()
}

// Conway CDDL: value = coin / [coin, multiasset<positive_coin>], multiasset<a> = {+ policy_id => {+ asset_name => a}}
#[allow(dead_code)]
fn assert_output_clean(o: &TransactionOutput, what: &str) {
    if let Some(ma) = o.amount().multiasset() {
        let ps = ma.keys();
        for j in 0..ps.len() {
            let assets = ma.get(&ps.get(j)).unwrap();
            assert!(assets.len() > 0, "{} has an empty policy bundle: {}", what, hex::encode(o.to_bytes()));
            let ns = assets.keys();
            for k in 0..ns.len() {
                assert!(
                    !assets.get(&ns.get(k)).unwrap().is_zero(),
                    "{} has a zero-quantity asset: {}",
                    what,
                    hex::encode(o.to_bytes())
                );
            }
        }
    }
}

// Conway CDDL: mint = multiasset<nonZeroInt64>, nonZeroInt64 = negInt64 / posInt64, posInt64 = 1 .. 9223372036854775807.
// MintBuilder / MintAssets bound the quantity by the CBOR int range (-2^64 .. 2^64-1) only.
#[test]
fn mint_quantity_above_int64_is_accepted_and_emitted() {
    let script = NativeScript::new_timelock_start(&TimelockStart::new_timelockstart(&coin("1")));
    let two_pow_63 = Int::new(&coin("9223372036854775808"));
    let name = AssetName::new(vec![1]).unwrap();

    let mut mb = MintBuilder::new();
    let added = mb.add_asset(
        &MintWitness::new_native_script(&NativeScriptSource::new(&script)),
        &name,
        &two_pow_63,
    );
    if added.is_err() {
        return; // rejected: fine
    }
    let mut b = builder();
    let mut ins = TxInputsBuilder::new();
    ins.add_regular_input(&addr(1), &input(1), &Value::new(&coin("10000000"))).unwrap();
    b.set_inputs(&ins);
    b.set_mint_builder(&mb);
    let mut ma = MultiAsset::new();
    ma.set_asset(&script.hash(), &name, &coin("9223372036854775808"));
    b.add_output(&TransactionOutput::new(&addr(2), &Value::new_with_assets(&coin("2000000"), &ma))).unwrap();
    b.add_change_if_needed(&addr(3)).unwrap();
    let tx = b.build_tx().unwrap();
    let mint = tx.body().mint().unwrap();
    let q = mint.get(&script.hash()).unwrap().get(0).unwrap().get(&name).unwrap();
    let bytes = mint.to_bytes();
    // ... 41 01 1b 80 00 00 00 00 00 00 00
    assert!(
        q.as_i32_or_nothing().is_some() || q.to_str().parse::<i64>().is_ok(),
        "mint quantity {} does not fit int64; mint = {}",
        q.to_str(),
        hex::encode(&bytes)
    );
}
