// place at rust/tests/demo.rs; cargo test --offline --test demo: fails before the two fixes, passes after
// KF-38 (C06, also C18) - native replay, public API only: a mint whose native script is supplied by REFERENCE input
// (size and required signers declared by the caller) must pay the reference-script fee for it and count its signers.
use cardano_serialization_lib::*;

fn key_hash(x: u8) -> Ed25519KeyHash { Ed25519KeyHash::from_bytes(vec![x; 28]).unwrap() }
fn tx_input(x: u8, index: u32) -> TransactionInput {
    TransactionInput::new(&TransactionHash::from_bytes(vec![x; 32]).unwrap(), index)
}
fn base_address(x: u8) -> Address {
    BaseAddress::new(NetworkInfo::testnet_preprod().network_id(),
        &Credential::from_keyhash(&key_hash(x)), &Credential::from_keyhash(&key_hash(x.wrapping_add(100)))).to_address()
}
fn vkey_witness(x: u8) -> Vkeywitness {
    let mut key = [7u8; 32]; key[0] = x;
    Vkeywitness::new(&Vkey::new(&PublicKey::from_bytes(&key).unwrap()), &Ed25519Signature::from_bytes(vec![x; 64]).unwrap())
}
fn cfgb(linear_fee: &LinearFee, cpb: u64) -> TransactionBuilderConfigBuilder {
    TransactionBuilderConfigBuilder::new().fee_algo(linear_fee)
        .pool_deposit(&BigNum::from(500_000_000u64)).key_deposit(&BigNum::from(2_000_000u64))
        .max_value_size(5000).max_tx_size(16384).coins_per_utxo_byte(&BigNum::from(cpb))
}

#[test]
fn probe_mint_native_ref_script() {
    let linear_fee = LinearFee::new(&BigNum::from(44u64), &BigNum::from(155381u64));
    let price = UnitInterval::new(&BigNum::from(15u64), &BigNum::from(1u64));
    let mut b = TransactionBuilder::new(&cfgb(&linear_fee, 4310).ref_script_coins_per_byte(&price).build().unwrap());
    let policy = ScriptHash::from_bytes(vec![0xAB; 28]).unwrap();
    let mut src = NativeScriptSource::new_ref_input(&policy, &tx_input(50, 0), 10_000);
    let mut signers = Ed25519KeyHashes::new();
    signers.add(&key_hash(77));
    src.set_required_signers(&signers);
    let mut mb = MintBuilder::new();
    mb.add_asset(&MintWitness::new_native_script(&src), &AssetName::new(b"tok".to_vec()).unwrap(), &Int::new_i32(5)).unwrap();
    b.set_mint_builder(&mb);
    let mut inputs = TxInputsBuilder::new();
    inputs.add_regular_input(&base_address(1), &tx_input(1, 0), &Value::new(&BigNum::from(10_000_000u64))).unwrap();
    b.set_inputs(&inputs);
    b.add_change_if_needed(&base_address(10)).unwrap();
    let tx = b.build_tx().unwrap();
    assert!(tx.body().reference_inputs().is_some());
    let mut vkeys = Vkeywitnesses::new();
    vkeys.add(&vkey_witness(1));
    let mut ws = tx.witness_set();
    ws.set_vkeys(&vkeys);
    let signed1 = Transaction::new(&tx.body(), &ws, None);
    vkeys.add(&vkey_witness(77));
    ws.set_vkeys(&vkeys);
    let signed2 = Transaction::new(&tx.body(), &ws, None);
    let r = min_ref_script_fee(10_000, &price).unwrap();
    let m1 = min_fee(&signed1, &linear_fee).unwrap();
    let m2 = min_fee(&signed2, &linear_fee).unwrap();
    println!("PROBE mint native ref: fee {} linear(1 sig) {} linear(2 sigs) {} ref fee {}", tx.body().fee(), m1, m2, r);
    assert!(tx.body().fee() >= m1.checked_add(&r).unwrap(), "ref script fee of native mint ref input missing");
    assert!(tx.body().fee() >= m2.checked_add(&r).unwrap(), "declared signer of mint witness missing");
}

