// place at rust/tests/demo.rs; cargo test --offline --test demo: fails before the fix, passes after
// KF-42 (C13) - native replay, public API only: a successful send-all spends EVERY supplied UTxO exactly once - also one whose value
// carries an empty asset bundle (Some(empty multiasset), or a policy without assets).
use cardano_serialization_lib::*;

fn keyhash(i: u8) -> Ed25519KeyHash { Ed25519KeyHash::from_bytes(vec![i; 28]).unwrap() }
fn base_addr(i: u8) -> Address {
    BaseAddress::new(0, &Credential::from_keyhash(&keyhash(i)), &Credential::from_keyhash(&keyhash(200))).to_address()
}
fn utxo(index: u32, addr: &Address, value: &Value) -> TransactionUnspentOutput {
    TransactionUnspentOutput::new(&TransactionInput::new(&TransactionHash::from_bytes(vec![7u8; 32]).unwrap(), index), &TransactionOutput::new(addr, value))
}

#[test]
fn send_all_spends_a_utxo_with_an_empty_asset_bundle() {
    let cfg = TransactionBuilderConfigBuilder::new()
        .fee_algo(&LinearFee::new(&BigNum::from(44u64), &BigNum::from(155381u64)))
        .pool_deposit(&BigNum::from(500000000u64)).key_deposit(&BigNum::from(2000000u64))
        .max_value_size(5000).max_tx_size(16384).coins_per_utxo_byte(&BigNum::from(4310u64)).build().unwrap();
    for variant in 0..2 {
        let mut v = Value::new(&BigNum::from(3_000_000u64));
        let mut ma = MultiAsset::new();
        if variant == 1 { ma.insert(&ScriptHash::from_bytes(vec![1u8; 28]).unwrap(), &Assets::new()); }
        v.set_multiasset(&ma);
        let mut utxos = TransactionUnspentOutputs::new();
        utxos.add(&utxo(0, &base_addr(1), &Value::new(&BigNum::from(5_000_000u64))));
        utxos.add(&utxo(1, &base_addr(1), &v));
        let batches = create_send_all(&base_addr(9), &utxos, &cfg).expect("send-all succeeds");
        let mut spent = std::collections::BTreeSet::new();
        for bi in 0..batches.len() { let batch = batches.get(bi); for ti in 0..batch.len() { let body = batch.get(ti).body(); for k in 0..body.inputs().len() { spent.insert(body.inputs().get(k).index()); } } }
        assert!(spent.contains(&1), "variant {}: the UTxO with the empty asset bundle was left unspent (spent: {:?})", variant, spent);
        assert!(spent.contains(&0));
    }
}
