#![allow(dead_code)]
use cardano_serialization_lib::*;

fn bn(x: u64) -> BigNum {
    BigNum::from(x)
}

fn cfg(ref_fee: bool) -> TransactionBuilderConfig {
    let mut b = TransactionBuilderConfigBuilder::new()
        .fee_algo(&LinearFee::new(&bn(44), &bn(155381)))
        .pool_deposit(&bn(500000000))
        .key_deposit(&bn(2000000))
        .max_value_size(5000)
        .max_tx_size(16384)
        .coins_per_utxo_byte(&bn(4310));
    if ref_fee {
        b = b.ref_script_coins_per_byte(&UnitInterval::new(&bn(15), &bn(1)));
    }
    b.build().unwrap()
}

fn addr(k: u8) -> Address {
    EnterpriseAddress::new(
        0,
        &Credential::from_keyhash(&Ed25519KeyHash::from_bytes(vec![k; 28]).unwrap()),
    )
    .to_address()
}

fn tx_in(h: u8, i: u32) -> TransactionInput {
    TransactionInput::new(&TransactionHash::from_bytes(vec![h; 32]).unwrap(), i)
}

fn covered(b: &TransactionBuilder) -> Result<(), String> {
    let ti = b.get_total_input().unwrap();
    let to = b.get_total_output().unwrap();
    let fee = b.min_fee().unwrap();
    let need = to.coin().checked_add(&fee).unwrap();
    if ti.coin() < need {
        return Err(format!(
            "coin not covered: input {} < output {} + min_fee {}",
            ti.coin().to_str(),
            to.coin().to_str(),
            fee.to_str()
        ));
    }
    if let Some(ma) = to.multiasset() {
        let ima = ti.multiasset().unwrap_or(MultiAsset::new());
        let pids = ma.keys();
        for p in 0..pids.len() {
            let pid = pids.get(p);
            let assets = ma.get(&pid).unwrap();
            let names = assets.keys();
            for n in 0..names.len() {
                let name = names.get(n);
                let want = assets.get(&name).unwrap();
                let have = ima.get_asset(&pid, &name);
                if have < want {
                    return Err(format!(
                        "asset not covered: have {} want {}",
                        have.to_str(),
                        want.to_str()
                    ));
                }
            }
        }
    }
    Ok(())
}

// 4. random-improve doubles / triples the output coin in u64
#[test]
fn random_improve_huge_output() {
    let big = 1u64 << 63;
    let out = TransactionOutput::new(&addr(9), &Value::new(&bn(big)));
    let mut utxos = TransactionUnspentOutputs::new();
    utxos.add(&TransactionUnspentOutput::new(
        &tx_in(1, 0),
        &TransactionOutput::new(&addr(1), &Value::new(&bn(big + 50_000_000))),
    ));
    for i in 0..6u32 {
        utxos.add(&TransactionUnspentOutput::new(
            &tx_in(2, i),
            &TransactionOutput::new(&addr(1), &Value::new(&bn(2_000_000))),
        ));
    }
    let mut b = TransactionBuilder::new(&cfg(false));
    b.add_output(&out).unwrap();
    for _ in 0..30 {
        let mut bb = b.clone();
        if bb
            .add_inputs_from(&utxos, CoinSelectionStrategyCIP2::RandomImprove)
            .is_ok()
        {
            covered(&bb).unwrap();
        }
    }
}
