#![allow(deprecated)]
// C10 / pre-existing violation 4 (clean HEAD): VotingProposalBuilder::add_with_plutus_witness does not check
// that the proposal carries a policy (constitution script) hash, although `add` refuses proposals that do and
// the certificate / withdrawal / vote builders refuse a Plutus witness for an item without script credential.
// The transaction then carries a (VotingProposal, i) redeemer that designates a proposal no script is
// attached to (e.g. an info action): a redeemer pointing at an item that is not script-locked.
use cardano_serialization_lib::*;

fn tx_builder() -> TransactionBuilder {
    let cfg = TransactionBuilderConfigBuilder::new()
        .fee_algo(&LinearFee::new(&BigNum::from(44u64), &BigNum::from(155381u64)))
        .pool_deposit(&BigNum::from(500000000u64))
        .key_deposit(&BigNum::from(2000000u64))
        .max_value_size(5000)
        .max_tx_size(16384)
        .coins_per_utxo_byte(&BigNum::from(4310u64))
        .ex_unit_prices(&ExUnitPrices::new(
            &UnitInterval::new(&BigNum::from(577u64), &BigNum::from(10000u64)),
            &UnitInterval::new(&BigNum::from(721u64), &BigNum::from(10000000u64)),
        ))
        .ref_script_coins_per_byte(&UnitInterval::new(&BigNum::from(1u64), &BigNum::from(2u64)))
        .build()
        .unwrap();
    TransactionBuilder::new(&cfg)
}

fn plutus_script(x: u8) -> PlutusScript {
    let mut bytes = hex::decode("4e4d01000033222220051200120011").unwrap();
    let pos = bytes.len() - 1;
    bytes[pos] = x;
    PlutusScript::from_bytes_with_version(bytes, &Language::new_plutus_v2()).unwrap()
}

fn data_of(x: u64) -> PlutusData {
    PlutusData::new_integer(&BigInt::from_str(&x.to_string()).unwrap())
}

fn redeemer(x: u64) -> Redeemer {
    Redeemer::new(
        &RedeemerTag::new_cert(),
        &BigNum::from(99u64),
        &data_of(x),
        &ExUnits::new(&BigNum::from(x), &BigNum::from(x)),
    )
}

fn input(b: u8, ix: u32) -> TransactionInput {
    TransactionInput::new(&TransactionHash::from_bytes(vec![b; 32]).unwrap(), ix)
}

fn key_hash(b: u8) -> Ed25519KeyHash {
    Ed25519KeyHash::from_bytes(vec![b; 28]).unwrap()
}

fn ada(x: u64) -> Value {
    Value::new(&BigNum::from(x))
}

fn redeemers_of(tx: &Transaction) -> Vec<Redeemer> {
    let r = tx.witness_set().redeemers().unwrap_or(Redeemers::new());
    (0..r.len()).map(|i| r.get(i)).collect()
}


fn anchor() -> Anchor {
    Anchor::new(
        &URL::new("https://x.y".to_string()).unwrap(),
        &AnchorDataHash::from_bytes(vec![1; 32]).unwrap(),
    )
}

#[test]
fn proposal_without_policy_hash_gets_no_proposing_redeemer() {
    let script = plutus_script(5);
    let ra = RewardAddress::new(1, &Credential::from_keyhash(&key_hash(1)));
    // an info action has no guardrails script
    let info = VotingProposal::new(
        &GovernanceAction::new_info_action(&InfoAction::new()),
        &anchor(),
        &ra,
        &BigNum::from(100u64),
    );
    // a treasury withdrawal WITH a policy hash: the only script use of this transaction
    let mut tw = TreasuryWithdrawals::new();
    tw.insert(&ra, &BigNum::from(7u64));
    let guarded = VotingProposal::new(
        &GovernanceAction::new_treasury_withdrawals_action(
            &TreasuryWithdrawalsAction::new_with_policy_hash(&tw, &script.hash()),
        ),
        &anchor(),
        &ra,
        &BigNum::from(100u64),
    );

    let mut pb = VotingProposalBuilder::new();
    pb.add_with_plutus_witness(&guarded, &PlutusWitness::new_without_datum(&script, &redeemer(7)))
        .unwrap();
    // either refused (like CertificatesBuilder::add_with_plutus_witness does for a key certificate) ...
    let res = pb.add_with_plutus_witness(&info, &PlutusWitness::new_without_datum(&script, &redeemer(8)));
    if res.is_err() {
        pb.add(&info).unwrap();
    }

    let mut b = tx_builder();
    b.set_voting_proposal_builder(&pb);
    b.add_key_input(&key_hash(9), &input(1, 0), &ada(10_000_000));
    b.set_fee(&BigNum::from(1_000_000u64));
    let tx = b.build_tx_unsafe().unwrap();

    // ... or accepted without producing a pointer at the unguarded proposal
    let props = tx.body().voting_proposals().unwrap();
    assert_eq!(props.len(), 2);
    for r in redeemers_of(&tx) {
        assert_eq!(r.tag().kind(), RedeemerTagKind::VotingProposal);
        let ix: u64 = r.index().into();
        assert!((ix as usize) < props.len());
        let pointed = props.get(ix as usize);
        assert_eq!(
            pointed, guarded,
            "proposing redeemer designates a proposal that has no policy hash"
        );
        assert_eq!(r.data(), data_of(7));
    }
}
