// Pre-existing violation of C07 on clean HEAD (error path that leaves state behind).
// add_change_if_needed, asset-change branch (rust/src/builders/tx_builder.rs, "add in the rest of the ADA"):
// the builder FIRST stores the final fee (set_final_fee) and FIRST overwrites the amount of the last change output
// with "amount + rest of the ADA", and only THEN checks the maximum value size / minimum ADA of the topped-up output.
// When the check fails the function returns Err, but the oversized output and the fee stay in the builder:
// the transaction is balanced, the fee is set, and build_tx() happily emits an output whose value is larger
// than max_value_size.  The asset packing (pack_nfts_for_change / will_adding_asset_make_output_overflow) sized the
// bundle with the 5-byte minimum coin, the top-up makes the coin 9 bytes wide (>= 2^32 lovelace).
use cardano_serialization_lib::*;

fn addr(i: u8) -> Address {
    BaseAddress::new(
        0,
        &Credential::from_keyhash(&Ed25519KeyHash::from_bytes(vec![i; 28]).unwrap()),
        &Credential::from_keyhash(&Ed25519KeyHash::from_bytes(vec![i + 1; 28]).unwrap()),
    )
    .to_address()
}

fn bundle(n: u8) -> MultiAsset {
    let mut ma = MultiAsset::new();
    let mut assets = Assets::new();
    for i in 0..n {
        assets.insert(&AssetName::new(vec![i; 16]).unwrap(), &BigNum::from(1_000_000u64));
    }
    ma.insert(&ScriptHash::from_bytes(vec![7u8; 28]).unwrap(), &assets);
    ma
}

#[test]
fn failed_change_top_up_leaves_an_oversized_output_that_build_tx_emits() {
    let ma = bundle(10);
    // the serialized size of the change bundle when it carries a 5-byte coin
    let mut v5 = Value::new(&BigNum::from(2_000_000u64));
    v5.set_multiasset(&ma);
    let max_value_size = v5.to_bytes().len() as u32;

    let cfg = TransactionBuilderConfigBuilder::new()
        .fee_algo(&LinearFee::new(&BigNum::from(44u64), &BigNum::from(155381u64)))
        .pool_deposit(&BigNum::from(500000000u64))
        .key_deposit(&BigNum::from(2000000u64))
        .max_value_size(max_value_size)
        .max_tx_size(16384)
        .coins_per_utxo_byte(&BigNum::from(4310u64))
        .build()
        .unwrap();
    let mut b = TransactionBuilder::new(&cfg);

    // one input: 10 000 ADA (more than 2^32 lovelace) and the asset bundle
    let mut in_value = Value::new(&BigNum::from(10_000_000_000u64));
    in_value.set_multiasset(&ma);
    let mut inputs = TxInputsBuilder::new();
    inputs
        .add_regular_input(
            &addr(1),
            &TransactionInput::new(&TransactionHash::from_bytes(vec![1u8; 32]).unwrap(), 0),
            &in_value,
        )
        .unwrap();
    b.set_inputs(&inputs);
    b.add_output(&TransactionOutput::new(&addr(3), &Value::new(&BigNum::from(2_000_000u64))))
        .unwrap();

    let change = b.add_change_if_needed(&addr(5));
    // whatever add_change_if_needed answered, nothing the builder builds may break the limits
    if let Ok(tx) = b.build_tx() {
        let outs = tx.body().outputs();
        for i in 0..outs.len() {
            let size = outs.get(i).amount().to_bytes().len();
            assert!(
                size <= max_value_size as usize,
                "add_change_if_needed returned {:?}, yet build_tx() emitted output #{} with a value of {} bytes (max_value_size {})",
                change.as_ref().map_err(|e| format!("{:?}", e)),
                i,
                size,
                max_value_size
            );
        }
    }
}
