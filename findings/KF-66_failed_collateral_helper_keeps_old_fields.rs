use cardano_serialization_lib::*;

fn cfg() -> TransactionBuilderConfig {
    TransactionBuilderConfigBuilder::new()
        .fee_algo(&LinearFee::new(&BigNum::from(44u64), &BigNum::from(155381u64)))
        .pool_deposit(&BigNum::from(500000000u64))
        .key_deposit(&BigNum::from(2000000u64))
        .max_value_size(5000)
        .max_tx_size(16384)
        .coins_per_utxo_byte(&BigNum::from(4310u64))
        .build()
        .unwrap()
}

fn addr(x: u8) -> Address {
    BaseAddress::new(
        0,
        &Credential::from_keyhash(&Ed25519KeyHash::from_bytes(vec![x; 28]).unwrap()),
        &Credential::from_keyhash(&Ed25519KeyHash::from_bytes(vec![x.wrapping_add(100); 28]).unwrap()),
    )
    .to_address()
}

fn txin(x: u8, i: u32) -> TransactionInput {
    TransactionInput::new(&TransactionHash::from_bytes(vec![x; 32]).unwrap(), i)
}

fn policy(x: u8) -> ScriptHash {
    ScriptHash::from_bytes(vec![x; 28]).unwrap()
}

// a failed percentage helper attempt must leave neither field set
#[test]
fn failed_helper_leaves_fields_when_collateral_sum_overflows() {
    let mut b = TransactionBuilder::new(&cfg());
    let mut col = TxInputsBuilder::new();
    col.add_regular_input(&addr(0), &txin(0, 0), &Value::new(&BigNum::from(1u64 << 63))).unwrap();
    col.add_regular_input(&addr(1), &txin(1, 0), &Value::new(&BigNum::from(1u64 << 63))).unwrap();
    b.set_collateral(&col);
    // fields from an earlier configuration
    b.set_total_collateral(&BigNum::from(1_000_000u64));
    b.set_collateral_return(&TransactionOutput::new(&addr(9), &Value::new(&BigNum::from(1_000_000u64))));
    b.add_output(&TransactionOutput::new(&addr(5), &Value::new(&BigNum::from(2_000_000u64)))).unwrap();
    let mut utxos = TransactionUnspentOutputs::new();
    utxos.add(&TransactionUnspentOutput::new(&txin(7, 0), &TransactionOutput::new(&addr(7), &Value::new(&BigNum::from(10_000_000u64)))));
    let res = b.add_inputs_from_and_change_with_collateral_return(
        &utxos,
        CoinSelectionStrategyCIP2::LargestFirstMultiAsset,
        &ChangeConfig::new(&addr(8)),
        &BigNum::from(150u64),
    );
    assert!(res.is_err());
    b.set_fee(&BigNum::from(200_000u64));
    let body = b.build().unwrap();
    assert!(body.total_collateral().is_none(), "total collateral left behind after a failed attempt");
    assert!(body.collateral_return().is_none(), "collateral return left behind after a failed attempt");
}
