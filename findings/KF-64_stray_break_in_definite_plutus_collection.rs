// PRE-EXISTING (clean HEAD) violation of C02 (second sentence: what a parser returns serializes
// again to WELL-FORMED CBOR).
// Every collection decoder calls is_break_tag (rust/src/serialization/utils.rs:140) on each
// iteration whatever the container's length kind, so a 0xff "break" INSIDE A DEFINITE-LENGTH
// array/map silently ends the container early (e.g. PlutusList::deserialize,
// serialization/plutus/plutus_data.rs:284-292; PlutusMap::deserialize :89-100).  That input is not
// well-formed CBOR.  PlutusData::deserialize (plutus_data.rs:198-213) keeps the consumed bytes as
// `original_bytes` and PlutusData::serialize re-emits them verbatim, so the ill-formed bytes come
// out again from to_bytes() of the datum and of everything that embeds one (Redeemer, Redeemers,
// witness set, inline datum of an output, Transaction ...).
// Minimal fix: only accept a break when the container is Len::Indefinite (return
// DeserializeFailure::BreakInDefiniteLen otherwise), e.g. give is_break_tag the `len`.
use cardano_serialization_lib::*;

// minimal CBOR well-formedness check: number of bytes of the first item, or None
fn item(b: &[u8], depth: usize) -> Option<usize> {
    if depth > 512 || b.is_empty() { return None; }
    let (mt, ai) = (b[0] >> 5, b[0] & 0x1f);
    let (arg, mut pos, indef) = match ai {
        0..=23 => (ai as u64, 1usize, false),
        24 => (*b.get(1)? as u64, 2, false),
        25 => (u16::from_be_bytes([*b.get(1)?, *b.get(2)?]) as u64, 3, false),
        26 => (u32::from_be_bytes([*b.get(1)?, *b.get(2)?, *b.get(3)?, *b.get(4)?]) as u64, 5, false),
        27 => { if b.len() < 9 { return None; } let mut a = [0u8; 8]; a.copy_from_slice(&b[1..9]); (u64::from_be_bytes(a), 9, false) }
        31 => (0, 1, true),
        _ => return None,
    };
    match mt {
        0 | 1 => if indef { None } else { Some(pos) },
        2 | 3 => {
            if indef {
                loop {
                    if *b.get(pos)? == 0xff { return Some(pos + 1); }
                    if b[pos] >> 5 != mt || b[pos] & 0x1f == 31 { return None; }
                    pos += item(&b[pos..], depth + 1)?;
                }
            } else {
                let end = pos.checked_add(arg as usize)?;
                if end > b.len() { None } else { Some(end) }
            }
        }
        4 | 5 => {
            let per = if mt == 4 { 1 } else { 2 };
            if indef {
                loop {
                    if *b.get(pos)? == 0xff { return Some(pos + 1); }
                    for _ in 0..per {
                        if *b.get(pos)? == 0xff { return None; }
                        pos += item(&b[pos..], depth + 1)?;
                    }
                }
            } else {
                for _ in 0..arg.checked_mul(per)? {
                    if *b.get(pos)? == 0xff { return None; } // a break is not a data item
                    pos += item(&b[pos..], depth + 1)?;
                }
                Some(pos)
            }
        }
        6 => if indef { None } else { Some(pos + item(b.get(pos..)?, depth + 1)?) },
        _ => if indef { None } else { Some(pos) },
    }
}
fn well_formed(b: &[u8]) -> bool { item(b, 0) == Some(b.len()) }

#[test]
fn plutus_data_reserializes_to_well_formed_cbor() {
    // [_2: break]  -- a definite array of two whose first "element" is a break
    for input in [vec![0x82u8, 0xff], vec![0x82, 0x01, 0xff], vec![0xa1, 0xff], vec![0xd8, 0x79, 0x82, 0x01, 0xff]] {
        assert!(!well_formed(&input));
        if let Ok(datum) = PlutusData::from_bytes(input.clone()) {
            let out = datum.to_bytes();
            assert!(well_formed(&out), "PlutusData::from_bytes({:02x?}) was accepted and to_bytes() gives ill-formed CBOR {:02x?}", input, out);
        }
    }
}

#[test]
fn redeemer_reserializes_to_well_formed_cbor() {
    // [0, 0, [_2: 1, break], [0, 0]]
    let input = vec![0x84, 0x00, 0x00, 0x82, 0x01, 0xff, 0x82, 0x00, 0x00];
    assert!(!well_formed(&input));
    if let Ok(r) = Redeemer::from_bytes(input.clone()) {
        let out = r.to_bytes();
        assert!(well_formed(&out), "Redeemer::from_bytes was accepted and to_bytes() gives ill-formed CBOR {:02x?}", out);
    }
}
