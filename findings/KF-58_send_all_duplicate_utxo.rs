use cardano_serialization_lib::*;

fn cfg(a: u64, b: u64, coins_per_byte: u64, max_value: u32, max_tx: u32) -> TransactionBuilderConfig {
    TransactionBuilderConfigBuilder::new()
        .fee_algo(&LinearFee::new(&BigNum::from(a), &BigNum::from(b)))
        .pool_deposit(&BigNum::from(500000000u64))
        .key_deposit(&BigNum::from(2000000u64))
        .max_value_size(max_value)
        .max_tx_size(max_tx)
        .coins_per_utxo_byte(&BigNum::from(coins_per_byte))
        .build()
        .unwrap()
}

fn base_addr(i: u8) -> Address {
    BaseAddress::new(
        0,
        &Credential::from_keyhash(&Ed25519KeyHash::from_bytes(vec![i; 28]).unwrap()),
        &Credential::from_keyhash(&Ed25519KeyHash::from_bytes(vec![200; 28]).unwrap()),
    )
    .to_address()
}

fn input(i: u32) -> TransactionInput {
    TransactionInput::new(&TransactionHash::from_bytes(vec![0x3b; 32]).unwrap(), i)
}

fn ada_utxo(i: u32, owner: &Address, ada: u64) -> TransactionUnspentOutput {
    TransactionUnspentOutput::new(
        &input(i),
        &TransactionOutput::new(owner, &Value::new(&BigNum::from(ada))),
    )
}

/// (sum of output coins + fee, fee, min fee for the real size, real size, number of inputs) of the only tx
fn single_tx(batches: &TransactionBatchList) -> (u64, u64, u64, usize, usize, Transaction) {
    assert_eq!(batches.len(), 1);
    let batch = batches.get(0);
    assert_eq!(batch.len(), 1);
    let tx = batch.get(0);
    let mut out = 0u64;
    let outs = tx.body().outputs();
    for k in 0..outs.len() {
        out += u64::from(outs.get(k).amount().coin());
    }
    let fee = u64::from(tx.body().fee());
    (out + fee, fee, 0, tx.to_bytes().len(), tx.body().inputs().len(), tx)
}

// Root cause: AssetCategorizer::new indexes the supplied list by position and never compares the TransactionInputs.
// A UTxO that is listed twice is counted twice (ADA and assets), while TxProposal::create_tx builds the input set with
// TransactionInputs::from_vec, which de-duplicates. The transaction has ONE input but pays out the value TWICE.
#[test]
fn pre3_utxo_listed_twice_is_paid_out_twice() {
    let c = cfg(44, 155381, 4310, 5000, 16384);
    let u = ada_utxo(0, &base_addr(1), 5_000_000);
    let mut utxos = TransactionUnspentOutputs::new();
    utxos.add(&u);
    utxos.add(&u);
    if let Ok(batches) = create_send_all(&base_addr(9), &utxos, &c) {
        let (out_plus_fee, _, _, _, inputs, _) = single_tx(&batches);
        assert_eq!(inputs, 1);
        assert_eq!(out_plus_fee, 5_000_000, "one 5 ADA input, but outputs + fee differ");
    }
}
