use cardano_serialization_lib::*;

#[allow(dead_code)]
fn base_bytes() -> Vec<u8> {
    let base = BaseAddress::new(
        1,
        &Credential::from_keyhash(&Ed25519KeyHash::from_bytes(vec![0x11; 28]).unwrap()),
        &Credential::from_keyhash(&Ed25519KeyHash::from_bytes(vec![0x22; 28]).unwrap()),
    );
    base.to_address().to_bytes()
}

// legacy-format transaction output  [ bytes(addr), 1000 ]
#[allow(dead_code)]
fn output_with_addr_bytes(addr: &[u8]) -> Vec<u8> {
    let mut v = vec![0x82u8];
    assert!(addr.len() >= 24 && addr.len() < 256);
    v.push(0x58);
    v.push(addr.len() as u8);
    v.extend_from_slice(addr);
    v.extend_from_slice(&[0x19, 0x03, 0xe8]);
    v
}

const BYRON: &str = "Ae2tdPwUPEZ4YjgvykNpoFeYUxoyhNj2kg8KfKWN2FizsSpLUPv68MpTVDo";

// Embedded address = valid base address + 2 trailing bytes. The stand-alone parser rejects it
// (so it is "not a valid address"), but inside a TransactionOutput it is decoded as a Base address
// (ignore_leftover_bytes = true) and the trailing bytes are dropped on write-back: not verbatim.
#[test]
fn embedded_address_with_trailing_bytes_is_not_written_back_verbatim() {
    let mut a = base_bytes();
    a.extend_from_slice(&[0xde, 0xad]);
    assert!(Address::from_bytes(a.clone()).is_err());
    let out_bytes = output_with_addr_bytes(&a);
    let out = TransactionOutput::from_bytes(out_bytes.clone()).unwrap();
    assert_eq!(out.address().to_bytes(), a, "address bytes changed (kind = {:?})", out.address().kind());
    assert_eq!(out.to_bytes(), out_bytes);
}
