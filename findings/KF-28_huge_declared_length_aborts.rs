// Native replay of KF-28 (property C02): place at rust/tests/demo.rs, run `cargo test --offline --test demo`.
// cbor_event 2.4.0 (the pinned dependency) allocates the DECLARED length of a definite byte / text string before it reads it
// (`Deserializer::bytes_sz`: `vec![0; len]`).  33 decoders of the library hand untrusted input to `raw.bytes()` / `raw.text()` unguarded, so
// a 9-byte input whose head declares ~2^64 bytes does not produce an error and not even a panic: the allocation fails and the process
// ABORTS (on wasm32, the library's main target, any declared length above the 4 GiB address space traps the same way).
// The dangerous call runs in a child process; the parent only looks at how the child ended.
use cardano_serialization_lib::*;
use std::process::Command;

#[test]
fn child_body() {
    if std::env::var("KF28_CHILD").is_err() { return; }
    let which = std::env::var("KF28_CHILD").unwrap();
    let head = |ib: u8| { let mut v = vec![ib]; v.extend([0xffu8; 8]); v };
    match which.as_str() {
        "asset_name" => { let _ = AssetName::from_bytes(head(0x5b)); }
        "metadatum_text" => { let _ = TransactionMetadatum::from_bytes(head(0x7b)); }
        "plutus_script" => { let _ = PlutusScript::from_bytes(head(0x5b)); }
        _ => {}
    }
    // reaching this line means the decoder returned (an error): that is what C02 asks for
}

fn child_ends_normally(which: &str) -> bool {
    let out = Command::new(std::env::current_exe().unwrap()).args(["child_body", "--exact", "--nocapture", "--test-threads=1"]).env("KF28_CHILD", which).output().unwrap();
    out.status.success()
}

#[test]
fn a_huge_declared_byte_string_length_is_an_error_not_an_abort() {
    for which in ["asset_name", "metadatum_text", "plutus_script"] {
        assert!(child_ends_normally(which), "{}: the decoding process was killed (abort on allocation failure) instead of returning an error", which);
    }
}
