// Native replay of KF-18 (property C18): place at rust/tests/demo.rs and run `cargo test --offline --test demo`.
// A script voter whose Plutus witness declares a required signer: the builder's size prediction must grow by one key witness
// (as it does for the same witness on a certificate or a withdrawal).  Fails before the fix: commit, passes after.
use cardano_serialization_lib::*;

fn builder() -> TransactionBuilder {
    let cfg = TransactionBuilderConfigBuilder::new()
        .fee_algo(&LinearFee::new(&BigNum::from(44u64), &BigNum::from(155381u64)))
        .pool_deposit(&BigNum::from(500000000u64))
        .key_deposit(&BigNum::from(2000000u64))
        .max_value_size(5000)
        .max_tx_size(16384)
        .coins_per_utxo_byte(&BigNum::from(4310u64))
        .ref_script_coins_per_byte(&UnitInterval::new(&BigNum::from(15u64), &BigNum::from(1u64)))
        .ex_unit_prices(&ExUnitPrices::new(&UnitInterval::new(&BigNum::from(577u64), &BigNum::from(10000u64)), &UnitInterval::new(&BigNum::from(721u64), &BigNum::from(10000000u64))))
        .build().unwrap();
    let mut b = TransactionBuilder::new(&cfg);
    let addr = BaseAddress::new(0, &Credential::from_keyhash(&Ed25519KeyHash::from_bytes(vec![1; 28]).unwrap()), &Credential::from_keyhash(&Ed25519KeyHash::from_bytes(vec![2; 28]).unwrap())).to_address();
    b.add_regular_input(&addr, &TransactionInput::new(&TransactionHash::from_bytes(vec![9; 32]).unwrap(), 0), &Value::new(&BigNum::from(100_000_000u64))).unwrap();
    b
}
fn voting(with_signer: bool) -> VotingBuilder {
    let sh = ScriptHash::from_bytes(vec![5; 28]).unwrap();
    let voter = Voter::new_drep_credential(&Credential::from_scripthash(&sh));
    let action = GovernanceActionId::new(&TransactionHash::from_bytes(vec![3; 32]).unwrap(), 0);
    let proc_ = VotingProcedure::new(VoteKind::Yes);
    let mut src = PlutusScriptSource::new_ref_input(&sh, &TransactionInput::new(&TransactionHash::from_bytes(vec![7; 32]).unwrap(), 1), &Language::new_plutus_v3(), 100);
    if with_signer {
        let mut ks = Ed25519KeyHashes::new();
        ks.add(&Ed25519KeyHash::from_bytes(vec![0x42; 28]).unwrap());
        src.set_required_signers(&ks);
    }
    let red = Redeemer::new(&RedeemerTag::new_vote(), &BigNum::from(0u64), &PlutusData::new_integer(&BigInt::from(1u64)), &ExUnits::new(&BigNum::from(1u64), &BigNum::from(1u64)));
    let w = PlutusWitness::new_with_ref_without_datum(&src, &red);
    let mut vb = VotingBuilder::new();
    vb.add_with_plutus_witness(&voter, &action, &proc_, &w).unwrap();
    vb
}

#[test]
fn declared_signer_of_a_plutus_vote_is_counted() {
    let mut a = builder(); a.set_voting_builder(&voting(false));
    let mut b = builder(); b.set_voting_builder(&voting(true));
    let fa: u64 = a.min_fee().unwrap().into();
    let fb: u64 = b.min_fee().unwrap().into();
    // one more key witness (about 100 bytes at 44 lovelace per byte)
    assert!(fb >= fa + 44 * 90, "fee without declared signer {} / with declared signer {}: the extra signature is not accounted for", fa, fb);
}
