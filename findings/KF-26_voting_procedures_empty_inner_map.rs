// Native replay of KF-26 (properties C03 / C02 / C01): place at rust/tests/demo.rs, run `cargo test --offline --test demo`.
// voting_procedures = { + voter => { + gov_action_id => voting_procedure } }.  The decoder accepts a voter with an EMPTY inner map; the
// encoder then declares the outer map length as the number of voters but skips voters without votes: the re-encoding is malformed CBOR.
use cardano_serialization_lib::*;

#[test]
fn reencoding_a_decoded_voting_procedures_value_is_well_formed() {
    let mut bytes = vec![0xa1, 0x82, 0x04, 0x58, 0x1c];
    bytes.extend(vec![0x11u8; 28]);
    bytes.push(0xa0);                      // { pool voter 11.. => {} }
    let vp = VotingProcedures::from_bytes(bytes.clone());
    if let Ok(vp) = vp {
        let again = vp.to_bytes();
        let back = VotingProcedures::from_bytes(again.clone());
        assert!(back.is_ok(), "decoded {:02x?} but the re-encoding {:02x?} does not decode", bytes, again);
        assert_eq!(back.unwrap().to_bytes(), again);
    }
    // (rejecting the input would also satisfy the property)
}
