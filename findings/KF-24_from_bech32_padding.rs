// Native replay of KF-24 (property C02): place at rust/tests/demo.rs, run `cargo test --offline --test demo`.
// A checksum-valid bech32 string whose data part is not a whole number of bytes (non-zero / excess padding):
// the hash types' from_bech32 unwrapped the base32 conversion error.
use cardano_serialization_lib::*;
use std::panic::catch_unwind;

const CHARSET: &[u8] = b"qpzry9x8gf2tvdw0s3jn54khce6mua7l";
fn polymod(v: &[u8]) -> u32 {
    let gen = [0x3b6a57b2u32, 0x26508e6d, 0x1ea119fa, 0x3d4233dd, 0x2a1462b3];
    let mut chk = 1u32;
    for x in v {
        let b = chk >> 25;
        chk = ((chk & 0x1ffffff) << 5) ^ (*x as u32);
        for i in 0..5 { if (b >> i) & 1 == 1 { chk ^= gen[i]; } }
    }
    chk
}
fn bech32(hrp: &str, data: &[u8]) -> String {
    let mut v: Vec<u8> = hrp.bytes().map(|c| c >> 5).collect();
    v.push(0);
    v.extend(hrp.bytes().map(|c| c & 31));
    v.extend_from_slice(data);
    v.extend_from_slice(&[0; 6]);
    let pm = polymod(&v) ^ 1;
    let mut s = String::from(hrp);
    s.push('1');
    for d in data { s.push(CHARSET[*d as usize] as char); }
    for i in 0..6 { s.push(CHARSET[((pm >> (5 * (5 - i))) & 31) as usize] as char); }
    s
}
#[test]
fn hash_from_bech32_with_bad_padding_is_an_error() {
    // one 5-bit group with a non-zero value: cannot be converted to bytes
    let s = bech32("pool", &[31]);
    let r = catch_unwind(move || Ed25519KeyHash::from_bech32(&s));
    assert!(r.is_ok(), "Ed25519KeyHash::from_bech32 panicked on a checksum-valid string with invalid padding");
    assert!(r.unwrap().is_err());
}
