// place at rust/tests/demo.rs; cargo test --offline --test demo: fails before the fix, passes after
// KF-40 (C06) - native replay, public API only: declaring a reference input again WITHOUT a script size must not erase the size declared before.
use cardano_serialization_lib::*;

fn key_hash(x: u8) -> Ed25519KeyHash { Ed25519KeyHash::from_bytes(vec![x; 28]).unwrap() }
fn tx_input(x: u8, index: u32) -> TransactionInput {
    TransactionInput::new(&TransactionHash::from_bytes(vec![x; 32]).unwrap(), index)
}
fn base_address(x: u8) -> Address {
    BaseAddress::new(NetworkInfo::testnet_preprod().network_id(),
        &Credential::from_keyhash(&key_hash(x)), &Credential::from_keyhash(&key_hash(x.wrapping_add(100)))).to_address()
}
fn vkey_witness(x: u8) -> Vkeywitness {
    let mut key = [7u8; 32]; key[0] = x;
    Vkeywitness::new(&Vkey::new(&PublicKey::from_bytes(&key).unwrap()), &Ed25519Signature::from_bytes(vec![x; 64]).unwrap())
}
fn cfgb(linear_fee: &LinearFee, cpb: u64) -> TransactionBuilderConfigBuilder {
    TransactionBuilderConfigBuilder::new().fee_algo(linear_fee)
        .pool_deposit(&BigNum::from(500_000_000u64)).key_deposit(&BigNum::from(2_000_000u64))
        .max_value_size(5000).max_tx_size(16384).coins_per_utxo_byte(&BigNum::from(cpb))
}

#[test]
fn probe_ref_input_overwrite() {
    let linear_fee = LinearFee::new(&BigNum::from(44u64), &BigNum::from(155381u64));
    let price = UnitInterval::new(&BigNum::from(15u64), &BigNum::from(1u64));
    let mut b = TransactionBuilder::new(&cfgb(&linear_fee, 4310).ref_script_coins_per_byte(&price).build().unwrap());
    b.add_script_reference_input(&tx_input(50, 0), 10_000);
    b.add_reference_input(&tx_input(50, 0));
    let mut inputs = TxInputsBuilder::new();
    inputs.add_regular_input(&base_address(1), &tx_input(1, 0), &Value::new(&BigNum::from(10_000_000u64))).unwrap();
    b.set_inputs(&inputs);
    b.add_change_if_needed(&base_address(10)).unwrap();
    let tx = b.build_tx().unwrap();
    println!("PROBE ref overwrite: fee {} (ref fee would be 150000)", tx.body().fee());
    assert!(tx.body().fee() >= BigNum::from(150_000u64 + 155381));
}
