// Pre-existing violation of C09 on the unmodified tree.
//
// An input that was first registered as a Plutus-script input and is then registered again
// (same TransactionInput) as a plain key input is no longer a script input of the transaction:
// no redeemer, no script and no datum are emitted for it.  TxInputsBuilder::push_input replaces
// the entry of `inputs`, but the stale entry of `required_witnesses.scripts` stays behind, and
// `get_used_plutus_lang_versions` (unlike `get_plutus_input_scripts`) reads that stale entry.
// calc_script_data_hash therefore hashes the language view of a Plutus version that is NOT in use.
use cardano_serialization_lib::*;
use cryptoxide::blake2b::Blake2b;

fn blake2b256(data: &[u8]) -> Vec<u8> {
    let mut out = [0u8; 32];
    Blake2b::blake2b(&mut out, data, &[]);
    out.to_vec()
}

fn cost_model(vals: &[i32]) -> CostModel {
    let mut cm = CostModel::new();
    for (i, v) in vals.iter().enumerate() {
        cm.set(i, &Int::new_i32(*v)).unwrap();
    }
    cm
}

// independent encoder of the ledger's language views (small non-negative costs < 24 only)
fn lang_views(v1: Option<&[i32]>, v2: Option<&[i32]>, v3: Option<&[i32]>) -> Vec<u8> {
    let n = v1.is_some() as u8 + v2.is_some() as u8 + v3.is_some() as u8;
    let mut b = vec![0xA0 + n];
    if let Some(c) = v2 {
        b.push(0x01);
        b.push(0x80 + c.len() as u8);
        b.extend(c.iter().map(|x| *x as u8));
    }
    if let Some(c) = v3 {
        b.push(0x02);
        b.push(0x80 + c.len() as u8);
        b.extend(c.iter().map(|x| *x as u8));
    }
    if let Some(c) = v1 {
        b.extend([0x41, 0x00]);
        let mut inner = vec![0x9f];
        inner.extend(c.iter().map(|x| *x as u8));
        inner.push(0xff);
        b.push(0x40 + inner.len() as u8);
        b.extend(inner);
    }
    b
}

fn builder() -> TransactionBuilder {
    let cfg = TransactionBuilderConfigBuilder::new()
        .fee_algo(&LinearFee::new(&BigNum::from(44u32), &BigNum::from(155381u32)))
        .pool_deposit(&BigNum::from(500000000u32))
        .key_deposit(&BigNum::from(2000000u32))
        .max_value_size(5000)
        .max_tx_size(16384)
        .coins_per_utxo_byte(&BigNum::from(4310u32))
        .ex_unit_prices(&ExUnitPrices::new(
            &UnitInterval::new(&BigNum::from(577u32), &BigNum::from(10000u32)),
            &UnitInterval::new(&BigNum::from(721u32), &BigNum::from(10000000u32)),
        ))
        .ref_script_coins_per_byte(&UnitInterval::new(&BigNum::from(15u32), &BigNum::from(1u32)))
        .build()
        .unwrap();
    TransactionBuilder::new(&cfg)
}

fn tx_in(b: u8, idx: u32) -> TransactionInput {
    TransactionInput::new(&TransactionHash::from_bytes(vec![b; 32]).unwrap(), idx)
}

fn redeemer(n: u32) -> Redeemer {
    Redeemer::new(
        &RedeemerTag::new_spend(),
        &BigNum::from(0u32),
        &PlutusData::new_integer(&BigInt::from(n)),
        &ExUnits::new(&BigNum::from(10u32), &BigNum::from(20u32)),
    )
}

#[test]
fn replaced_script_input_leaves_its_language_in_the_hash() {
    let c1: [i32; 3] = [1, 2, 3];
    let c2: [i32; 2] = [4, 5];
    let mut cms = Costmdls::new();
    cms.insert(&Language::new_plutus_v1(), &cost_model(&c1));
    cms.insert(&Language::new_plutus_v2(), &cost_model(&c2));

    let s1 = PlutusScript::new(vec![1, 2, 3]);
    let s2 = PlutusScript::new_v2(vec![4, 5, 6]);
    let key = Ed25519KeyHash::from_bytes(vec![7u8; 28]).unwrap();

    let mut tb = builder();
    let x = tx_in(1, 0);
    let y = tx_in(2, 0);
    // X is (by mistake) first given as an input locked by the V1 script ...
    tb.add_plutus_script_input(
        &PlutusWitness::new_without_datum(&s1, &redeemer(1)),
        &x,
        &Value::new(&BigNum::from(5_000_000u32)),
    );
    // ... Y is locked by a V2 script ...
    tb.add_plutus_script_input(
        &PlutusWitness::new_without_datum(&s2, &redeemer(2)),
        &y,
        &Value::new(&BigNum::from(5_000_000u32)),
    );
    // ... and X is then registered again, correctly, as a key input (the later call wins in the body
    // and in the witness set).
    tb.add_key_input(&key, &x, &Value::new(&BigNum::from(5_000_000u32)));

    let mut coll = TxInputsBuilder::new();
    coll.add_key_input(&key, &tx_in(9, 0), &Value::new(&BigNum::from(5_000_000u32)));
    tb.set_collateral(&coll);

    tb.calc_script_data_hash(&cms).unwrap();
    tb.set_fee(&BigNum::from(10_000_000u32));
    let tx = tb.build_tx().unwrap();

    // what is emitted: one redeemer, only the V2 script
    let ws = tx.witness_set();
    let reds = ws.redeemers().unwrap();
    assert_eq!(reds.len(), 1);
    let scripts = ws.plutus_scripts().unwrap();
    assert_eq!(scripts.len(), 1);
    assert_eq!(scripts.get(0).language_version().kind(), LanguageKind::PlutusV2);
    assert!(ws.plutus_data().is_none());

    // what the ledger derives: redeemer bytes | (no datums) | language views of V2 only
    let mut pre = reds.to_bytes();
    pre.extend(lang_views(None, Some(&c2), None));
    let expected = blake2b256(&pre);

    assert_eq!(
        tx.body().script_data_hash().unwrap().to_bytes(),
        expected,
        "script data hash in the body does not match the witness set that is emitted"
    );
}
