#![allow(deprecated)]
// C10 / pre-existing violation 1 (clean HEAD): voting redeemers are indexed in CSL's own order of voters
// (key-hash credentials before script-hash credentials: derived Ord of CredType { Key, Script }),
// the ledger indexes `Map Voter ...` in ITS order: CommitteeVoter < DRepVoter < StakePoolVoter and, inside a
// role, `Credential = ScriptHashObj | KeyHashObj` i.e. script hashes BEFORE key hashes
// (the same rule withdrawals_builder.rs::reward_account_precedes already implements for reward accounts).
// As soon as one transaction carries votes of a key voter and of a Plutus voter of the same role, the vote
// redeemer of the Plutus voter designates the key voter.
use cardano_serialization_lib::*;

fn tx_builder() -> TransactionBuilder {
    let cfg = TransactionBuilderConfigBuilder::new()
        .fee_algo(&LinearFee::new(&BigNum::from(44u64), &BigNum::from(155381u64)))
        .pool_deposit(&BigNum::from(500000000u64))
        .key_deposit(&BigNum::from(2000000u64))
        .max_value_size(5000)
        .max_tx_size(16384)
        .coins_per_utxo_byte(&BigNum::from(4310u64))
        .ex_unit_prices(&ExUnitPrices::new(
            &UnitInterval::new(&BigNum::from(577u64), &BigNum::from(10000u64)),
            &UnitInterval::new(&BigNum::from(721u64), &BigNum::from(10000000u64)),
        ))
        .ref_script_coins_per_byte(&UnitInterval::new(&BigNum::from(1u64), &BigNum::from(2u64)))
        .build()
        .unwrap();
    TransactionBuilder::new(&cfg)
}

fn plutus_script(x: u8) -> PlutusScript {
    let mut bytes = hex::decode("4e4d01000033222220051200120011").unwrap();
    let pos = bytes.len() - 1;
    bytes[pos] = x;
    PlutusScript::from_bytes_with_version(bytes, &Language::new_plutus_v2()).unwrap()
}

fn data_of(x: u64) -> PlutusData {
    PlutusData::new_integer(&BigInt::from_str(&x.to_string()).unwrap())
}

fn redeemer(x: u64) -> Redeemer {
    Redeemer::new(
        &RedeemerTag::new_spend(),
        &BigNum::from(99u64),
        &data_of(x),
        &ExUnits::new(&BigNum::from(x), &BigNum::from(x)),
    )
}

fn input(b: u8, ix: u32) -> TransactionInput {
    TransactionInput::new(&TransactionHash::from_bytes(vec![b; 32]).unwrap(), ix)
}

fn key_hash(b: u8) -> Ed25519KeyHash {
    Ed25519KeyHash::from_bytes(vec![b; 28]).unwrap()
}

fn ada(x: u64) -> Value {
    Value::new(&BigNum::from(x))
}

fn redeemers_of(tx: &Transaction) -> Vec<Redeemer> {
    let r = tx.witness_set().redeemers().unwrap_or(Redeemers::new());
    (0..r.len()).map(|i| r.get(i)).collect()
}

/// the ledger's order of voters: role, then script credentials before key credentials, then hash bytes
fn ledger_key(v: &Voter) -> (u8, u8, Vec<u8>) {
    let (role, cred) = match v.kind() {
        VoterKind::ConstitutionalCommitteeHotKeyHash | VoterKind::ConstitutionalCommitteeHotScriptHash => {
            (0, v.to_constitutional_committee_hot_credential().unwrap())
        }
        VoterKind::DRepKeyHash | VoterKind::DRepScriptHash => (1, v.to_drep_credential().unwrap()),
        VoterKind::StakingPoolKeyHash => {
            return (2, 1, v.to_stake_pool_key_hash().unwrap().to_bytes());
        }
    };
    match cred.to_scripthash() {
        Some(h) => (role, 0, h.to_bytes()),
        None => (role, 1, cred.to_keyhash().unwrap().to_bytes()),
    }
}

fn check_vote_pointers(tx: &Transaction, expected: &[(Voter, PlutusData)]) {
    let vp = tx.body().voting_procedures().unwrap();
    let vs = vp.get_voters();
    let mut voters: Vec<Voter> = (0..vs.len()).map(|i| vs.get(i).unwrap()).collect();
    voters.sort_by_key(|v| ledger_key(v));
    let votes: Vec<Redeemer> = redeemers_of(tx)
        .into_iter()
        .filter(|r| r.tag().kind() == RedeemerTagKind::Vote)
        .collect();
    assert_eq!(votes.len(), expected.len());
    for r in &votes {
        let ix: u64 = r.index().into();
        assert!((ix as usize) < voters.len());
        let pointed = &voters[ix as usize];
        let exp = expected
            .iter()
            .find(|(v, _)| v == pointed)
            .expect("vote redeemer points at a voter that is not Plutus-locked (a key voter)");
        assert_eq!(r.data(), exp.1, "vote redeemer designates another voter than the one it was attached to");
    }
}

#[test]
fn vote_redeemer_of_a_script_drep_next_to_a_key_drep() {
    let script = plutus_script(1);
    let script_voter = Voter::new_drep_credential(&Credential::from_scripthash(&script.hash()));
    let key_voter = Voter::new_drep_credential(&Credential::from_keyhash(&key_hash(1)));
    let action = GovernanceActionId::new(&TransactionHash::from_bytes(vec![7; 32]).unwrap(), 0);
    let procedure = VotingProcedure::new(VoteKind::Yes);

    for order in 0..2 {
        let mut vb = VotingBuilder::new();
        if order == 0 {
            vb.add(&key_voter, &action, &procedure).unwrap();
        }
        vb.add_with_plutus_witness(
            &script_voter,
            &action,
            &procedure,
            &PlutusWitness::new_without_datum(&script, &redeemer(5)),
        )
        .unwrap();
        if order == 1 {
            vb.add(&key_voter, &action, &procedure).unwrap();
        }

        // builder level: the script voter is voter number 0 of the ledger's map
        let w = vb.get_plutus_witnesses();
        assert_eq!(w.len(), 1);

        // a complete, checked transaction
        let mut b = tx_builder();
        b.set_voting_builder(&vb);
        b.add_key_input(&key_hash(9), &input(1, 0), &ada(10_000_000));
        let mut coll = TxInputsBuilder::new();
        coll.add_key_input(&key_hash(9), &input(2, 0), &ada(5_000_000));
        b.set_collateral(&coll);
        let mut cm = Costmdls::new();
        cm.insert(&Language::new_plutus_v2(), &CostModel::new());
        b.calc_script_data_hash(&cm).unwrap();
        let change = EnterpriseAddress::new(1, &Credential::from_keyhash(&key_hash(9))).to_address();
        b.add_change_if_needed(&change).unwrap();
        let tx = b.build_tx().unwrap();

        check_vote_pointers(&tx, &[(script_voter.clone(), data_of(5))]);
        assert_eq!(w.get(0).redeemer().index(), BigNum::from(0u64));
    }
}

#[test]
fn vote_redeemer_of_a_script_committee_member_next_to_a_key_member() {
    let script = plutus_script(2);
    let script_voter =
        Voter::new_constitutional_committee_hot_credential(&Credential::from_scripthash(&script.hash()));
    let key_voter =
        Voter::new_constitutional_committee_hot_credential(&Credential::from_keyhash(&key_hash(0xff)));
    let action = GovernanceActionId::new(&TransactionHash::from_bytes(vec![7; 32]).unwrap(), 1);
    let procedure = VotingProcedure::new(VoteKind::No);

    let mut vb = VotingBuilder::new();
    vb.add_with_plutus_witness(
        &script_voter,
        &action,
        &procedure,
        &PlutusWitness::new_without_datum(&script, &redeemer(6)),
    )
    .unwrap();
    vb.add(&key_voter, &action, &procedure).unwrap();

    let mut b = tx_builder();
    b.set_voting_builder(&vb);
    b.add_key_input(&key_hash(9), &input(1, 0), &ada(10_000_000));
    b.set_fee(&BigNum::from(1_000_000u64));
    let tx = b.build_tx_unsafe().unwrap();
    check_vote_pointers(&tx, &[(script_voter.clone(), data_of(6))]);
}
