// PRE-EXISTING 4: encode_json_str_to_native_script (wallet schema), utils.rs:950-955: at_least is read as u64 and cast with 'n as u32':
// 4294967297 silently becomes 1 (an n-of-k script that is far weaker than written). Fix: u32::try_from(n) with an explicit error.
use cardano_serialization_lib::*;

#[allow(dead_code)]
fn pid(x: u8) -> ScriptHash { ScriptHash::from_bytes(vec![x; 28]).unwrap() }
#[allow(dead_code)]
fn an(x: u8) -> AssetName { AssetName::new(vec![x]).unwrap() }
#[allow(dead_code)]
fn bn(x: u64) -> BigNum { BigNum::from_str(&x.to_string()).unwrap() }

#[test]
fn at_least_is_truncated_to_u32() {
    let xpub = "ab".repeat(64);
    let json = format!(r#"{{"cosigners": {{"cosigner#0": "{}"}}, "template": {{"some": {{"at_least": 4294967297, "from": ["cosigner#0"]}}}}}}"#, xpub);
    match encode_json_str_to_native_script(&json, &xpub, ScriptSchema::Wallet) {
        Err(_) => {}
        Ok(s) => panic!("at_least 4294967297 silently became {}", s.as_script_n_of_k().unwrap().n()),
    }
}
