// place at rust/tests/demo.rs; cargo test --offline --test demo: fails before the fix (fee set 170121 < 176193), passes after
// KF-37 (C06) - native replay, public API only: a collateral input at a Byron address needs a bootstrap witness in the final transaction;
// the fee the builder sets must cover it.
use cardano_serialization_lib::*;

fn key_hash(x: u8) -> Ed25519KeyHash { Ed25519KeyHash::from_bytes(vec![x; 28]).unwrap() }
fn tx_input(x: u8, index: u32) -> TransactionInput {
    TransactionInput::new(&TransactionHash::from_bytes(vec![x; 32]).unwrap(), index)
}
fn base_address(x: u8) -> Address {
    BaseAddress::new(NetworkInfo::testnet_preprod().network_id(),
        &Credential::from_keyhash(&key_hash(x)), &Credential::from_keyhash(&key_hash(x.wrapping_add(100)))).to_address()
}
fn vkey_witness(x: u8) -> Vkeywitness {
    let mut key = [7u8; 32]; key[0] = x;
    Vkeywitness::new(&Vkey::new(&PublicKey::from_bytes(&key).unwrap()), &Ed25519Signature::from_bytes(vec![x; 64]).unwrap())
}
fn cfgb(linear_fee: &LinearFee, cpb: u64) -> TransactionBuilderConfigBuilder {
    TransactionBuilderConfigBuilder::new().fee_algo(linear_fee)
        .pool_deposit(&BigNum::from(500_000_000u64)).key_deposit(&BigNum::from(2_000_000u64))
        .max_value_size(5000).max_tx_size(16384).coins_per_utxo_byte(&BigNum::from(cpb))
}

#[test]
fn byron_collateral_input_gets_its_bootstrap_witness_in_the_fee_estimate() {
    let linear_fee = LinearFee::new(&BigNum::from(44u64), &BigNum::from(155381u64));
    let mut b = TransactionBuilder::new(&cfgb(&linear_fee, 4310).build().unwrap());
    let byron = ByronAddress::from_base58("Ae2tdPwUPEZ5uzkzh1o2DHECiUi3iugvnnKHRisPgRRP3CTF4KCMvy54Xd3").unwrap();
    let mut col = TxInputsBuilder::new();
    col.add_bootstrap_input(&byron, &tx_input(20, 0), &Value::new(&BigNum::from(10_000_000u64)));
    b.set_collateral(&col);
    let mut inputs = TxInputsBuilder::new();
    inputs.add_regular_input(&base_address(1), &tx_input(1, 0), &Value::new(&BigNum::from(10_000_000u64))).unwrap();
    b.set_inputs(&inputs);
    b.add_output(&TransactionOutput::new(&base_address(9), &Value::new(&BigNum::from(3_000_000u64)))).unwrap();
    b.add_change_if_needed(&base_address(10)).unwrap();
    let tx = b.build_tx().unwrap();
    let mut vkeys = Vkeywitnesses::new();
    vkeys.add(&vkey_witness(1));
    let mut ws = tx.witness_set();
    ws.set_vkeys(&vkeys);
    let mut boots = BootstrapWitnesses::new();
    boots.add(&BootstrapWitness::new(&Vkey::new(&PublicKey::from_bytes(&[9u8; 32]).unwrap()),
        &Ed25519Signature::from_bytes(vec![9; 64]).unwrap(), vec![1u8; 32], byron.attributes()));
    ws.set_bootstraps(&boots);
    let signed = Transaction::new(&tx.body(), &ws, None);
    let m = min_fee(&signed, &linear_fee).unwrap();
    assert!(tx.body().fee() >= m, "fee set {} < minimum fee of the signed transaction {}", tx.body().fee().to_str(), m.to_str());
}

