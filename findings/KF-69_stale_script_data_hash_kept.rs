// Pre-existing (clean HEAD): calc_script_data_hash run again after every Plutus item was removed
// (set_inputs with plain inputs) keeps the OLD hash: tx_builder.rs calc_script_data_hash only assigns when
// datums/redeemers/cost models are non-empty and never clears self.script_data_hash.
use cardano_serialization_lib::*;
use cryptoxide::blake2b::Blake2b;

fn blake2b256(data: &[u8]) -> Vec<u8> {
    let mut out = [0u8; 32];
    Blake2b::blake2b(&mut out, data, &[]);
    out.to_vec()
}

fn cost_model(vals: &[i32]) -> CostModel {
    let mut cm = CostModel::new();
    for (i, v) in vals.iter().enumerate() {
        cm.set(i, &Int::new_i32(*v)).unwrap();
    }
    cm
}

// independent encoder of the ledger's language views (small non-negative costs < 24 only)
fn lang_views(v1: Option<&[i32]>, v2: Option<&[i32]>, v3: Option<&[i32]>) -> Vec<u8> {
    let n = v1.is_some() as u8 + v2.is_some() as u8 + v3.is_some() as u8;
    let mut b = vec![0xA0 + n];
    if let Some(c) = v2 {
        b.push(0x01);
        b.push(0x80 + c.len() as u8);
        b.extend(c.iter().map(|x| *x as u8));
    }
    if let Some(c) = v3 {
        b.push(0x02);
        b.push(0x80 + c.len() as u8);
        b.extend(c.iter().map(|x| *x as u8));
    }
    if let Some(c) = v1 {
        b.extend([0x41, 0x00]);
        let mut inner = vec![0x9f];
        inner.extend(c.iter().map(|x| *x as u8));
        inner.push(0xff);
        b.push(0x40 + inner.len() as u8);
        b.extend(inner);
    }
    b
}

fn builder() -> TransactionBuilder {
    let cfg = TransactionBuilderConfigBuilder::new()
        .fee_algo(&LinearFee::new(&BigNum::from(44u32), &BigNum::from(155381u32)))
        .pool_deposit(&BigNum::from(500000000u32))
        .key_deposit(&BigNum::from(2000000u32))
        .max_value_size(5000)
        .max_tx_size(16384)
        .coins_per_utxo_byte(&BigNum::from(4310u32))
        .ex_unit_prices(&ExUnitPrices::new(
            &UnitInterval::new(&BigNum::from(577u32), &BigNum::from(10000u32)),
            &UnitInterval::new(&BigNum::from(721u32), &BigNum::from(10000000u32)),
        ))
        .ref_script_coins_per_byte(&UnitInterval::new(&BigNum::from(15u32), &BigNum::from(1u32)))
        .build()
        .unwrap();
    TransactionBuilder::new(&cfg)
}

fn tx_in(b: u8, idx: u32) -> TransactionInput {
    TransactionInput::new(&TransactionHash::from_bytes(vec![b; 32]).unwrap(), idx)
}

fn redeemer(n: u32) -> Redeemer {
    Redeemer::new(
        &RedeemerTag::new_spend(),
        &BigNum::from(0u32),
        &PlutusData::new_integer(&BigInt::from(n)),
        &ExUnits::new(&BigNum::from(10u32), &BigNum::from(20u32)),
    )
}


fn ledger_hash(tx: &Transaction, lv: Vec<u8>) -> Option<Vec<u8>> {
    let ws = tx.witness_set();
    let reds = ws.redeemers().filter(|r| r.len() > 0);
    let dats = ws.plutus_data().filter(|d| d.len() > 0);
    if reds.is_none() && dats.is_none() && lv == vec![0xA0] { return None; }
    let mut pre = match &reds { Some(r) => r.to_bytes(), None => vec![0xA0] };
    if let Some(list) = dats {
        let mut b = vec![0xd9, 0x01, 0x02, 0x9f];
        for i in 0..list.len() { b.extend(list.get(i).to_bytes()); }
        b.push(0xff);
        pre.extend(b);
    }
    pre.extend(lv);
    Some(blake2b256(&pre))
}

fn coll(tb: &mut TransactionBuilder) {
    let key = Ed25519KeyHash::from_bytes(vec![7u8; 28]).unwrap();
    let mut coll = TxInputsBuilder::new();
    coll.add_key_input(&key, &tx_in(9, 0), &Value::new(&BigNum::from(5_000_000u32)));
    tb.set_collateral(&coll);
}

#[test]
fn p2_recalc_after_scripts_removed() {
    let c2: [i32; 2] = [4, 5];
    let mut cms = Costmdls::new();
    cms.insert(&Language::new_plutus_v2(), &cost_model(&c2));
    let s2 = PlutusScript::new_v2(vec![4, 5, 6]);
    let key = Ed25519KeyHash::from_bytes(vec![7u8; 28]).unwrap();
    let mut tb = builder();
    tb.add_plutus_script_input(&PlutusWitness::new_without_datum(&s2, &redeemer(2)), &tx_in(2, 0), &Value::new(&BigNum::from(5_000_000u32)));
    coll(&mut tb);
    tb.calc_script_data_hash(&cms).unwrap();
    // the application starts over with a plain set of inputs and recomputes the hash
    let mut ins = TxInputsBuilder::new();
    ins.add_key_input(&key, &tx_in(3, 0), &Value::new(&BigNum::from(5_000_000u32)));
    tb.set_inputs(&ins);
    tb.calc_script_data_hash(&cms).unwrap();
    tb.set_fee(&BigNum::from(5_000_000u32));
    let tx = tb.build_tx().unwrap();
    assert_eq!(tx.body().script_data_hash().map(|h| h.to_bytes()), ledger_hash(&tx, vec![0xA0]));
}

