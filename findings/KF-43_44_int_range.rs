// KF-43 / KF-44 (C14): place at rust/tests/demo.rs; all five tests fail before the two fixes, pass after
use cardano_serialization_lib::*;
// PRE-EXISTING (clean HEAD): encode_json_str_to_metadatum / encode_json_value_to_metadatum,
// BasicConversions schema: an object key that parses as an i128 becomes Int(x) WITHOUT any range
// check (rust/src/protocol_types/metadata.rs, `raw_key.parse::<i128>()` -> `Int(x)`), so an Int
// outside -2^64 ..= 2^64-1 is obtainable through the public API and is then written to CBOR
// truncated (`self.0 as u64` / `self.0 as i64` in serialization/numeric/int.rs).


#[test]
fn metadata_json_key_gives_out_of_range_int() {
    let md = encode_json_str_to_metadatum(
        "{\"18446744073709551616\": 1}".to_string(), // 2^64
        MetadataJsonSchema::BasicConversions,
    );
    if let Ok(md) = md {
        let key = md.as_map().unwrap().keys().get(0);
        // either the key is kept as text / rejected, or it is an int that is in range
        if let Ok(i) = key.as_int() {
            assert!(
                Int::from_str(&i.to_str()).is_ok(),
                "Int {} is outside the CBOR int range",
                i.to_str()
            );
        }
    }
}

#[test]
fn metadata_json_key_int_is_truncated_by_cbor() {
    let md = encode_json_str_to_metadatum(
        "{\"18446744073709551621\": 1}".to_string(), // 2^64 + 5
        MetadataJsonSchema::BasicConversions,
    );
    if let Ok(md) = md {
        let back = TransactionMetadatum::from_bytes(md.to_bytes()).unwrap();
        assert_eq!(back, md, "metadatum does not survive its own CBOR encoding");
    }
}
// PRE-EXISTING (clean HEAD): Int(-2^64) is a legal value (lowest CBOR nint, accepted by
// Int::from_bytes and written back exactly) but its decimal-string / JSON encoding does not round
// trip: Int::from_str rejects everything below -(2^64 - 1)
// (rust/src/protocol_types/numeric/int.rs: `x < -(u64::MAX as i128)`), and serde's Deserialize for
// Int goes through from_str, so to_json -> from_json fails too.


fn lowest() -> Int {
    Int::from_bytes(vec![0x3b, 0xff, 0xff, 0xff, 0xff, 0xff, 0xff, 0xff, 0xff]).unwrap()
}

#[test]
fn lowest_int_decimal_string_roundtrip() {
    let i = lowest();
    assert_eq!(i.to_str(), "-18446744073709551616");
    let back = Int::from_str(&i.to_str());
    assert!(back.is_ok(), "Int::from_str(Int::to_str(-2^64)) is an error");
    assert_eq!(back.unwrap(), i);
}

#[test]
fn lowest_int_json_roundtrip() {
    let i = lowest();
    let json = i.to_json().unwrap();
    let back = Int::from_json(&json);
    assert!(back.is_ok(), "Int::from_json(Int::to_json(-2^64)) is an error");
}

#[test]
fn mint_with_lowest_int_json_roundtrip() {
    // { policy: { name: -2^64 } }
    let mut bytes = vec![0xa1, 0x58, 28];
    bytes.extend(vec![1u8; 28]);
    bytes.extend(vec![0xa1, 0x41, 0x01, 0x3b, 0xff, 0xff, 0xff, 0xff, 0xff, 0xff, 0xff, 0xff]);
    let mint = Mint::from_bytes(bytes).unwrap();
    let json = mint.to_json().unwrap();
    assert!(Mint::from_json(&json).is_ok(), "Mint JSON with amount -2^64 cannot be read back");
}
