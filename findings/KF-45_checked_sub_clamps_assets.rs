// KF-45 (C14): place at rust/tests/demo.rs; fails on the current tree
// PRE-EXISTING (clean HEAD): Value::checked_sub is checked for the lovelace only. For the assets it
// calls MultiAsset::sub (rust/src/lib.rs), which silently CLAMPS: an asset whose amount would go
// negative is dropped (`Err(_) => assets.0.remove(asset_name)`), and an asset / policy missing
// on the left is ignored; `(None, Some(_)) => None` in Value::checked_sub (rust/src/utils.rs) does
// the same. So checked_sub returns Ok with a saturated result instead of the exact result or an error.
use cardano_serialization_lib::*;

fn pid(b: u8) -> ScriptHash {
    ScriptHash::from_bytes(vec![b; 28]).unwrap()
}
fn an(b: u8) -> AssetName {
    AssetName::new(vec![b]).unwrap()
}

#[test]
fn checked_sub_of_a_larger_asset_amount() {
    let mut a = MultiAsset::new();
    a.set_asset(&pid(1), &an(1), &BigNum::from(5u64));
    let mut b = MultiAsset::new();
    b.set_asset(&pid(1), &an(1), &BigNum::from(7u64));
    let va = Value::new_with_assets(&BigNum::from(10u64), &a);
    let vb = Value::new_with_assets(&BigNum::from(1u64), &b);
    let r = va.checked_sub(&vb);
    assert!(r.is_err(), "asset 5 - 7 gave {:?} instead of an underflow error", r.unwrap());
}

#[test]
fn checked_sub_of_an_asset_the_left_side_does_not_hold() {
    let mut a = MultiAsset::new();
    a.set_asset(&pid(1), &an(1), &BigNum::from(5u64));
    let mut b = MultiAsset::new();
    b.set_asset(&pid(2), &an(2), &BigNum::from(7u64));
    let va = Value::new_with_assets(&BigNum::from(10u64), &a);
    let vb = Value::new_with_assets(&BigNum::from(1u64), &b);
    assert!(va.checked_sub(&vb).is_err());
}

#[test]
fn checked_sub_of_assets_from_pure_ada() {
    let mut b = MultiAsset::new();
    b.set_asset(&pid(1), &an(1), &BigNum::from(7u64));
    let va = Value::new(&BigNum::from(10u64));
    let vb = Value::new_with_assets(&BigNum::from(1u64), &b);
    assert!(va.checked_sub(&vb).is_err());
}

#[test]
fn addition_does_not_undo_checked_subtraction() {
    // where checked_sub says Ok, adding the subtrahend back must give the minuend
    let mut a = MultiAsset::new();
    a.set_asset(&pid(1), &an(1), &BigNum::from(5u64));
    let mut b = MultiAsset::new();
    b.set_asset(&pid(1), &an(1), &BigNum::from(7u64));
    let va = Value::new_with_assets(&BigNum::from(10u64), &a);
    let vb = Value::new_with_assets(&BigNum::from(1u64), &b);
    if let Ok(diff) = va.checked_sub(&vb) {
        assert_eq!(diff.checked_add(&vb).unwrap(), va);
    }
}
