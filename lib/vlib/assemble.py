"""Assemble one Verus file per unit from the *current* /repo sources and the unit's contract store.

Everything executable in the assembled file is either (a) text copied from /repo at run time and put
through the closed list of rewrites below, or (b) a declaration from the unit's prelude (opaque types, spec
functions, assumed contracts), or (c) ghost material (proof blocks, invariants) from unit.toml.
The function records which rewrite touched what, for the evidence file."""
import hashlib
import os
import re
import tomllib

from .rscan import Src, AnchorLost, code_mask, match_close, find_code, norm_ws

REPO = os.environ.get("VERIF_REPO", "/repo")
VERIF = os.path.dirname(os.path.dirname(os.path.dirname(os.path.abspath(__file__))))
# developer sandbox (never set by the registered commands): with VERIF_DEV_SANDBOX=<name> (and usually VERIF_REPO=<scratch worktree>) all
# scratch files, caches, replay files and evidence go to .work-<name>/ so that seeded-change experiments can run next to real checks.
_SBX = os.environ.get("VERIF_DEV_SANDBOX", "")
WORKDIR = os.path.join(VERIF, ".work" + ("-" + _SBX if _SBX else ""))
EVIDENCE_DIR = os.path.join(WORKDIR, "evidence") if _SBX else os.path.join(VERIF, "evidence")
REPLAY_DIR = os.path.join(WORKDIR, "replay") if _SBX else os.path.join(VERIF, "replay")


class Unsupported(Exception):
    pass


# --------------------------------------------------------------------------------------------------
# rewrites (closed list).  Each takes text and returns (text, [(rule, before, after)])
# --------------------------------------------------------------------------------------------------

def _balanced_call_end(s, m, open_idx):
    return match_close(s, m, open_idx)


def r_fmt(s):
    """format!(..) / &format!(..) -> "" ; also panic-free: only message text is dropped."""
    log = []
    while True:
        m = code_mask(s)
        mo = None
        for x in re.finditer(r"&?\s*format!\s*[\(\{\[]", s):
            if m[x.end() - 1] and m[x.start()]:
                mo = x
                break
        if mo is None:
            return s, log
        e = match_close(s, m, mo.end() - 1)
        # an owned String is wanted where the text is the direct argument of an error variant that stores a String
        owned = (not mo.group(0).lstrip().startswith("&")) and re.search(r"\bCustomError\s*\(\s*$", s[:mo.start()]) is not None
        rep = "String::new()" if owned else '""'
        log.append(("R-fmt", norm_ws(s[mo.start():e + 1])[:120], rep))
        s = s[:mo.start()] + rep + s[e + 1:]


def r_vis(s):
    log = []
    n = re.sub(r"\bpub\s*\(\s*(crate|super|self|in [\w:]+)\s*\)", "pub", s)
    if n != s:
        log.append(("R-vis", "pub(crate|super)", "pub"))
    return n, log


def r_attrs(s):
    """strip outer attributes and doc comments in extracted type definitions / fn bodies' heads."""
    log = []
    n = re.sub(r"(?m)^[ \t]*///.*\n", "", s)
    n = re.sub(r"(?m)^[ \t]*#\[(?:wasm_bindgen|deprecated|allow|derive|serde|cfg_attr|doc|inline)[^\]]*(\([^\]]*\))?\]\s*\n", "", n)
    if n != s:
        log.append(("R-vis", "attributes/doc comments", "(dropped)"))
    return n, log


def r_mutself(sig, body):
    """fn f(mut self, ..) { B }  ->  fn f(self, ..) { let mut self_ = self; B[self -> self_] }"""
    if not re.search(r"\(\s*mut\s+self\b", sig):
        raise Unsupported("R-mutself: no `mut self` receiver")
    sig2 = re.sub(r"\(\s*mut\s+self\b", "(self", sig, count=1)
    m = code_mask(body)
    out = []
    i = 0
    for mo in re.finditer(r"\bself\b", body):
        if m[mo.start()]:
            out.append(body[i:mo.start()])
            out.append("self_")
            i = mo.end()
    out.append(body[i:])
    b2 = "".join(out)
    b2 = "{ let mut self_ = self; " + b2[1:]
    return sig2, b2, [("R-mutself", "mut self", "let mut self_ = self; body[self:=self_]")]


def r_mutparam(sig, body, name):
    """fn f(.., mut x: T) { B } -> fn f(.., x: T) { let mut x = x; B }"""
    pat = re.compile(r"\bmut\s+" + re.escape(name) + r"\s*:")
    if not pat.search(sig):
        raise Unsupported("R-mutparam: no `mut %s` parameter" % name)
    sig2 = pat.sub(name + ":", sig, count=1)
    b2 = "{ let mut %s = %s; " % (name, name) + body[1:]
    return sig2, b2, [("R-mutparam", "mut %s: T" % name, "let mut %s = %s;" % (name, name))]


def r_extend(s):
    """v.extend(E);  ->  { let mut tmp_ = E; v.append(&mut tmp_); }   (E must be a Vec; else type error)"""
    log = []
    k = 0
    while True:
        m = code_mask(s)
        mo = None
        for x in re.finditer(r"([A-Za-z_][\w\.]*)\.extend\(", s):
            if x.start() >= k and m[x.start()]:
                mo = x
                break
        if mo is None:
            return s, log
        e = match_close(s, m, mo.end() - 1)
        arg = s[mo.end():e]
        semi = e + 1
        while s[semi] in " \t\n":
            semi += 1
        if s[semi] != ";":
            raise Unsupported("R-extend: not a statement")
        new = "{ let mut tmp_ = %s; %s.append(&mut tmp_); }" % (arg, mo.group(1))
        log.append(("R-extend", norm_ws(s[mo.start():semi + 1])[:120], norm_ws(new)[:160]))
        s = s[:mo.start()] + new + s[semi + 1:]
        k = mo.start() + len(new)


def r_serret_sig(sig):
    """fn serialize<'se, W: Write>(&self, serializer: &'se mut Serializer<W>) -> cbor_event::Result<&'se mut Serializer<W>>
       -> fn serialize(&self, serializer: &mut Serializer) -> Result<(), CborError>      (any lifetime name; `W: Write [+ Sized]`)"""
    s2 = sig
    s2 = re.sub(r"<\s*'\w+\s*,\s*W\s*:\s*(?:std::io::)?Write(?:\s*\+\s*Sized)?\s*>", "", s2)
    s2 = re.sub(r"&\s*'\w+\s+mut\s+Serializer\s*<\s*W\s*>", "&mut Serializer", s2)
    s2 = re.sub(r"->\s*cbor_event::Result\s*<\s*&mut Serializer\s*>", "-> Result<(), CborError>", s2)
    if s2 == sig or "<W>" in s2 or re.search(r"&\s*'\w+\s+mut\s+Serializer", s2):
        raise Unsupported("R-serret: signature shape not recognised: " + norm_ws(sig))
    return s2, [("R-serret", norm_ws(sig)[:160], norm_ws(s2)[:160])]


def r_serret_body(body):
    """tail `Ok(serializer)` -> `Ok(())`; `return Ok(serializer)` likewise; a tail call `x.serialize(serializer)` /
    `serializer.write_*(..)` whose value is returned -> `{ <call>?; Ok(()) }` is NOT done here (would hide the callee's
    result); instead such tails are written `<call>` and the prelude's callee returns Result<(),CborError> as well."""
    m = code_mask(body)
    out = []
    i = 0
    n = 0
    for mo in re.finditer(r"\bOk\(\s*serializer\s*\)", body):
        if m[mo.start()]:
            out.append(body[i:mo.start()])
            out.append("Ok(())")
            i = mo.end()
            n += 1
    out.append(body[i:])
    body2 = "".join(out)
    log = [("R-serret", "Ok(serializer)", "Ok(())  x%d" % n)] if n else []
    # re-binding style (legacy_address): every write returns the serializer it was called on, so
    #   `let s = s.write_a(x)?;`                                                  is  `s.write_a(x)?;`
    #   `let s = match E { &None => s, &Some(P) => s.write_a(x)?.write_b(y)?, };`  is  `match E { &None => {}, &Some(P) => { s.write_a(x)?; s.write_b(y)?; } }`
    kb = 0
    while True:
        mo = re.search(r"\blet\s+(\w+)\s*=\s*\1\s*\.(write_\w+\([^;]*\)\?)\s*;", body2)
        if not mo or not code_mask(body2)[mo.start()]:
            break
        body2 = body2[:mo.start()] + "%s.%s;" % (mo.group(1), mo.group(2)) + body2[mo.end():]
        kb += 1
    while True:
        mo = re.search(r"\blet\s+(\w+)\s*=\s*match\s+([^{]+?)\{\s*(&?)None\s*=>\s*\1\s*,\s*&?Some\(([^)]*)\)\s*=>\s*(\1\s*\.[^{}]*?\?)\s*,?\s*\}\s*;", body2, re.S)
        if not mo or not code_mask(body2)[mo.start()]:
            break
        sname, scrut, amp, pat, chain = mo.group(1), mo.group(2).strip(), mo.group(3), mo.group(4), norm_ws(mo.group(5))
        body2 = body2[:mo.start()] + "match %s { %sNone => {}, %sSome(%s) => { %s; } }" % (scrut, amp, amp, pat, chain) + body2[mo.end():]
        kb += 1
        if kb > 50:
            raise Unsupported("R-serret: re-binding writes did not converge")
    if kb:
        log.append(("R-serret", "let s = s.write_a(x)?; / let s = match E { &None => s, &Some(p) => s.write..()? };", "statement form  x%d" % kb))
    # chained writes: each write returns the serializer it was called on, so `s.write_a(x)?.write_b(y)` is `s.write_a(x)?; s.write_b(y)`
    k = 0
    while True:
        mo = re.search(r"\b(\w+)\s*\.\s*(write_\w+)\(([^()]*)\)\?\s*\.\s*(write_\w+)\(", body2)
        if not mo or not code_mask(body2)[mo.start()]:
            break
        body2 = body2[:mo.start()] + "%s.%s(%s)?; %s.%s(" % (mo.group(1), mo.group(2), mo.group(3), mo.group(1), mo.group(4)) + body2[mo.end():]
        k += 1
        if k > 50:
            raise Unsupported("R-serret: chained writes did not converge")
    if k:
        log.append(("R-serret", "s.write_a(x)?.write_b(", "s.write_a(x)?; s.write_b(  x%d" % k))
    return body2, log



def r_seek(body):
    """the four std::io::Cursor idioms of the decoders -> four prelude methods whose contracts state the Cursor semantics (R-seek)"""
    log = []
    rules = [
        (r"(\w+)\s*\.as_mut_ref\(\)\s*\.seek\(SeekFrom::Current\(0\)\)\s*\.unwrap\(\)", r"\1.pos_()"),
        (r"(\w+)\s*\.as_mut_ref\(\)\s*\.seek\(SeekFrom::Start\(([^()]+)\)\)\s*\.unwrap\(\)", r"\1.set_pos(\2)"),
        (r"(\w+)\s*\.as_mut_ref\(\)\s*\.fill_buf\(\)\s*\.unwrap\(\)\s*\[\s*\.\.\s*([^\]]+)\]\s*\.to_vec\(\)", r"\1.peek_vec(\2)"),
        (r"(\w+)\s*\.as_mut_ref\(\)\s*\.consume\(([^()]+)\)", r"\1.skip_raw(\2)"),
    ]
    for (rx, rep) in rules:
        n = len(re.findall(rx, body))
        if n:
            body = re.sub(rx, rep, body)
            log.append(("R-seek", rx[:60], "%s  x%d" % (rep, n)))
    return body, log


def r_subst(text, rules, where):
    """Anchored textual rewrites listed in unit.toml: each {rule, from, to}; `from` is matched after whitespace
    normalisation and must occur exactly `count` (default 1) times, otherwise the anchor is lost (UNDECIDED);
    `count = "any"` (only for rewrites that preserve meaning at every single occurrence on their own: renames of a callee path,
    eta-reduction of `|x| f(x)`) rewrites however many occurrences there are.
    Used only for the desugarings of the closed list that are not implemented as general transformers
    (R-optmap, R-tryfold, R-iife, R-seek); the evidence records before/after verbatim."""
    log = []
    for r in rules:
        frm = r["from"]
        # build a whitespace-tolerant regex from the literal
        parts = [re.escape(p) for p in frm.split()]
        rx = re.compile(r"\s*".join(parts))
        hits = list(rx.finditer(text))
        cnt = r.get("count", 1)
        if cnt != "any" and len(hits) != cnt:
            raise AnchorLost("%s: rewrite anchor for %s matched %d times (expected %d): %s" % (
                where, r.get("rule", "?"), len(hits), cnt, frm[:80]))
        text = rx.sub(lambda _m: r["to"], text)
        log.append((r.get("rule", "R-subst"), norm_ws(frm)[:200], norm_ws(r["to"])[:200]))
    return text, log


# --------------------------------------------------------------------------------------------------
# general desugarings with captured sub-expressions
# --------------------------------------------------------------------------------------------------

def _split_top_commas(s, angles=False):
    m = code_mask(s)
    out = []
    d = 0
    last = 0
    for i, ch in enumerate(s):
        if not m[i]:
            continue
        if ch in "([{":
            d += 1
        elif ch in ")]}":
            d -= 1
        elif angles and ch == "<":
            d += 1
        elif angles and ch == ">" and s[i - 1] != "-":
            d -= 1
        elif ch == "," and d == 0:
            out.append(s[last:i])
            last = i + 1
    out.append(s[last:])
    return out



def _recv_start(body, m, k):
    """start index of the receiver expression (path / method chain, possibly line-broken) that ends just before body[k] == '.'"""
    j = k
    while j > 0:
        ch = body[j - 1]
        if ch.isalnum() or ch in "_.:&":
            j -= 1
        elif ch == "?" :
            j -= 1
        elif ch in ")]":
            d = 0
            q = j - 1
            while q >= 0:
                if m[q]:
                    if body[q] in ")]":
                        d += 1
                    elif body[q] in "([":
                        d -= 1
                        if d == 0:
                            break
                q -= 1
            j = q
        elif ch in " \t\n":
            t = body[:j].rstrip()
            nxt = body[j:k + 1].lstrip()
            if nxt.startswith(".") and t and (t[-1].isalnum() or t[-1] in "_)]?"):
                j = len(t)
            else:
                break
        else:
            break
    # strip a leading '&' that belongs to an enclosing expression? keep: `&x.y.map(..)` is rare
    while j < k and body[j] in " \t\n":
        j += 1
    return j


def r_optmap(body, result=False):
    """Option/Result combinators with a closure literal -> the defining `match` (R-optmap). result=True: receiver is a Result (`.map` / `.and_then` / `.map_err`)."""
    log = []
    guard = 0
    while True:
        guard += 1
        if guard > 200:
            raise Unsupported("R-optmap: did not converge")
        m = code_mask(body)
        mo = None
        for x in re.finditer(r"\.(map|map_or|and_then|ok_or_else|unwrap_or_else|map_err|filter)\(\s*", body):
            if not m[x.start()]:
                continue
            close = match_close(body, m, x.end() - 1 - (len(x.group(0)) - len(x.group(0).rstrip())))
            args = body[x.end():close]
            kind = x.group(1)
            parts = _split_top_commas(args)
            clos = parts[-1].strip()
            if not clos.startswith("|"):
                continue   # not a closure literal (e.g. .map(Self)) -> leave to the verifier
            if kind == "map_err" and not result:
                continue
            if kind == "filter" and result:
                continue
            mo = (x, close, kind, parts, clos)
            break
        if mo is None:
            return body, log
        x, close, kind, parts, clos = mo
        cm = re.match(r"\|\s*([^|]*?)\s*\|\s*", clos)
        pat = cm.group(1).strip()
        pat = re.sub(r":\s*[^,]+$", "", pat).strip()      # drop a type ascription
        cbody = clos[cm.end():].strip()
        j = _recv_start(body, m, x.start())
        recv = body[j:x.start()].strip()
        if result and kind == "map":
            new = "(match %s { Ok(%s) => Ok(%s), Err(e_) => Err(e_) })" % (recv, pat, cbody)
        elif result and kind == "and_then":
            new = "(match %s { Ok(%s) => %s, Err(e_) => Err(e_) })" % (recv, pat, cbody)
        elif result and kind == "map_err":
            new = "(match %s { Ok(v_) => Ok(v_), Err(%s) => Err(%s) })" % (recv, pat if pat else "_", cbody)
        elif result:
            raise Unsupported("R-optmap(result): %s not handled" % kind)
        elif kind == "map":
            new = "(match %s { Some(%s) => Some(%s), None => None })" % (recv, pat, cbody)
        elif kind == "map_or":
            d = ",".join(parts[:-1]).strip()
            new = "(match %s { Some(%s) => %s, None => %s })" % (recv, pat, cbody, d)
        elif kind == "and_then":
            new = "(match %s { Some(%s) => %s, None => None })" % (recv, pat, cbody)
        elif kind == "ok_or_else":
            new = "(match %s { Some(v_) => Ok(v_), None => Err(%s) })" % (recv, cbody)
        elif kind == "unwrap_or_else":
            new = "(match %s { Some(v_) => v_, None => %s })" % (recv, cbody)
        elif kind == "filter":
            # Option::filter(|p| C): the closure sees a reference to the payload (an Option receiver is assumed: on an iterator the
            # rewritten text does not type-check and the function ends undecided)
            new = "(match %s { Some(v_) => { let keep_ = { let %s = &v_; %s }; if keep_ { Some(v_) } else { None } }, None => None })" % (recv, pat, cbody)
        log.append(("R-optmap", norm_ws(body[j:close + 1])[:200], norm_ws(new)[:240]))
        body = body[:j] + new + body[close + 1:]



def r_foreach(body):
    """RECV.for_each(|PAT| BODY)  ->  for PAT in RECV { BODY }      (definition of Iterator::for_each; R-foreach)"""
    log = []
    guard = 0
    while True:
        guard += 1
        if guard > 100:
            raise Unsupported("R-foreach: did not converge")
        m = code_mask(body)
        mo = None
        for x in re.finditer(r"\.for_each\(\s*", body):
            if m[x.start()]:
                mo = x
                break
        if mo is None:
            return body, log
        close = match_close(body, m, mo.end() - 1 - (len(mo.group(0)) - len(mo.group(0).rstrip())))
        clos = body[mo.end():close].strip()
        cm = re.match(r"\|\s*([^|]*?)\s*\|\s*", clos)
        if not cm:
            raise Unsupported("R-foreach: closure literal expected")
        pat = cm.group(1).strip()
        cbody = clos[cm.end():].strip()
        if not cbody.startswith("{"):
            cbody = "{ %s; }" % cbody
        j = _recv_start(body, m, mo.start())
        recv = body[j:mo.start()].strip()
        rs = re.sub(r"\s+", "", recv)
        if rs.endswith(".iter()"):
            # bind the iterated collection first (temporary lifetime extension of `&expr`), as the closure form keeps it alive
            base = recv[:recv.rstrip().rfind(".iter()")].rstrip()
            new = "{ let for_each_src_ = &(%s); for %s in for_each_src_.iter() %s }" % (base, pat, cbody)
        else:
            new = "for %s in %s %s" % (pat, recv, cbody)
        log.append(("R-foreach", norm_ws(body[j:close + 1])[:200], norm_ws(new)[:240]))
        body = body[:j] + new + body[close + 1:]



def _method_closure_calls(body, method):
    """yield (match, close_index, pattern, closure_body, recv_start, recv_text) for the first code occurrence of `.method(|PAT| BODY)`"""
    m = code_mask(body)
    for x in re.finditer(r"\.%s\(\s*" % re.escape(method), body):
        if not m[x.start()]:
            continue
        close = match_close(body, m, x.end() - 1 - (len(x.group(0)) - len(x.group(0).rstrip())))
        clos = body[x.end():close].strip()
        cm = re.match(r"\|\s*([^|]*?)\s*\|\s*", clos)
        if not cm:
            raise Unsupported("R-%s: closure literal expected" % method)
        pat = re.sub(r":\s*[^,]+$", "", cm.group(1).strip()).strip()
        cbody = clos[cm.end():].strip()
        j = _recv_start(body, m, x.start())
        return (x, close, pat, cbody, j, body[j:x.start()].strip())
    return None


def r_retain(body, elem="usize"):
    """RECV.retain(|PAT| COND);  ->  index loop that copies the elements satisfying COND, in order, into a fresh vector which then replaces RECV
    (definition of Vec::retain for Copy elements: a non-Copy element type no longer type-checks -> undecided).  (R-retain)"""
    log = []
    n = 0
    while True:
        hit = _method_closure_calls(body, "retain")
        if hit is None:
            return body, log
        x, close, pat, cbody, j, recv = hit
        e = close + 1
        while body[e] in " \t\n":
            e += 1
        if body[e] != ";":
            raise Unsupported("R-retain: statement form expected")
        sfx = "" if n == 0 else str(n)
        new = ("{ let mut kept%s_: Vec<" + elem + "> = Vec::new(); let mut ri%s_: usize = 0; while ri%s_ < %s.len() { let %s = &%s[ri%s_]; if %s { kept%s_.push(%s[ri%s_]); } "
               "ri%s_ = ri%s_ + 1; } %s = kept%s_; }") % (sfx, sfx, sfx, recv, pat, recv, sfx, cbody, sfx, recv, sfx, sfx, sfx, recv, sfx)
        log.append(("R-retain", norm_ws(body[j:e + 1])[:200], norm_ws(new)[:300]))
        body = body[:j] + new + body[e + 1:]
        n += 1


def r_sortbykey(body, ghosts):
    """RECV.sort_by_key(|PAT| KEY);  ->  the keys are computed once per element by an index loop over the REAL key expression, then the prelude's
    `sort_by_cached_keys_` (std's documented result: a permutation of the old content, non-decreasing in the key; ASSUMED) is called with them.
    Sound for a key expression without side effects (`Fn` closure).  The ghost argument (the key as a spec function of the element) comes from
    the unit, one per occurrence.  (R-sortbykey)"""
    log = []
    n = 0
    while True:
        hit = _method_closure_calls(body, "sort_by_key")
        if hit is None:
            return body, log
        x, close, pat, cbody, j, recv = hit
        e = close + 1
        while body[e] in " \t\n":
            e += 1
        if body[e] != ";":
            raise Unsupported("R-sortbykey: statement form expected")
        if n >= len(ghosts):
            raise AnchorLost("R-sortbykey: %d occurrences, %d ghost key functions stated" % (n + 1, len(ghosts)))
        sfx = "" if n == 0 else str(n)
        new = ("{ let mut keys%s_: Vec<BigNum> = Vec::new(); let mut si%s_: usize = 0; while si%s_ < %s.len() { let %s = &%s[si%s_]; let key_ = %s; keys%s_.push(key_); "
               "si%s_ = si%s_ + 1; } sort_by_cached_keys_(&mut %s, &keys%s_, Ghost(%s)); }") % (
                   sfx, sfx, sfx, recv, pat, recv, sfx, cbody, sfx, sfx, sfx, recv, sfx, ghosts[n])
        log.append(("R-sortbykey", norm_ws(body[j:e + 1])[:200], norm_ws(new)[:300]))
        body = body[:j] + new + body[e + 1:]
        n += 1


def r_rev(body):
    """for PAT in RECV.iter().rev() BLOCK  ->  { let mut rkN_ = RECV.len(); while rkN_ > 0 { rkN_ = rkN_ - 1; let PAT = &RECV[rkN_]; BLOCK-content } }
    (definition of reverse slice iteration; `break` / `continue` keep their meaning because the index moves first).  (R-rev)"""
    log = []
    n = 0
    while True:
        m = code_mask(body)
        mo = None
        for x in re.finditer(r"\bfor\s+([\w&\(\), ]+?)\s+in\s+", body):
            if not m[x.start()]:
                continue
            k = body.find("{", x.end())
            hdr = body[x.end():k]
            if re.search(r"\.iter\(\)\s*\.rev\(\)\s*$", hdr):
                mo = (x, k, hdr)
                break
        if mo is None:
            return body, log
        x, k, hdr = mo
        recv = re.sub(r"\.iter\(\)\s*\.rev\(\)\s*$", "", hdr).strip()
        be = match_close(body, m, k)
        sfx = "" if n == 0 else str(n)
        new = "{ let mut rk%s_: usize = %s.len(); while rk%s_ > 0 { rk%s_ = rk%s_ - 1; let %s = &%s[rk%s_]; %s } }" % (
            sfx, recv, sfx, sfx, sfx, x.group(1).strip(), recv, sfx, body[k + 1:be])
        log.append(("R-rev", norm_ws(body[x.start():k])[:200], norm_ws(new[:new.find("; let ") + 40])[:300]))
        body = body[:x.start()] + new + body[be + 1:]
        n += 1


def r_position(body):
    """RECV.iter().position(|PAT| A == B) with PAT one side of the comparison  ->  vec_position_eq_(&RECV, OTHER)
    (prelude: index of the first element equal to OTHER, None when there is none: definition of Iterator::position for this closure).  (R-position)"""
    log = []
    while True:
        hit = _method_closure_calls(body, "position")
        if hit is None:
            return body, log
        x, close, pat, cbody, j, recv = hit
        rs = re.sub(r"\s+", "", recv)
        if not rs.endswith(".iter()"):
            raise Unsupported("R-position: receiver is not `X.iter()`")
        base = recv[:recv.rstrip().rfind(".iter()")].rstrip()
        cm = re.match(r"^\s*(\**\w+)\s*==\s*(\**\w+)\s*$", cbody)
        if not cm or pat not in (cm.group(1).lstrip("*"), cm.group(2).lstrip("*")):
            raise Unsupported("R-position: closure is not an equality test on its parameter")
        a, b = cm.group(1), cm.group(2)
        other = b if a.lstrip("*") == pat else a
        if (a.count("*") != b.count("*")):
            raise Unsupported("R-position: operands of different reference depth")
        new = "vec_position_eq_(&%s, %s)" % (base, other if a.count("*") == 0 else "&" + other.lstrip("*") if False else other)
        log.append(("R-position", norm_ws(body[j:close + 1])[:200], norm_ws(new)[:200]))
        body = body[:j] + new + body[close + 1:]


def r_charcount(body):
    """X.chars().count()  ->  str_char_count_(&X)   (prelude: the number of chars of a String, at most its byte length: every char takes
    at least one byte of UTF-8).  (R-charcount)"""
    log = []
    rx = re.compile(r"\b(\w+(?:\.\w+)*)\s*\.chars\(\)\s*\.count\(\)")
    m = code_mask(body)
    out = []
    last = 0
    for x in rx.finditer(body):
        if not m[x.start()]:
            continue
        new = "str_char_count_(&%s)" % x.group(1)
        log.append(("R-charcount", norm_ws(x.group(0)), new))
        out.append(body[last:x.start()] + new)
        last = x.end()
    out.append(body[last:])
    return "".join(out), log


def r_filtercollect(body):
    """RECV.iter().filter(|PAT| COND).cloned().collect::<Vec<T>>()  ->  a loop over RECV.iter() that pushes a clone of every element satisfying COND,
    in order, into a fresh Vec<T> (definitions of Iterator::filter / cloned / collect into a Vec; the filter closure sees a reference to the
    iterator's item, as in std).  (R-filtercollect)"""
    log = []
    n = 0
    while True:
        hit = _method_closure_calls(body, "filter")
        if hit is None:
            return body, log
        x, close, pat, cbody, j, recv = hit
        rs = re.sub(r"\s+", "", recv)
        if not rs.endswith(".iter()"):
            raise Unsupported("R-filtercollect: receiver is not `X.iter()`")
        base = recv[:recv.rstrip().rfind(".iter()")].rstrip()
        tail = re.match(r"\s*\.cloned\(\)\s*\.collect::<\s*Vec<\s*([\w:]+)\s*>\s*>\(\)", body[close + 1:])
        if not tail:
            raise Unsupported("R-filtercollect: `.cloned().collect::<Vec<T>>()` expected after the filter")
        ty = tail.group(1)
        e = close + 1 + tail.end()
        sfx = "" if n == 0 else str(n)
        new = ("{ let fsrc%s_ = &(%s); let mut fc%s_: Vec<%s> = Vec::new(); for fx%s_ in fsrc%s_.iter() { let %s = &fx%s_; if %s { fc%s_.push(fx%s_.clone()); } } fc%s_ }"
               % (sfx, base, sfx, ty, sfx, sfx, pat, sfx, cbody, sfx, sfx, sfx))
        log.append(("R-filtercollect", norm_ws(body[j:e])[:200], norm_ws(new)[:300]))
        body = body[:j] + new + body[e:]
        n += 1


def r_itermut(body, refs):
    """for PAT in RECV.iter_mut() BLOCK  ->  index loop in which PAT is bound to `vec_index_mut_(&mut RECV, k)` (prelude: a mutable borrow of the
    k-th element; the vector afterwards holds whatever the borrow was left at - the definition of iterating a Vec by `iter_mut`).
    `refs` lists receivers that already are `&mut Vec<_>` bindings (no further `&mut` is taken).  (R-itermut)"""
    log = []
    n = 0
    while True:
        m = code_mask(body)
        mo = None
        for x in re.finditer(r"\bfor\s+(\w+)\s+in\s+([\w\.]+)\.iter_mut\(\)\s*\{", body):
            if m[x.start()]:
                mo = x
                break
        if mo is None:
            return body, log
        k = mo.end() - 1
        be = match_close(body, m, k)
        recv = mo.group(2)
        sfx = "" if n == 0 else str(n)
        arg = recv if recv in refs else "&mut " + recv
        new = "{ let mut im%s_: usize = 0; while im%s_ < %s.len() { let %s = vec_index_mut_(%s, im%s_); %s im%s_ = im%s_ + 1; } }" % (
            sfx, sfx, recv, mo.group(1), arg, sfx, body[k + 1:be], sfx, sfx)
        log.append(("R-itermut", norm_ws(body[mo.start():k])[:200], norm_ws(new[:new.find("_); ") + 4])[:300]))
        body = body[:mo.start()] + new + body[be + 1:]
        n += 1


def r_genrange(body):
    """RNG.gen_range(LO..HI)  ->  RNG.gen_range_(LO, HI)   (prelude: some value in the half-open range; every outcome is covered).  (R-genrange)"""
    log = []
    while True:
        m = code_mask(body)
        mo = None
        for x in re.finditer(r"\.gen_range\(", body):
            if m[x.start()]:
                mo = x
                break
        if mo is None:
            return body, log
        close = match_close(body, m, mo.end() - 1)
        arg = body[mo.end():close]
        parts = arg.split("..")
        if len(parts) != 2 or "=" in parts[1][:1]:
            raise Unsupported("R-genrange: `lo..hi` argument expected")
        new = ".gen_range_(%s, %s)" % (parts[0].strip(), parts[1].strip())
        log.append(("R-genrange", norm_ws(body[mo.start():close + 1])[:160], new[:160]))
        body = body[:mo.start()] + new + body[close + 1:]


def r_getmut(body, skip):
    """IDENT.get_mut(E)  ->  vec_get_mut_(&mut IDENT, E)  for a local vector IDENT (prelude: Option of a mutable borrow of the E-th element, the vector
    afterwards holds what the borrow was left at).  Receivers listed in `skip` (maps with their own get_mut) are left alone.  (R-getmut)"""
    log = []
    pos = 0
    while True:
        m = code_mask(body)
        mo = None
        for x in re.finditer(r"\b(\w+)\.get_mut\(", body):
            if m[x.start()] and x.start() >= pos and x.group(1) not in skip:
                mo = x
                break
        if mo is None:
            return body, log
        close = match_close(body, m, mo.end() - 1)
        new = "vec_get_mut_(&mut %s, %s)" % (mo.group(1), body[mo.end():close].strip())
        log.append(("R-getmut", norm_ws(body[mo.start():close + 1])[:160], new[:160]))
        body = body[:mo.start()] + new + body[close + 1:]
        pos = mo.start() + len(new)


def r_entry(body):
    """match M.entry(K) { Entry::Occupied(mut E) => B1, Entry::Vacant(V) => B2 }
         ->  { let ekN_ = K; if M.contains_key(&ekN_) { let E = M.get_mut(&ekN_).unwrap(); B1[E.get_mut() := E] } else { B2[V.insert(X) := M.insert(ekN_, X)] } }
    (definition of the map Entry API in terms of contains_key / get_mut / insert; innermost matches first, so that a receiver written through an
    outer occupied entry is rewritten with it).  Only `get_mut()` on the occupied entry and `insert(..)` on the vacant one are supported.  (R-entry)"""
    log = []
    n = 0
    while True:
        m = code_mask(body)
        hits = [x for x in re.finditer(r"\bmatch\s+", body) if m[x.start()]]
        pick = None
        for x in reversed(hits):        # innermost / last first
            k = x.end()
            # scrutinee up to the opening brace of the match
            d = 0
            j = k
            while j < len(body):
                if m[j]:
                    if body[j] in "([":
                        d += 1
                    elif body[j] in ")]":
                        d -= 1
                    elif body[j] == "{" and d == 0:
                        break
                j += 1
            scrut = body[k:j].strip()
            em = re.match(r"^(.*)\.entry\((.*)\)$", scrut, re.S)
            if not em:
                continue
            close = match_close(body, m, j)
            arms = body[j + 1:close]
            am = re.match(r"\s*Entry::Occupied\(\s*(?:mut\s+)?(\w+)\s*\)\s*=>\s*\{", arms)
            if not am:
                continue
            pick = (x, j, close, em.group(1).strip(), em.group(2).strip(), arms, am)
            break
        if pick is None:
            return body, log
        x, j, close, recv, key, arms, am = pick
        am_mask = code_mask(arms)
        b1_open = am.end() - 1
        b1_close = match_close(arms, am_mask, b1_open)
        rest = arms[b1_close + 1:]
        vm = re.match(r"\s*,?\s*Entry::Vacant\(\s*(\w+)\s*\)\s*=>\s*\{", rest)
        if not vm:
            raise Unsupported("R-entry: `Entry::Vacant(v) => { .. }` arm expected")
        rmask = code_mask(rest)
        b2_open = vm.end() - 1
        b2_close = match_close(rest, rmask, b2_open)
        if rest[b2_close + 1:].strip(" \n\t,") != "":
            raise Unsupported("R-entry: unexpected text after the vacant arm")
        e_name, v_name = am.group(1), vm.group(1)
        b1 = arms[b1_open + 1:b1_close]
        b2 = rest[b2_open + 1:b2_close]
        if re.search(r"\b%s\.(?!get_mut\(\))" % re.escape(e_name), b1):
            raise Unsupported("R-entry: only `.get_mut()` is supported on the occupied entry")
        b1 = re.sub(r"\b%s\.get_mut\(\)" % re.escape(e_name), e_name, b1)
        if re.search(r"\b%s\.(?!insert\()" % re.escape(v_name), b2) or len(re.findall(r"\b%s\.insert\(" % re.escape(v_name), b2)) != 1:
            raise Unsupported("R-entry: exactly one `.insert(..)` is supported on the vacant entry")
        ek = "ek%s_" % ("" if n == 0 else str(n))
        b2 = re.sub(r"\b%s\.insert\(" % re.escape(v_name), "%s.insert(%s, " % (recv, ek), b2)
        new = "{ let %s = %s; if %s.contains_key(&%s) { let %s = %s.get_mut(&%s).unwrap(); %s } else { %s } }" % (ek, key, recv, ek, e_name, recv, ek, b1, b2)
        log.append(("R-entry", norm_ws(body[x.start():j])[:160], norm_ws(new[:new.find(".unwrap();") + 10])[:240]))
        body = body[:x.start()] + new + body[close + 1:]
        n += 1


def r_arrayfor(body):
    """for X in &[A, B, ..] BLOCK  ->  { let X = &A; BLOCK } { let X = &B; BLOCK } ..   (a loop over a literal array is its body once per element, in order;
    `break` / `continue` in BLOCK are refused).  (R-arrayfor)"""
    log = []
    while True:
        m = code_mask(body)
        mo = None
        for x in re.finditer(r"\bfor\s+(\w+)\s+in\s+&\[", body):
            if m[x.start()]:
                mo = x
                break
        if mo is None:
            return body, log
        ac = match_close(body, m, mo.end() - 1)
        elems = [e.strip() for e in _split_top_commas(body[mo.end():ac]) if e.strip()]
        k = ac + 1
        while body[k] in " \t\n":
            k += 1
        if body[k] != "{":
            raise Unsupported("R-arrayfor: loop body expected")
        be = match_close(body, m, k)
        blk = body[k:be + 1]
        if re.search(r"\b(break|continue)\b", blk):
            raise Unsupported("R-arrayfor: break / continue in the body")
        new = " ".join("{ let %s = &%s; %s }" % (mo.group(1), e, blk) for e in elems)
        log.append(("R-arrayfor", norm_ws(body[mo.start():k])[:160], "body once per element: " + ", ".join(elems)))
        body = body[:mo.start()] + new + body[be + 1:]


def r_setappend(body, recv):
    """RECV.append(&mut E)  ->  set_append(&mut RECV, E)   for a BTreeSet receiver: vstd does not specify BTreeSet::append; the prelude's
    `set_append` carries std's documented semantics (union; the argument is drained).  (R-setappend)"""
    log = []
    while True:
        m = code_mask(body)
        mo = None
        for x in re.finditer(r"\b" + re.escape(recv) + r"\.append\(\s*&mut\s+", body):
            if m[x.start()]:
                mo = x
                break
        if mo is None:
            return body, log
        op = body.index("(", mo.start())
        close = match_close(body, m, op)
        arg = body[mo.end():close].strip()
        new = "set_append(&mut %s, %s)" % (recv, arg)
        log.append(("R-setappend", norm_ws(body[mo.start():close + 1])[:160], norm_ws(new)[:160]))
        body = body[:mo.start()] + new + body[close + 1:]



def r_matchcount(body):
    """match &E { Some(_) => 1, None => 0 }  ->  opt64(&E)   (the library's own helper `opt64`, proved in the same unit, has exactly this
    definition; as a call its result is a single term for the solver instead of 30+ nested conditionals)  (R-matchcount)"""
    rx = re.compile(r"match\s*&\s*([\w\.]+)\s*\{\s*Some\(_\)\s*=>\s*1\s*,\s*None\s*=>\s*0\s*,?\s*\}")
    n = len(rx.findall(body))
    if not n:
        return body, []
    return rx.sub(lambda mo: "opt64(&%s)" % mo.group(1), body), [("R-matchcount", "match &E { Some(_) => 1, None => 0 }", "opt64(&E)  x%d" % n)]



def split_top_statements(body):
    """body = '{ ... }' -> list of top-level statement texts (each `;`-terminated statement or block statement), plus the tail expression"""
    inner = body.strip()[1:-1]
    m = code_mask(inner)
    out = []
    d = 0
    start = 0
    i = 0
    n = len(inner)
    while i < n:
        if m[i]:
            ch = inner[i]
            if ch in "([{":
                d += 1
            elif ch in ")]}":
                d -= 1
                if d == 0 and ch == "}":
                    # end of a block: a block *statement* if what follows is not `;`, `.`, `?`, `else`, an operator
                    j = i + 1
                    while j < n and inner[j] in " \t\n":
                        j += 1
                    rest = inner[j:j + 5]
                    head = inner[start:i + 1].lstrip()
                    if re.match(r"(if|for|while|loop|match|unsafe)\b", head) and not re.match(r"(else\b|\.|\?|;)", rest):
                        out.append(inner[start:i + 1].strip())
                        start = i + 1
            elif ch == ";" and d == 0:
                out.append(inner[start:i + 1].strip())
                start = i + 1
        i += 1
    tail = inner[start:].strip()
    return [x for x in out if x], tail


def r_chunk(sig, body, chunks, where):
    """R-chunk: consecutive top-level block statements (the `if let Some(field) = &self.x { .. }` entries of an encoder), which share no
    locals, are moved in source order into helper methods `<fn>_chunk_<g>(&self, serializer)`; the original body calls them in sequence.
    `chunks` (from unit.toml) gives, per helper, how many block statements it takes and its contract.  Sequential composition is
    re-verified by Verus against the helpers' contracts; nothing is trusted."""
    stmts, tail = split_top_statements(body)
    is_block = [bool(re.match(r"if\b", x)) for x in stmts]
    first = next((i for i, b in enumerate(is_block) if b), None)
    if first is None:
        raise Unsupported("R-chunk: no block statements")
    blocks = []
    i = first
    while i < len(stmts) and is_block[i]:
        blocks.append(stmts[i])
        i += 1
    rest = stmts[i:]
    if sum(c["take"] for c in chunks) != len(blocks):
        raise AnchorLost("%s: R-chunk expects %d entry blocks, the body has %d" % (where, sum(c["take"] for c in chunks), len(blocks)))
    fname = re.search(r"fn\s+(\w+)", sig).group(1)
    helpers = []
    calls = []
    k = 0
    for g, c in enumerate(chunks):
        part = blocks[k:k + c["take"]]
        k += c["take"]
        hname = "%s_chunk_%d" % (fname, g)
        ens = "".join("        %s,\n" % e.strip().rstrip(",") for e in c.get("ensures", []))
        head = ("proof { %s }\n" % c["head"].strip()) if c.get("head") else ""
        helpers.append("pub fn %s(&self, serializer: &mut Serializer) -> (r: Result<(), CborError>)\n    ensures\n%s{\n%s%s\nOk(())\n}\n" % (
            hname, ens, head, "\n".join(part)))
        calls.append("self.%s(serializer)?;" % hname)
    new_body = "{\n" + "\n".join(stmts[:first]) + "\n" + "\n".join(calls) + "\n" + "\n".join(rest) + "\n" + tail + "\n}"
    log = [("R-chunk", "%d entry blocks" % len(blocks), "%d helper methods of sizes %s" % (len(chunks), [c["take"] for c in chunks]))]
    return new_body, helpers, log



def r_enumerate(body):
    """for (I, PAT) in E.enumerate() { B }  ->  { let mut enum_idx_: usize = 0; for PAT in E { let I = enum_idx_; B enum_idx_ = enum_idx_ + 1; } }
    (definition of Iterator::enumerate for a loop body without `continue`; R-enumerate)"""
    log = []
    while True:
        m = code_mask(body)
        mo = None
        for x in re.finditer(r"\bfor\s*\(\s*(\w+)\s*,\s*", body):
            if m[x.start()]:
                # find ' in ' ... '.enumerate()' before the body brace
                mo = x
                break
        if mo is None:
            return body, log
        # pattern end: matching paren of the tuple pattern
        p_open = body.index("(", mo.start())
        p_close = match_close(body, m, p_open)
        inner_pat = body[mo.end():p_close].strip()
        rest = body[p_close + 1:]
        im = re.match(r"\s*in\s+", rest)
        if not im:
            raise Unsupported("R-enumerate: loop header not recognised")
        e_start = p_close + 1 + im.end()
        # body brace: first '{' at depth 0
        d = 0
        k = e_start
        while True:
            if m[k]:
                ch = body[k]
                if ch in "([":
                    d += 1
                elif ch in ")]":
                    d -= 1
                elif ch == "{" and d == 0:
                    break
            k += 1
        expr = body[e_start:k].strip()
        if not re.sub(r"\s+", "", expr).endswith(".enumerate()"):
            # not an enumerate loop: leave (mask it by replacing 'for (' temporarily is overkill) -> stop
            return body, log
        base = expr[:expr.rfind(".enumerate")].rstrip()
        b_close = match_close(body, m, k)
        lbody = body[k + 1:b_close]
        if re.search(r"\bcontinue\b", lbody):
            raise Unsupported("R-enumerate: loop body contains `continue`")
        idx = mo.group(1)
        new = "{ let mut enum_idx_: usize = 0; for %s in %s { let %s = enum_idx_; %s enum_idx_ = enum_idx_ + 1; } }" % (inner_pat, base, idx, lbody)
        log.append(("R-enumerate", norm_ws(body[mo.start():k])[:160], norm_ws(new)[:120] + " ..."))
        body = body[:mo.start()] + new + body[b_close + 1:]


def r_slicechunks(body):
    """for PAT in E.chunks(N) { B }  ->  index loop over consecutive sub-slices of N elements, the last one shorter
    (definition of slice::chunks for N > 0 and a loop body without `continue`/`break`; R-slicechunks).  vstd's `slice_subrange` is `&s[i..j]`."""
    log = []
    while True:
        m = code_mask(body)
        mo = None
        for x in re.finditer(r"\bfor\s+(\w+)\s+in\s+", body):
            if not m[x.start()]:
                continue
            d = 0
            k = x.end()
            while True:
                if m[k]:
                    ch = body[k]
                    if ch in "([":
                        d += 1
                    elif ch in ")]":
                        d -= 1
                    elif ch == "{" and d == 0:
                        break
                k += 1
            expr = body[x.end():k].strip()
            cm = re.match(r"^(.*)\.chunks\(\s*([A-Za-z0-9_:]+)\s*\)$", expr, re.S)
            if cm:
                mo = (x, k, cm)
                break
        if mo is None:
            return body, log
        x, k, cm = mo
        b_close = match_close(body, m, k)
        lbody = body[k + 1:b_close]
        if re.search(r"\b(continue|break)\b", lbody):
            raise Unsupported("R-slicechunks: loop body contains `continue`/`break`")
        pat, base, n = x.group(1), cm.group(1).strip(), cm.group(2)
        new = ("{ let chunks_src_ = %s; let mut chunks_pos_: usize = 0; while chunks_pos_ < chunks_src_.len() { "
               "let chunks_end_: usize = if chunks_src_.len() - chunks_pos_ < %s { chunks_src_.len() } else { chunks_pos_ + %s }; "
               "let %s = vstd::slice::slice_subrange(chunks_src_, chunks_pos_, chunks_end_); %s chunks_pos_ = chunks_end_; } }") % (base, n, n, pat, lbody)
        log.append(("R-slicechunks", norm_ws(body[x.start():k])[:160], norm_ws(new)[:160] + " ..."))
        body = body[:x.start()] + new + body[b_close + 1:]


def r_flatmap(body):
    """RECV.flat_map(|P| E).for_each(|Q| BODY)  ->  for P in RECV { for Q in E { BODY } }
    (definitions of Iterator::flat_map and Iterator::for_each; a type annotation on a closure parameter is dropped; R-flatmap)"""
    log = []
    guard = 0
    while True:
        guard += 1
        if guard > 50:
            raise Unsupported("R-flatmap: did not converge")
        m = code_mask(body)
        mo = None
        for x in re.finditer(r"\.flat_map\(\s*", body):
            if m[x.start()]:
                mo = x
                break
        if mo is None:
            return body, log
        open_paren = body.index("(", mo.start())
        close1 = match_close(body, m, open_paren)
        clos1 = body[open_paren + 1:close1].strip()
        c1 = re.match(r"\|\s*([^|]*?)\s*\|\s*", clos1)
        if not c1:
            raise Unsupported("R-flatmap: closure literal expected")
        p1 = re.sub(r":\s*[^,|]+$", "", c1.group(1).strip())
        e1 = clos1[c1.end():].strip()
        rest = body[close1 + 1:]
        fe = re.match(r"\s*\.for_each\(\s*", rest)
        if not fe:
            raise Unsupported("R-flatmap: only the form .flat_map(..).for_each(..) is rewritten")
        open2 = close1 + 1 + rest.index("(", 0, fe.end())
        close2 = match_close(body, m, open2)
        clos2 = body[open2 + 1:close2].strip()
        c2 = re.match(r"\|\s*([^|]*?)\s*\|\s*", clos2)
        if not c2:
            raise Unsupported("R-flatmap: closure literal expected in for_each")
        p2 = c2.group(1).strip()
        if not p2.startswith("("):
            p2 = re.sub(r":\s*.+$", "", p2)
        b2 = clos2[c2.end():].strip()
        if not b2.startswith("{"):
            b2 = "{ %s; }" % b2
        j = _recv_start(body, m, mo.start())
        recv = body[j:mo.start()].strip()
        new = "for %s in %s { for %s in %s %s }" % (p1, recv, p2, e1, b2)
        log.append(("R-flatmap", norm_ws(body[j:close2 + 1])[:200], norm_ws(new)[:200] + " ..."))
        body = body[:j] + new + body[close2 + 1:]


def r_refmut(body):
    """match X { Some(ref mut V) => E, None => B }   (X an owned local Option)
         ->  if X.is_some() { let mut V__ = X.unwrap(); E[V := V__]; X = Some(V__); } else B
    take the value out, run the arm on it, put it back: what a `ref mut` binding on an owned local does (R-refmut)"""
    log = []
    while True:
        m = code_mask(body)
        mo = None
        for x in re.finditer(r"\bmatch\s+(\w+)\s*\{\s*Some\(\s*ref\s+mut\s+(\w+)\s*\)\s*=>\s*", body):
            if m[x.start()]:
                mo = x
                break
        if mo is None:
            return body, log
        X, V = mo.group(1), mo.group(2)
        ob = body.index("{", mo.start())
        cb = match_close(body, m, ob)
        # arm expression: up to the top-level comma before `None =>`
        rest = body[mo.end():cb]
        nm = re.search(r",\s*None\s*=>\s*", rest)
        if not nm:
            raise Unsupported("R-refmut: only `match X { Some(ref mut v) => E, None => B }` is rewritten")
        E = rest[:nm.start()].strip()
        B = rest[nm.end():].strip().rstrip(",").strip()
        if not B.startswith("{"):
            B = "{ " + B + " }"
        E2 = re.sub(r"\b%s\b" % re.escape(V), V + "__", E)
        new = "if %s.is_some() { let mut %s__ = %s.unwrap(); %s; %s = Some(%s__); } else %s" % (X, V, X, E2, X, V, B)
        log.append(("R-refmut", norm_ws(body[mo.start():cb + 1])[:160], norm_ws(new)[:200]))
        body = body[:mo.start()] + new + body[cb + 1:]


def r_destructure(body):
    """(A, B) = EXPR;   ->   { let destr_ = EXPR; A = destr_.0; B = destr_.1; }     (destructuring assignment to two plain variables; R-destructure)"""
    log = []
    while True:
        m = code_mask(body)
        mo = None
        for x in re.finditer(r"(?m)^[ \t]*\(\s*(\w+)\s*,\s*(\w+)\s*\)\s*=(?!=)", body):
            if m[x.end() - 1]:
                mo = x
                break
        if mo is None:
            return body, log
        st = mo.start() + (len(mo.group(0)) - len(mo.group(0).lstrip()))
        e = _stmt_end(body, m, st)
        expr = body[mo.end():e].strip()
        if not expr.endswith(";"):
            raise Unsupported("R-destructure: statement end not found")
        new = "{ let destr_ = %s A_ = destr_.0; B_ = destr_.1; }" % expr
        new = new.replace("A_ =", mo.group(1) + " =").replace("B_ =", mo.group(2) + " =")
        log.append(("R-destructure", norm_ws(body[st:mo.end()]) + " EXPR;", "{ let destr_ = EXPR; %s = destr_.0; %s = destr_.1; }" % (mo.group(1), mo.group(2))))
        body = body[:st] + new + body[e:]


def r_continue(body):
    """if C { continue; } REST  (statements of one loop body)  ->  if C { } else { REST }
    (definition of `continue` when it is the only statement of an `if` directly in the loop body; R-continue)"""
    log = []
    guard = 0
    while True:
        guard += 1
        if guard > 20:
            raise Unsupported("R-continue: did not converge")
        m = code_mask(body)
        mo = None
        for x in re.finditer(r"\bif\b", body):
            if not m[x.start()]:
                continue
            # find the block of this if
            k = x.end()
            d = 0
            while k < len(body) and not (m[k] and body[k] == "{" and d == 0):
                if m[k] and body[k] in "([":
                    d += 1
                elif m[k] and body[k] in ")]":
                    d -= 1
                k += 1
            if k >= len(body):
                continue
            ke = match_close(body, m, k)
            if re.sub(r"\s+", "", body[k + 1:ke]) == "continue;":
                mo = (x.start(), k, ke)
                break
        if mo is None:
            return body, log
        st, k, ke = mo
        if re.match(r"\s*else\b", body[ke + 1:]):
            raise Unsupported("R-continue: `if .. { continue; } else ..` is not rewritten")
        # enclosing block: scan back to the '{' that opens the block containing `st`
        d = 0
        j = st - 1
        while j >= 0:
            if m[j]:
                if body[j] == "}":
                    d += 1
                elif body[j] == "{":
                    if d == 0:
                        break
                    d -= 1
            j -= 1
        if j < 0:
            raise Unsupported("R-continue: enclosing block not found")
        je = match_close(body, m, j)
        rest = body[ke + 1:je]
        new = body[st:k] + "{ } else {" + rest + "}"
        log.append(("R-continue", norm_ws(body[st:ke + 1])[:120], norm_ws(body[st:k])[:80] + " { } else { <rest of the loop body> }"))
        body = body[:st] + new + body[je:]


def r_iife(body):
    """(|| -> Result<_, E> { Ok(X?) })()      ->  (X)        when the closure body is a single `Ok(X?)`: identity if X already has error type E
       { (|| -> Result<_, E> { BODY })().map_err(|e| e.annotate(S)) }   as the WHOLE function body  ->  { BODY }
    (an immediately-invoked closure only scopes `?`; the annotation only edits the error payload, which is opaque here; R-iife)"""
    log = []
    # whole-body form first
    t = body.strip()
    mo = re.match(r"^\{\s*\(\s*\|\|\s*->\s*Result<[^>]*>\s*\{", t)
    if mo:
        m = code_mask(t)
        ob = mo.end() - 1
        cb = match_close(t, m, ob)
        rest = t[cb + 1:]
        r2 = re.match(r"^\s*\)\s*\(\s*\)\s*\.map_err\(\s*\|\s*\w+\s*\|\s*\w+\.annotate\([^()]*(\([^()]*\))?[^()]*\)\s*\)\s*\}$", rest, re.S)
        if r2:
            log.append(("R-iife", "{ (|| -> Result<_, E> { BODY })().map_err(|e| e.annotate(..)) }", "{ BODY }"))
            body = "{" + t[ob + 1:cb] + "}"
    guard = 0
    while True:
        guard += 1
        if guard > 100:
            raise Unsupported("R-iife: did not converge")
        m = code_mask(body)
        mo = None
        for x in re.finditer(r"\(\s*\|\|\s*->\s*Result<[^>]*>\s*\{", body):
            if m[x.start()]:
                mo = x
                break
        if mo is None:
            return body, log
        ob = mo.end() - 1
        cb = match_close(body, m, ob)
        inner = body[ob + 1:cb].strip()
        after = re.match(r"\s*\)\s*\(\s*\)", body[cb + 1:])
        im = re.match(r"^Ok\((.*)\?\s*\)$", inner, re.S)
        # statement form:  (|| -> Result<_, E> { STMTS; Ok(()) })().map_err(|e| e.annotate(S))?;   ->   { STMTS }
        st = re.match(r"\s*\)\s*\(\s*\)\s*\.map_err\(\s*\|\s*\w+\s*\|\s*\w+\.annotate\([^()]*(\([^()]*\))?[^()]*\)\s*\)\s*\?\s*;", body[cb + 1:], re.S)
        sm = re.match(r"^(.*)\bOk\(\s*\(\s*\)\s*\)$", inner, re.S)
        # `return Err(..)` inside the closure ends the closure with an error, which the trailing `?` turns into the function's error
        # at once: the same as returning it from the function (payload annotation aside); any other `return` is not rewritten
        if st and sm and not re.search(r"\breturn\b(?!\s+Err\()", inner):
            new = "{ " + sm.group(1) + " }"
            log.append(("R-iife", "(|| -> Result<_, E> { STMTS; Ok(()) })().map_err(|e| e.annotate(..))?;", "{ STMTS }"))
            body = body[:mo.start()] + new + body[cb + 1 + st.end():]
            continue
        # value form with leading statements:  (|| -> Result<_, E> { STMTS; Ok(X?) })().map_err(|e| e.annotate(S))?   ->   { STMTS; X? }
        # (every `?` inside the closure ends it with an error that the trailing `?` returns at once, annotation aside)
        vt = re.match(r"\s*\)\s*\(\s*\)\s*\.map_err\(\s*\|\s*\w+\s*\|\s*\w+\.annotate\([^()]*(\([^()]*\))?[^()]*\)\s*\)\s*\?", body[cb + 1:], re.S)
        vm = re.match(r"^(.*;)\s*Ok\((.*)\?\s*\)$", inner, re.S)
        if vt and vm and not re.search(r"\breturn\b(?!\s+Err\()", inner):
            new = "{ " + vm.group(1) + " " + vm.group(2).strip() + "? }"
            log.append(("R-iife", "(|| -> Result<_, E> { STMTS; Ok(X?) })().map_err(|e| e.annotate(..))?", "{ STMTS; X? }"))
            body = body[:mo.start()] + new + body[cb + 1 + vt.end():]
            continue
        # general value form:  (|| -> Result<_, E> { Ok(X) })().map_err(|e| e.annotate(S))?   ->   (X)
        # X may contain `?` and `return Err(..)`: both end the closure with an error that the trailing `?` returns at once
        om = re.match(r"^Ok\s*\(", inner)
        if vt and om and not re.search(r"\breturn\b(?!\s+Err\()", inner):
            mi = code_mask(inner)
            oc = match_close(inner, mi, om.end() - 1)
            if oc == len(inner) - 1:
                new = "(" + inner[om.end():oc].strip() + ")"
                log.append(("R-iife", "(|| -> Result<_, E> { Ok(X) })().map_err(|e| e.annotate(..))?", "(X)"))
                body = body[:mo.start()] + new + body[cb + 1 + vt.end():]
                continue
        # return form:  (|| -> Result<_, E> { BODY })().map_err(|e| e.annotate(S))?  where BODY never falls through with a value but leaves
        # by `return Ok(X);` in tail position of its block (next token `}`) or by `return Err(..)`:  ->  { BODY[return Ok(X); := X] }
        if vt and re.search(r"\breturn\s+Ok\s*\(", inner):
            mi = code_mask(inner)
            out = []
            pos_i = 0
            ok = True
            for x in re.finditer(r"\breturn\s+(Ok|Err)\s*\(", inner):
                if not mi[x.start()] or x.group(1) == "Err":
                    continue
                oc = match_close(inner, mi, x.end() - 1)
                tail = re.match(r"\s*;\s*\}", inner[oc + 1:])
                val = inner[x.end():oc].strip()
                if not tail or val == "()" or val == "":
                    ok = False
                    break
                out.append(inner[pos_i:x.start()] + val)
                pos_i = oc + 1 + inner[oc + 1:].index(";") + 1
            if ok and not re.search(r"\breturn\b(?!\s+(Ok|Err)\s*\()", inner):
                new = "{ " + "".join(out) + inner[pos_i:] + " }"
                log.append(("R-iife", "(|| -> Result<_, E> { .. return Ok(X); .. })().map_err(|e| e.annotate(..))?", "{ .. X .. }"))
                body = body[:mo.start()] + new + body[cb + 1 + vt.end():]
                continue
        if not after or not im or ";" in inner:
            raise Unsupported("R-iife: only `(|| -> Result<_, E> { Ok(X?) })()`, the statement form ending in Ok(()) and the whole-body form are rewritten")
        new = "(" + im.group(1).strip() + ")"
        log.append(("R-iife", norm_ws(body[mo.start():cb + 1 + after.end()])[:160], norm_ws(new)[:120]))
        body = body[:mo.start()] + new + body[cb + 1 + after.end():]


def r_tryfold(body):
    """RECV.try_fold(INIT, |ACC, PAT| BODY)  ->  { let mut ACC = INIT; for PAT in RECV { ACC = (BODY)?; } ACC_OK }
    where the whole expression is in tail / `?` position; emitted as a block evaluating to Result: Ok(ACC).
    `ref x` patterns become `x` (iteration is over references already).  fold(...) likewise without `?`."""
    log = []
    while True:
        m = code_mask(body)
        mo = None
        for x in re.finditer(r"\.(try_fold|fold)\(", body):
            if m[x.start()]:
                mo = x
                break
        if mo is None:
            return body, log
        kind = mo.group(1)
        close = match_close(body, m, mo.end() - 1)
        args = body[mo.end():close]
        parts = _split_top_commas(args)
        if len(parts) < 2:
            raise Unsupported("R-tryfold: cannot split arguments")
        init = parts[0].strip()
        clos = ",".join(parts[1:]).strip()
        cm = re.match(r"\|\s*(mut\s+)?(\w+)\s*(?::[^,|]+)?,\s*(ref\s+|&\s*)?(\(?[\w\s,&_()]+\)?)\s*(?::[^|]+)?\|\s*", clos)
        if not cm:
            raise Unsupported("R-tryfold: closure head not recognised: " + clos[:60])
        acc, pat = cm.group(2), cm.group(4).strip()
        cbody = clos[cm.end():].strip()
        # receiver: walk back over a method chain / path expression
        k = mo.start()
        j = k
        while j > 0:
            ch = body[j - 1]
            if ch.isalnum() or ch in "_.:&":
                j -= 1
            elif ch in ")]":
                # find matching open
                d = 0
                q = j - 1
                while q >= 0:
                    if m[q]:
                        if body[q] in ")]":
                            d += 1
                        elif body[q] in "([":
                            d -= 1
                            if d == 0:
                                break
                    q -= 1
                j = q
            elif ch in " \t\n" and body[:j].rstrip().endswith((".", ")")) and False:
                j -= 1
            elif ch in " \t\n":
                # allow line-broken method chains: `foo\n    .iter()`
                t = body[:j].rstrip()
                nxt = body[j:k + 1].lstrip()
                if nxt.startswith(".") and t and (t[-1].isalnum() or t[-1] in "_)]"):
                    j = len(t)
                else:
                    break
            else:
                break
        recv = body[j:k].strip()
        if kind == "try_fold":
            new = "{ let mut %s = %s; for %s in %s { %s = (%s)?; } Ok(%s) }" % (acc, init, pat, recv, acc, cbody, acc)
        else:
            new = "{ let mut %s = %s; for %s in %s { %s = (%s); } %s }" % (acc, init, pat, recv, acc, cbody, acc)
        log.append(("R-tryfold", norm_ws(body[j:close + 1])[:200], norm_ws(new)[:240]))
        body = body[:j] + new + body[close + 1:]


# --------------------------------------------------------------------------------------------------
# signature splicing
# --------------------------------------------------------------------------------------------------

def splice_sig(sig, ret_name, requires, ensures, extra=None):
    """`pub fn f(a: A) -> R [where ..]`  ->  `pub fn f(a: A) -> (r: R) [where ..] requires .. ensures ..`"""
    s = sig.rstrip()
    m = code_mask(s)
    # locate params
    k = s.index("fn ")
    p = s.index("(", k)
    # skip generics containing parens, e.g. fn f<F: Fn(u8)>(..)
    lt = s.find("<", k)
    if 0 <= lt < p:
        d = 0
        q = lt
        while True:
            if s[q] == "<":
                d += 1
            elif s[q] == ">" and s[q - 1] != "-":
                d -= 1
                if d == 0:
                    break
            q += 1
        p = s.index("(", q)
    pe = match_close(s, m, p)
    rest = s[pe + 1:]
    wh = re.search(r"\bwhere\b", rest)
    where = ""
    if wh:
        where = " " + rest[wh.start():].strip()
        rest = rest[:wh.start()]
    arrow = rest.find("->")
    if arrow >= 0:
        ret = rest[arrow + 2:].strip()
        retdecl = " -> (%s: %s)" % (ret_name, ret)
    else:
        retdecl = ""
    out = s[:pe + 1] + retdecl + where
    if requires:
        out += "\n    requires\n" + "".join("        %s,\n" % r.strip().rstrip(",") for r in requires)
    if ensures:
        out += "\n    ensures\n" + "".join("        %s,\n" % e.strip().rstrip(",") for e in ensures)
    if extra:
        out += "\n    " + extra + "\n"
    return out + "\n"


# --------------------------------------------------------------------------------------------------
# body splicing: head / tail / anchored hints / loop contracts
# --------------------------------------------------------------------------------------------------

def _stmt_end(body, m, pos):
    """index just after the `;` that ends the statement containing pos (same nesting level); a statement that starts with a block
    keyword (if / for / while / loop / match) ends at the close of its last block (else-chains included)."""
    n = len(body)
    if body[pos] == "{":
        # a bare block statement (the form several rewrites leave behind)
        return match_close(body, m, pos) + 1
    if re.match(r"(if|for|while|loop|match)\b", body[pos:pos + 6]):
        k = pos
        while True:
            d = 0
            while k < n and not (m[k] and body[k] == "{" and d == 0):
                if m[k] and body[k] in "([":
                    d += 1
                elif m[k] and body[k] in ")]":
                    d -= 1
                k += 1
            if k >= n:
                raise AnchorLost("statement end not found")
            k = match_close(body, m, k) + 1
            em = re.match(r"\s*else\b", body[k:])
            if not em:
                em2 = re.match(r"\s*;", body[k:])
                return k + (em2.end() if em2 else 0)
            k += em.end()
    d = 0
    k = pos
    while k < n:
        if m[k]:
            ch = body[k]
            if ch in "([{":
                d += 1
            elif ch in ")]}":
                d -= 1
                if d < 0:
                    raise AnchorLost("statement end not found")
            elif ch == ";" and d == 0:
                return k + 1
        k += 1
    raise AnchorLost("statement end not found")


def insert_hints(body, hints, where):
    log = []
    for h in hints:
        m = code_mask(body)
        nth = h.get("nth", 0)
        if "after_let" in h:
            rx = re.compile(r"\blet\s+(?:mut\s+)?" + re.escape(h["after_let"]) + r"\b")
        elif "after_assign" in h:
            rx = re.compile(r"(?m)^\s*" + re.escape(h["after_assign"]) + r"\s*(?:[-+*/]?=)[^=]")
        elif "after_stmt" in h:
            rx = re.compile(r"\s*".join(re.escape(p) for p in h["after_stmt"].split()))
        elif "before_stmt" in h:
            rx = re.compile(r"\s*".join(re.escape(p) for p in h["before_stmt"].split()))
        else:
            raise Unsupported("hint without anchor")
        hits = [x for x in rx.finditer(body) if m[x.start() + (len(x.group(0)) - len(x.group(0).lstrip()))]]
        if (nth >= 0 and len(hits) <= nth) or (nth < 0 and len(hits) < -nth):
            raise AnchorLost("%s: hint anchor lost: %s" % (where, {k: v for k, v in h.items() if k != 'proof'}))
        # `all = true`: the hint goes to EVERY match (the copies a rewrite leaves behind), last first so that positions stay valid
        sel = list(reversed(hits)) if h.get("all") else [hits[nth]]
        for x in sel:
            m = code_mask(body)
            pr = " proof { %s } " % h["proof"].strip() if not h.get("raw") else " %s " % h["proof"].strip()
            if "before_stmt" in h:
                st = x.start() + (len(x.group(0)) - len(x.group(0).lstrip()))
                body = body[:st] + pr + body[st:]
            else:
                e = _stmt_end(body, m, x.start())
                body = body[:e] + pr + body[e:]
            log.append(("ghost-hint", str({k: v for k, v in h.items() if k != "proof"}), norm_ws(h["proof"])[:160]))
    return body, log


def insert_loops(body, loops, where):
    """loops: list of {index, ghost?, invariant[], decreases?, invariant_except_break?, ensures?}; index = ordinal of the loop
    keyword (for/while/loop) in textual order inside the body."""
    if not loops:
        return body, []
    log = []
    # process from last to first so indices stay valid
    m = code_mask(body)
    locs = []
    for x in re.finditer(r"\b(for|while|loop)\b", body):
        if not m[x.start()]:
            continue
        # exclude `for<'a>` HRTB and `impl X for Y`
        if x.group(1) == "for" and not re.match(r"for\s+[\w\(\&_]", body[x.start():x.start() + 12]):
            continue
        locs.append(x)
    # a loop spec with `header = "<text>"` instead of `index` applies to EVERY loop whose header (keyword up to the body's brace) contains that
    # text (whitespace-insensitive): for the copies a beta-reduced closure leaves behind, however many calls there are; at least one must match
    expanded = []
    for lp in loops:
        if "header" in lp:
            want = norm_ws(lp["header"]).replace(" ", "")
            idxs = []
            for i, x in enumerate(locs):
                kb = body.find("{", x.end())
                if want in norm_ws(body[x.start():kb if kb > 0 else x.end() + 200]).replace(" ", ""):
                    idxs.append(i)
            if not idxs:
                raise AnchorLost("%s: no loop with header containing `%s`" % (where, lp["header"]))
            for i in idxs:
                q = dict(lp)
                q["index"] = i
                expanded.append(q)
        else:
            expanded.append(lp)
    loops = expanded
    for lp in sorted(loops, key=lambda l: -l["index"]):
        if lp["index"] >= len(locs):
            raise AnchorLost("%s: loop #%d not found (body has %d loops)" % (where, lp["index"], len(locs)))
        x = locs[lp["index"]]
        kw = x.group(1)
        # opening brace of the loop body: first '{' at depth 0 after the keyword
        d = 0
        k = x.end()
        while True:
            if m[k]:
                ch = body[k]
                if ch in "([":
                    d += 1
                elif ch in ")]":
                    d -= 1
                elif ch == "{" and d == 0:
                    # `while match E { arms } { body }`: the first block belongs to the match in the condition
                    if kw == "while" and re.match(r"\s*match\b", body[x.end():]) and not re.search(r"\}\s*$", body[x.end():k].rstrip()):
                        k = match_close(body, m, k) + 1
                        continue
                    break
            k += 1
        hdr = body[x.start():k]
        spec = ""
        if lp.get("invariant_except_break"):
            spec += "\n invariant_except_break " + ", ".join(i.strip().rstrip(",") for i in lp["invariant_except_break"]) + ","
        if lp.get("invariant"):
            spec += "\n invariant " + ", ".join(i.strip().rstrip(",") for i in lp["invariant"]) + ","
        if lp.get("ensures"):
            spec += "\n ensures " + ", ".join(i.strip().rstrip(",") for i in lp["ensures"]) + ","
        if lp.get("decreases"):
            spec += "\n decreases " + lp["decreases"] + ","
        if kw == "for" and lp.get("ghost"):
            mo = re.match(r"for\s+(.+?)\s+in\s+", hdr, re.S)
            if not mo:
                raise Unsupported("for-loop header not recognised: " + hdr)
            hdr = hdr[:mo.end()] + lp["ghost"] + ": " + hdr[mo.end():]
        new = hdr.rstrip() + spec + "\n"
        if lp.get("body_head") or lp.get("body_head_raw"):
            # ghost text placed first inside the loop body: independent of the statements of the body
            g = (lp.get("body_head_raw", "").strip() + " ") + ("proof { %s } " % lp["body_head"].strip() if lp.get("body_head") else "")
            body = body[:x.start()] + new + "{ " + g + body[k + 1:]
        else:
            body = body[:x.start()] + new + body[k:]
        log.append(("ghost-loop", "%s loop #%d" % (kw, lp["index"]), norm_ws(spec)[:200]))
    return body, log


# --------------------------------------------------------------------------------------------------
# unit assembly
# --------------------------------------------------------------------------------------------------

class FnRec:
    def __init__(self):
        self.id = None
        self.mode = None
        self.source = None
        self.line = None
        self.end_line = None
        self.sha = None
        self.rewrites = []
        self.emit_start = None
        self.emit_end = None
        self.properties = []
        self.contract = None
        self.verus_name = None
        self.kind = "fn"


_src_cache = {}


def get_src(rel):
    p = os.path.join(REPO, rel)
    st = os.stat(p)
    key = (p, st.st_mtime_ns, st.st_size)
    if key not in _src_cache:
        _src_cache[key] = Src(p)
    return _src_cache[key]


def load_unit(name):
    d = os.path.join(VERIF, "contracts", name)
    with open(os.path.join(d, "unit.toml"), "rb") as f:
        u = tomllib.load(f)
    u["_dir"] = d
    u.setdefault("unit", name)
    return u


def _read_rel(udir, rel):
    p = os.path.normpath(os.path.join(udir, rel))
    return open(p).read()


def lookup_contract(unit_name, fid):
    u = load_unit(unit_name)
    for f in u.get("fn", []):
        if "from_unit" in f:
            if f.get("from_id") == fid:
                return lookup_contract(f["from_unit"], fid)
            continue
        if fn_id(f) == fid:
            return f
    raise AnchorLost("contract %s not found in unit %s" % (fid, unit_name))


def fn_id(f):
    if "id" in f:
        return f["id"]
    imp = f.get("impl")
    if imp:
        t = re.sub(r"^impl(<[^>]*>)?\s+", "", norm_ws(imp))
        t = t.split(" for ")[-1]
        t = re.sub(r"<.*>", "", t).strip()
        return "%s::%s" % (t, f["name"])
    return f["name"]



def _sig_param_names(sig):
    """names of the non-self parameters of a fn signature, in order (None for a pattern that is not a plain identifier)"""
    m = code_mask(sig)
    p = sig.index("(", sig.index("fn "))
    lt = sig.find("<", sig.index("fn "))
    if 0 <= lt < p:
        d = 0
        q = lt
        while True:
            if sig[q] == "<":
                d += 1
            elif sig[q] == ">" and sig[q - 1] != "-":
                d -= 1
                if d == 0:
                    break
            q += 1
        p = sig.index("(", q)
    pe = match_close(sig, m, p)
    names = []
    for part in _split_top_commas(sig[p + 1:pe]):
        t = part.strip()
        if not t or re.match(r"^(&\s*('\w+\s+)?)?(mut\s+)?self\b", t):
            continue
        mo = re.match(r"^(?:mut\s+)?(\w+)\s*:", t)
        names.append(mo.group(1) if mo else None)
    return names


def _follow_param_names(f, sig):
    want = list(f["params"])
    have = _sig_param_names(sig)
    if len(want) != len(have) or want == have:
        return f, []
    ren = [(w, h) for w, h in zip(want, have) if h and w != h]
    if not ren:
        return f, []

    def sub(x):
        if isinstance(x, str):
            for w, h in ren:
                x = re.sub(r"(?<![\w.])%s\b" % re.escape(w), h, x)
            return x
        if isinstance(x, list):
            return [sub(y) for y in x]
        if isinstance(x, dict):
            return {k: (sub(v) if k in ("requires", "ensures", "head", "head_raw", "tail", "proof", "invariant", "invariant_except_break",
                                         "decreases", "body_head", "body_head_raw", "hint", "loop") else v) for k, v in x.items()}
        return x
    g = sub(dict(f))
    return g, [("R-paramname", ", ".join(w for w, _ in ren), ", ".join(h for _, h in ren))]



def _closure_at(body, anchor, where):
    """R-lambdalift: locate the closure literal that is the (last) argument of the call opened by `anchor` (text ending in `(`): returns
    (start, end, params, closure_body) with body[start:end] the whole literal `|params| expr`."""
    m = code_mask(body)
    hits = [i for i in range(len(body)) if body.startswith(anchor, i) and m[i]]
    if len(hits) != 1:
        raise AnchorLost("%s: closure anchor matched %d times (expected 1): %s" % (where, len(hits), anchor))
    op = hits[0] + len(anchor) - 1
    if body[op] != "(":
        raise Unsupported("R-lambdalift: anchor must end with `(`")
    cl = match_close(body, m, op)
    k = op + 1
    while body[k].isspace():
        k += 1
    if body[k] != "|":
        raise Unsupported("R-lambdalift: no closure literal after the anchor")
    e = body.index("|", k + 1)
    params = body[k + 1:e]
    return k, cl, params, body[e + 1:cl].strip()


def r_inline_closure(body, spec, where):
    """R-inlineclosure: `let [mut] NAME = |P: T| { BODY };` bound once and only CALLED (in statement / block-tail position) is beta-reduced:
    the binding is dropped and every `NAME(ARG)` becomes `{ let P: T = ARG; <ghost head> BODY }` - the argument is evaluated first, then the
    body, exactly as the call does; captured variables are simply the enclosing function's own variables.  (Verus has no closures capturing &mut.)"""
    name = spec["name"]
    m = code_mask(body)
    rx = re.compile(r"\blet\s+(?:mut\s+)?%s\s*=\s*\|" % re.escape(name))
    hits = [x for x in rx.finditer(body) if m[x.start()]]
    if len(hits) != 1:
        raise AnchorLost("%s: closure binding `%s` matched %d times (expected 1)" % (where, name, len(hits)))
    x = hits[0]
    pe = body.index("|", x.end())
    param = body[x.end():pe].strip()
    k = pe + 1
    while body[k].isspace():
        k += 1
    if body[k] != "{":
        raise Unsupported("R-inlineclosure: closure body is not a block")
    be = match_close(body, m, k)
    cbody = body[k:be + 1]
    e = be + 1
    while body[e].isspace():
        e += 1
    if body[e] != ";":
        raise Unsupported("R-inlineclosure: binding does not end with `;`")
    body = body[:x.start()] + "/* closure %s inlined at its calls */" % name + body[e + 1:]
    n = 0
    while True:
        m = code_mask(body)
        c = None
        for y in re.finditer(r"\b%s\s*\(" % re.escape(name), body):
            if m[y.start()]:
                c = y
                break
        if c is None:
            break
        ce = match_close(body, m, c.end() - 1)
        arg = body[c.end():ce]
        body = body[:c.start()] + "{ let %s = %s; %s %s %s }" % (param, arg.strip(), spec.get("head_raw", ""), cbody, spec.get("tail_raw", "")) + body[ce + 1:]
        n += 1
    if n == 0:
        raise AnchorLost("%s: closure `%s` is never called" % (where, name))
    return body, [("R-inlineclosure", "let %s = |%s| {..}; %d calls" % (name, param, n), "{ let %s = ARG; {..} } at each call" % param)]


def r_abstract_block(body, spec, where):
    """R-cutblock: the block that follows `anchor` (the then-block of an `if`, a match arm's block, ...) is NOT brought to the verifier: its
    content is replaced by `stub` (a `return` of a call to a contract-less stand-in whose only postcondition is the marker `unverified_path()`).
    The function's contract is then proved for every path that does not enter the block, and says nothing (antecedent `!unverified_path()`) for
    the ones that do.  The log records how many lines were cut."""
    m = code_mask(body)
    anchor = spec["anchor"]
    rx = re.compile(r"\s*".join(re.escape(p) for p in anchor.split()))
    hits = [x for x in rx.finditer(body) if m[x.start()]]
    if len(hits) != 1:
        raise AnchorLost("%s: cut-block anchor matched %d times (expected 1): %s" % (where, len(hits), anchor))
    k = hits[0].end()
    d = 0
    while True:
        if m[k]:
            ch = body[k]
            if ch in "([":
                d += 1
            elif ch in ")]":
                d -= 1
            elif ch == "{" and d == 0:
                break
        k += 1
    e = match_close(body, m, k)
    cut = body[k + 1:e]
    n = cut.count("\n")
    body = body[:k + 1] + " /* %d lines not under contract (R-cutblock) */ %s " % (n, spec["stub"]) + body[e:]
    return body, [("R-cutblock", "block after `%s`: %d lines" % (anchor, n), spec["stub"])]

def emit_fn(f, udir, unit_props, recs, log_global):
    """returns (emit_impl_header, text) for one [[fn]] entry."""
    if "from_unit" in f:
        base = dict(lookup_contract(f["from_unit"], f["from_id"]))
        base.update({k: v for k, v in f.items() if k not in ("from_unit", "from_id")})
        base["mode"] = f.get("mode", "assume")
        base.pop("hint", None)
        base.pop("loop", None)
        base.pop("head", None)
        base.pop("tail", None)
        f = base
    src = get_src(f["source"])
    if f.get("macro_inst"):
        # R-macroinst: the fn item inside a macro_rules! body, with the macro's single `$name:ty` parameter substituted textually
        # (what the compiler's expansion does); `stringify!($x)` becomes the string literal
        mi = f["macro_inst"]
        mtext = src.text
        mm = re.search(r"macro_rules!\s*%s\s*\{" % re.escape(mi["macro"]), mtext)
        if not mm:
            raise AnchorLost("macro not found: %s" % mi["macro"])
        mend = match_close(mtext, src.mask, mm.end() - 1)
        sub = Src.__new__(Src)
        seg = mtext[mm.end():mend]
        if mi.get("invocation"):
            # the actual arguments are read from the macro's invocation in the real tree: `macro!(first_arg, ...)`
            inv = mi["invocation"]
            itext = open(os.path.join(REPO, inv["source"])).read()
            im = re.search(r"(?m)^\s*%s!\(\s*%s\s*((?:,[^;]*)?)\)\s*;" % (re.escape(mi["macro"]), re.escape(inv["first"])), itext)
            if not im:
                raise AnchorLost("invocation %s!(%s, ..) not found in %s" % (mi["macro"], inv["first"], inv["source"]))
            args = [inv["first"]] + [a.strip() for a in im.group(1).split(",")[1:]]
            if len(args) != len(inv["order"]):
                raise AnchorLost("invocation %s!(%s, ..): %d arguments, %d expected" % (mi["macro"], inv["first"], len(args), len(inv["order"])))
            plist = list(zip(inv["order"], args))
        else:
            plist = list(mi["params"].items()) if mi.get("params") else [(mi["param"], mi["arg"])]
        for (pn, pa) in plist:
            seg = re.sub(r"stringify!\(\s*\$%s\s*\)" % re.escape(pn), '"%s"' % pa, seg)
            seg = re.sub(r"\$%s\b" % re.escape(pn), pa, seg)
        sub.path = src.path + "#" + mi["macro"] + "!(" + ", ".join(pa for _, pa in plist) + ")"
        sub.text = seg
        sub.mask = code_mask(seg)
        loc = sub.find_fn(f["name"], None, f.get("nth", 0), nested_in=None) if False else None
        # the fn sits inside `impl .. for $type { .. }` in the macro body: search without the impl filter
        pat = re.compile(r"fn\s+%s\s*[<(]" % re.escape(f["name"]))
        hit = None
        for x in pat.finditer(seg):
            if sub.mask[x.start()]:
                hit = x
                break
        if hit is None:
            raise AnchorLost("fn %s not found in macro %s" % (f["name"], mi["macro"]))
        k = hit.end() - 1
        if seg[k] == "<":
            k = sub._skip_angle(k)
            while seg[k] != "(":
                k += 1
        pe = match_close(seg, sub.mask, k)
        j = pe + 1
        while not (sub.mask[j] and seg[j] == "{"):
            j += 1
        be = match_close(seg, sub.mask, j)
        base_line = mtext.count("\n", 0, mm.end() + hit.start()) + 1
        loc = dict(start=hit.start(), body_open=j, body_close=be, sig=seg[hit.start():j], body=seg[j:be + 1], line=base_line,
                   end_line=base_line + seg.count("\n", hit.start(), be))
    elif f.get("nested_in"):
        # R-hoist: a fn item nested in another fn's body captures nothing; it is emitted as a free function of the same text
        loc = src.find_fn(f["name"], None, f.get("nth", 0), nested_in=(f["nested_in"]["name"], f["nested_in"].get("impl")))
    elif f.get("closure_of"):
        # R-lambdalift: a closure literal that captures nothing (checked by the Rust front end: the lifted fn would not compile otherwise) is
        # emitted as a fn item with the closure's own body text; parameter types and return type are stated in the unit (a closure leaves them inferred)
        co = f["closure_of"]
        ploc = src.find_fn(co["name"], co.get("impl"), co.get("nth", 0))
        cs, ce, cparams, cbody = _closure_at(ploc["body"], co["anchor"], fn_id(f))
        names = [x.strip() for x in cparams.split(",")]
        tys = co["types"]
        if len(names) != len(tys):
            raise AnchorLost("%s: closure has %d parameters, %d types stated" % (fn_id(f), len(names), len(tys)))
        sig_ = "fn %s(%s) -> %s " % (f["name"], ", ".join("%s: %s" % (n, t) for n, t in zip(names, tys)), co["ret"])
        base_line = ploc["line"] + ploc["body"].count("\n", 0, cs) + (ploc["sig"].count("\n"))
        loc = dict(start=0, body_open=0, body_close=0, sig=sig_, body="{ " + cbody + " }", line=base_line, end_line=base_line + cbody.count("\n"))
    else:
        loc = src.find_fn(f["name"], f.get("impl"), f.get("nth", 0))
    sig, body = loc["sig"], loc["body"]
    cuts = []
    for hn in f.get("hoisted", []):
        # R-hoist (other half): the nested fn items emitted separately are cut out of this body
        h = src.find_fn(hn, None, 0, nested_in=(f["name"], f.get("impl")))
        cuts.append((h["start"] - loc["body_open"], h["body_close"] + 1 - loc["body_open"], hn))
    for (a, b, hn) in sorted(cuts, reverse=True):
        body = body[:a] + "/* nested fn %s hoisted */" % hn + body[b:]
    for ll in f.get("lambdalift", []):
        # R-lambdalift (other half): the closure literal is replaced by the name of the fn item emitted from its text
        cs, ce, _cp, _cb = _closure_at(body, ll["anchor"], fn_id(f))
        body = body[:cs] + ll["name"] + body[ce:]
    pn_log = []
    if f.get("params"):
        # R-paramname: the contract text names the parameters as listed in `params`; when the code has renamed one (typically to
        # `_x` after it stopped using it) the contract follows the rename - the body is not touched
        f, pn_log = _follow_param_names(f, sig)
    rec = FnRec()
    rec.id = fn_id(f)
    rec.mode = f.get("mode", "prove")
    rec.source = f["source"]
    rec.line, rec.end_line = loc["line"], loc["end_line"]
    rec.sha = hashlib.sha256((sig + body).encode()).hexdigest()[:16]
    rec.properties = f.get("properties", unit_props)
    rec.contract = dict(requires=f.get("requires", []), ensures=f.get("ensures", []))
    rec.fn_name = f["name"] + ("__" + f["variant"] if f.get("variant") else "")
    rec.carve_out_of = f.get("carve_out_of")
    rec.impl_hdr = f.get("emit_impl", f.get("impl") or "")
    log = list(pn_log)
    where = "%s (%s:%d)" % (rec.id, f["source"], loc["line"])
    sig, l = r_vis(sig)
    log += l
    rewrites = f.get("rewrites", [])
    if "serret" in rewrites:
        sig, l = r_serret_sig(sig)
        log += l
    if "deret" in rewrites:
        s0 = sig
        sig = re.sub(r"<\s*R\s*:\s*BufRead\s*\+\s*Seek\s*(,\s*)?", lambda m: "<" if m.group(1) else "<", sig)
        sig = sig.replace("<>", "")
        sig = re.sub(r"Deserializer\s*<\s*R\s*>", "Deserializer", sig)
        if sig == s0:
            raise Unsupported("R-deret: signature shape not recognised: " + norm_ws(s0))
        log.append(("R-deret", norm_ws(s0)[:160], norm_ws(sig)[:160]))
    for r in f.get("sig_subst", []):
        sig, l = r_subst(sig, [r], where)
        log += l
    if f.get("variant"):
        # a second contract on the same real body (e.g. the carve-out of a known finding): same text, emitted under a suffixed name
        sig = re.sub(r"\bfn\s+%s\b" % re.escape(f["name"]), "fn %s__%s" % (f["name"], f["variant"]), sig, count=1)
    mname = re.search(r"\bfn\s+(\w+)", sig)
    if mname and not f.get("variant"):
        rec.fn_name = mname.group(1)      # a signature substitution may have renamed the emitted function (R-inherent)
    if rec.mode == "assume":
        text = "#[verifier::external_body]\n" + splice_sig(sig, f.get("ret", "r"), f.get("requires", []), f.get("ensures", []), f.get("sig_extra")) + "{ unimplemented!() }\n"
    else:
        # order: textual substitutions first (they anchor on the original text), then general rules
        for ab in f.get("cut_blocks", []):
            body, l = r_abstract_block(body, ab, where)
            log += l
        for ic in f.get("inline_closures", []):
            body, l = r_inline_closure(body, ic, where)
            log += l
        if f.get("subst"):
            body, l = r_subst(body, f["subst"], where)
            log += l
        body, l = r_fmt(body)
        log += l
        body, l = r_vis(body)
        log += l
        if "serret" in rewrites:
            body, l = r_serret_body(body)
            log += l
        if "seek" in rewrites:
            body, l = r_seek(body)
            log += l
        if "extend" in rewrites:
            body, l = r_extend(body)
            log += l
        if "filtercollect" in rewrites:
            body, l = r_filtercollect(body)
            log += l
        if f.get("chunk"):
            body, helpers_, l = r_chunk(sig, body, f["chunk"], where)
            log += l
            rec.helper_items = helpers_
            rec.helper_impl = f.get("chunk_impl", "")
        if "optmap" in rewrites or ("resmap" not in rewrites and "no-optmap" not in rewrites):
            body, l = r_optmap(body)
            log += l
        if "enumerate" in rewrites:
            body, l = r_enumerate(body)
            log += l
        if "slicechunks" in rewrites:
            body, l = r_slicechunks(body)
            log += l
        if "matchcount" in rewrites:
            body, l = r_matchcount(body)
            log += l
        if "iife" in rewrites:
            body, l = r_iife(body)
            log += l
        if "refmut" in rewrites:
            body, l = r_refmut(body)
            log += l
        if "destructure" in rewrites:
            body, l = r_destructure(body)
            log += l
        if "continue" in rewrites:
            body, l = r_continue(body)
            log += l
        if "entry" in rewrites:
            body, l = r_entry(body)
            log += l
        if "arrayfor" in rewrites:
            body, l = r_arrayfor(body)
            log += l
        if "genrange" in rewrites:
            body, l = r_genrange(body)
            log += l
        if "getmut" in rewrites:
            body, l = r_getmut(body, f.get("getmut_skip", []))
            log += l
        if "itermut" in rewrites:
            body, l = r_itermut(body, f.get("itermut_refs", []))
            log += l
        if "retain" in rewrites:
            body, l = r_retain(body, f.get("retain_elem", "usize"))
            log += l
        if "sortbykey" in rewrites:
            body, l = r_sortbykey(body, f.get("sortbykey_ghost", []))
            log += l
        if "position" in rewrites:
            body, l = r_position(body)
            log += l
        if "charcount" in rewrites:
            body, l = r_charcount(body)
            log += l
        if "rev" in rewrites:
            body, l = r_rev(body)
            log += l
        if "flatmap" in rewrites:
            body, l = r_flatmap(body)
            log += l
        if "foreach" in rewrites:
            body, l = r_foreach(body)
            log += l
        if "resmap" in rewrites:
            body, l = r_optmap(body, result=True)
            log += l
        if "tryfold" in rewrites:
            body, l = r_tryfold(body)
            log += l
            if "enumerate" in rewrites:
                # a fold over `.enumerate()` has become a `for` over it: number it now
                body, l = r_enumerate(body)
                log += l
        if "mutself" in rewrites:
            sig, body, l = r_mutself(sig, body)
            log += l
        for r in rewrites:
            if r.startswith("setappend:"):
                body, l = r_setappend(body, r.split(":", 1)[1])
                log += l
        for r in rewrites:
            if r.startswith("mutparam:"):
                sig, body, l = r_mutparam(sig, body, r.split(":", 1)[1])
                log += l
        body, l = insert_loops(body, f.get("loop", []), where)
        log += l
        body, l = insert_hints(body, f.get("hint", []), where)
        log += l
        if f.get("tail"):
            # wrap: evaluate the original block, then the ghost tail, then yield the value
            body = "{ let r_tail_ = %s; proof { %s } r_tail_ }" % (body, f["tail"].strip())
            log.append(("ghost-tail", "", norm_ws(f["tail"])[:160]))
        if f.get("head"):
            body = "{ proof { %s }\n" % f["head"].strip() + body[1:]
            log.append(("ghost-head", "", norm_ws(f["head"])[:160]))
        if f.get("head_raw"):
            body = "{ %s\n" % f["head_raw"].strip() + body[1:]
            log.append(("ghost-head", "", norm_ws(f["head_raw"])[:160]))
        attrs = ""
        if f.get("rlimit"):
            attrs += "#[verifier::rlimit(%s)]\n" % f["rlimit"]
        if f.get("attrs"):
            attrs += f["attrs"].strip() + "\n"
        if f.get("spinoff"):
            attrs += "#[verifier::spinoff_prover]\n"
        text = attrs + splice_sig(sig, f.get("ret", "r"), f.get("requires", []), f.get("ensures", []), f.get("sig_extra")) + body + "\n"
    rec.rewrites = log
    recs.append(rec)
    emit_impl = f.get("emit_impl", f.get("impl") or "")
    return emit_impl, text, rec


def _macro_instance(src, mi):
    """R-macroinst: text of a macro_rules! body with the macro's parameters substituted (arguments given in unit.toml or read from the real
    invocation); returns a Src over the substituted text"""
    mtext = src.text
    mm = re.search(r"macro_rules!\s*%s\s*\{" % re.escape(mi["macro"]), mtext)
    if not mm:
        raise AnchorLost("macro not found: %s" % mi["macro"])
    mend = match_close(mtext, src.mask, mm.end() - 1)
    seg = mtext[mm.end():mend]
    if mi.get("invocation"):
        inv = mi["invocation"]
        itext = open(os.path.join(REPO, inv["source"])).read()
        im = re.search(r"(?m)^\s*%s!\(\s*%s\s*((?:,[^;]*)?)\)\s*;" % (re.escape(mi["macro"]), re.escape(inv["first"])), itext)
        if not im:
            raise AnchorLost("invocation %s!(%s, ..) not found in %s" % (mi["macro"], inv["first"], inv["source"]))
        args = [inv["first"]] + [a.strip() for a in im.group(1).split(",")[1:]]
        if len(args) != len(inv["order"]):
            raise AnchorLost("invocation %s!(%s, ..): %d arguments, %d expected" % (mi["macro"], inv["first"], len(args), len(inv["order"])))
        plist = list(zip(inv["order"], args))
    else:
        plist = list(mi["params"].items()) if mi.get("params") else [(mi["param"], mi["arg"])]
    for (pn, pa) in plist:
        seg = re.sub(r"stringify!\(\s*\$%s\s*\)" % re.escape(pn), '"%s"' % pa, seg)
        seg = re.sub(r"\$%s\b" % re.escape(pn), pa, seg)
    sub = Src.__new__(Src)
    sub.path = src.path + "#" + mi["macro"] + "!(" + ", ".join(pa for _, pa in plist) + ")"
    sub.text = seg
    sub.mask = code_mask(seg)
    return sub


def emit_type(t, log):
    src = get_src(t["source"])
    if t.get("macro_inst"):
        src = _macro_instance(src, t["macro_inst"])
    loc = src.find_type(t.get("kind", "struct"), t["name"])
    text = loc["text"]
    text, _ = r_attrs(text)
    text, _ = r_vis(text)
    # private fields -> pub (visibility has no run-time meaning)
    if t.get("kind", "struct") == "struct":
        def pubify(mo):
            return mo.group(1) + "pub " + mo.group(2)
        if "{" in text:
            head, rest = text.split("{", 1)
            rest = re.sub(r"(?m)^(\s*)(?!pub\b)(\w+\s*:)", pubify, rest)
            text = head + "{" + rest
        else:
            # tuple struct: make fields pub
            head, rest = text.split("(", 1)
            inner = rest.rsplit(")", 1)[0]
            fields = [x.strip() for x in _split_top_commas(inner, angles=True) if x.strip()]
            fields = [x if x.startswith("pub") else "pub " + x for x in fields]
            text = head + "(" + ", ".join(fields) + ");"
    if not text.lstrip().startswith("pub"):
        text = "pub " + text.lstrip()
    for r in t.get("subst", []):
        text, _ = r_subst(text, [r], "type " + t["name"])
    if t.get("discriminants"):
        # R-discriminants: a field-less enum with explicit discriminants and `#[derive(ToPrimitive)]`: the discriminant table is read
        # from the real text and emitted as a spec function; `to_u64()` (num_traits::ToPrimitive, derived) returns it
        variants = re.findall(r"(?m)^\s*(\w+)\s*=\s*(\d+)\s*,?", text.split("{", 1)[1])
        if not variants:
            raise AnchorLost("R-discriminants: no `Name = n` variants in %s" % t["name"])
        text = re.sub(r"(?m)^(\s*\w+)\s*=\s*\d+\s*(,?)", r"\1\2", text)
        arms = " ".join("%s::%s => %s," % (t["name"], v, n) for v, n in variants)
        text += ("\nimpl %s {\n    pub open spec fn disc(&self) -> u64 { match self { %s } }\n"
                 "    #[verifier::external_body] pub fn to_u64(&self) -> (r: Option<u64>) ensures r == Some(self.disc()) { unimplemented!() }\n"
                 "    /// `self as u64` of a field-less enum is its discriminant (R-enumcast rewrites the cast to this call)\n"
                 "    #[verifier::external_body] pub fn as_u64_(self) -> (r: u64) ensures r == self.disc() { unimplemented!() }\n}\n") % (t["name"], arms)
    pre = t.get("attrs", "")
    log.append(dict(type=t["name"], source=t["source"], line=loc["line"],
                    sha=hashlib.sha256(loc["text"].encode()).hexdigest()[:16]))
    return (pre + "\n" if pre else "") + text + "\n"


def assemble(unit_name, canary=False, demote=()):
    """returns (text, recs, meta).  recs carry emit byte spans into text."""
    u = load_unit(unit_name)
    udir = u["_dir"]
    props = u.get("properties", [])
    chunks = []
    pos = [0]

    def add(t):
        chunks.append(t)
        pos[0] += len(t.encode())

    add("#![allow(unused_imports, unused_variables, dead_code, unused_mut, unused_parens, non_snake_case, unused_assignments, unreachable_code)]\n")
    for l in u.get("crate_attrs", []):
        add(l.rstrip() + "\n")
    add("use vstd::prelude::*;\n")
    for l in u.get("uses", []):
        add(l.rstrip() + "\n")
    add("verus! {\n")
    types_log = []
    for rel in u.get("prelude", []):
        add("// ---- prelude: %s\n" % rel)
        ptext = _read_rel(udir, rel)
        for ps in u.get("prelude_subst", []):
            # a shared prelude file taken with one declaration replaced (e.g. a type that is opaque there and extracted from /repo here)
            if ps["file"] == rel:
                if ptext.count(ps["from"]) != 1:
                    raise AnchorLost("prelude_subst: `%s` occurs %d times in %s" % (ps["from"], ptext.count(ps["from"]), rel))
                ptext = ptext.replace(ps["from"], ps["to"])
        add(ptext + "\n")
    for t in u.get("type", []):
        add(emit_type(t, types_log))
    for rel in u.get("lemmas", []):
        add("// ---- lemmas: %s\n" % rel)
        ltext = _read_rel(udir, rel)
        for ps in u.get("prelude_subst", []):
            if ps["file"] == rel:
                if ltext.count(ps["from"]) != 1:
                    raise AnchorLost("prelude_subst: `%s` occurs %d times in %s" % (ps["from"], ltext.count(ps["from"]), rel))
                ltext = ltext.replace(ps["from"], ps["to"])
        add(ltext + "\n")
    recs = []
    cur_impl = None
    fns = list(u.get("fn", []))
    # include_all = ["numeric", ...]: every function proved in those units is made available here as an assumed stub with the
    # same contract text (so an edit that starts using another method of e.g. BigNum still reaches the verifier)
    have = set()
    for f in fns:
        have.add(f.get("from_id") if "from_unit" in f else fn_id(f))
    extra = []
    for inc in u.get("include_all", []):
        only = None
        if isinstance(inc, dict):
            only = inc.get("impls")
            inc = inc["unit"]
        for f in load_unit(inc).get("fn", []):
            if "from_unit" in f or f.get("variant") or f.get("no_export"):
                continue        # no_export: the contract mentions model text only the owning unit includes
            if only is not None and f.get("impl") not in only:
                continue
            fid = fn_id(f)
            if fid in have:
                continue
            if (f.get("impl") or "").startswith("impl From<") or (f.get("impl") or "").startswith("impl TryFrom<"):
                continue
            have.add(fid)
            extra.append(dict(from_unit=inc, from_id=fid))
    # stubs first (grouped by impl), then the unit's own functions
    fns = [f for f in fns if "from_unit" in f] + extra + [f for f in fns if "from_unit" not in f]
    fns_sorted = []
    seen_impl = {}
    for f in fns:
        fns_sorted.append(f)
    for f in fns_sorted:
        if "from_unit" not in f and fn_id(f) in demote:
            # the function's spliced text does not compile (lost hint anchor / unsupported construct after an edit):
            # keep its contract as an assumption so the rest of the unit is still checked; the driver reports it UNDECIDED
            f = dict(f)
            f["mode"] = "assume"
            emit_impl, text, rec = emit_fn(f, udir, props, recs, None)
            rec.mode = "demoted"
        else:
            try:
                emit_impl, text, rec = emit_fn(f, udir, props, recs, None)
            except (AnchorLost, Unsupported) as e:
                if "from_unit" in f:
                    raise
                # a hint/loop anchor of THIS function is gone (the function was edited): keep the rest of the unit decidable
                f2 = dict(f)
                f2["mode"] = "assume"
                try:
                    emit_impl, text, rec = emit_fn(f2, udir, props, recs, None)
                except (AnchorLost, Unsupported):
                    raise e
                rec.mode = "demoted"
                rec.demote_reason = "%s: %s" % (type(e).__name__, e)
        if emit_impl != cur_impl:
            if cur_impl:
                add("}\n")
            if emit_impl:
                add(emit_impl + " {\n")
            cur_impl = emit_impl
        ipre = f.get("impl_pre")
        if "from_unit" in f and not ipre:
            # a stub of a trait-impl method carries the spec items of its impl too (e.g. `enc` of an encoder proved elsewhere)
            ipre = dict(lookup_contract(f["from_unit"], f["from_id"])).get("impl_pre")
        if ipre:
            add(ipre.rstrip() + "\n")
        add("// ---- %s  [%s]  %s:%d-%d sha=%s\n" % (rec.id, rec.mode, rec.source, rec.line, rec.end_line, rec.sha))
        rec.emit_start = pos[0]
        add(text)
        if getattr(rec, "helper_items", None):
            # helper methods of R-chunk live in an inherent impl next to the (trait) impl; they are part of this obligation's span
            if cur_impl:
                add("}\n")
            add((rec.helper_impl or cur_impl) + " {\n")
            for h in rec.helper_items:
                add(h)
            add("}\n")
            cur_impl = None
        rec.emit_end = pos[0]
    if cur_impl:
        add("}\n")
    for rel in u.get("post", []):
        add("// ---- post: %s\n" % rel)
        add(_read_rel(udir, rel) + "\n")
    if canary:
        add("proof fn verif_canary_must_fail_() ensures false {}\n")
    add("} // verus!\nfn main() {}\n")
    text = "".join(chunks)
    # lemma / proof fn obligations declared in prelude/lemmas/post files
    meta = dict(unit=unit_name, types=types_log, properties=props, rlimit=u.get("rlimit"),
                lemma_props=u.get("lemma_properties", {}), expected=u.get("expected", {}),
                known=u.get("known", {}))
    return text, recs, meta
