"""bin/check <PROPERTY> [--tier quick|thorough]

Decides one property: runs every Verus unit and Kani harness registered for it against /repo's current working
tree, classifies each obligation, prints VIOLATION / KNOWN-FINDING / UNDECIDED lines, writes evidence/<id>.json.
exit 0 = every obligation discharged (known findings printed); 1 = violation; 2 = undecided only."""
import glob
import json
import os
import re
import sys
import time
import tomllib

from .assemble import VERIF, REPO, load_unit, EVIDENCE_DIR, REPLAY_DIR
from . import verusrun
from . import kanirun

KNOWN = os.path.join(VERIF, "known_findings.json")


def units_for(pid):
    out = []
    for p in sorted(glob.glob(os.path.join(VERIF, "contracts", "*", "unit.toml"))):
        name = os.path.basename(os.path.dirname(p))
        if name.startswith("_"):
            continue
        with open(p, "rb") as f:
            u = tomllib.load(f)
        if u.get("disabled"):
            continue
        props = set(u.get("properties", []))
        for fn in u.get("fn", []):
            props |= set(fn.get("properties", []))
        for v in u.get("lemma_properties", {}).values():
            props |= set(v)
        if pid in props:
            out.append((name, u))
    return out


def load_known():
    if not os.path.exists(KNOWN):
        return []
    return json.load(open(KNOWN)).get("findings", [])


def sanitize(s):
    return re.sub(r"[^A-Za-z0-9_.-]+", "_", s)


def write_replay(pid, ob, unit_res, extra=""):
    d = os.path.join(REPLAY_DIR, pid)
    os.makedirs(d, exist_ok=True)
    path = os.path.join(d, sanitize(ob["id"]) + ".txt")
    with open(path, "w") as f:
        f.write("property: %s\nfailed obligation: %s\nengine: %s\n" % (pid, ob["id"], ob.get("engine", "verus/z3")))
        rec = ob.get("rec")
        if rec is not None:
            f.write("function under contract: %s  (%s:%d-%d, sha256/16 of extracted text %s)\n" % (rec.id, rec.source, rec.line, rec.end_line, rec.sha))
            f.write("contract:\n  requires: %s\n  ensures: %s\n" % (rec.contract["requires"], rec.contract["ensures"]))
            f.write("rewrites applied to the extracted text:\n")
            for r in rec.rewrites:
                f.write("  %s: %s  =>  %s\n" % r)
        if unit_res is not None and getattr(unit_res, "file", None):
            f.write("assembled verifier input: %s\nverifier command: %s\n" % (unit_res.file, unit_res.cmd))
        f.write("\nverifier output for this obligation:\n")
        for m in ob.get("msgs", []):
            f.write(m.get("rendered", m.get("message", "")) + "\n")
        if ob.get("log_tail"):
            f.write(ob["log_tail"] + "\n")
        if extra:
            f.write("\n" + extra + "\n")
        if rec is not None and unit_res is not None and unit_res.file:
            try:
                tb = open(unit_res.file, "rb").read()
                f.write("\n---- verified text of the function (extracted from /repo on this run) ----\n")
                f.write(tb[rec.emit_start:rec.emit_end].decode())
            except Exception:
                pass
    return path


def main(argv):
    if not argv:
        print(__doc__)
        return 2
    pid = argv[0]
    tier = os.environ.get("VERIF_TIER", "quick")
    if "--tier" in argv:
        tier = argv[argv.index("--tier") + 1]
    seed = int(os.environ.get("VERIF_SEED", "0") or 0)
    t0 = time.time()
    known = [k for k in load_known() if k.get("status") == "open"]
    known_by_ob = {}
    for k in known:
        for o in k.get("obligations", []):
            known_by_ob.setdefault(o, []).append(k)

    lines = []
    violations = []
    undecided = []
    known_hits = {}
    all_obs = []          # dicts for evidence
    bounded = []
    trusted = []
    functions = []
    cmds = []
    solver_ms = 0

    # ---------------- Verus units
    for (uname, u) in units_for(pid):
        res = verusrun.run_unit(uname)
        cmds.append(res.cmd or ("verus <%s>" % uname))
        if res.status != "ok":
            undecided.append(("verus:%s" % uname, res.reason))
            continue
        for a in res.assumptions:
            trusted.append("[%s] %s" % (uname, a))
        lemma_props = res.meta.get("lemma_props", {})
        status_of = dict((o["id"], o["status"]) for o in res.obligations)
        for ob in res.obligations:
            rec = ob.get("rec")
            if rec is not None and getattr(rec, "carve_out_of", None) and status_of.get(rec.carve_out_of) == "verified":
                # carve-out of a known finding: it pins down what the code does WHILE the property-level obligation fails; once that
                # obligation verifies (the defect is gone) the carve-out has no meaning any more and is not an obligation
                continue
            if rec is not None:
                if pid not in rec.properties:
                    continue
            else:
                short = ob["id"].split(":lemma:")[-1]
                lp = lemma_props.get(short)
                if lp is not None and pid not in lp:
                    continue
                if lp is None and pid not in res.meta.get("properties", []):
                    continue
            ob["engine"] = "verus/z3"
            solver_ms += ob.get("ms") or 0
            entry = dict(id=ob["id"], engine="verus (z3)", status=ob["status"], solver_ms=ob.get("ms"), rlimit=ob.get("rlimit"))
            if rec is not None:
                entry["function"] = "%s:%d-%d" % (rec.source, rec.line, rec.end_line)
                entry["sha"] = rec.sha
                entry["rewrites"] = ["%s: %s => %s" % r for r in rec.rewrites if not r[0].startswith("ghost")]
                entry["ghost_insertions"] = sum(1 for r in rec.rewrites if r[0].startswith("ghost"))
                entry["contract"] = rec.contract
                functions.append("%s (%s:%d)" % (rec.id, rec.source, rec.line))
            if ob["status"] == "verified":
                if ob["id"] in known_by_ob:
                    entry["note"] = "listed as known finding but verifies now"
                all_obs.append(entry)
            elif ob["status"] == "undecided":
                undecided.append((ob["id"], "; ".join(m["message"] for m in ob["msgs"])[:300] or "rlimit/timeout"))
                all_obs.append(entry)
            else:
                if ob["id"] in known_by_ob:
                    for k in known_by_ob[ob["id"]]:
                        if k["property"] == pid or pid in k.get("also", []):
                            known_hits[k["id"]] = k
                    entry["status"] = "known-finding"
                    all_obs.append(entry)
                else:
                    path = write_replay(pid, ob, res, extra="no failing input: Verus reports the failed clause but no counterexample; "
                                        "no paired Kani harness / witness search produced an input for this obligation.")
                    violations.append((ob["id"], path, "no-failing-input-found"))
                    entry["replay"] = path
                    all_obs.append(entry)

    # ---------------- Kani harnesses
    kres = kanirun.run_for_property(pid, tier)
    for h in kres:
        cmds.append(h["cmd"])
        entry = dict(id=h["id"], engine="kani %s (cbmc)" % h.get("solver", ""), status=h["status"], solver_ms=int(h.get("wall_s", 0) * 1000),
                     scope=h["scope"], bound=h.get("bound", ""), checks=h.get("checks"), covers=h.get("covers"))
        solver_ms += entry["solver_ms"]
        for a in h.get("assumptions", []):
            trusted.append("[kani:%s] %s" % (h["name"], a))
        target = bounded if h["scope"] == "bounded" else all_obs
        if h["status"] == "verified":
            target.append(entry)
        elif h["status"] == "undecided":
            undecided.append((h["id"], h.get("reason", "")))
            target.append(entry)
        else:
            if h["id"] in known_by_ob and any(k["property"] == pid or pid in k.get("also", []) for k in known_by_ob[h["id"]]) \
                    and kanirun.failure_matches_known(h, known_by_ob[h["id"]]):
                for k in known_by_ob[h["id"]]:
                    known_hits[k["id"]] = k
                entry["status"] = "known-finding"
                target.append(entry)
            else:
                ob = dict(id=h["id"], engine="kani/cbmc", msgs=[dict(rendered=h.get("failure_text", ""))], log_tail=h.get("log_tail", ""))
                path, found = kanirun.write_replay(pid, h, os.path.join(REPLAY_DIR, pid))
                violations.append((h["id"], path, "" if found else "no-failing-input-found"))
                entry["replay"] = path
                target.append(entry)

    # ---------------- findings that live in a pinned dependency: no function of /repo can carry an obligation for them; a listed finding of
    # this kind is tied to a mechanical scan of the current tree (dependency version in Cargo.lock AND the unguarded call sites): it is
    # reported while the scan still matches and silently disappears once the tree no longer has the pattern.  A scan never raises a violation.
    import re as _re
    repo_root = os.environ.get("VERIF_REPO", "/repo")
    for k in known:
        sc = k.get("scan")
        if not sc or not (k["property"] == pid or pid in k.get("also", [])):
            continue
        try:
            lock = open(os.path.join(repo_root, sc["lock_file"])).read()
            hit = sc["lock_has"] in lock
            n = 0
            if hit:
                rx = _re.compile(sc["grep"])
                for root, _dirs, files in os.walk(os.path.join(repo_root, sc["path"])):
                    if "/tests" in root:
                        continue
                    for fn in files:
                        if fn.endswith(".rs"):
                            n += len(rx.findall(open(os.path.join(root, fn), errors="replace").read()))
            if hit and n >= sc.get("min_hits", 1):
                known_hits[k["id"]] = k
                all_obs.append(dict(id="scan:%s" % k["id"], engine="scan (Cargo.lock + grep)", status="known-finding", solver_ms=0,
                                    note="%d unguarded call sites, dependency %s" % (n, sc["lock_has"].replace("\n", " "))))
        except OSError:
            pass

    # ---------------- report
    for k in known_hits.values():
        print("KNOWN-FINDING: property=%s %s [%s]" % (pid, k["what"], k["id"]))
    for (oid, reason) in undecided:
        print("UNDECIDED property=%s obligation=%s reason=%s" % (pid, oid, reason.replace("\n", " ")[:400]))
    for (oid, path, tail) in violations:
        print("FAILED-OBLIGATION property=%s obligation=%s replay=%s" % (pid, oid, path))
    # canonical lines (exact format required by the interface)
    for (oid, path, tail) in violations:
        print("VIOLATION property=%s replay=%s%s" % (pid, path, (" " + tail) if tail else ""))

    n_ob = sum(1 for e in all_obs if e["status"] != "known-finding")
    n_dis = sum(1 for e in all_obs if e["status"] == "verified")
    wall = time.time() - t0
    seen = set()
    trusted_u = [t for t in trusted if not (t in seen or seen.add(t))]
    samples = []
    for e in all_obs[:]:
        if e.get("contract") and (e["contract"]["ensures"] or e["contract"]["requires"]):
            samples.append(dict(obligation=e["id"], function=e.get("function"), requires=e["contract"]["requires"], ensures=e["contract"]["ensures"], status=e["status"]))
        elif e["engine"].startswith("kani"):
            samples.append(dict(obligation=e["id"], scope=e.get("scope"), status=e["status"]))
        if len(samples) >= 6:
            break
    if not samples:
        samples = [dict(obligation=e["id"], status=e["status"]) for e in all_obs[:3]] or [dict(note="no obligations")]
    level = "proof" if n_ob > 0 else "other"
    ev = dict(
        property_id=pid, tier=tier, seed=seed, level=level,
        coverage=dict(
            obligations=n_ob, discharged=n_dis,
            checker_cmd=" ; ".join(dict.fromkeys(cmds))[:4000] or "none",
            trusted_base=trusted_u,
            samples=samples,
            functions_under_contract=sorted(set(functions)),
            obligation_list=all_obs,
            bounded_checks=bounded,
            bounded_note="bounded_checks are stand-ins with a stated bound; never counted in obligations/discharged",
            known_findings=[dict(id=k["id"], what=k["what"]) for k in known_hits.values()],
            undecided=[dict(obligation=o, reason=r[:300]) for (o, r) in undecided],
            solver_ms_total=solver_ms,
            explanation="contract-based deductive verification: Verus on function text extracted from /repo at run time + Kani harnesses compiled into the real crate",
        ),
        assumptions=GLOBAL_ASSUMPTIONS,
        wall_s=round(wall, 2),
        violations=len(violations),
    )
    os.makedirs(EVIDENCE_DIR, exist_ok=True)
    with open(os.path.join(EVIDENCE_DIR, pid + ".json"), "w") as f:
        json.dump(ev, f, indent=1, default=str)
    print("SUMMARY property=%s tier=%s obligations=%d discharged=%d bounded=%d known_findings=%d undecided=%d violations=%d wall=%.1fs" % (
        pid, tier, n_ob, n_dis, len(bounded), len(known_hits), len(undecided), len(violations), wall))
    if violations:
        return 1
    if undecided or n_ob == 0:
        if n_ob == 0 and not undecided:
            print("UNDECIDED property=%s obligation=* reason=no obligations generated (vacuity guard)" % pid)
        return 2
    return 0


GLOBAL_ASSUMPTIONS = [
    "rustc, Verus 0.2026.09.13 + Z3, Kani 0.68 + CBMC are sound; Kani does not prove termination",
    "the extractor's closed rewrite list (DESIGN.md section 3) preserves semantics; each application is listed per obligation",
    "assumed contracts on dependencies and on callees not proved in any unit are listed in trusted_base (mechanical scan of the assembled files)",
    "usize == u64 (native 64-bit target); the wasm32 target is not covered",
    "derived trait impls (PartialEq/Ord/Clone) behave structurally as specified in the preludes",
]

if __name__ == "__main__":
    sys.exit(main(sys.argv[1:]))
