"""Kani side: harnesses live in /verif/kani/<module>.rs and are mounted into the real crate by add-only
`#[cfg(kani)] #[path = "/verif/kani/<module>.rs"] mod verif_kani_<module>;` hook lines (see MANIFEST.hooks).
`cargo kani` compiles /repo/rust itself (current working tree) with a target dir under /verif/.work."""
import glob
import hashlib
import json
import os
import re
import resource
import shutil
import subprocess
import time
import tomllib

from .assemble import VERIF, REPO

from .assemble import WORKDIR as WORK
REG = os.path.join(VERIF, "kani", "harnesses.toml")
CRATE = os.path.join(REPO, "rust")


def registry():
    if not os.path.exists(REG):
        return []
    with open(REG, "rb") as f:
        return tomllib.load(f).get("harness", [])


def tree_hash():
    h = hashlib.sha256()
    files = sorted(glob.glob(os.path.join(CRATE, "src", "**", "*.rs"), recursive=True))
    files += [os.path.join(CRATE, "Cargo.toml"), os.path.join(CRATE, "Cargo.lock")]
    for p in files:
        try:
            with open(p, "rb") as f:
                h.update(p.encode())
                h.update(f.read())
        except FileNotFoundError:
            pass
    return h.hexdigest()


def _limit(mem_gb):
    def f():
        b = int(mem_gb * (1 << 30))
        resource.setrlimit(resource.RLIMIT_AS, (b, b))
        os.setsid()
    return f


def run_harness(h, tree, use_cache=True, playback=False):
    name = h["name"]
    modfile = os.path.join(VERIF, "kani", h["module"] + ".rs")
    common = os.path.join(VERIF, "kani", "common.rs")
    key = hashlib.sha256((tree + open(modfile).read() + (open(common).read() if os.path.exists(common) else "") +
                          json.dumps(h, sort_keys=True) + ("PB" if playback else "")).encode()).hexdigest()
    cpath = os.path.join(WORK, "kani-cache", key + ".json")
    if use_cache and os.path.exists(cpath):
        try:
            r = json.load(open(cpath))
            r["from_cache"] = True
            return r
        except Exception:
            pass
    cmd = ["cargo", "kani", "--target-dir", os.path.join(WORK, "kani-target"), "--harness", name,
           "-Z", "stubbing", "-Z", "function-contracts"]
    cmd += h.get("flags", [])
    if playback:
        cmd += ["-Z", "concrete-playback", "--concrete-playback=print"]
    env = dict(os.environ)
    env["CARGO_NET_OFFLINE"] = "true"
    env.pop("RUSTFLAGS", None)
    t0 = time.time()
    timeout = h.get("timeout", 600)
    mem = h.get("mem_gb", 16)
    log = ""
    status = "undecided"
    reason = ""
    try:
        p = subprocess.Popen(cmd, cwd=CRATE, env=env, stdout=subprocess.PIPE, stderr=subprocess.STDOUT, text=True,
                             preexec_fn=_limit(mem))
        try:
            log, _ = p.communicate(timeout=timeout)
            rc = p.returncode
        except subprocess.TimeoutExpired:
            try:
                os.killpg(p.pid, 9)
            except Exception:
                p.kill()
            log, _ = p.communicate()
            rc = 124
            reason = "timeout after %ds" % timeout
    except Exception as e:
        rc = 125
        reason = "could not run cargo kani: %s" % e
    wall = time.time() - t0
    r = dict(name=name, id="kani:%s:%s" % (h["module"], name), cmd="(cd %s && CARGO_NET_OFFLINE=true %s)" % (CRATE, " ".join(cmd)),
             wall_s=round(wall, 1), scope=h.get("scope", "bounded"), bound=h.get("bound", ""), assumptions=h.get("assumptions", []),
             rc=rc, from_cache=False)
    r.update(interpret(log, rc, reason))
    r["log_tail"] = log[-6000:]
    if playback:
        r["playback_test"] = extract_playback(log)
    os.makedirs(os.path.dirname(cpath), exist_ok=True)
    # do not cache infrastructure failures (they may be transient)
    if not (r["status"] == "undecided" and rc in (124, 125)):
        with open(cpath, "w") as f:
            json.dump(r, f)
    return r


def interpret(log, rc, reason=""):
    out = dict(status="undecided", reason=reason, checks=None, covers=None, failed_checks=[], failure_text="", solver="")
    m = re.search(r"\*\* (\d+) of (\d+) failed", log)
    if m:
        out["checks"] = dict(failed=int(m.group(1)), total=int(m.group(2)))
    m = re.search(r"\*\* (\d+) of (\d+) cover properties satisfied", log)
    if m:
        out["covers"] = dict(satisfied=int(m.group(1)), total=int(m.group(2)))
    m = re.search(r"Solving with (\S+.*)", log)
    if m:
        out["solver"] = m.group(1).strip()[:40]
    fails = []
    for fm in re.finditer(r"Failed Checks: (.*)\n\s*File: \"([^\"]+)\", line (\d+), in (\S+)", log):
        fails.append(dict(desc=fm.group(1).strip(), file=fm.group(2), line=int(fm.group(3)), fn=fm.group(4)))
    if not fails:
        for fm in re.finditer(r"Failed Checks: (.*)", log):
            fails.append(dict(desc=fm.group(1).strip(), file="", line=0, fn=""))
    out["failed_checks"] = fails
    if "VERIFICATION:- SUCCESSFUL" in log:
        if out["covers"] and out["covers"]["satisfied"] < out["covers"]["total"]:
            out["status"] = "undecided"
            out["reason"] = "vacuity guard: %d of %d cover properties satisfied" % (out["covers"]["satisfied"], out["covers"]["total"])
        else:
            out["status"] = "verified"
    elif "VERIFICATION:- FAILED" in log:
        unwind = [f for f in fails if "unwinding assertion" in f["desc"]]
        unsupported = [f for f in fails if "is not currently supported" in f["desc"] or "unsupported" in f["desc"].lower()]
        real = [f for f in fails if f not in unwind and f not in unsupported]
        if real:
            out["status"] = "failed"
            out["failure_text"] = "\n".join("%s  (%s:%d in %s)" % (f["desc"], f["file"], f["line"], f["fn"]) for f in real)
        elif unwind:
            out["reason"] = "unwinding assertion failed (bound too small): undecided"
        elif unsupported:
            out["reason"] = "unsupported construct reached: " + unsupported[0]["desc"][:200]
        elif "Out of memory" in log[-4000:] or "CBMC failed with status 6" in log[-4000:]:
            out["reason"] = "CBMC ran out of memory under the cap: undecided"
        else:
            out["reason"] = "VERIFICATION FAILED without an attributable failed check"
    else:
        if not out["reason"]:
            tail = log.strip().splitlines()[-8:]
            if "memory" in log[-3000:].lower() or rc in (-9, 137, -6, 134):
                out["reason"] = "out of memory / killed (rc=%s)" % rc
            elif re.search(r"error(\[E\d+\])?:", log):
                errs = re.findall(r"error(?:\[E\d+\])?:.*", log)
                out["reason"] = "harness does not compile against the current tree: " + " | ".join(errs[:3])[:400]
            else:
                out["reason"] = "no verdict (rc=%s): %s" % (rc, " | ".join(tail)[:300])
    return out


def extract_playback(log):
    m = re.search(r"(#\[test\]\s*\n\s*fn kani_concrete_playback_[\s\S]*?\n\}\s*\n)", log)
    if not m:
        m = re.search(r"```\s*\n(#\[test\][\s\S]*?)```", log)
    return m.group(1) if m else ""


def failure_matches_known(h, knowns):
    """a failing harness maps to a known finding only if *every* failed check is one the finding lists
    (by description substring + function); any other failed check is a new violation."""
    pats = []
    for k in knowns:
        pats += k.get("kani_failed_checks", [])
    if not pats:
        return False
    for f in h.get("failed_checks", []):
        if "unwinding assertion" in f["desc"]:
            continue
        ok = False
        for p in pats:
            if p.get("desc", "") in f["desc"] and p.get("fn", "") in f.get("fn", "") and p.get("file", "") in f.get("file", ""):
                ok = True
                break
        if not ok:
            return False
    return True


def run_for_property(pid, tier):
    if os.environ.get("VERIF_DEV_SKIP_KANI"):
        return []   # developer switch for fast mutant triage; never set by the registered commands
    hs = [h for h in registry() if pid in h.get("properties", []) and not h.get("disabled")]
    if tier == "quick":
        hs = [h for h in hs if h.get("tier", "quick") == "quick"]
    if not hs:
        return []
    tree = tree_hash()
    out = []
    for h in hs:
        out.append(run_harness(h, tree))
    return out


def write_replay(pid, h, d):
    """Failed Kani harness: rerun with concrete playback to obtain the verifier's counterexample as a unit test over the
    real code; returns (path, found_input)."""
    os.makedirs(d, exist_ok=True)
    path = os.path.join(d, re.sub(r"[^A-Za-z0-9_.-]+", "_", h["id"]) + ".txt")
    test = ""
    try:
        reg = [x for x in registry() if x["name"] == h["name"]]
        if reg:
            pb = run_harness(reg[0], tree_hash(), playback=True)
            test = pb.get("playback_test", "")
    except Exception as e:
        test = ""
    with open(path, "w") as f:
        f.write("property: %s\nfailed obligation: %s\nengine: kani/cbmc\ncommand: %s\n\nfailed checks:\n%s\n" % (
            pid, h["id"], h["cmd"], h.get("failure_text", "")))
        if test:
            f.write("\nverifier counterexample as a concrete-playback unit test (Kani -Z concrete-playback); place it in the harness module and run\n"
                    "`cargo kani playback -Z concrete-playback -- <test name>` to execute the real code natively on these values:\n\n" + test + "\n")
        else:
            f.write("\nno concrete counterexample could be extracted from the verifier (no-failing-input-found)\n")
        f.write("\n---- tail of the verifier log ----\n" + h.get("log_tail", "")[-3000:])
    return path, bool(test)
