"""Developer entry: assemble + verify one unit and print per-obligation results (not a registered check)."""
import sys
import json
from .verusrun import run_unit


def main(argv):
    unit = argv[0]
    nocache = "--nocache" in argv
    res = run_unit(unit, use_cache=not nocache, with_canary="--nocanary" not in argv)
    print("unit=%s status=%s verified=%d errors=%d wall=%.1fs canary_failed_as_required=%s file=%s" % (
        unit, res.status, res.verified, res.errors, res.wall_s, res.canary, res.file))
    if res.reason:
        print("REASON:", res.reason)
    for o in res.obligations:
        print("  %-9s %-60s ms=%s rlimit=%s" % (o["status"], o["id"], o.get("ms"), o.get("rlimit")))
        if o["status"] != "verified" or "-v" in argv:
            for m in o["msgs"][:6]:
                print("      " + (m["rendered"] or m.get("message", "")).replace("\n", "\n      ")[:1200])
    if res.status != "ok" or "-e" in argv:
        # print rendered diagnostics
        n = 0
        for line in res.raw_err.splitlines():
            if line.startswith("{"):
                try:
                    d = json.loads(line)
                    if d.get("level") == "error":
                        print(d.get("rendered", "")[:1500])
                        n += 1
                        if n > 12:
                            break
                except Exception:
                    pass
            else:
                print(line[:300])
    return 0


if __name__ == "__main__":
    sys.exit(main(sys.argv[1:]))
