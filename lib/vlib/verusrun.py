"""Run Verus on an assembled unit file and turn its output into per-obligation verdicts."""
import hashlib
import json
import os
import re
import subprocess
import time

from .assemble import assemble, VERIF, Unsupported
from .rscan import AnchorLost

from .assemble import WORKDIR as WORK
VERUS_VERSION = None

FAIL_MSGS = (
    "postcondition not satisfied", "precondition not satisfied", "assertion failed",
    "invariant not satisfied", "possible arithmetic underflow/overflow", "possible division by zero",
    "decreases not satisfied", "could not prove termination", "possible bit shift underflow/overflow",
    "unreachable", "failed this postcondition", "loop invariant", "assertion not satisfied", "possible overflow",
    "cannot show invariant", "constructed value may fail to meet its declared type invariant",
)
UNDECIDED_MSGS = ("Resource limit", "rlimit", "timed out", "incomplete")


def verus_version():
    global VERUS_VERSION
    if VERUS_VERSION is None:
        try:
            out = subprocess.run(["verus", "--version"], capture_output=True, text=True, timeout=60).stdout
            VERUS_VERSION = out.strip().splitlines()[0] if out.strip() else "verus"
        except Exception:
            VERUS_VERSION = "verus"
    return VERUS_VERSION


class UnitResult:
    def __init__(self, unit):
        self.unit = unit
        self.status = "ok"          # ok | undecided
        self.reason = ""
        self.obligations = []       # list of dict(id, kind, status, ms, rlimit, msgs, rec)
        self.verified = 0
        self.errors = 0
        self.wall_s = 0.0
        self.file = None
        self.cmd = ""
        self.recs = []
        self.meta = {}
        self.canary = None          # True if canary failed as it must
        self.assumptions = []
        self.raw_err = ""


def scan_assumptions(text, recs):
    """mechanical scan of the assembled file: every external_body / assume_specification / axiom / assume / admit."""
    out = []
    lines = text.split("\n")
    for i, l in enumerate(lines):
        if "external_body" in l:
            # the item it is attached to: next line(s) containing fn/struct
            for j in range(i, min(i + 4, len(lines))):
                mo = re.search(r"\b(fn|struct|enum)\s+(\w+)", lines[j])
                if mo:
                    out.append("external_body %s %s" % (mo.group(1), mo.group(2)))
                    break
        mo = re.search(r"assume_specification\s*(<[^>]*>)?\s*\[\s*([^\]]+)\]", l)
        if mo:
            out.append("assume_specification " + mo.group(2).strip())
        mo = re.search(r"\baxiom\s+fn\s+(\w+)", l)
        if mo:
            out.append("axiom " + mo.group(1))
        if re.search(r"\b(assume|admit)\s*\(", l) and "//" not in l.split("assume")[0]:
            out.append("ASSUME/ADMIT in text: " + l.strip()[:100])
        mo = re.search(r"\buninterp\s+spec\s+fn\s+(\w+)", l)
        if mo:
            out.append("uninterpreted " + mo.group(1))
    seen = set()
    res = []
    for a in out:
        if a not in seen:
            seen.add(a)
            res.append(a)
    return res


def _run(path, rlimit=None, threads=8, timeout=900):
    cmd = ["verus", path, "--output-json", "--time", "--error-format=json", "--num-threads", str(threads)]
    if rlimit:
        cmd += ["--rlimit", str(rlimit)]
    t0 = time.time()
    try:
        p = subprocess.run(cmd, capture_output=True, text=True, timeout=timeout, cwd=os.path.dirname(path))
        out, err, rc = p.stdout, p.stderr, p.returncode
    except subprocess.TimeoutExpired as e:
        out, err, rc = "", "TIMEOUT", 124
    return cmd, out, err, rc, time.time() - t0


def run_unit(unit, use_cache=True, with_canary=True):
    """verify a unit; if the front end rejects the spliced text of some functions (compile error located inside their
    emitted span), those functions are demoted to assumed contracts, reported UNDECIDED, and the rest is re-verified."""
    res = _run_unit(unit, use_cache, with_canary, ())
    rounds = 0
    demote = set()
    while res.status == "undecided" and getattr(res, "offenders", None) and rounds < 4:
        demote |= set(res.offenders)
        first_reason = res.reason
        res2 = _run_unit(unit, use_cache, with_canary, tuple(sorted(demote)))
        res2.demoted = dict(getattr(res, "demoted", {}))
        for o in res.offenders:
            res2.demoted[o] = first_reason
        res = res2
        rounds += 1
    return res



def _run_canary(unit, demote):
    """second run with an extra `proof fn ... ensures false {}`: it must FAIL, otherwise the assumed contracts are contradictory"""
    canary_ok = None
    ctext, _, _ = assemble(unit, canary=True, demote=demote)
    cp = os.path.join(WORK, unit, unit.replace("-", "_") + "_canary.rs")
    with open(cp, "w") as f:
        f.write(ctext)
    ccmd = ["verus", cp, "--output-json", "--error-format=json", "--verify-function", "verif_canary_must_fail_", "--verify-root"]
    try:
        p = subprocess.run(ccmd, capture_output=True, text=True, timeout=600, cwd=os.path.dirname(cp))
        try:
            cj = json.loads(p.stdout)
            vr = cj.get("verification-results", {})
            if vr.get("errors", 0) >= 1 and vr.get("verified", 0) == 0 and not vr.get("encountered-vir-error"):
                canary_ok = True
            elif vr.get("errors", 0) == 0 and vr.get("verified", 0) >= 1:
                canary_ok = False
            else:
                canary_ok = None
        except Exception:
            canary_ok = None
    except subprocess.TimeoutExpired:
        canary_ok = None
    return canary_ok


def _run_unit(unit, use_cache, with_canary, demote):
    res = UnitResult(unit)
    res.demoted = {}
    res.offenders = []
    os.makedirs(os.path.join(WORK, unit), exist_ok=True)
    t0 = time.time()
    try:
        text, recs, meta = assemble(unit, demote=demote)
    except (AnchorLost, Unsupported, KeyError, FileNotFoundError, ValueError) as e:
        res.status = "undecided"
        res.reason = "extraction: %s: %s" % (type(e).__name__, e)
        return res
    res.recs, res.meta = recs, meta
    path = os.path.join(WORK, unit, unit.replace("-", "_") + "_unit.rs")
    with open(path, "w") as f:
        f.write(text)
    res.file = path
    res.assumptions = scan_assumptions(text, recs)
    # assume/admit inside proved text is a hard error
    for r in recs:
        if r.mode == "prove":
            seg = text.encode()[r.emit_start:r.emit_end].decode()
            if re.search(r"\b(assume|admit)\s*\(", seg):
                res.status = "undecided"
                res.reason = "assume/admit inside proved function " + r.id
                return res
    key = hashlib.sha256((text + verus_version() + str(meta.get("rlimit"))).encode()).hexdigest()
    cpath = os.path.join(WORK, "cache", key + ".json")
    cached = None
    if use_cache and os.path.exists(cpath):
        try:
            cached = json.load(open(cpath))
        except Exception:
            cached = None
    if cached is None:
        cmd, out, err, rc, wall = _run(path, meta.get("rlimit"))
        canary_ok = _run_canary(unit, demote) if with_canary else None
        cached = dict(cmd=cmd, out=out, err=err, rc=rc, wall=wall, canary=canary_ok)
        os.makedirs(os.path.dirname(cpath), exist_ok=True)
        with open(cpath, "w") as f:
            json.dump(cached, f)
        cached["from_cache"] = False
    else:
        cached["from_cache"] = True
        if with_canary and cached.get("canary") is None:
            cached["canary"] = _run_canary(unit, demote)
            fc = cached.pop("from_cache")
            with open(cpath, "w") as f:
                json.dump(cached, f)
            cached["from_cache"] = fc
    res.cmd = " ".join(cached["cmd"])
    res.wall_s = cached["wall"]
    res.canary = cached.get("canary")
    res.raw_err = cached["err"]
    _interpret(res, text, cached)
    if res.status == "ok" and res.canary is False:
        res.status = "undecided"
        res.reason = "prelude inconsistent: canary `ensures false` verified"
    return res


def _interpret(res, text, c):
    try:
        j = json.loads(c["out"])
    except Exception:
        res.status = "undecided"
        res.reason = "verus produced no JSON (rc=%s): %s" % (c["rc"], c["err"][-400:])
        return
    vr = j.get("verification-results", {})
    res.verified, res.errors = vr.get("verified", 0), vr.get("errors", 0)
    diags = []
    for line in c["err"].splitlines():
        line = line.strip()
        if not line.startswith("{"):
            continue
        try:
            d = json.loads(line)
        except Exception:
            continue
        if d.get("level") == "error" and d.get("spans"):
            diags.append(d)
        elif d.get("level") == "error" and not d.get("message", "").startswith("aborting"):
            diags.append(d)
    # compile-level failure: errors but nothing verified/failed by SMT
    fn_break = {}
    for mod in j.get("times-ms", {}).get("smt", {}).get("smt-run-module-times", []):
        for fb in mod.get("function-breakdown", []):
            fn_break[fb["function"]] = fb
    if vr.get("encountered-vir-error") or (vr.get("encountered-error") and res.verified + res.errors == 0):
        msgs = "; ".join(d.get("message", "")[:200] for d in diags[:4])
        res.status = "undecided"
        res.reason = "verus front end rejected the unit (unsupported construct / type error): " + msgs
        offenders = []
        for d in diags:
            for sp in d.get("spans", []):
                if not sp.get("file_name", "").endswith(os.path.basename(res.file)):
                    continue
                for r in res.recs:
                    if r.mode == "prove" and r.emit_start <= sp["byte_start"] < r.emit_end and r.id not in offenders:
                        offenders.append(r.id)
        res.offenders = offenders
        return
    tb = text.encode()
    # attribute each diagnostic to an emitted function by byte span
    per_rec = {r.id: [] for r in res.recs}
    other = []
    for d in diags:
        msg = d.get("message", "")
        placed = False
        spans = sorted(d.get("spans", []), key=lambda s: not s.get("is_primary"))
        # prefer spans that fall into a proved function; the failing *function* is the one whose body contains
        # "at the end of the function body" / the call site; take the first span inside any prove-mode rec
        cand = []
        for sp in d.get("spans", []):
            for r in res.recs:
                if r.mode == "prove" and r.emit_start <= sp["byte_start"] < r.emit_end:
                    cand.append((r, sp))
        if cand:
            # if several recs are touched (precondition of callee + call site), the caller is where label is empty or
            # 'at this call' ; choose the rec containing a non-primary span if message is a precondition failure
            r = cand[0][0]
            # the failing function is the one that contains the PRIMARY span (the call site for a failed precondition,
            # the failed clause for a postcondition - both lie inside the emitted text of the function being verified)
            for (rr, sp) in cand:
                if sp.get("is_primary"):
                    r = rr
                    break
            if "postcondition" in msg:
                for (rr, sp) in cand:
                    if not sp.get("is_primary"):
                        r = rr
                        break
            per_rec[r.id].append(dict(message=msg, rendered=d.get("rendered", "")[:1500]))
            placed = True
        if not placed:
            other.append(d)
    # lemma / proof fns from prelude+lemma files: by breakdown name
    crate = os.path.basename(res.file)[:-3]
    rec_names = set()
    for r in res.recs:
        ob = dict(id="verus:%s:%s" % (res.unit, r.id), kind="fn", mode=r.mode, rec=r, msgs=per_rec[r.id], ms=None, rlimit=None)
        if r.mode == "demoted":
            ob["status"] = "undecided"
            ob["msgs"] = [dict(message="function could not be brought to the verifier after the edit (lost hint anchor / unsupported construct): " + (getattr(r, "demote_reason", "") or res.demoted.get(r.id, "")), rendered="")]
            res.obligations.append(ob)
            continue
        if r.mode != "prove":
            continue
        # timing info by suffix
        for name, fb in fn_break.items():
            short = name.split("::", 1)[1] if "::" in name else name
            if short == r.id or _name_match(short, r):
                ob["ms"] = fb.get("time")
                ob["rlimit"] = fb.get("rlimit")
                ob["smt_success"] = fb.get("success")
                rec_names.add(name)
                break
        if per_rec[r.id]:
            if all(any(u in m["message"] for u in UNDECIDED_MSGS) for m in per_rec[r.id]):
                ob["status"] = "undecided"
            else:
                ob["status"] = "failed"
        else:
            ob["status"] = "verified"
        res.obligations.append(ob)
    for name, fb in fn_break.items():
        if name in rec_names or not name.startswith(crate + "::"):
            continue
        short = name.split("::", 1)[1]
        if fb.get("mode:") == "proof" or fb.get("mode") == "proof":
            if short == "verif_canary_must_fail_":
                continue
            st = "verified" if fb.get("success") else "failed"
            msgs = []
            if st == "failed":
                for d in other:
                    if short.split("::")[-1] in d.get("rendered", "") or _enclosing_fn(text, d) == short.split("::")[-1]:
                        msgs.append(dict(message=d.get("message", ""), rendered=d.get("rendered", "")[:1500]))
                        if any(u in d.get("message", "") for u in UNDECIDED_MSGS):
                            st = "undecided"
            res.obligations.append(dict(id="verus:%s:lemma:%s" % (res.unit, short), kind="lemma", mode="prove", rec=None,
                                        msgs=msgs, ms=fb.get("time"), rlimit=fb.get("rlimit"), status=st))
        elif not fb.get("success"):
            # an exec fn of the prelude (not extracted) failed: prelude is broken -> undecided
            res.status = "undecided"
            res.reason = "prelude function failed to verify: " + short
    # diagnostics that could not be attributed and are not lemma failures
    stray = [d for d in other if not any(d.get("rendered", "") and o["kind"] == "lemma" and o["status"] != "verified" for o in res.obligations)]
    nfail = sum(1 for o in res.obligations if o["status"] == "failed")
    if res.errors > 0 and nfail == 0 and not any(o["status"] == "undecided" for o in res.obligations):
        res.status = "undecided"
        res.reason = "verus reported %d errors that could not be attributed: %s" % (
            res.errors, "; ".join(d.get("message", "")[:160] for d in other[:3]))


def _enclosing_fn(text, d):
    """name of the `fn` whose text contains the diagnostic's primary span (for lemmas of prelude/lemma files)"""
    try:
        sp = [x for x in d.get("spans", []) if x.get("is_primary")] or d.get("spans", [])
        pos = sp[0]["byte_start"]
        head = text.encode()[:pos + 200].decode(errors="ignore")
        m = None
        for m in re.finditer(r"\bfn\s+(\w+)", head[:len(head) - 0]):
            if m.start() > pos:
                break
            last = m
        # the last `fn NAME` that starts at or before pos
        cands = [x for x in re.finditer(r"\bfn\s+(\w+)", head) if x.start() <= pos + 10]
        return cands[-1].group(1) if cands else None
    except Exception:
        return None


def _name_match(short, r):
    """breakdown name (crate-relative, e.g. `Rational::new`, `serialize`, `impl&%3::clone`) vs an emitted function"""
    a = short.split("::")
    fn = getattr(r, "fn_name", r.id.split("::")[-1])
    if a[-1] != fn:
        return False
    hdr = getattr(r, "impl_hdr", "")
    if not hdr:
        return len(a) == 1
    if len(a) < 2:
        return False
    ty = re.sub(r"^impl(<[^>]*>)?\s+", "", hdr).split(" for ")[-1]
    ty = re.sub(r"<.*>", "", ty).strip()
    return a[-2] == ty or a[-2].startswith("impl&%")


def _impl_match(short, rid):
    # short: e.g. "Rational::new" or "impl&%3::clone"; rid "Rational::new"
    a = short.split("::")
    b = rid.split("::")
    if a[-1] != b[-1]:
        return False
    if len(b) == 1:
        return len(a) == 1
    return len(a) >= 2 and (a[-2] == b[-2])
