"""Minimal Rust source scanner: code mask (strings / chars / comments), brace matching,
location of impl blocks, functions and type definitions.  Purely lexical; good enough for
rustfmt-formatted sources.  Every failure to locate something raises AnchorLost, which the
driver reports as UNDECIDED (exit 2), never as a violation."""
import re


class AnchorLost(Exception):
    pass


def code_mask(s):
    """bytearray: 1 where s[i] is code, 0 inside string/char literals and comments."""
    n = len(s)
    m = bytearray(b"\x01") * n
    i = 0
    while i < n:
        c = s[i]
        if c == "/" and i + 1 < n and s[i + 1] == "/":
            j = s.find("\n", i)
            if j < 0:
                j = n
            for k in range(i, j):
                m[k] = 0
            i = j
        elif c == "/" and i + 1 < n and s[i + 1] == "*":
            d = 1
            j = i + 2
            while j < n and d > 0:
                if s.startswith("/*", j):
                    d += 1
                    j += 2
                elif s.startswith("*/", j):
                    d -= 1
                    j += 2
                else:
                    j += 1
            for k in range(i, j):
                m[k] = 0
            i = j
        elif c == '"' or (c == "b" and i + 1 < n and s[i + 1] == '"' and not _ident_before(s, i)):
            if c == "b":
                i += 1
            j = i + 1
            while j < n and s[j] != '"':
                if s[j] == "\\":
                    j += 1
                j += 1
            for k in range(i + 1, min(j, n)):
                m[k] = 0
            i = j + 1
        elif c == "r" and not _ident_before(s, i) and re.match(r'r#*"', s[i:i + 8]):
            h = 0
            j = i + 1
            while s[j] == "#":
                h += 1
                j += 1
            end = s.find('"' + "#" * h, j + 1)
            if end < 0:
                end = n
            for k in range(j + 1, end):
                m[k] = 0
            i = end + 1 + h
        elif c == "'":
            # char literal or lifetime
            if i + 1 < n and s[i + 1] == "\\":
                j = s.find("'", i + 2)
                if j >= 0 and s[j - 1] == "\\" and s[j - 2] != "\\":  # '\''
                    j = s.find("'", j + 1)
                for k in range(i + 1, j):
                    m[k] = 0
                i = j + 1
            elif i + 2 < n and s[i + 2] == "'":
                m[i + 1] = 0
                i += 3
            else:
                i += 1  # lifetime
        else:
            i += 1
    return m


def _ident_before(s, i):
    return i > 0 and (s[i - 1].isalnum() or s[i - 1] == "_")


OPEN = {"(": ")", "[": "]", "{": "}"}


def match_close(s, m, i):
    """index of the bracket closing the one at s[i] (code positions only)."""
    o = s[i]
    c = OPEN[o]
    d = 0
    n = len(s)
    k = i
    while k < n:
        if m[k]:
            ch = s[k]
            if ch == o:
                d += 1
            elif ch == c:
                d -= 1
                if d == 0:
                    return k
        k += 1
    raise AnchorLost("unbalanced %s at %d" % (o, i))


def find_code(s, m, needle, lo=0, hi=None):
    """first index >= lo of needle with its first char in code."""
    hi = len(s) if hi is None else hi
    k = lo
    while True:
        k = s.find(needle, k, hi)
        if k < 0:
            return -1
        if m[k]:
            return k
        k += 1


def norm_ws(t):
    return re.sub(r"\s+", " ", t).strip()


class Src:
    def __init__(self, path, text=None):
        self.path = path
        self.text = open(path).read() if text is None else text
        self.mask = code_mask(self.text)
        self._impls = None

    # ---- impl blocks -------------------------------------------------------------
    def impls(self):
        if self._impls is None:
            out = []
            s, m = self.text, self.mask
            for mo in re.finditer(r"(?m)^[ \t]*(unsafe\s+)?impl\b", s):
                i = mo.start()
                if not m[mo.end() - 1]:
                    continue
                b = find_code(s, m, "{", mo.end())
                if b < 0:
                    continue
                hdr = norm_ws(s[mo.start():b])
                try:
                    e = match_close(s, m, b)
                except AnchorLost:
                    continue
                out.append((hdr, i, b, e))
            self._impls = out
        return self._impls

    def impl_ranges(self, hdr):
        want = norm_ws(hdr)
        r = [(b, e) for (h, i, b, e) in self.impls() if h == want]
        if not r:
            raise AnchorLost("impl block not found: '%s' in %s" % (want, self.path))
        return r

    # ---- functions ---------------------------------------------------------------
    def find_fn(self, name, impl=None, nth=0, nested_in=None):
        """returns dict(start, body_open, body_close, sig, body, line).  nested_in=(fn name, impl): a fn item nested in that fn's body."""
        s, m = self.text, self.mask
        pat = re.compile(
            r"(?m)^[ \t]*((?:pub\s*(?:\([^)]*\))?\s+)?(?:const\s+)?(?:unsafe\s+)?fn\s+" + re.escape(name) + r")\s*[<(]")
        if nested_in is not None:
            outer = self.find_fn(nested_in[0], nested_in[1], 0)
            excl = []
            ranges = [(outer["body_open"], outer["body_close"])]
            impl_for_depth = None
        if nested_in is not None:
            pass
        elif impl is None:
            excl = [(b, e) for (_, _, b, e) in self.impls()]
            ranges = [(0, len(s))]
        else:
            excl = []
            ranges = self.impl_ranges(impl)
        hits = []
        for (lo, hi) in ranges:
            for mo in pat.finditer(s, lo, hi):
                st = mo.start(1)
                if not m[st]:
                    continue
                if any(b < st < e for (b, e) in excl):
                    continue
                if impl is not None and nested_in is None:
                    # must be at depth 1 of the impl block (not a nested fn)
                    if self._depth(lo, st) != 1:
                        continue
                hits.append((st, mo.end() - 1))
        if len(hits) <= nth:
            raise AnchorLost("fn not found: %s%s in %s" % ((impl + "::") if impl else "", name, self.path))
        st, after_name = hits[nth]
        # parameter list: skip generics
        k = after_name
        if s[k] == "<":
            k = self._skip_angle(k)
            while s[k] != "(":
                k += 1
        pe = match_close(s, m, k)
        # body open: first '{' in code after params at bracket depth 0; ';' first => declaration only
        j = pe + 1
        while True:
            ch = s[j]
            if m[j]:
                if ch == "{":
                    break
                if ch == ";":
                    raise AnchorLost("fn %s has no body" % name)
                if ch in "([":
                    j = match_close(s, m, j)
            j += 1
        be = match_close(s, m, j)
        return dict(start=st, params_open=k, params_close=pe, body_open=j, body_close=be,
                    sig=s[st:j], body=s[j:be + 1], line=s.count("\n", 0, st) + 1,
                    end_line=s.count("\n", 0, be) + 1)

    def _depth(self, lo, pos):
        s, m = self.text, self.mask
        d = 0
        for k in range(lo, pos):
            if m[k]:
                if s[k] == "{":
                    d += 1
                elif s[k] == "}":
                    d -= 1
        return d

    def _skip_angle(self, k):
        s = self.text
        d = 0
        while True:
            if s[k] == "<":
                d += 1
            elif s[k] == ">" and s[k - 1] != "-":
                d -= 1
                if d == 0:
                    return k + 1
            k += 1

    # ---- type definitions --------------------------------------------------------
    def find_type(self, kind, name):
        s, m = self.text, self.mask
        mo = None
        for x in re.finditer(r"(?m)^[ \t]*(pub\s*(\([^)]*\))?\s+)?" + kind + r"\s+" + re.escape(name) + r"\b", s):
            if m[x.start() + len(x.group(0)) - 1]:
                mo = x
                break
        if mo is None:
            raise AnchorLost("type not found: %s %s in %s" % (kind, name, self.path))
        i = mo.start()
        # tuple struct `struct X(..);` or braced
        j = mo.end()
        while s[j] not in "{(;":
            j += 1
        if s[j] == ";":
            e = j
        elif s[j] == "(":
            e = match_close(s, m, j)
            e = s.index(";", e)
        else:
            e = match_close(s, m, j)
        return dict(start=i, end=e, text=s[i:e + 1], line=s.count("\n", 0, i) + 1)
