#!/bin/bash
# usage: tools/confirm2.sh <PROP>  — confirm round-5 mutants from /tmp/mut_out4/<PROP>/N and store them as seeded/<PROP>-<N+offset>
P=$1; off=$(ls -d /verif/seeded/$P-* 2>/dev/null | wc -l)
rm -rf /tmp/mut_re4/$P; mkdir -p /tmp/mut_re4/$P
for d in /tmp/mut_out4/$P/*/; do n=$(basename $d); cp -r $d /tmp/mut_re4/$P/$((n+off)); done
git -C /repo worktree remove --force /tmp/wt4_$P 2>/dev/null
/verif/tools/confirm_mutants.sh /tmp/mut_re4/$P $P 2>&1 | tail -5
