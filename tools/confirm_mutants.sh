#!/bin/bash
# usage: tools/confirm_mutants.sh <dir-with-N/patch.diff,demo.rs,meta.json> <PROP>   (e.g. /tmp/mut_out/C19 C19)
# Confirms each mutant in a scratch worktree (outside /repo and /verif): compiles, full suite passes, demo fails with / passes without.
# Confirmed ones are copied to /verif/seeded/<PROP>-<N>/ with the confirmation log appended to meta.json.
SRC="$1"; PROP="$2"
WT=/tmp/wt_confirm_$PROP
git -C /repo worktree add -q --detach $WT HEAD || exit 1
cp /repo/rust/Cargo.lock $WT/rust/ 2>/dev/null
export CARGO_TARGET_DIR=$WT/target CARGO_NET_OFFLINE=true
for d in $SRC/*/; do
  n=$(basename $d)
  [ -f $d/patch.diff ] || continue
  cd $WT && git checkout -q -- . && rm -f rust/tests/demo.rs
  # demo on the clean tree
  mkdir -p rust/tests && cp $d/demo.rs rust/tests/demo.rs
  (cd rust && cargo test --offline --test demo > /tmp/confirm_${PROP}_${n}_clean.log 2>&1); clean_rc=$?
  git apply $d/patch.diff || { echo "$PROP-$n: patch does not apply"; continue; }
  (cd rust && cargo test --offline --test demo > /tmp/confirm_${PROP}_${n}_mut.log 2>&1); mut_rc=$?
  rm -f rust/tests/demo.rs
  (cd rust && cargo test --offline --workspace --no-fail-fast > /tmp/confirm_${PROP}_${n}_suite.log 2>&1); suite_rc=$?
  passed=$(grep -h "test result" /tmp/confirm_${PROP}_${n}_suite.log | head -1)
  echo "$PROP-$n: demo_clean_rc=$clean_rc demo_mutant_rc=$mut_rc suite_rc=$suite_rc :: $passed"
  if [ $clean_rc -eq 0 ] && [ $mut_rc -ne 0 ] && [ $suite_rc -eq 0 ]; then
    mkdir -p /verif/seeded/$PROP-$n
    cp $d/patch.diff $d/demo.rs /verif/seeded/$PROP-$n/
    python3 - "$d/meta.json" "/verif/seeded/$PROP-$n/meta.json" "$passed" <<'PY'
import json,sys
try: m=json.load(open(sys.argv[1]))
except Exception: m={}
m["confirmed_by_main_session"]={"scratch_worktree":"outside /repo and /verif (removed afterwards)","demo_on_clean_tree":"pass","demo_with_mutant":"fail","full_suite_with_mutant":sys.argv[3]}
json.dump(m,open(sys.argv[2],"w"),indent=1)
PY
  fi
  git checkout -q -- .
done
cd / && git -C /repo worktree remove --force $WT
