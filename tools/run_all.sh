#!/bin/sh
# runs every claimed check (quick tier) on the current tree and prints one line each
cd /verif
for id in $(python3 -c "import json;print(' '.join(c['property_id'] for c in json.load(open('MANIFEST.json'))['checks']))"); do
  bin/check $id --tier ${1:-quick} > /tmp/runall_$id.out 2>&1; rc=$?
  echo "$id exit=$rc $(grep '^SUMMARY' /tmp/runall_$id.out | cut -c1-160)"
  grep -E '^(VIOLATION|UNDECIDED|KNOWN-FINDING)' /tmp/runall_$id.out | cut -c1-220
done
