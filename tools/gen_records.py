#!/usr/bin/env python3
"""Generates contracts/ser_records/{unit.toml,spec.rs} from a table transcribed from the Conway CDDL (array-shaped records: certificates,
relays, small governance / witness structures).  The table is the SPECIFICATION side: arity, leading index, field order, which fields
are `x / null`.  The encoders themselves are extracted from /repo at check time, as for every unit."""
import os, re, sys
D = os.path.dirname(os.path.dirname(os.path.abspath(__file__)))
REPO = os.environ.get("VERIF_REPO", "/repo")
# (type, type file, serializer file, array length, leading uint or None, [(kind, field)])   kind: req | null
C = "protocol_types/certificates/%s.rs"
S = "serialization/certificates/%s.rs"
G = "protocol_types/governance/proposals/%s.rs"
GS = "serialization/governance/proposals/%s.rs"
def cert(ty, f, n, idx, fields):
    return (ty, C % f, S % f, n, idx, fields)
TABLE = [
    # certificates (conway.cddl: certificate = [ stake_registration // ... ])
    cert("StakeDelegation", "stake_delegation", 3, 2, [("req", "stake_credential"), ("req", "pool_keyhash")]),
    cert("PoolRetirement", "pool_retirement", 3, 4, [("req", "pool_keyhash"), ("req", "epoch")]),
    cert("GenesisKeyDelegation", "genesis_key_delegation", 4, 5, [("req", "genesishash"), ("req", "genesis_delegate_hash"), ("req", "vrf_keyhash")]),
    cert("VoteDelegation", "vote_delegation", 3, 9, [("req", "stake_credential"), ("req", "drep")]),
    cert("StakeAndVoteDelegation", "stake_and_vote_delegation", 4, 10, [("req", "stake_credential"), ("req", "pool_keyhash"), ("req", "drep")]),
    cert("StakeRegistrationAndDelegation", "stake_registration_and_delegation", 4, 11, [("req", "stake_credential"), ("req", "pool_keyhash"), ("req", "coin")]),
    cert("VoteRegistrationAndDelegation", "vote_registration_and_delegation", 4, 12, [("req", "stake_credential"), ("req", "drep"), ("req", "coin")]),
    cert("StakeVoteRegistrationAndDelegation", "stake_vote_registration_and_delegation", 5, 13, [("req", "stake_credential"), ("req", "pool_keyhash"), ("req", "drep"), ("req", "coin")]),
    cert("CommitteeHotAuth", "committee_hot_auth", 3, 14, [("req", "committee_cold_credential"), ("req", "committee_hot_credential")]),
    cert("CommitteeColdResign", "committee_cold_resign", 3, 15, [("req", "committee_cold_credential"), ("null", "anchor")]),
    cert("DRepRegistration", "drep_registration", 4, 16, [("req", "voting_credential"), ("req", "coin"), ("null", "anchor")]),
    cert("DRepDeregistration", "drep_deregistration", 3, 17, [("req", "voting_credential"), ("req", "coin")]),
    cert("DRepUpdate", "drep_update", 3, 18, [("req", "voting_credential"), ("null", "anchor")]),
    # relays (relay = [ single_host_addr // single_host_name // multi_host_name ])
    ("SingleHostAddr", "lib.rs", "serialization/general.rs", 4, 0, [("null", "port"), ("null", "ipv4"), ("null", "ipv6")]),
    ("SingleHostName", "lib.rs", "serialization/general.rs", 3, 1, [("null", "port"), ("req", "dns_name")]),
    ("MultiHostName", "lib.rs", "serialization/general.rs", 2, 2, [("req", "dns_name")]),
    # small structures
    ("Anchor", "protocol_types/governance/anchor.rs", "serialization/governance/anchor.rs", 2, None, [("req", "anchor_url"), ("req", "anchor_data_hash")]),
    ("GovernanceActionId", "protocol_types/governance/governance_action_id.rs", "serialization/governance/governance_action_id.rs", 2, None, [("req", "transaction_id"), ("req", "index")]),
    ("ExUnits", "protocol_types/plutus/ex_units.rs", "serialization/plutus/ex_units.rs", 2, None, [("req", "mem"), ("req", "steps")]),
    ("PoolMetadata", "lib.rs", "serialization/general.rs", 2, None, [("req", "url"), ("req", "pool_metadata_hash")]),
    ("ProtocolVersion", "lib.rs", "serialization/general.rs", 2, None, [("req", "major"), ("req", "minor")]),
    ("TransactionInput", "protocol_types/tx_input.rs", "serialization/tx_input.rs", 2, None, [("req", "transaction_id"), ("req", "index")]),
    ("Vkeywitness", "protocol_types/witnesses/vkeywitness.rs", "serialization/witnesses/vkeywitness.rs", 2, None, [("req", "vkey"), ("req", "signature")]),
    # governance actions (gov_action = [ parameter_change_action // ... ]) and constitution
    ("HardForkInitiationAction", G % "hard_fork_initiation_action", GS % "hard_fork_initiation_action", 3, 1, [("null", "gov_action_id"), ("req", "protocol_version")]),
    ("NoConfidenceAction", G % "no_confidence_action", GS % "no_confidence_action", 2, 3, [("null", "gov_action_id")]),
    ("NewConstitutionAction", G % "new_constitution_action", GS % "new_constitution_action", 3, 5, [("null", "gov_action_id"), ("req", "constitution")]),
    ("ParameterChangeAction", G % "parameter_change_action", GS % "parameter_change_action", 4, 0, [("null", "gov_action_id"), ("req", "protocol_param_updates"), ("null", "policy_hash")]),
    ("TreasuryWithdrawalsAction", G % "treasury_withdrawals_action", GS % "treasury_withdrawals_action", 3, 2, [("req", "withdrawals"), ("null", "policy_hash")]),
    ("InfoAction", G % "info_action", GS % "info_action", 1, 6, []),
    ("Constitution", G % "constitution", GS % "constitution", 2, None, [("req", "anchor"), ("null", "script_hash")]),
    ("UnitInterval", "lib.rs", "serialization/general.rs", 2, None, [("req", "numerator"), ("req", "denominator")], "seq![Tok::Tag(30)]"),
    # native scripts (native_script = [ script_pubkey // script_all // script_any // script_n_of_k // invalid_before // invalid_hereafter ])
    ("ScriptPubkey", "protocol_types/native_script.rs", "serialization/native_script.rs", 2, 0, [("req", "addr_keyhash")]),
    ("ScriptAll", "protocol_types/native_script.rs", "serialization/native_script.rs", 2, 1, [("req", "native_scripts")]),
    ("ScriptAny", "protocol_types/native_script.rs", "serialization/native_script.rs", 2, 2, [("req", "native_scripts")]),
    ("ScriptNOfK", "protocol_types/native_script.rs", "serialization/native_script.rs", 3, 3, [("req", "n"), ("req", "native_scripts")]),
    ("TimelockStart", "protocol_types/native_script.rs", "serialization/native_script.rs", 2, 4, [("req", "slot")]),
    ("TimelockExpiry", "protocol_types/native_script.rs", "serialization/native_script.rs", 2, 5, [("req", "slot")]),
    cert("MoveInstantaneousRewardsCert", "move_instantaneous_rewards_cert", 2, 6, [("req", "move_instantaneous_reward")]),
    ("PoolParams", "protocol_types/certificates/pool_registration.rs", "serialization/certificates/pool_registration.rs", 9, None,
        [("req", "operator"), ("req", "vrf_keyhash"), ("req", "pledge"), ("req", "cost"), ("req", "margin"), ("req", "reward_account"), ("req", "pool_owners"), ("req", "relays"), ("null", "pool_metadata")]),
    ("DRepVotingThresholds", "protocol_types/protocol_param_update.rs", "serialization/protocol_param_update.rs", 10, None,
        [("req", f) for f in "motion_no_confidence committee_normal committee_no_confidence update_constitution hard_fork_initiation pp_network_group pp_economic_group pp_technical_group pp_governance_group treasury_withdrawal".split()]),
    ("PoolVotingThresholds", "protocol_types/protocol_param_update.rs", "serialization/protocol_param_update.rs", 5, None,
        [("req", f) for f in "motion_no_confidence committee_normal committee_no_confidence hard_fork_initiation security_relevant_threshold".split()]),
    ("VRFCert", "protocol_types/crypto/vrf_cert.rs", "serialization/crypto/vrf_cert.rs", 2, None, [("bytes", "output"), ("bytes", "proof")]),
    ("Update", "lib.rs", "serialization/general.rs", 2, None, [("req", "proposed_protocol_parameter_updates"), ("req", "epoch")]),
    ("VotingProposal", "protocol_types/governance/proposals/voting_proposal.rs", "serialization/governance/proposals/voting_proposal.rs", 4, None,
        [("req", "deposit"), ("req", "reward_account"), ("req", "governance_action"), ("req", "anchor")]),
    ("ExUnitPrices", "protocol_types/plutus/ex_unit_prices.rs", "serialization/plutus/ex_unit_prices.rs", 2, None, [("req", "mem_price"), ("req", "step_price")]),
    ("BootstrapWitness", "protocol_types/witnesses/bootstrap_witness.rs", "serialization/witnesses/bootstrap_witness.rs", 4, None, [("req", "vkey"), ("req", "signature"), ("bytes", "chain_code"), ("bytes", "attributes")]),
]
KNOWN = set("u8 u16 u32 u64 usize bool Option Vec String".split())
def src(p):
    return open(os.path.join(REPO, "rust/src", p)).read()
def field_types(ty, tfile):
    s = src(tfile)
    m = re.search(r"pub struct %s\s*\{(.*?)\n\}" % ty, s, re.S)
    out = {}
    if m:
        for fm in re.finditer(r"(\w+)\s*:\s*([^,\n]+),", m.group(1)):
            out[fm.group(1)] = fm.group(2).strip()
    return out
toml = ['''# GENERATED by tools/gen_records.py from a table transcribed from the Conway CDDL - do not edit by hand
unit = "ser_records"
properties = ["C03", "C01"]
prelude = ["../_common/usize64.rs", "../_common/base.rs", "../_common/cbor_model.rs", "prelude.rs", "opaque.rs"]
lemmas = ["spec.rs"]

[[type]]
source = "rust/src/serialization/map_names/certificate_index_names.rs"
kind = "enum"
name = "CertificateIndexNames"
discriminants = true
[[type]]
source = "rust/src/serialization/map_names/voting_proposal_index_names.rs"
kind = "enum"
name = "VotingProposalIndexNames"
discriminants = true

[[fn]]
source = "rust/src/serialization/utils.rs"
name = "serialize_and_check_index"
rewrites = ["serret"]
subst = [ { rule = "R-fmt", from = """format!(
            "unknown index of {}",
            name
        )""", to = "String::new()" } ]
ensures = ["index is Some ==> r is Ok && final(serializer).toks() == old(serializer).toks().push(Tok::UInt(index->Some_0))", "index is None ==> r is Err"]

[[fn]]
source = "rust/src/serialization/traits.rs"
impl = "impl<T: Serialize> SerializeNullable for Option<T>"
emit_impl = "impl<T: Ser> SerializeNullable for Option<T>"
name = "serialize_nullable"
rewrites = ["serret"]
impl_pre = \'\'\'
    open spec fn enc_nullable(&self) -> Seq<Tok> { opt_null(*self) }
\'\'\'
tail = "if r_tail_ is Ok { assert(serializer.toks() =~= old(serializer).toks() + opt_null(*self)); assert(self.enc_nullable() =~= opt_null(*self)); }"
''']
spec = ['''// GENERATED by tools/gen_records.py - token-level encodings of array-shaped records, transcribed from the Conway CDDL
pub open spec fn opt_null<T: Ser>(o: Option<T>) -> Seq<Tok> { match o { Some(x) => x.enc(), None => seq![Tok::Special(CBORSpecial::Null)] } }
''']
opaque = set()
for row in TABLE:
    (ty, tfile, sfile, n, idx, fields) = row[:6]
    prefix = row[6] if len(row) > 6 else None
    ft = field_types(ty, tfile)
    for k, f in fields:
        t = ft.get(f, "")
        for ident in re.findall(r"[A-Za-z_]\w*", t):
            if ident not in KNOWN:
                opaque.add(ident)
    s = src(sfile)
    has_group = re.search(r"impl SerializeEmbeddedGroup for %s\b" % ty, s) is not None
    toml.append('[[type]]\nsource = "rust/src/%s"\nname = "%s"\n' % (tfile, ty))
    parts = []
    for k, f in fields:
        if k == "req":
            parts.append("x.%s.enc()" % f)
        elif k == "null":
            parts.append("opt_null(x.%s)" % f)
        elif k == "bytes":
            parts.append("seq![Tok::Bytes(x.%s@)]" % f)
    head = "seq![Tok::Arr(%d)%s]" % (n, (", Tok::UInt(%d)" % idx) if idx is not None else "")
    spec.append("pub open spec fn %s_enc(x: %s) -> Seq<Tok> { %s }\n" % (ty, ty, " + ".join(([prefix] if prefix else []) + [head] + parts)))
    impl_hdr = "impl cbor_event::se::Serialize for %s" % ty
    if not re.search(re.escape(impl_hdr) + r"\b", s):
        impl_hdr = "impl Serialize for %s" % ty
    toml.append('''[[fn]]
source = "rust/src/%s"
impl = "%s"
emit_impl = "impl Ser for %s"
name = "serialize"
id = "%s::serialize"
rewrites = ["serret"]
impl_pre = \'\'\'
    open spec fn enc(&self) -> Seq<Tok> { %s_enc(*self) }
\'\'\'
tail = "if r_tail_ is Ok { assert(serializer.toks() =~= old(serializer).toks() + %s_enc(*self)); assert(self.enc() =~= %s_enc(*self)); }"
''' % (sfile, impl_hdr, ty, ty, ty, ty, ty))
    if len(fields) >= 5 and not has_group:
        # long records: cut points before each plain field so that every step is one associativity step (keeps the query small and stable)
        toml[-1] = toml[-1].replace('rewrites = ["serret"]\n', 'rewrites = ["serret"]\nhead_raw = "let ghost t0 = serializer.toks();"\n', 1)
        xs = parts_self = [q.replace('x.', 'self.') for q in parts]
        hd = (prefix + ' + ' if prefix else '') + head
        for k in range(1, len(fields)):
            if fields[k][0] != 'req':
                continue
            pre = ' + '.join([hd] + xs[:k])
            toml.append('[[fn.hint]]\nbefore_stmt = "self.%s.serialize(serializer)"\nproof = "assert(serializer.toks() =~= t0 + (%s));"\n' % (fields[k][1], pre))
    if has_group:
        toml.append('''[[fn]]
source = "rust/src/%s"
impl = "impl SerializeEmbeddedGroup for %s"
emit_impl = "impl %s"
name = "serialize_as_embedded_group"
id = "%s::serialize_as_embedded_group"
rewrites = ["serret"]
sig_subst = [ { rule = "R-inherent", from = "fn serialize_as_embedded_group", to = "pub fn serialize_as_embedded_group" } ]
ensures = ["r is Ok", "final(serializer).toks() == old(serializer).toks() + %s_enc(*self).skip(1)"]
tail = "if r_tail_ is Ok { assert(serializer.toks() =~= old(serializer).toks() + %s_enc(*self).skip(1)); }"
''' % (sfile, ty, ty, ty, ty, ty))

# ---- homogeneous collections: [* x] arrays over a Vec, { k => v } maps over an ordered entry sequence -------------------------------
# (type, type file, serializer file, kind, field, type-level substitution or None)
COLLS = [
    ("Relays", "protocol_types/certificates/pool_registration.rs", "serialization/certificates/pool_registration.rs", "array", "0", None),
    ("RewardAddresses", "lib.rs", "serialization/general.rs", "array", "0", None),
    ("GenesisHashes", "lib.rs", "serialization/general.rs", "array", "0", None),
    ("ScriptHashes", "lib.rs", "serialization/general.rs", "array", "0", None),
    ("Languages", "protocol_types/plutus/languages.rs", "serialization/plutus/languages.rs", "array", "0", None),
    ("AssetNames", "lib.rs", "serialization/general.rs", "array", "0", None),
    ("Vkeys", "protocol_types/crypto/vkeys.rs", "serialization/crypto/vkeys.rs", "array", "0", None),
    ("CostModel", "protocol_types/plutus/cost_model.rs", "serialization/plutus/cost_model.rs", "array", "0", None),
    ("Withdrawals", "lib.rs", "serialization/general.rs", "map", "0", ("R-lhm", "LinkedHashMap<RewardAddress, Coin>", "Vec<(RewardAddress, Coin)>")),
    ("TreasuryWithdrawals", "protocol_types/governance/proposals/treasury_withdrawals.rs", "serialization/governance/proposals/treasury_withdrawals.rs", "map", "0", ("R-btree", "BTreeMap<RewardAddress, Coin>", "Vec<(RewardAddress, Coin)>")),
    ("MIRToStakeCredentials", "protocol_types/certificates/move_instantaneous_rewards_cert.rs", "serialization/certificates/move_instantaneous_rewards_cert.rs", "map", "rewards", ("R-lhm", "LinkedHashMap<Credential, DeltaCoin>", "Vec<(Credential, DeltaCoin)>")),
    ("MetadataMap", "protocol_types/metadata.rs", "serialization/metadata.rs", "map", "0", ("R-lhm", "LinkedHashMap<TransactionMetadatum, TransactionMetadatum>", "Vec<(MetadatumItem, MetadatumItem)>")),
    ("MetadataList", "protocol_types/metadata.rs", "serialization/metadata.rs", "array", "0", ("R-abstract-elem", "Vec<TransactionMetadatum>", "Vec<MetadatumItem>")),
    ("GeneralTransactionMetadata", "protocol_types/metadata.rs", "serialization/metadata.rs", "map", "0", ("R-lhm", "LinkedHashMap<TransactionMetadatumLabel, TransactionMetadatum>", "Vec<(TransactionMetadatumLabel, MetadatumItem)>")),
    ("TransactionMetadatumLabels", "protocol_types/metadata.rs", "serialization/metadata.rs", "array", "0", None),
    ("ProposedProtocolParameterUpdates", "lib.rs", "serialization/general.rs", "map", "0", ("R-lhm", "LinkedHashMap<GenesisHash, ProtocolParamUpdate>", "Vec<(GenesisHash, ProtocolParamUpdate)>")),
]
spec.append('''
pub open spec fn flat<T: Ser>(s: Seq<T>) -> Seq<Tok> decreases s.len() { if s.len() == 0 { Seq::empty() } else { flat(s.drop_last()) + s.last().enc() } }
pub proof fn lemma_flat_step<T: Ser>(s: Seq<T>, i: int) requires 0 <= i < s.len() ensures flat(s.take(i + 1)) == flat(s.take(i)) + s[i].enc()
{ assert(s.take(i + 1).drop_last() =~= s.take(i)); }
pub open spec fn flat2<K: Ser, V: Ser>(s: Seq<(K, V)>) -> Seq<Tok> decreases s.len() { if s.len() == 0 { Seq::empty() } else { flat2(s.drop_last()) + s.last().0.enc() + s.last().1.enc() } }
pub proof fn lemma_flat2_step<K: Ser, V: Ser>(s: Seq<(K, V)>, i: int) requires 0 <= i < s.len() ensures flat2(s.take(i + 1)) == flat2(s.take(i)) + s[i].0.enc() + s[i].1.enc()
{ assert(s.take(i + 1).drop_last() =~= s.take(i)); }
''')
for (ty, tfile, sfile, kind, field, sub) in COLLS:
    ssrc = src(tfile)
    m = re.search(r"pub struct %s\s*\(([^;]*)\);" % ty, ssrc, re.S)
    for ident in re.findall(r"[A-Za-z_]\w*", (sub[2] if sub else (m.group(1) if m else ""))):
        if ident not in KNOWN and ident not in ("pub", "crate", "std", "collections", "BTreeMap", "LinkedHashMap"):
            opaque.add(ident)
    t = '[[type]]\nsource = "rust/src/%s"\nname = "%s"\n' % (tfile, ty)
    if sub:
        t += 'subst = [ { rule = "%s", from = "%s", to = "%s" } ]\n' % sub
    toml.append(t)
    s_ = src(sfile)
    impl_hdr = "impl cbor_event::se::Serialize for %s" % ty
    if not re.search(re.escape(impl_hdr) + r"\b", s_):
        impl_hdr = "impl Serialize for %s" % ty
    if kind == "array":
        spec.append("pub open spec fn %s_enc(x: %s) -> Seq<Tok> { seq![Tok::Arr(x.%s@.len() as u64)] + flat(x.%s@) }\n" % (ty, ty, field, field))
        inv = "serializer.toks() =~= t0.push(Tok::Arr(self.%s@.len() as u64)) + flat(self.%s@.take(it.index@ as int))" % (field, field)
        step = "lemma_flat_step(self.%s@, it.index@ as int);" % field
    else:
        spec.append("pub open spec fn %s_enc(x: %s) -> Seq<Tok> { seq![Tok::Map(x.%s@.len() as u64)] + flat2(x.%s@) }\n" % (ty, ty, field, field))
        inv = "serializer.toks() =~= t0.push(Tok::Map(self.%s@.len() as u64)) + flat2(self.%s@.take(it.index@ as int))" % (field, field)
        step = "lemma_flat2_step(self.%s@, it.index@ as int);" % field
    toml.append('''[[fn]]
source = "rust/src/%s"
impl = "%s"
emit_impl = "impl Ser for %s"
name = "serialize"
id = "%s::serialize"
rewrites = ["serret"]
impl_pre = \'\'\'
    open spec fn enc(&self) -> Seq<Tok> { %s_enc(*self) }
\'\'\'
head_raw = "let ghost t0 = serializer.toks();"
tail = "if r_tail_ is Ok { assert(self.%s@.take(self.%s@.len() as int) =~= self.%s@); assert(serializer.toks() =~= old(serializer).toks() + %s_enc(*self)); assert(self.enc() =~= %s_enc(*self)); }"
[[fn.loop]]
index = 0
ghost = "it"
invariant = ["%s", "it.index@ <= self.%s@.len()"]
body_head = "assert(it.index@ < self.%s@.len()); %s"
''' % (sfile, impl_hdr, ty, ty, ty, field, field, field, ty, ty, inv, field, field, step))

# ---- set<a> = #6.258([* a]) over the Vec<Rc<T>> + index collections (their invariants: units dedup_*) ---------------------------------
SETS = [
    ("Credentials", "protocol_types/credentials.rs", "serialization/credentials.rs", "credentials", "HashSet<Rc<Credential>>"),
    ("TransactionInputs", "protocol_types/tx_inputs.rs", "serialization/tx_inputs.rs", "inputs", "BTreeSet<Rc<TransactionInput>>"),
    ("Certificates", "protocol_types/certificates/certificates_collection.rs", "serialization/certificates/certificates_collection.rs", "certs", "HashSet<Rc<Certificate>>"),
    # `for element in self`: IntoIterator for &Self is `self.<field>.iter().map(|rc| rc.as_ref())` (read from the impl); R-intoiter iterates the field
    ("Ed25519KeyHashes", "protocol_types/ed25519_key_hashes.rs", "serialization/ed25519_key_hashes.rs", "keyhashes", "HashSet<Rc<Ed25519KeyHash>>"),
    ("VotingProposals", "protocol_types/governance/proposals/voting_proposals.rs", "serialization/governance/proposals/voting_proposals.rs", "proposals", "HashSet<Rc<VotingProposal>>"),
]
for (ty, tfile, sfile, field, idx) in SETS:
    toml.append('[[type]]\nsource = "rust/src/%s"\nname = "%s"\nsubst = [ { rule = "R-abstract-field", from = "%s", to = "DedupIndex" } ]\n' % (tfile, ty, idx))
    toml.append('[[fn]]\nsource = "rust/src/%s"\nimpl = "impl %s"\nname = "len"\nid = "%s::len"\nensures = ["r == self.%s@.len()"]\n' % (tfile, ty, ty, field))
    spec.append("pub open spec fn %s_enc(x: %s) -> Seq<Tok> { seq![Tok::Tag(258), Tok::Arr(x.%s@.len() as u64)] + flat(x.%s@) }\n" % (ty, ty, field, field))
    s_ = src(sfile)
    impl_hdr = "impl cbor_event::se::Serialize for %s" % ty
    if not re.search(re.escape(impl_hdr) + r"\b", s_):
        impl_hdr = "impl Serialize for %s" % ty
    toml.append('''[[fn]]
source = "rust/src/%s"
impl = "%s"
emit_impl = "impl Ser for %s"
name = "serialize"
id = "%s::serialize"
properties = ["C03", "C01", "C16"]
rewrites = ["serret"]
%s
impl_pre = \'\'\'
    open spec fn enc(&self) -> Seq<Tok> { %s_enc(*self) }
\'\'\'
head_raw = "let ghost t0 = serializer.toks();"
tail = "if r_tail_ is Ok { assert(self.%s@.take(self.%s@.len() as int) =~= self.%s@); assert(serializer.toks() =~= old(serializer).toks() + %s_enc(*self)); assert(self.enc() =~= %s_enc(*self)); }"
[[fn.loop]]
index = 0
ghost = "it"
invariant = ["serializer.toks() =~= t0.push(Tok::Tag(258)).push(Tok::Arr(self.%s@.len() as u64)) + flat(self.%s@.take(it.index@ as int))", "it.index@ <= self.%s@.len()"]
body_head = "assert(it.index@ < self.%s@.len()); lemma_flat_step(self.%s@, it.index@ as int);"
''' % (sfile, impl_hdr, ty, ty, ('subst = [ { rule = "R-path", from = "write_array(Len::Len(", to = "write_array(cbor_event::Len::Len(" } ]' if 'write_array(Len::Len(' in s_ else ('subst = [ { rule = "R-intoiter", from = "for element in self {", to = "for element in &self.%s {" } ]' % field if 'for element in self {' in s_ else '')), ty, field, field, field, ty, ty, field, field, field, field, field))

# ---- leaves: one token ------------------------------------------------------------------------------------------------------------
LEAVES = [
    ("Ipv4", "lib.rs", "serialization/general.rs", "seq![Tok::Bytes(x.0@)]"),                 # ipv4 = bytes .size 4
    ("Ipv6", "lib.rs", "serialization/general.rs", "seq![Tok::Bytes(x.0@)]"),                 # ipv6 = bytes .size 16
    ("DNSRecordAorAAAA", "lib.rs", "serialization/general.rs", "seq![Tok::Text(x.0@)]"),      # dns_name = tstr .size (0..128)
    ("DNSRecordSRV", "lib.rs", "serialization/general.rs", "seq![Tok::Text(x.0@)]"),
    ("URL", "lib.rs", "serialization/general.rs", "seq![Tok::Text(x.0@)]"),                   # url = tstr .size (0..128)
    ("AssetName", "lib.rs", "serialization/general.rs", "seq![Tok::Bytes(x.0@)]"),            # asset_name = bytes .size (0..32)
]
for (ty, tfile, sfile, e) in LEAVES:
    toml.append('[[type]]\nsource = "rust/src/%s"\nname = "%s"\n' % (tfile, ty))
    spec.append("pub open spec fn %s_enc(x: %s) -> Seq<Tok> { %s }\n" % (ty, ty, e))
    toml.append('''[[fn]]
source = "rust/src/%s"
impl = "impl cbor_event::se::Serialize for %s"
emit_impl = "impl Ser for %s"
name = "serialize"
id = "%s::serialize"
rewrites = ["serret"]
impl_pre = \'\'\'
    open spec fn enc(&self) -> Seq<Tok> { %s_enc(*self) }
\'\'\'
tail = "if r_tail_ is Ok { assert(serializer.toks() =~= old(serializer).toks() + %s_enc(*self)); assert(self.enc() =~= %s_enc(*self)); }"
''' % (sfile, ty, ty, ty, ty, ty, ty))

# ---- dispatchers: an enum whose variants serialize as themselves, and the newtype around it -------------------------------------------
# (enum type, enum type file, serializer file, enum has its own Serialize impl, wrapper type or None, wrapper type file)
DISPATCH = [
    ("RelayEnum", "lib.rs", "serialization/general.rs", True, "Relay", "lib.rs"),
    ("CertificateEnum", "protocol_types/certificates/certificate.rs", "serialization/certificates/certificate.rs", True, "Certificate", "protocol_types/certificates/certificate.rs"),
    ("NativeScriptEnum", "protocol_types/native_script.rs", "serialization/native_script.rs", True, "NativeScript", "protocol_types/native_script.rs"),
    ("GovernanceActionEnum", "protocol_types/governance/proposals/governance_action.rs", "serialization/governance/proposals/governance_action.rs", False, "GovernanceAction", "protocol_types/governance/proposals/governance_action.rs"),
]
for (en, etfile, sfile, own_impl, wr, wtfile) in DISPATCH:
    es = src(etfile)
    m = re.search(r"enum %s\s*\{(.*?)\n\}" % en, es, re.S)
    variants = re.findall(r"(\w+)\((\w+)\)", m.group(1))
    for v, t in variants:
        opaque.add(t)
    toml.append('[[type]]\nsource = "rust/src/%s"\nkind = "enum"\nname = "%s"\n' % (etfile, en))
    spec.append("pub open spec fn %s_enc(x: %s) -> Seq<Tok> { match x { %s } }\n" % (en, en, " ".join("%s::%s(y) => y.enc()," % (en, v) for v, t in variants)))
    s_ = src(sfile)
    def hdr(ty):
        h = "impl cbor_event::se::Serialize for %s" % ty
        return h if re.search(re.escape(h) + r"\b", s_) else "impl Serialize for %s" % ty
    if own_impl:
        toml.append('''[[fn]]
source = "rust/src/%s"
impl = "%s"
emit_impl = "impl Ser for %s"
name = "serialize"
id = "%s::serialize"
rewrites = ["serret"]
impl_pre = \'\'\'
    open spec fn enc(&self) -> Seq<Tok> { %s_enc(*self) }
\'\'\'
tail = "if r_tail_ is Ok { assert(self.enc() =~= %s_enc(*self)); }"
''' % (sfile, hdr(en), en, en, en, en))
    if wr:
        toml.append('[[type]]\nsource = "rust/src/%s"\nname = "%s"\n' % (wtfile, wr))
        toml.append('''[[fn]]
source = "rust/src/%s"
impl = "%s"
emit_impl = "impl Ser for %s"
name = "serialize"
id = "%s::serialize"
rewrites = ["serret"]
impl_pre = \'\'\'
    open spec fn enc(&self) -> Seq<Tok> { %s_enc(self.0) }
\'\'\'
tail = "if r_tail_ is Ok { assert(self.enc() =~= %s_enc(self.0)); }"
''' % (sfile, hdr(wr), wr, wr, en, en))

toml.append(open(os.path.join(D, "contracts/ser_records/custom.toml")).read())
spec.append(open(os.path.join(D, "contracts/ser_records/enum_spec.rs")).read())
spec.append(open(os.path.join(D, "contracts/ser_records/custom_spec.rs")).read())
spec.append(open(os.path.join(D, "contracts/ser_records/metadatum_spec.rs")).read())
own = set(t[0] for t in TABLE) | set(c[0] for c in COLLS) | set(l[0] for l in LEAVES) | set(x[0] for x in SETS) | set(d[0] for d in DISPATCH) | set(d[4] for d in DISPATCH if d[4]) | set(re.findall(r'(?m)^name = "(\w+)"', open(os.path.join(D, "contracts/ser_records/custom.toml")).read()))
opaque -= own
opaque -= {"Coin", "Epoch", "Port", "BigNum", "TransactionIndex", "GovernanceActionIndex", "Ed25519KeyHash", "ScriptHash", "SubCoin", "PlutusData", "SlotBigNum", "DeltaCoin", "CborSetType", "DedupIndex", "Rc", "MetadatumItem", "TransactionMetadatumLabel", "Language", "PlutusScripts"}
open(os.path.join(D, "contracts/ser_records/unit.toml"), "w").write("\n".join(toml))
open(os.path.join(D, "contracts/ser_records/spec.rs"), "w").write("".join(spec))
open(os.path.join(D, "contracts/ser_records/opaque.rs"), "w").write(
    "// GENERATED: field types whose own encoders are not under contract in this unit\nser_opaque!(%s);\n" % ", ".join(sorted(opaque)))
print("records:", len(TABLE), "opaque:", sorted(opaque))
