#!/bin/sh
# usage: tools/seeded_summary.sh — counts the last recorded outcome of every seeded change (seeded/<id>/result.txt)
cd /verif/seeded
v=0; u=0; m=0
for d in */; do
  r="$d/result.txt"; [ -f "$r" ] || continue
  if grep -q "FAILED-OBLIGATION\|VIOLATION" "$r"; then v=$((v+1)); elif grep -q "UNDECIDED" "$r"; then u=$((u+1)); else m=$((m+1)); fi
done
echo "seeded changes: $(ls -d */ | wc -l)  reported as violation: $v  undecided (exit 2): $u  missed: $m"
