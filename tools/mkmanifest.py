#!/usr/bin/env python3
"""Regenerates MANIFEST.json from tools/claims.json (kept by hand) so the manifest stays schema-valid."""
import json, os, subprocess
D = os.path.dirname(os.path.dirname(os.path.abspath(__file__)))
claims = json.load(open(os.path.join(D, "tools", "claims.json")))
props = [json.loads(l) for l in open(os.path.join(D, "properties.jsonl"))]
hook_commits = claims.get("hook_commits", [])
m = {
    "version": 1,
    "setup_cmd": "bin/setup",
    "hooks": {
        "guard": "cfg(kani)",
        "enable": "set only by the Kani compiler: bin/check runs `cargo kani` in /repo/rust (current working tree); add-only `#[cfg(kani)] #[path=\"/verif/kani/<m>.rs\"] mod verif_kani_<m>;` lines mount the harness files. Verus units need no hook: they verify function text extracted from /repo on every run.",
        "baseline_off_cmd": "cd /repo/rust && cargo test --workspace --no-fail-fast --offline",
        "source_commits": hook_commits,
        "add_only": True,
    },
    "engines": [
        {"name": "verus-units", "path": "lib/vlib/verusrun.py", "serves_properties": sorted(k for k, v in claims["claimed"].items() if "verus" in v.get("engines", ["verus"])),
         "kind_free_text": "Verus 0.2026.09.13 (Z3): contracts/<unit>/unit.toml spliced onto function text extracted from /repo at run time (closed rewrite list); one obligation per function/lemma"},
        {"name": "kani-harnesses", "path": "lib/vlib/kanirun.py", "serves_properties": sorted(k for k, v in claims["claimed"].items() if "kani" in v.get("engines", [])),
         "kind_free_text": "Kani 0.68 (CBMC): harnesses in kani/*.rs compiled into the real crate via cfg(kani) hook lines; complete (full-domain, loop-free or width-bounded) or labelled bounded"},
    ],
    "checks": [],
    "notes": "DESIGN.md explains the approach; known_findings.json lists genuine defects (open / fixed). exit codes of bin/check: 0 ok, 1 VIOLATION, 2 undecided (lost anchor, unsupported construct, rlimit, timeout) - never an alarm.",
    "not_applicable": [],
}
for p in props:
    pid = p["id"]
    c = claims["claimed"].get(pid)
    if c:
        m["checks"].append({
            "property_id": pid,
            "quick_cmd": "bin/check %s --tier quick" % pid,
            "thorough_cmd": "bin/check %s --tier thorough" % pid,
            "evidence_file": "evidence/%s.json" % pid,
            "replay_cmd_template": "cat {path}",
            "engine": "+".join(c.get("engines", ["verus"])),
            "level_claimed": {"category": c.get("category", "proof"), "text": c["text"], "design_ref": c.get("design_ref", "DESIGN.md section 7, " + pid)},
            "level_note": c["note"],
            "technique": c.get("technique", "contract-based deductive verification: Verus contracts on extracted real code"),
        })
    else:
        m["not_applicable"].append({"property_id": pid, "reason": claims["not_applicable"].get(pid, "not built yet (work in progress)")})
json.dump(m, open(os.path.join(D, "MANIFEST.json"), "w"), indent=1)
try:
    import jsonschema
    jsonschema.validate(m, json.load(open("/root/.vp/MANIFEST.schema.json")))
    print("MANIFEST valid; claimed:", [c["property_id"] for c in m["checks"]])
except ImportError:
    print("written (jsonschema not importable with this python)")
