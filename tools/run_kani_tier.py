#!/usr/bin/env python3
"""usage: tools/run_kani_tier.py [-j N] [tier|harness names...]   — developer helper: runs registered Kani harnesses (default: the thorough
tier) through lib/vlib/kanirun.py, N at a time, filling the result cache that bin/check reuses; prints one line per harness."""
import sys, os, concurrent.futures as cf
sys.path.insert(0, os.path.join(os.path.dirname(os.path.dirname(os.path.abspath(__file__))), "lib"))
from vlib import kanirun
args = sys.argv[1:]
j = 2
if args and args[0] == "-j":
    j = int(args[1]); args = args[2:]
reg = [h for h in kanirun.registry() if not h.get("disabled")]
if not args:
    args = ["thorough"]
hs = [h for h in reg if h.get("tier", "quick") in args or h["name"] in args]
tree = kanirun.tree_hash()
def run(h):
    r = kanirun.run_harness(h, tree)
    return h["name"], r
with cf.ThreadPoolExecutor(j) as ex:
    for name, r in ex.map(run, hs):
        print("%-45s %-10s wall=%6.0fs cache=%s %s %s" % (name, r["status"], r["wall_s"], r["from_cache"], r.get("checks"), (r.get("reason") or r.get("failure_text") or "")[:200]), flush=True)
