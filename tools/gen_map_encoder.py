#!/usr/bin/env python3
"""Generates contracts/<unit>/{unit.toml,spec.rs,prelude.rs} for a 'CBOR map with optional keys' encoder (C03).
The table (key, field, kind) is transcribed from the Conway CDDL, NOT from the code; the real `serialize` body is extracted
at check time and must produce exactly: Map(#entries written) followed by the entries, in apply form."""
import os, sys
D = os.path.dirname(os.path.dirname(os.path.abspath(__file__)))

def gen(unit, props, source_ser, impl, ty, type_source, table, field_types, aliases, extra_types="", ty_kind="struct", helpers=True, rewrites=("serret",), chunk=0):
    d = os.path.join(D, "contracts", unit); os.makedirs(d, exist_ok=True)
    opaque = sorted(set(field_types.values()) - set(aliases) - {"u32", "u64"})
    pre = "ser_coll!(%s);\n" % ", ".join(opaque)
    for a, b in aliases.items():
        pre += "pub type %s = %s;\n" % (a, b)
    pre += extra_types
    open(os.path.join(d, "prelude.rs"), "w").write(pre)
    # spec
    sp = []
    nreq = sum(1 for (_, _, k) in table if k == "req")
    cnt_terms = []
    for (key, f, kind) in table:
        if kind == "opt": cnt_terms.append("cnt_o(b.%s)" % f)
        elif kind == "ne": cnt_terms.append("cnt_ne(b.%s)" % f)
    sp.append("/// number of map entries the CDDL requires for this value: the required keys plus every optional key that is present\n/// (set- and map-valued optional fields count only when non-empty: an empty one is written as absent)")
    sp.append("pub open spec fn %s_count(b: %s) -> int { %d + %s }" % (unit, ty, nreq, " + ".join(cnt_terms) if cnt_terms else "0"))
    names = []
    for (key, f, kind) in table:
        nm = "%s_k%d" % (unit, key); names.append((nm, key, f, kind))
        ap = {"req": "ap_req(s, %d, b.%s)", "opt": "ap_o(s, %d, b.%s)", "ne": "ap_ne(s, %d, b.%s)"}[kind] % (key, f)
        sp.append("#[verifier::opaque]\npub open spec fn %s(s: Seq<Tok>, b: %s) -> Seq<Tok> { %s }" % (nm, ty, ap))
        lem = {"req": "lemma_ap_req", "opt": "lemma_ap_o", "ne": "lemma_ap_ne"}[kind]
        sp.append("pub proof fn lemma_%s(s: Seq<Tok>, x: Seq<Tok>, y: Seq<Tok>, b: %s) requires x == s + y ensures %s(x, b) == s + %s(y, b)\n{ reveal(%s); %s(x, %d, b.%s); %s(y, %d, b.%s); lemma_shift(s, x, y, %s(x, b), %s(y, b), %s); }" % (
            nm, ty, nm, nm, nm, lem, key, f, lem, key, f, nm, nm, ap.replace("(s,", "(Seq::empty(),")))
    expr = "s.push(Tok::Map(%s_count(b) as u64))" % unit
    for (nm, key, f, kind) in names:
        expr = "%s(%s, b)" % (nm, expr)
    sp.append("/// apply form of the CDDL encoding: tokens so far `s` followed by Map(n) and the entries in key-table order")
    sp.append("pub open spec fn %s_apply(s: Seq<Tok>, b: %s) -> Seq<Tok> { %s }" % (unit, ty, expr))
    body = ["    let e = Seq::<Tok>::empty(); let m = Tok::Map(%s_count(b) as u64);" % unit, "    let x0 = s.push(m); let y0 = e.push(m); assert(x0 =~= s + y0);"]
    for i, (nm, key, f, kind) in enumerate(names):
        body.append("    lemma_%s(s, x%d, y%d, b); let x%d = %s(x%d, b); let y%d = %s(y%d, b);" % (nm, i, i, i + 1, nm, i, i + 1, nm, i))
    sp.append("pub proof fn lemma_%s_apply(s: Seq<Tok>, b: %s) ensures %s_apply(s, b) == s + %s_apply(Seq::empty(), b)\n{\n%s\n}" % (unit, ty, unit, unit, "\n".join(body)))
    open(os.path.join(d, "spec.rs"), "w").write("\n".join(sp) + "\n")
    # toml
    t = ['unit = "%s"' % unit, 'properties = [%s]' % ", ".join('"%s"' % p for p in props),
         'prelude = ["../_common/base.rs", "../_common/cbor_model.rs", "prelude.rs"]', 'lemmas = ["spec.rs"]', '',
         '[[type]]', 'source = "%s"' % type_source, 'name = "%s"' % ty, 'kind = "%s"' % ty_kind, '',
         ] + (['[[fn]]', 'source = "rust/src/utils.rs"', 'name = "opt64"', 'ensures = ["r == cnt_o(*o)", "r <= 1"]', 'head = "reveal(cnt_o);"', '',
         '[[fn]]', 'source = "rust/src/utils.rs"', 'name = "opt64_non_empty"', 'ensures = ["r == cnt_ne(*o)", "r <= 1"]', 'head = "reveal(cnt_ne);"', ''] if helpers else []) + [
         '[[fn]]', 'source = "%s"' % source_ser, 'impl = "%s"' % impl, 'emit_impl = "impl Ser for %s"' % ty, 'name = "serialize"',
         'id = "%s::serialize"' % ty, 'rewrites = [%s]' % ", ".join('"%s"' % r for r in rewrites), 'rlimit = 100',
         "impl_pre = '''\n    open spec fn enc(&self) -> Seq<Tok> { %s_apply(Seq::empty(), *self) }\n'''" % unit,
         'head_raw = "let ghost t0 = serializer.toks(); let ghost b = *self; proof { lemma_%s_apply(t0, b); }"' % unit]
    def anchor(key, f, kind):
        return "serializer.write_unsigned_integer(%d)?;" % key if kind == "req" else "if let Some(field) = &self.%s" % f
    if chunk:
        # R-chunk: the optional entries go into helper methods of `chunk` entries each; the header and required entries stay in the main body
        reqs = [x for x in names if x[3] == "req"]
        opts = [x for x in names if x[3] != "req"]
        t.append('chunk_impl = "impl %s"' % ty)
        prev = "t0.push(Tok::Map(%s_count(b) as u64))" % unit
        for i, (nm, key, f, kind) in enumerate(reqs):
            t += ['[[fn.hint]]', 'before_stmt = "%s"' % anchor(key, f, kind), 'raw = true']
            if i == 0:
                t.append('proof = "proof { assert(serializer.toks() == %s); } let ghost s0 = serializer.toks();"' % prev)
            else:
                pn = reqs[i - 1][0]
                t.append('proof = "proof { assert(serializer.toks() == %s(s%d, b)) by { reveal(%s); } } let ghost s%d = serializer.toks();"' % (pn, i - 1, pn, i))
        groups = [opts[i:i + chunk] for i in range(0, len(opts), chunk)]
        # hint before the first chunk call
        t += ['[[fn.hint]]', 'before_stmt = "self.serialize_chunk_0(serializer)?;"']
        if reqs:
            pn = reqs[-1][0]
            t.append('proof = "assert(serializer.toks() == %s(s%d, b)) by { reveal(%s); }"' % (pn, len(reqs) - 1, pn))
        else:
            t.append('proof = "assert(serializer.toks() == %s);"' % prev)
        for g in groups:
            comp = "old(serializer).toks()"
            for (nm, key, f, kind) in g:
                comp = "%s(%s, *self)" % (nm, comp)
            t += ['[[fn.chunk]]', 'take = %d' % len(g), 'ensures = ["r is Ok", "final(serializer).toks() == %s"]' % comp,
                  'head = "%s"' % " ".join("reveal(%s);" % x[0] for x in g)]
    else:
        prev = "t0.push(Tok::Map(%s_count(b) as u64))" % unit
        for i, (nm, key, f, kind) in enumerate(names):
            t += ['[[fn.hint]]', 'before_stmt = "%s"' % anchor(key, f, kind), 'raw = true']
            if i == 0:
                t.append('proof = "proof { assert(serializer.toks() == %s); } let ghost s0 = serializer.toks();"' % prev)
            else:
                pn = names[i - 1][0]
                t.append('proof = "proof { assert(serializer.toks() == %s(s%d, b)) by { reveal(%s); } } let ghost s%d = serializer.toks();"' % (pn, i - 1, pn, i))
        ln = names[-1][0]
        t += ['[[fn.hint]]', 'before_stmt = "Ok(())"', 'nth = -1', 'proof = "assert(serializer.toks() == %s(s%d, b)) by { reveal(%s); }"' % (ln, len(names) - 1, ln)]
    open(os.path.join(d, "unit.toml"), "w").write("\n".join(t) + "\n")
    print("generated", unit, len(table), "keys")

if __name__ == "__main__":
    # Conway CDDL transaction_body
    body = [(0, "inputs", "req"), (1, "outputs", "req"), (2, "fee", "req"), (3, "ttl", "opt"), (4, "certs", "ne"), (5, "withdrawals", "ne"),
            (6, "update", "opt"), (7, "auxiliary_data_hash", "opt"), (8, "validity_start_interval", "opt"), (9, "mint", "ne"),
            (11, "script_data_hash", "opt"), (13, "collateral", "ne"), (14, "required_signers", "ne"), (15, "network_id", "opt"),
            (16, "collateral_return", "opt"), (17, "total_collateral", "opt"), (18, "reference_inputs", "ne"), (19, "voting_procedures", "ne"),
            (20, "voting_proposals", "ne"), (21, "current_treasury_value", "opt"), (22, "donation", "opt")]
    ft = dict(inputs="TransactionInputs", outputs="TransactionOutputs", fee="BigNum", certs="Certificates", withdrawals="Withdrawals", update="Update",
              auxiliary_data_hash="AuxiliaryDataHash", mint="Mint", script_data_hash="ScriptDataHash", required_signers="Ed25519KeyHashes",
              network_id="NetworkId", collateral_return="TransactionOutput", voting_procedures="VotingProcedures", voting_proposals="VotingProposals")
    gen("ser_body", ["C03", "C01"], "rust/src/serialization/transaction_body.rs", "impl cbor_event::se::Serialize for TransactionBody", "TransactionBody",
        "rust/src/protocol_types/transaction_body.rs", body, ft, {"Coin": "BigNum", "SlotBigNum": "BigNum"})

    ppu_fields = ["minfee_a","minfee_b","max_block_body_size","max_tx_size","max_block_header_size","key_deposit","pool_deposit","max_epoch","n_opt",
        "pool_pledge_influence","expansion_rate","treasury_growth_rate","d","extra_entropy","protocol_version","min_pool_cost","ada_per_utxo_byte",
        "cost_models","execution_costs","max_tx_ex_units","max_block_ex_units","max_value_size","collateral_percentage","max_collateral_inputs",
        "pool_voting_thresholds","drep_voting_thresholds","min_committee_size","committee_term_limit","governance_action_validity_period",
        "governance_action_deposit","drep_deposit","drep_inactivity_period","ref_script_coins_per_byte"]
    # Conway CDDL protocol_param_update: keys 0..14, 16..33 (15 is unused)
    ppu_keys = list(range(0, 15)) + list(range(16, 34))
    ppu = [(k, f, "opt") for k, f in zip(ppu_keys, ppu_fields)]
    ft = dict(a="BigNum", b="UnitInterval", c="Nonce", d="ProtocolVersion", e="Costmdls", f="ExUnitPrices", g="ExUnits", h="PoolVotingThresholds", i="DRepVotingThresholds")
    gen("ser_ppu", ["C03", "C01"], "rust/src/serialization/protocol_param_update.rs", "impl cbor_event::se::Serialize for ProtocolParamUpdate", "ProtocolParamUpdate",
        "rust/src/protocol_types/protocol_param_update.rs", ppu, ft, {"Coin": "BigNum", "Epoch": "u32"}, helpers=True, rewrites=("serret", "matchcount"), chunk=6)
