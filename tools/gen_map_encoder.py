#!/usr/bin/env python3
"""Generates contracts/<unit>/{unit.toml,spec.rs,prelude.rs} for a 'CBOR map with optional keys' encoder (C03).
The table (key, field, kind) is transcribed from the Conway CDDL, NOT from the code; the real `serialize` body is extracted
at check time and must produce exactly: Map(#entries written) followed by the entries, in apply form."""
import os, sys
D = os.path.dirname(os.path.dirname(os.path.abspath(__file__)))

def gen(unit, props, source_ser, impl, ty, type_source, table, field_types, aliases, extra_types="", ty_kind="struct"):
    d = os.path.join(D, "contracts", unit); os.makedirs(d, exist_ok=True)
    opaque = sorted(set(field_types.values()) - set(aliases))
    pre = "ser_coll!(%s);\n" % ", ".join(opaque)
    for a, b in aliases.items():
        pre += "pub type %s = %s;\n" % (a, b)
    pre += extra_types
    open(os.path.join(d, "prelude.rs"), "w").write(pre)
    # spec
    sp = []
    nreq = sum(1 for (_, _, k) in table if k == "req")
    cnt_terms = []
    for (key, f, kind) in table:
        if kind == "opt": cnt_terms.append("cnt_o(b.%s)" % f)
        elif kind == "ne": cnt_terms.append("cnt_ne(b.%s)" % f)
    sp.append("/// number of map entries the CDDL requires for this value: the required keys plus every optional key that is present\n/// (set- and map-valued optional fields count only when non-empty: an empty one is written as absent)")
    sp.append("pub open spec fn %s_count(b: %s) -> int { %d + %s }" % (unit, ty, nreq, " + ".join(cnt_terms) if cnt_terms else "0"))
    names = []
    for (key, f, kind) in table:
        nm = "%s_k%d" % (unit, key); names.append((nm, key, f, kind))
        ap = {"req": "ap_req(s, %d, b.%s)", "opt": "ap_o(s, %d, b.%s)", "ne": "ap_ne(s, %d, b.%s)"}[kind] % (key, f)
        sp.append("#[verifier::opaque]\npub open spec fn %s(s: Seq<Tok>, b: %s) -> Seq<Tok> { %s }" % (nm, ty, ap))
        lem = {"req": "lemma_ap_req", "opt": "lemma_ap_o", "ne": "lemma_ap_ne"}[kind]
        sp.append("pub proof fn lemma_%s(s: Seq<Tok>, x: Seq<Tok>, y: Seq<Tok>, b: %s) requires x == s + y ensures %s(x, b) == s + %s(y, b)\n{ reveal(%s); %s(x, %d, b.%s); %s(y, %d, b.%s); lemma_shift(s, x, y, %s(x, b), %s(y, b), %s); }" % (
            nm, ty, nm, nm, nm, lem, key, f, lem, key, f, nm, nm, ap.replace("(s,", "(Seq::empty(),")))
    expr = "s.push(Tok::Map(%s_count(b) as u64))" % unit
    for (nm, key, f, kind) in names:
        expr = "%s(%s, b)" % (nm, expr)
    sp.append("/// apply form of the CDDL encoding: tokens so far `s` followed by Map(n) and the entries in key-table order")
    sp.append("pub open spec fn %s_apply(s: Seq<Tok>, b: %s) -> Seq<Tok> { %s }" % (unit, ty, expr))
    body = ["    let e = Seq::<Tok>::empty(); let m = Tok::Map(%s_count(b) as u64);" % unit, "    let x0 = s.push(m); let y0 = e.push(m); assert(x0 =~= s + y0);"]
    for i, (nm, key, f, kind) in enumerate(names):
        body.append("    lemma_%s(s, x%d, y%d, b); let x%d = %s(x%d, b); let y%d = %s(y%d, b);" % (nm, i, i, i + 1, nm, i, i + 1, nm, i))
    sp.append("pub proof fn lemma_%s_apply(s: Seq<Tok>, b: %s) ensures %s_apply(s, b) == s + %s_apply(Seq::empty(), b)\n{\n%s\n}" % (unit, ty, unit, unit, "\n".join(body)))
    open(os.path.join(d, "spec.rs"), "w").write("\n".join(sp) + "\n")
    # toml
    t = ['unit = "%s"' % unit, 'properties = [%s]' % ", ".join('"%s"' % p for p in props),
         'prelude = ["../_common/base.rs", "../_common/cbor_model.rs", "prelude.rs"]', 'lemmas = ["spec.rs"]', '',
         '[[type]]', 'source = "%s"' % type_source, 'name = "%s"' % ty, 'kind = "%s"' % ty_kind, '',
         '[[fn]]', 'source = "rust/src/utils.rs"', 'name = "opt64"', 'ensures = ["r == cnt_o(*o)"]', '',
         '[[fn]]', 'source = "rust/src/utils.rs"', 'name = "opt64_non_empty"', 'ensures = ["r == cnt_ne(*o)"]', '',
         '[[fn]]', 'source = "%s"' % source_ser, 'impl = "%s"' % impl, 'emit_impl = "impl Ser for %s"' % ty, 'name = "serialize"',
         'id = "%s::serialize"' % ty, 'rewrites = ["serret"]', 'rlimit = 100',
         "impl_pre = '''\n    open spec fn enc(&self) -> Seq<Tok> { %s_apply(Seq::empty(), *self) }\n'''" % unit,
         'head_raw = "let ghost t0 = serializer.toks(); let ghost b = *self; proof { lemma_%s_apply(t0, b); }"' % unit]
    # cut hints: after the header and after each entry.  Anchors: the statement that starts the NEXT entry.
    def anchor(key, f, kind):
        return "serializer.write_unsigned_integer(%d)?;" % key if kind == "req" else "if let Some(field) = &self.%s" % f
    prev = "t0.push(Tok::Map(%s_count(b) as u64))" % unit
    for i, (nm, key, f, kind) in enumerate(names):
        t += ['[[fn.hint]]', 'before_stmt = "%s"' % anchor(key, f, kind), 'raw = true']
        if i == 0:
            t.append('proof = "proof { assert(serializer.toks() == %s); } let ghost s0 = serializer.toks();"' % prev)
        else:
            pn = names[i - 1][0]
            t.append('proof = "proof { reveal(%s); assert(serializer.toks() == %s(s%d, b)); } let ghost s%d = serializer.toks();"' % (pn, pn, i - 1, i))
    ln = names[-1][0]
    t += ['[[fn.hint]]', 'before_stmt = "Ok(())"', 'nth = -1', 'proof = "reveal(%s); assert(serializer.toks() == %s(s%d, b));"' % (ln, ln, len(names) - 1)]
    open(os.path.join(d, "unit.toml"), "w").write("\n".join(t) + "\n")
    print("generated", unit, len(table), "keys")

if __name__ == "__main__":
    # Conway CDDL transaction_body
    body = [(0, "inputs", "req"), (1, "outputs", "req"), (2, "fee", "req"), (3, "ttl", "opt"), (4, "certs", "ne"), (5, "withdrawals", "ne"),
            (6, "update", "opt"), (7, "auxiliary_data_hash", "opt"), (8, "validity_start_interval", "opt"), (9, "mint", "ne"),
            (11, "script_data_hash", "opt"), (13, "collateral", "ne"), (14, "required_signers", "ne"), (15, "network_id", "opt"),
            (16, "collateral_return", "opt"), (17, "total_collateral", "opt"), (18, "reference_inputs", "ne"), (19, "voting_procedures", "ne"),
            (20, "voting_proposals", "ne"), (21, "current_treasury_value", "opt"), (22, "donation", "opt")]
    ft = dict(inputs="TransactionInputs", outputs="TransactionOutputs", fee="BigNum", certs="Certificates", withdrawals="Withdrawals", update="Update",
              auxiliary_data_hash="AuxiliaryDataHash", mint="Mint", script_data_hash="ScriptDataHash", required_signers="Ed25519KeyHashes",
              network_id="NetworkId", collateral_return="TransactionOutput", voting_procedures="VotingProcedures", voting_proposals="VotingProposals")
    gen("ser_body", ["C03", "C01"], "rust/src/serialization/transaction_body.rs", "impl cbor_event::se::Serialize for TransactionBody", "TransactionBody",
        "rust/src/protocol_types/transaction_body.rs", body, ft, {"Coin": "BigNum", "SlotBigNum": "BigNum"})
