#!/bin/sh
# usage: tools/vraw.sh <unit>  — developer helper: assemble a unit without demotion and show the raw Verus diagnostics
D=$(cd "$(dirname "$0")/.." && pwd)
cd $D
python3 - "$1" "$D" <<'PY'
import sys; sys.path.insert(0, sys.argv[2] + '/lib')
from vlib import assemble
text, recs, meta = assemble.assemble(sys.argv[1])
open('/tmp/vraw_%s.rs' % sys.argv[1],'w').write(text)
PY
verus /tmp/vraw_$1.rs --num-threads 8 2>&1 | grep -B2 -A14 "^error" | head -${2:-80}
