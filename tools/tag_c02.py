"""helper for the decoder-unit generators: every real decoder function of the unit (a [[fn]] block with a `source`, i.e. not an imported
stub) also counts for C02 - a function verified against the reader model with no precondition on the input cannot panic on any input"""
import re
def tag(toml_text, base_props):
    out = []
    blocks = re.split(r"(?m)^(?=\[\[fn\]\]|\[\[type\]\])", toml_text)
    props = 'properties = [%s]' % ", ".join('"%s"' % p for p in list(base_props) + ["C02"])
    for b in blocks:
        if b.startswith("[[fn]]") and re.search(r"(?m)^source = ", b) and not re.search(r"(?m)^properties = ", b) and not re.search(r"(?m)^requires = .*(raw|rem)", b) \
           and re.search(r'(?m)^name = "(deserialize\w*|check_\w+|read_\w+|skip_\w+|is_break_tag|deserialize_and_check_index)"', b):
            b = re.sub(r'(?m)^(name = "[^"]*"\n)', lambda m: m.group(1) + props + "\n", b, count=1)
        out.append(b)
    return "".join(out)
