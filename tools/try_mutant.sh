#!/bin/sh
# usage: tools/try_mutant.sh <patch.diff> <PROP> [<PROP>...]   — applies the patch to /repo, runs the checks, reverts
P="$1"; shift
cd /verif
git -C /repo apply "$P" || { echo "patch does not apply"; exit 3; }
for id in "$@"; do
  bin/check "$id" --tier quick > /tmp/try_$id.out 2>&1; rc=$?
  echo "== $id exit=$rc"; grep -E "^(VIOLATION|UNDECIDED|KNOWN-FINDING|FAILED-OBLIGATION|SUMMARY)" /tmp/try_$id.out | cut -c1-260
done
git -C /repo checkout -- .
# evidence files must describe the unchanged tree: regenerate them (cached, fast)
if [ -z "$VERIF_DEV_SKIP_KANI" ]; then for id in "$@"; do bin/check "$id" --tier quick > /dev/null 2>&1; done; fi
