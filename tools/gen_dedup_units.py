#!/usr/bin/env python3
"""Generates contracts/dedup_<name>/ (unit.toml, prelude.rs, spec.rs) for the Vec<Rc<T>> + index-set collections (C16).
The contracts are identical up to names; the function bodies are extracted from /repo at check time as for every unit."""
import os
import re
D = os.path.dirname(os.path.dirname(os.path.abspath(__file__)))
COLLS = [
  # unit, file, struct, elem, vec field, set kind, fns, extra opaque field types
  ("keyhashes", "rust/src/protocol_types/ed25519_key_hashes.rs", "Ed25519KeyHashes", "Ed25519KeyHash", "keyhashes", "HashSet",
     ["new", "new_from_prepared_fields", "len", "add", "add_move", "extend", "extend_move", "from_vec", "to_option"]),
  ("tx_inputs", "rust/src/protocol_types/tx_inputs.rs", "TransactionInputs", "TransactionInput", "inputs", "BTreeSet",
     ["new", "new_from_prepared_fields", "len", "add", "from_vec", "to_option"]),
  ("credentials", "rust/src/protocol_types/credentials.rs", "Credentials", "Credential", "credentials", "HashSet",
     ["new", "new_from_prepared_fields", "len", "add", "add_move", "from_vec"]),
  ("certificates", "rust/src/protocol_types/certificates/certificates_collection.rs", "Certificates", "Certificate", "certs", "HashSet",
     ["new", "len", "add", "add_move", "from_vec"]),
  ("vkeywitnesses", "rust/src/protocol_types/witnesses/vkeywitnesses.rs", "Vkeywitnesses", "Vkeywitness", "witnesses", "HashSet",
     ["new", "new_from_prepared_fields", "len", "add", "add_move", "from_vec"]),
  ("bootstrap_witnesses", "rust/src/protocol_types/witnesses/bootstrap_witnesses.rs", "BootstrapWitnesses", "BootstrapWitness", "witnesses", "HashSet",
     ["new", "new_from_prepared_fields", "len", "add", "from_vec"]),
  ("voting_proposals", "rust/src/protocol_types/governance/proposals/voting_proposals.rs", "VotingProposals", "VotingProposal", "proposals", "HashSet",
     ["new", "new_from_prepared_fields", "len", "add", "from_vec", "to_option"]),
]

PRELUDE = '''use std::rc::Rc;
use std::collections::{HashSet, BTreeSet};
// element type: only equality / hashing / ordering / cloning of elements matter to the collection's invariant, so the
// element is an opaque token with the derived structural traits (ASSUMED: the real derives are structural)
#[derive(PartialEq, Eq, Hash, PartialOrd, Ord)]
pub struct @ELEM@(pub u64);
impl Clone for @ELEM@ { #[verifier::external_body] fn clone(&self) -> (r: @ELEM@) ensures r == *self { unimplemented!() } }
#[derive(Clone)]
pub enum CborSetType { Tagged, Untagged }
'''

SPEC = '''impl Clone for @COLL@ { #[verifier::external_body] fn clone(&self) -> (r: Self) ensures r == *self { unimplemented!() } }
pub proof fn lemma_push_set<T>(o: Seq<T>, x: T)
    ensures o.push(x).to_set() =~= o.to_set().insert(x)
{
    let n = o.push(x);
    assert forall|y: T| n.to_set().contains(y) <==> o.to_set().insert(x).contains(y) by {
        if n.contains(y) { let i = choose|i: int| 0 <= i < n.len() && n[i] == y; if i < o.len() { assert(o[i] == y); assert(o.contains(y)); } }
        if o.contains(y) { let i = choose|i: int| 0 <= i < o.len() && o[i] == y; assert(n[i] == y); }
        if y == x { assert(n[o.len() as int] == x); }
    }
}
pub proof fn lemma_push_nodup<T>(o: Seq<T>, x: T)
    requires o.no_duplicates(), !o.contains(x)
    ensures o.push(x).no_duplicates()
{
    let n = o.push(x);
    assert forall|i: int, j: int| 0 <= i < n.len() && 0 <= j < n.len() && i != j implies n[i] != n[j] by {
        if i < o.len() && j < o.len() { assert(o[i] != o[j]); }
        else if i < o.len() { assert(o.contains(o[i])); }
        else if j < o.len() { assert(o.contains(o[j])); }
    }
}
pub proof fn lemma_insert_same<T>(s: Set<T>, x: T) requires s.contains(x) ensures s.insert(x) == s { assert(s.insert(x) =~= s); }
/// all three facts needed around one `if dedup.insert(x) { vec.push(x) }` step
pub proof fn lemma_step<T>(v: Seq<T>, s: Set<T>, x: T)
    requires v.no_duplicates(), s == v.to_set()
    ensures s.contains(x) <==> v.contains(x),
            s.contains(x) ==> s.insert(x) == s,
            !v.contains(x) ==> v.push(x).no_duplicates() && s.insert(x) == v.push(x).to_set(),
{
    if s.contains(x) { lemma_insert_same(s, x); }
    lemma_push_set(v, x);
    if !v.contains(x) { lemma_push_nodup(v, x); }
}
/// first-insertion order: appending b's elements to a one by one, skipping those already present
pub open spec fn dedup_append<T>(a: Seq<T>, b: Seq<T>) -> Seq<T> decreases b.len() {
    if b.len() == 0 { a } else { let p = dedup_append(a, b.drop_last()); if p.contains(b.last()) { p } else { p.push(b.last()) } }
}
pub proof fn lemma_dedup_append_step<T>(a: Seq<T>, b: Seq<T>, i: int)
    requires 0 <= i < b.len()
    ensures dedup_append(a, b.take(i + 1)) == (if dedup_append(a, b.take(i)).contains(b[i]) { dedup_append(a, b.take(i)) } else { dedup_append(a, b.take(i)).push(b[i]) })
{ assert(b.take(i + 1).drop_last() =~= b.take(i)); }
pub proof fn lemma_dedup_append_set<T>(a: Seq<T>, b: Seq<T>)
    requires a.no_duplicates()
    ensures dedup_append(a, b).no_duplicates(), dedup_append(a, b).to_set() =~= a.to_set() + b.to_set()
    decreases b.len()
{
    if b.len() > 0 {
        let p = dedup_append(a, b.drop_last());
        lemma_dedup_append_set(a, b.drop_last());
        lemma_push_set(p, b.last());
        if !p.contains(b.last()) { lemma_push_nodup(p, b.last()); }
        lemma_push_set(b.drop_last(), b.last());
        assert(b.drop_last().push(b.last()) =~= b);
    }
}
impl @COLL@ {
    /// C16 representation invariant: the vector holds no element twice and the index set is exactly its element set
    pub open spec fn wf(&self) -> bool {
        &&& self.@VEC@@.no_duplicates()
        &&& self.dedup@ == self.@VEC@@.to_set()
    }
}
pub open spec fn key_model_ok() -> bool { @KEYMODEL@ }
pub open spec fn rcs(s: Seq<@ELEM@>) -> Seq<Rc<@ELEM@>> { s.map_values(|x: @ELEM@| Rc::new(x)) }
'''

def unit(u):
    name, file, coll, elem, vec, setk, fns = u
    d = os.path.join(D, "contracts", "dedup_" + name)
    os.makedirs(d, exist_ok=True)
    km = "vstd::std_specs::hash::obeys_key_model::<Rc<%s>>()" % elem if setk == "HashSet" else "vstd::laws_cmp::obeys_cmp_spec::<Rc<%s>>()" % elem
    open(os.path.join(d, "prelude.rs"), "w").write(PRELUDE.replace("@ELEM@", elem))
    open(os.path.join(d, "spec.rs"), "w").write(SPEC.replace("@ELEM@", elem).replace("@COLL@", coll).replace("@VEC@", vec).replace("@KEYMODEL@", km))
    t = ['unit = "dedup_%s"' % name, 'properties = ["C16"]', 'uses = ["use vstd::std_specs::iter::IteratorSpec;"]',
         'prelude = ["../_common/base.rs", "../_common/slice_specs.rs", "prelude.rs"]', 'lemmas = ["spec.rs"]', '',
         '[[type]]', 'source = "%s"' % file, 'name = "%s"' % coll, '']
    def fn(nm, **kw):
        t.append('[[fn]]'); t.append('source = "%s"' % file); t.append('impl = "impl %s"' % coll); t.append('name = "%s"' % nm)
        for k, v in sorted(kw.items(), key=lambda kv: kv[0] in ("loops", "hints")):
            if k in ("requires", "ensures"):
                t.append('%s = [%s]' % (k, ", ".join('"""%s"""' % x for x in v)))
            elif k == "loops":
                for l in v:
                    t.append('[[fn.loop]]'); t.append('index = %d' % l["index"]); t.append('ghost = "it"')
                    t.append('invariant = [%s]' % ", ".join('"""%s"""' % x for x in l["invariant"]))
                    if l.get("body_head"):
                        t.append('body_head = """%s"""' % l["body_head"])
            elif k == "hints":
                for h in v:
                    t.append('[[fn.hint]]')
                    for hk, hv in h.items():
                        t.append('%s = %s' % (hk, ('"""%s"""' % hv) if isinstance(hv, str) else str(hv).lower()))
            else:
                t.append('%s = """%s"""' % (k, v))
        t.append('')
    V = "self.%s@" % vec
    if "new" in fns:
        fn("new", ensures=["r.wf()", "r.%s@.len() == 0" % vec], head="assert(Seq::<Rc<%s>>::empty().to_set() =~= Set::<Rc<%s>>::empty());" % (elem, elem))
    if "new_from_prepared_fields" in fns:
        fn("new_from_prepared_fields", requires=["%s@.no_duplicates()" % vec, "dedup@ == %s@.to_set()" % vec], ensures=["r.wf()", "r.%s == %s" % (vec, vec)])
    if "len" in fns:
        fn("len", ensures=["r == %s.len()" % V])
    step = "lemma_step(%s, self.dedup@, %%s);" % V
    if "add" in fns:
        src = open(os.path.join(os.environ.get("VERIF_REPO", "/repo"), file)).read()
        import re
        m = re.search(r"pub fn add\(&mut self,\s*(\w+): &%s\)" % elem, src)
        arg = m.group(1)
        fn("add", requires=["old(self).wf()", "key_model_ok()"],
           ensures=["final(self).wf()", "r == !old(self).%s@.contains(Rc::new(*%s))" % (vec, arg),
                    "r ==> final(self).%s@ == old(self).%s@.push(Rc::new(*%s))" % (vec, vec, arg),
                    "!r ==> final(self).%s@ == old(self).%s@" % (vec, vec),
                    "final(self).cbor_set_type == old(self).cbor_set_type"],
           head=step % ("Rc::new(*%s)" % arg))
    if "add_move" in fns:
        src = open(os.path.join(os.environ.get("VERIF_REPO", "/repo"), file)).read()
        m = re.search(r"fn add_move\(&mut self,\s*(\w+): %s\)" % elem, src)
        arg = m.group(1)
        fn("add_move", requires=["old(self).wf()", "key_model_ok()"],
           ensures=["final(self).wf()",
                    "old(self).%s@.contains(Rc::new(%s)) ==> final(self).%s@ == old(self).%s@" % (vec, arg, vec, vec),
                    "!old(self).%s@.contains(Rc::new(%s)) ==> final(self).%s@ == old(self).%s@.push(Rc::new(%s))" % (vec, arg, vec, vec, arg),
                    "final(self).cbor_set_type == old(self).cbor_set_type"],
           head=step % ("Rc::new(%s)" % arg))
    if "extend" in fns:
        fn("extend", requires=["old(self).wf()", "key_model_ok()"],
           ensures=["final(self).wf()", "final(self).%s@ == dedup_append(old(self).%s@, other.%s@)" % (vec, vec, vec),
                    "final(self).%s@.to_set() == old(self).%s@.to_set() + other.%s@.to_set()" % (vec, vec, vec)],
           loops=[dict(index=0, invariant=["self.wf()", "key_model_ok()", "%s == dedup_append(old(self).%s@, other.%s@.take(it.index@ as int))" % (V, vec, vec)],
                       body_head="lemma_dedup_append_step(old(self).%s@, other.%s@, it.index@ as int);" % (vec, vec))],
           tail="assert(other.%s@.take(other.%s@.len() as int) =~= other.%s@); lemma_dedup_append_set(old(self).%s@, other.%s@);" % (vec, vec, vec, vec, vec))
    if "extend_move" in fns:
        fn("extend_move", requires=["old(self).wf()", "key_model_ok()"],
           ensures=["final(self).wf()", "final(self).%s@ == dedup_append(old(self).%s@, other.%s@)" % (vec, vec, vec),
                    "final(self).%s@.to_set() == old(self).%s@.to_set() + other.%s@.to_set()" % (vec, vec, vec)],
           loops=[dict(index=0, invariant=["self.wf()", "key_model_ok()", "%s == dedup_append(old(self).%s@, other.%s@.take(it.index@ as int))" % (V, vec, vec)],
                       body_head="lemma_dedup_append_step(old(self).%s@, other.%s@, it.index@ as int); lemma_step(%s, self.dedup@, other.%s@[it.index@ as int]);" % (vec, vec, V, vec))],
           tail="assert(other.%s@.take(other.%s@.len() as int) =~= other.%s@); lemma_dedup_append_set(old(self).%s@, other.%s@);" % (vec, vec, vec, vec, vec))
    if "from_vec" in fns:
        src = open(os.path.join(os.environ.get("VERIF_REPO", "/repo"), file)).read()
        m = re.search(r"fn from_vec\((\w+): Vec<%s>\) -> Self \{(.*?)\n    \}" % elem, src, re.S)
        param, body = m.group(1), m.group(2)
        E = "Seq::<Rc<%s>>::empty()" % elem
        if "add_move(" in body:
            loc = re.search(r"let mut (\w+) = Self::new\(\);", body).group(1)
            fn("from_vec", requires=["key_model_ok()"],
               ensures=["r.wf()", "r.%s@ == dedup_append(%s, rcs(%s@))" % (vec, E, param)],
               loops=[dict(index=0, invariant=["%s.wf()" % loc, "key_model_ok()", "%s.%s@ == dedup_append(%s, rcs(%s@).take(it.index@ as int))" % (loc, vec, E, param)],
                           body_head="lemma_dedup_append_step(%s, rcs(%s@), it.index@ as int);" % (E, param))],
               hints=[dict(before_stmt=loc, nth=-1, proof="assert(rcs(%s@).take(rcs(%s@).len() as int) =~= rcs(%s@));" % (param, param, param))])
        else:
            rc = re.search(r"let (\w+) = Rc::new\(", body).group(1)
            fn("from_vec", requires=["key_model_ok()"],
               ensures=["r.wf()", "r.%s@ == dedup_append(%s, rcs(%s@))" % (vec, E, param)],
               loops=[dict(index=0, invariant=["%s@.no_duplicates()" % vec, "dedup@ == %s@.to_set()" % vec, "key_model_ok()",
                                               "%s@ == dedup_append(%s, rcs(%s@).take(it.index@ as int))" % (vec, E, param)],
                           body_head="lemma_dedup_append_step(%s, rcs(%s@), it.index@ as int); lemma_step(%s@, dedup@, rcs(%s@)[it.index@ as int]);" % (E, param, vec, param))],
               hints=[dict(before_stmt="for ", proof="assert(%s.to_set() =~= Set::<Rc<%s>>::empty());" % (E, elem)),
                      dict(before_stmt="Self::new_from_prepared_fields(", proof="assert(rcs(%s@).take(rcs(%s@).len() as int) =~= rcs(%s@));" % (param, param, param))])
    if "to_option" in fns:
        fn("to_option", ensures=["r is Some <==> %s.len() > 0" % V, "r is Some ==> r->Some_0 == *self"])
    open(os.path.join(d, "unit.toml"), "w").write("\n".join(t) + "\n")

for u in COLLS:
    unit(u)
print("generated", [u[0] for u in COLLS])
