#!/bin/bash
# usage: tools/seeded_regress.sh [ids...]   — applies each seeded change to /repo, runs the check of its property, records the outcome
# in seeded/<id>/result.txt, reverts.  VERIF_DEV_SKIP_KANI=1 in the environment restricts to the Verus obligations (fast triage).
cd /verif
ids="$@"; [ -z "$ids" ] && ids=$(ls seeded)
for id in $ids; do
  prop=${id%%-*}
  if ! git -C /repo apply --check /verif/seeded/$id/patch.diff 2>/dev/null; then echo "$id: patch no longer applies to the current tree"; echo "patch does not apply to current /repo HEAD" > seeded/$id/result.txt; continue; fi
  git -C /repo apply /verif/seeded/$id/patch.diff
  bin/check $prop --tier quick > /tmp/seeded_$id.out 2>&1; rc=$?
  git -C /repo checkout -- .
  ob=$(grep -E "^FAILED-OBLIGATION|^UNDECIDED" /tmp/seeded_$id.out | sed -E 's/ replay=.*//; s/ reason=.*//' | tr '\n' ';' | cut -c1-300)
  mode="all engines"; [ -n "$VERIF_DEV_SKIP_KANI" ] && mode="verus obligations only"
  echo "$id: check $prop exit=$rc ($mode) $ob"
  echo "bin/check $prop --tier quick  => exit=$rc ($mode)  $ob" > seeded/$id/result.txt
done
