#!/bin/bash
# usage: tools/seeded_regress.sh [ids...]   — applies each seeded change to a scratch worktree of /repo's HEAD (never to /repo),
# runs the check of its property against that worktree in a developer sandbox (.work-seeded/), records the outcome in
# seeded/<id>/result.txt.   VERIF_DEV_SKIP_KANI=1 restricts to the Verus obligations (fast triage).
cd /verif
WT=${WT:-/tmp/wt_seeded_$$}
git -C /repo worktree add --detach $WT HEAD -q || exit 3
trap 'git -C /repo worktree remove --force $WT' EXIT
export VERIF_REPO=$WT VERIF_DEV_SANDBOX=${VERIF_DEV_SANDBOX:-seeded}
ids="$@"; [ -z "$ids" ] && ids=$(ls seeded)
for id in $ids; do
  prop=${id%%-*}
  if ! git -C $WT apply --check /verif/seeded/$id/patch.diff 2>/dev/null; then echo "$id: patch no longer applies to the current tree"; echo "patch does not apply to current /repo HEAD" > seeded/$id/result.txt; continue; fi
  git -C $WT apply /verif/seeded/$id/patch.diff
  bin/check $prop --tier ${TIER:-quick} > /tmp/seeded_$id.out 2>&1; rc=$?
  git -C $WT checkout -- .
  ob=$(grep -E "^FAILED-OBLIGATION|^UNDECIDED" /tmp/seeded_$id.out | sed -E 's/ replay=.*//; s/ reason=.*//' | tr '\n' ';' | cut -c1-300)
  mode="all engines"; [ -n "$VERIF_DEV_SKIP_KANI" ] && mode="verus obligations only"
  echo "$id: check $prop exit=$rc ($mode, tier ${TIER:-quick}) $ob"
  echo "bin/check $prop --tier ${TIER:-quick}  => exit=$rc ($mode)  $ob" > seeded/$id/result.txt
done
