#!/usr/bin/env python3
"""Regenerates the rows of the table in DESIGN.md section 0 from tools/claims.json (the text MANIFEST.json carries)."""
import json, os, re
D = os.path.dirname(os.path.dirname(os.path.abspath(__file__)))
claims = json.load(open(os.path.join(D, "tools", "claims.json")))
props = [json.loads(l)["id"] for l in open(os.path.join(D, "properties.jsonl"))]
p = os.path.join(D, "DESIGN.md")
lines = open(p).read().split("\n")
out = []
done = False
for ln in lines:
    if re.match(r"^\| C\d\d \|", ln) and not done:
        continue_ = True
        if ln.startswith("| C01 |"):
            for pid in props:
                c = claims["claimed"].get(pid)
                if c:
                    eng = " + ".join({"verus": "Verus", "kani": "Kani"}[e] for e in c.get("engines", ["verus"]))
                    out.append("| %s | %s | %s | proof (scoped: the text says what is and is not decided) |" % (pid, c["text"].replace("|", "\\|"), eng))
                else:
                    out.append("| %s | **not applicable** — %s | — | — |" % (pid, claims["not_applicable"].get(pid, "not built")))
        if ln.startswith("| C20 |"):
            done = True
        continue
    out.append(ln)
open(p, "w").write("\n".join(out))
print("DESIGN.md section 0 regenerated")
