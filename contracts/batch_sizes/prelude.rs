pub type Coin = BigNum;
impl vstd::std_specs::convert::FromSpecImpl<BigNum> for u64 {
    open spec fn obeys_from_spec() -> bool { true }
    open spec fn from_spec(v: BigNum) -> u64 { v.0 }
}
impl From<BigNum> for u64 { #[verifier::external_body] fn from(x: BigNum) -> (r: u64) { unimplemented!() } }
/// length of the shortest CBOR head for an unsigned argument (unit batch_calc)
pub open spec fn uint_len(c: u64) -> nat {
    if c <= 23 { 1 } else if c < 0x100 { 2 } else if c < 0x10000 { 3 } else if c < 0x1_0000_0000 { 5 } else { 9 }
}
pub struct CborCalculator();
clone_eq!(AssetIndex, PolicyIndex, UtxoIndex);
opaque_types!(Address);
