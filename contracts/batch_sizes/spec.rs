// ---- what the batcher's value-size calculator must compute: the size of the CBOR `value` holding `coin` and, per policy of `grouped`, per asset of it,
// the total of that asset over the chosen UTxOs:  coin head + [map head + per policy (28-byte policy id + map head + per asset (name + amount head))]
pub type Amounts = Seq<HashMap<UtxoIndex, Coin>>;
/// total of one asset over the first n entries of its per-UTxO amounts that lie in `utxos`
pub open spec fn coins_sum(ents: Seq<(UtxoIndex, Coin)>, utxos: Set<UtxoIndex>, n: int) -> int decreases n {
    if n <= 0 { 0 } else { coins_sum(ents, utxos, n - 1) + if utxos.contains(ents[n - 1].0) { ents[n - 1].1.0 as int } else { 0 } }
}
pub open spec fn asset_total(amounts: Amounts, a: AssetIndex, utxos: Set<UtxoIndex>) -> int {
    coins_sum(amounts[a.0 as int].order(), utxos, amounts[a.0 as int].order().len() as int)
}
pub open spec fn assets_size(names: Seq<usize>, assets: Seq<AssetIndex>, utxos: Set<UtxoIndex>, amounts: Amounts, n: int) -> int decreases n {
    if n <= 0 { 0 } else { assets_size(names, assets, utxos, amounts, n - 1) + names[assets[n - 1].0 as int] + uint_len(asset_total(amounts, assets[n - 1], utxos) as u64) }
}
pub open spec fn policy_size_of(psize: usize, names: Seq<usize>, assets: HashSet<AssetIndex>, utxos: Set<UtxoIndex>, amounts: Amounts) -> int {
    psize + uint_len(assets.order().len() as u64) + assets_size(names, assets.order(), utxos, amounts, assets.order().len() as int)
}
pub open spec fn policies_size(psize: usize, names: Seq<usize>, pols: Seq<(PolicyIndex, HashSet<AssetIndex>)>, utxos: Set<UtxoIndex>, amounts: Amounts, n: int) -> int decreases n {
    if n <= 0 { 0 } else { policies_size(psize, names, pols, utxos, amounts, n - 1) + policy_size_of(psize, names, pols[n - 1].1, utxos, amounts) }
}
pub open spec fn value_size(psize: usize, names: Seq<usize>, coin: Coin, grouped: HashMap<PolicyIndex, HashSet<AssetIndex>>, utxos: Set<UtxoIndex>, amounts: Amounts) -> int {
    uint_len(coin.0) + (if grouped.order().len() > 0 { uint_len(grouped.order().len() as u64) as int } else { 0 })
        + policies_size(psize, names, grouped.order(), utxos, amounts, grouped.order().len() as int)
}
/// every asset index of the grouping has its name size and its amounts table; totals that are sized fit the amount type
pub open spec fn indexes_ok(names: Seq<usize>, grouped: HashMap<PolicyIndex, HashSet<AssetIndex>>, amounts: Amounts) -> bool {
    forall|i: int, j: int| 0 <= i < grouped.order().len() && 0 <= j < grouped.order()[i].1.order().len()
        ==> (#[trigger] grouped.order()[i].1.order()[j]).0 < names.len() && grouped.order()[i].1.order()[j].0 < amounts.len()
}
pub proof fn lemma_coins_nonneg(ents: Seq<(UtxoIndex, Coin)>, utxos: Set<UtxoIndex>, n: int) ensures coins_sum(ents, utxos, n) >= 0 decreases n
{ if n > 0 { lemma_coins_nonneg(ents, utxos, n - 1); } }
pub proof fn lemma_assets_mono(names: Seq<usize>, assets: Seq<AssetIndex>, utxos: Set<UtxoIndex>, amounts: Amounts, n: int, m: int)
    requires 0 <= n <= m ensures 0 <= assets_size(names, assets, utxos, amounts, n) <= assets_size(names, assets, utxos, amounts, m) decreases m
{ if m > 0 { if n < m { lemma_assets_mono(names, assets, utxos, amounts, n, m - 1); } else { lemma_assets_mono(names, assets, utxos, amounts, n - 1, m - 1); } } }
pub proof fn lemma_policies_mono(psize: usize, names: Seq<usize>, pols: Seq<(PolicyIndex, HashSet<AssetIndex>)>, utxos: Set<UtxoIndex>, amounts: Amounts, n: int, m: int)
    requires 0 <= n <= m ensures 0 <= policies_size(psize, names, pols, utxos, amounts, n) <= policies_size(psize, names, pols, utxos, amounts, m) decreases m
{ if m > 0 {
    lemma_assets_mono(names, pols[m - 1].1.order(), utxos, amounts, 0, pols[m - 1].1.order().len() as int);
    if n < m { lemma_policies_mono(psize, names, pols, utxos, amounts, n, m - 1); } else { lemma_policies_mono(psize, names, pols, utxos, amounts, n - 1, m - 1); } } }
// ---- UtxosStat::new: per asset the total over all UTxOs, per policy the number of its assets
pub open spec fn total(ents: Seq<(UtxoIndex, Coin)>, n: int) -> int decreases n { if n <= 0 { 0 } else { total(ents, n - 1) + ents[n - 1].1.0 } }
pub open spec fn stat_ok(r: UtxosStat, total_ada: Coin, pta: HashMap<PolicyIndex, HashSet<AssetIndex>>, amounts: Amounts) -> bool {
    &&& r.total_policies == pta.order().len() && r.ada_coins == total_ada
    &&& forall|k: PolicyIndex| r.assets_in_policy@.contains_key(k) <==> pta@.contains_key(k)
    &&& forall|j: int| 0 <= j < pta.order().len() ==> r.assets_in_policy@[(#[trigger] pta.order()[j]).0] == pta.order()[j].1.order().len()
    &&& forall|k: AssetIndex| r.coins_in_assets@.contains_key(k) ==> k.0 < amounts.len()
    &&& forall|i: int| 0 <= i < amounts.len() ==> (r.coins_in_assets@.contains_key(AssetIndex(i as usize)) <==> (#[trigger] amounts[i]).order().len() > 0)
            && (amounts[i].order().len() > 0 ==> r.coins_in_assets@[AssetIndex(i as usize)].0 == total(amounts[i].order(), amounts[i].order().len() as int))
}
// ---- bare transaction-body / witness-set sizes: map head + per present field its key (+ the 3-byte tag 258 of the set-typed fields:
// inputs 0, certificates 4, collateral 13, required signers 14, reference inputs 18)
pub open spec fn is_set_field(k: u64) -> bool { k == 0 || k == 4 || k == 13 || k == 14 || k == 18 }
pub open spec fn body_fields_size(f: Seq<TxBodyNames>, n: int) -> int decreases n {
    if n <= 0 { 0 } else { body_fields_size(f, n - 1) + uint_len(f[n - 1].disc()) + if is_set_field(f[n - 1].disc()) { 3int } else { 0 } }
}
pub open spec fn wit_fields_size(f: Seq<WitnessSetNames>, n: int) -> int decreases n {
    if n <= 0 { 0 } else { wit_fields_size(f, n - 1) + uint_len(f[n - 1].disc()) }
}
pub proof fn lemma_body_fields_bound(f: Seq<TxBodyNames>, n: int) requires 0 <= n ensures 0 <= body_fields_size(f, n) <= 12 * n decreases n
{ if n > 0 { lemma_body_fields_bound(f, n - 1); } }
pub proof fn lemma_wit_fields_bound(f: Seq<WitnessSetNames>, n: int) requires 0 <= n ensures 0 <= wit_fields_size(f, n) <= 9 * n decreases n
{ if n > 0 { lemma_wit_fields_bound(f, n - 1); } }
