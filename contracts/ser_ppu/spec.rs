/// number of map entries the CDDL requires for this value: the required keys plus every optional key that is present
/// (set- and map-valued optional fields count only when non-empty: an empty one is written as absent)
pub open spec fn ser_ppu_count(b: ProtocolParamUpdate) -> int { 0 + cnt_o(b.minfee_a) + cnt_o(b.minfee_b) + cnt_o(b.max_block_body_size) + cnt_o(b.max_tx_size) + cnt_o(b.max_block_header_size) + cnt_o(b.key_deposit) + cnt_o(b.pool_deposit) + cnt_o(b.max_epoch) + cnt_o(b.n_opt) + cnt_o(b.pool_pledge_influence) + cnt_o(b.expansion_rate) + cnt_o(b.treasury_growth_rate) + cnt_o(b.d) + cnt_o(b.extra_entropy) + cnt_o(b.protocol_version) + cnt_o(b.min_pool_cost) + cnt_o(b.ada_per_utxo_byte) + cnt_o(b.cost_models) + cnt_o(b.execution_costs) + cnt_o(b.max_tx_ex_units) + cnt_o(b.max_block_ex_units) + cnt_o(b.max_value_size) + cnt_o(b.collateral_percentage) + cnt_o(b.max_collateral_inputs) + cnt_o(b.pool_voting_thresholds) + cnt_o(b.drep_voting_thresholds) + cnt_o(b.min_committee_size) + cnt_o(b.committee_term_limit) + cnt_o(b.governance_action_validity_period) + cnt_o(b.governance_action_deposit) + cnt_o(b.drep_deposit) + cnt_o(b.drep_inactivity_period) + cnt_o(b.ref_script_coins_per_byte) }
#[verifier::opaque]
pub open spec fn ser_ppu_k0(s: Seq<Tok>, b: ProtocolParamUpdate) -> Seq<Tok> { ap_o(s, 0, b.minfee_a) }
pub proof fn lemma_ser_ppu_k0(s: Seq<Tok>, x: Seq<Tok>, y: Seq<Tok>, b: ProtocolParamUpdate) requires x == s + y ensures ser_ppu_k0(x, b) == s + ser_ppu_k0(y, b)
{ reveal(ser_ppu_k0); lemma_ap_o(x, 0, b.minfee_a); lemma_ap_o(y, 0, b.minfee_a); lemma_shift(s, x, y, ser_ppu_k0(x, b), ser_ppu_k0(y, b), ap_o(Seq::empty(), 0, b.minfee_a)); }
#[verifier::opaque]
pub open spec fn ser_ppu_k1(s: Seq<Tok>, b: ProtocolParamUpdate) -> Seq<Tok> { ap_o(s, 1, b.minfee_b) }
pub proof fn lemma_ser_ppu_k1(s: Seq<Tok>, x: Seq<Tok>, y: Seq<Tok>, b: ProtocolParamUpdate) requires x == s + y ensures ser_ppu_k1(x, b) == s + ser_ppu_k1(y, b)
{ reveal(ser_ppu_k1); lemma_ap_o(x, 1, b.minfee_b); lemma_ap_o(y, 1, b.minfee_b); lemma_shift(s, x, y, ser_ppu_k1(x, b), ser_ppu_k1(y, b), ap_o(Seq::empty(), 1, b.minfee_b)); }
#[verifier::opaque]
pub open spec fn ser_ppu_k2(s: Seq<Tok>, b: ProtocolParamUpdate) -> Seq<Tok> { ap_o(s, 2, b.max_block_body_size) }
pub proof fn lemma_ser_ppu_k2(s: Seq<Tok>, x: Seq<Tok>, y: Seq<Tok>, b: ProtocolParamUpdate) requires x == s + y ensures ser_ppu_k2(x, b) == s + ser_ppu_k2(y, b)
{ reveal(ser_ppu_k2); lemma_ap_o(x, 2, b.max_block_body_size); lemma_ap_o(y, 2, b.max_block_body_size); lemma_shift(s, x, y, ser_ppu_k2(x, b), ser_ppu_k2(y, b), ap_o(Seq::empty(), 2, b.max_block_body_size)); }
#[verifier::opaque]
pub open spec fn ser_ppu_k3(s: Seq<Tok>, b: ProtocolParamUpdate) -> Seq<Tok> { ap_o(s, 3, b.max_tx_size) }
pub proof fn lemma_ser_ppu_k3(s: Seq<Tok>, x: Seq<Tok>, y: Seq<Tok>, b: ProtocolParamUpdate) requires x == s + y ensures ser_ppu_k3(x, b) == s + ser_ppu_k3(y, b)
{ reveal(ser_ppu_k3); lemma_ap_o(x, 3, b.max_tx_size); lemma_ap_o(y, 3, b.max_tx_size); lemma_shift(s, x, y, ser_ppu_k3(x, b), ser_ppu_k3(y, b), ap_o(Seq::empty(), 3, b.max_tx_size)); }
#[verifier::opaque]
pub open spec fn ser_ppu_k4(s: Seq<Tok>, b: ProtocolParamUpdate) -> Seq<Tok> { ap_o(s, 4, b.max_block_header_size) }
pub proof fn lemma_ser_ppu_k4(s: Seq<Tok>, x: Seq<Tok>, y: Seq<Tok>, b: ProtocolParamUpdate) requires x == s + y ensures ser_ppu_k4(x, b) == s + ser_ppu_k4(y, b)
{ reveal(ser_ppu_k4); lemma_ap_o(x, 4, b.max_block_header_size); lemma_ap_o(y, 4, b.max_block_header_size); lemma_shift(s, x, y, ser_ppu_k4(x, b), ser_ppu_k4(y, b), ap_o(Seq::empty(), 4, b.max_block_header_size)); }
#[verifier::opaque]
pub open spec fn ser_ppu_k5(s: Seq<Tok>, b: ProtocolParamUpdate) -> Seq<Tok> { ap_o(s, 5, b.key_deposit) }
pub proof fn lemma_ser_ppu_k5(s: Seq<Tok>, x: Seq<Tok>, y: Seq<Tok>, b: ProtocolParamUpdate) requires x == s + y ensures ser_ppu_k5(x, b) == s + ser_ppu_k5(y, b)
{ reveal(ser_ppu_k5); lemma_ap_o(x, 5, b.key_deposit); lemma_ap_o(y, 5, b.key_deposit); lemma_shift(s, x, y, ser_ppu_k5(x, b), ser_ppu_k5(y, b), ap_o(Seq::empty(), 5, b.key_deposit)); }
#[verifier::opaque]
pub open spec fn ser_ppu_k6(s: Seq<Tok>, b: ProtocolParamUpdate) -> Seq<Tok> { ap_o(s, 6, b.pool_deposit) }
pub proof fn lemma_ser_ppu_k6(s: Seq<Tok>, x: Seq<Tok>, y: Seq<Tok>, b: ProtocolParamUpdate) requires x == s + y ensures ser_ppu_k6(x, b) == s + ser_ppu_k6(y, b)
{ reveal(ser_ppu_k6); lemma_ap_o(x, 6, b.pool_deposit); lemma_ap_o(y, 6, b.pool_deposit); lemma_shift(s, x, y, ser_ppu_k6(x, b), ser_ppu_k6(y, b), ap_o(Seq::empty(), 6, b.pool_deposit)); }
#[verifier::opaque]
pub open spec fn ser_ppu_k7(s: Seq<Tok>, b: ProtocolParamUpdate) -> Seq<Tok> { ap_o(s, 7, b.max_epoch) }
pub proof fn lemma_ser_ppu_k7(s: Seq<Tok>, x: Seq<Tok>, y: Seq<Tok>, b: ProtocolParamUpdate) requires x == s + y ensures ser_ppu_k7(x, b) == s + ser_ppu_k7(y, b)
{ reveal(ser_ppu_k7); lemma_ap_o(x, 7, b.max_epoch); lemma_ap_o(y, 7, b.max_epoch); lemma_shift(s, x, y, ser_ppu_k7(x, b), ser_ppu_k7(y, b), ap_o(Seq::empty(), 7, b.max_epoch)); }
#[verifier::opaque]
pub open spec fn ser_ppu_k8(s: Seq<Tok>, b: ProtocolParamUpdate) -> Seq<Tok> { ap_o(s, 8, b.n_opt) }
pub proof fn lemma_ser_ppu_k8(s: Seq<Tok>, x: Seq<Tok>, y: Seq<Tok>, b: ProtocolParamUpdate) requires x == s + y ensures ser_ppu_k8(x, b) == s + ser_ppu_k8(y, b)
{ reveal(ser_ppu_k8); lemma_ap_o(x, 8, b.n_opt); lemma_ap_o(y, 8, b.n_opt); lemma_shift(s, x, y, ser_ppu_k8(x, b), ser_ppu_k8(y, b), ap_o(Seq::empty(), 8, b.n_opt)); }
#[verifier::opaque]
pub open spec fn ser_ppu_k9(s: Seq<Tok>, b: ProtocolParamUpdate) -> Seq<Tok> { ap_o(s, 9, b.pool_pledge_influence) }
pub proof fn lemma_ser_ppu_k9(s: Seq<Tok>, x: Seq<Tok>, y: Seq<Tok>, b: ProtocolParamUpdate) requires x == s + y ensures ser_ppu_k9(x, b) == s + ser_ppu_k9(y, b)
{ reveal(ser_ppu_k9); lemma_ap_o(x, 9, b.pool_pledge_influence); lemma_ap_o(y, 9, b.pool_pledge_influence); lemma_shift(s, x, y, ser_ppu_k9(x, b), ser_ppu_k9(y, b), ap_o(Seq::empty(), 9, b.pool_pledge_influence)); }
#[verifier::opaque]
pub open spec fn ser_ppu_k10(s: Seq<Tok>, b: ProtocolParamUpdate) -> Seq<Tok> { ap_o(s, 10, b.expansion_rate) }
pub proof fn lemma_ser_ppu_k10(s: Seq<Tok>, x: Seq<Tok>, y: Seq<Tok>, b: ProtocolParamUpdate) requires x == s + y ensures ser_ppu_k10(x, b) == s + ser_ppu_k10(y, b)
{ reveal(ser_ppu_k10); lemma_ap_o(x, 10, b.expansion_rate); lemma_ap_o(y, 10, b.expansion_rate); lemma_shift(s, x, y, ser_ppu_k10(x, b), ser_ppu_k10(y, b), ap_o(Seq::empty(), 10, b.expansion_rate)); }
#[verifier::opaque]
pub open spec fn ser_ppu_k11(s: Seq<Tok>, b: ProtocolParamUpdate) -> Seq<Tok> { ap_o(s, 11, b.treasury_growth_rate) }
pub proof fn lemma_ser_ppu_k11(s: Seq<Tok>, x: Seq<Tok>, y: Seq<Tok>, b: ProtocolParamUpdate) requires x == s + y ensures ser_ppu_k11(x, b) == s + ser_ppu_k11(y, b)
{ reveal(ser_ppu_k11); lemma_ap_o(x, 11, b.treasury_growth_rate); lemma_ap_o(y, 11, b.treasury_growth_rate); lemma_shift(s, x, y, ser_ppu_k11(x, b), ser_ppu_k11(y, b), ap_o(Seq::empty(), 11, b.treasury_growth_rate)); }
#[verifier::opaque]
pub open spec fn ser_ppu_k12(s: Seq<Tok>, b: ProtocolParamUpdate) -> Seq<Tok> { ap_o(s, 12, b.d) }
pub proof fn lemma_ser_ppu_k12(s: Seq<Tok>, x: Seq<Tok>, y: Seq<Tok>, b: ProtocolParamUpdate) requires x == s + y ensures ser_ppu_k12(x, b) == s + ser_ppu_k12(y, b)
{ reveal(ser_ppu_k12); lemma_ap_o(x, 12, b.d); lemma_ap_o(y, 12, b.d); lemma_shift(s, x, y, ser_ppu_k12(x, b), ser_ppu_k12(y, b), ap_o(Seq::empty(), 12, b.d)); }
#[verifier::opaque]
pub open spec fn ser_ppu_k13(s: Seq<Tok>, b: ProtocolParamUpdate) -> Seq<Tok> { ap_o(s, 13, b.extra_entropy) }
pub proof fn lemma_ser_ppu_k13(s: Seq<Tok>, x: Seq<Tok>, y: Seq<Tok>, b: ProtocolParamUpdate) requires x == s + y ensures ser_ppu_k13(x, b) == s + ser_ppu_k13(y, b)
{ reveal(ser_ppu_k13); lemma_ap_o(x, 13, b.extra_entropy); lemma_ap_o(y, 13, b.extra_entropy); lemma_shift(s, x, y, ser_ppu_k13(x, b), ser_ppu_k13(y, b), ap_o(Seq::empty(), 13, b.extra_entropy)); }
#[verifier::opaque]
pub open spec fn ser_ppu_k14(s: Seq<Tok>, b: ProtocolParamUpdate) -> Seq<Tok> { ap_o(s, 14, b.protocol_version) }
pub proof fn lemma_ser_ppu_k14(s: Seq<Tok>, x: Seq<Tok>, y: Seq<Tok>, b: ProtocolParamUpdate) requires x == s + y ensures ser_ppu_k14(x, b) == s + ser_ppu_k14(y, b)
{ reveal(ser_ppu_k14); lemma_ap_o(x, 14, b.protocol_version); lemma_ap_o(y, 14, b.protocol_version); lemma_shift(s, x, y, ser_ppu_k14(x, b), ser_ppu_k14(y, b), ap_o(Seq::empty(), 14, b.protocol_version)); }
#[verifier::opaque]
pub open spec fn ser_ppu_k16(s: Seq<Tok>, b: ProtocolParamUpdate) -> Seq<Tok> { ap_o(s, 16, b.min_pool_cost) }
pub proof fn lemma_ser_ppu_k16(s: Seq<Tok>, x: Seq<Tok>, y: Seq<Tok>, b: ProtocolParamUpdate) requires x == s + y ensures ser_ppu_k16(x, b) == s + ser_ppu_k16(y, b)
{ reveal(ser_ppu_k16); lemma_ap_o(x, 16, b.min_pool_cost); lemma_ap_o(y, 16, b.min_pool_cost); lemma_shift(s, x, y, ser_ppu_k16(x, b), ser_ppu_k16(y, b), ap_o(Seq::empty(), 16, b.min_pool_cost)); }
#[verifier::opaque]
pub open spec fn ser_ppu_k17(s: Seq<Tok>, b: ProtocolParamUpdate) -> Seq<Tok> { ap_o(s, 17, b.ada_per_utxo_byte) }
pub proof fn lemma_ser_ppu_k17(s: Seq<Tok>, x: Seq<Tok>, y: Seq<Tok>, b: ProtocolParamUpdate) requires x == s + y ensures ser_ppu_k17(x, b) == s + ser_ppu_k17(y, b)
{ reveal(ser_ppu_k17); lemma_ap_o(x, 17, b.ada_per_utxo_byte); lemma_ap_o(y, 17, b.ada_per_utxo_byte); lemma_shift(s, x, y, ser_ppu_k17(x, b), ser_ppu_k17(y, b), ap_o(Seq::empty(), 17, b.ada_per_utxo_byte)); }
#[verifier::opaque]
pub open spec fn ser_ppu_k18(s: Seq<Tok>, b: ProtocolParamUpdate) -> Seq<Tok> { ap_o(s, 18, b.cost_models) }
pub proof fn lemma_ser_ppu_k18(s: Seq<Tok>, x: Seq<Tok>, y: Seq<Tok>, b: ProtocolParamUpdate) requires x == s + y ensures ser_ppu_k18(x, b) == s + ser_ppu_k18(y, b)
{ reveal(ser_ppu_k18); lemma_ap_o(x, 18, b.cost_models); lemma_ap_o(y, 18, b.cost_models); lemma_shift(s, x, y, ser_ppu_k18(x, b), ser_ppu_k18(y, b), ap_o(Seq::empty(), 18, b.cost_models)); }
#[verifier::opaque]
pub open spec fn ser_ppu_k19(s: Seq<Tok>, b: ProtocolParamUpdate) -> Seq<Tok> { ap_o(s, 19, b.execution_costs) }
pub proof fn lemma_ser_ppu_k19(s: Seq<Tok>, x: Seq<Tok>, y: Seq<Tok>, b: ProtocolParamUpdate) requires x == s + y ensures ser_ppu_k19(x, b) == s + ser_ppu_k19(y, b)
{ reveal(ser_ppu_k19); lemma_ap_o(x, 19, b.execution_costs); lemma_ap_o(y, 19, b.execution_costs); lemma_shift(s, x, y, ser_ppu_k19(x, b), ser_ppu_k19(y, b), ap_o(Seq::empty(), 19, b.execution_costs)); }
#[verifier::opaque]
pub open spec fn ser_ppu_k20(s: Seq<Tok>, b: ProtocolParamUpdate) -> Seq<Tok> { ap_o(s, 20, b.max_tx_ex_units) }
pub proof fn lemma_ser_ppu_k20(s: Seq<Tok>, x: Seq<Tok>, y: Seq<Tok>, b: ProtocolParamUpdate) requires x == s + y ensures ser_ppu_k20(x, b) == s + ser_ppu_k20(y, b)
{ reveal(ser_ppu_k20); lemma_ap_o(x, 20, b.max_tx_ex_units); lemma_ap_o(y, 20, b.max_tx_ex_units); lemma_shift(s, x, y, ser_ppu_k20(x, b), ser_ppu_k20(y, b), ap_o(Seq::empty(), 20, b.max_tx_ex_units)); }
#[verifier::opaque]
pub open spec fn ser_ppu_k21(s: Seq<Tok>, b: ProtocolParamUpdate) -> Seq<Tok> { ap_o(s, 21, b.max_block_ex_units) }
pub proof fn lemma_ser_ppu_k21(s: Seq<Tok>, x: Seq<Tok>, y: Seq<Tok>, b: ProtocolParamUpdate) requires x == s + y ensures ser_ppu_k21(x, b) == s + ser_ppu_k21(y, b)
{ reveal(ser_ppu_k21); lemma_ap_o(x, 21, b.max_block_ex_units); lemma_ap_o(y, 21, b.max_block_ex_units); lemma_shift(s, x, y, ser_ppu_k21(x, b), ser_ppu_k21(y, b), ap_o(Seq::empty(), 21, b.max_block_ex_units)); }
#[verifier::opaque]
pub open spec fn ser_ppu_k22(s: Seq<Tok>, b: ProtocolParamUpdate) -> Seq<Tok> { ap_o(s, 22, b.max_value_size) }
pub proof fn lemma_ser_ppu_k22(s: Seq<Tok>, x: Seq<Tok>, y: Seq<Tok>, b: ProtocolParamUpdate) requires x == s + y ensures ser_ppu_k22(x, b) == s + ser_ppu_k22(y, b)
{ reveal(ser_ppu_k22); lemma_ap_o(x, 22, b.max_value_size); lemma_ap_o(y, 22, b.max_value_size); lemma_shift(s, x, y, ser_ppu_k22(x, b), ser_ppu_k22(y, b), ap_o(Seq::empty(), 22, b.max_value_size)); }
#[verifier::opaque]
pub open spec fn ser_ppu_k23(s: Seq<Tok>, b: ProtocolParamUpdate) -> Seq<Tok> { ap_o(s, 23, b.collateral_percentage) }
pub proof fn lemma_ser_ppu_k23(s: Seq<Tok>, x: Seq<Tok>, y: Seq<Tok>, b: ProtocolParamUpdate) requires x == s + y ensures ser_ppu_k23(x, b) == s + ser_ppu_k23(y, b)
{ reveal(ser_ppu_k23); lemma_ap_o(x, 23, b.collateral_percentage); lemma_ap_o(y, 23, b.collateral_percentage); lemma_shift(s, x, y, ser_ppu_k23(x, b), ser_ppu_k23(y, b), ap_o(Seq::empty(), 23, b.collateral_percentage)); }
#[verifier::opaque]
pub open spec fn ser_ppu_k24(s: Seq<Tok>, b: ProtocolParamUpdate) -> Seq<Tok> { ap_o(s, 24, b.max_collateral_inputs) }
pub proof fn lemma_ser_ppu_k24(s: Seq<Tok>, x: Seq<Tok>, y: Seq<Tok>, b: ProtocolParamUpdate) requires x == s + y ensures ser_ppu_k24(x, b) == s + ser_ppu_k24(y, b)
{ reveal(ser_ppu_k24); lemma_ap_o(x, 24, b.max_collateral_inputs); lemma_ap_o(y, 24, b.max_collateral_inputs); lemma_shift(s, x, y, ser_ppu_k24(x, b), ser_ppu_k24(y, b), ap_o(Seq::empty(), 24, b.max_collateral_inputs)); }
#[verifier::opaque]
pub open spec fn ser_ppu_k25(s: Seq<Tok>, b: ProtocolParamUpdate) -> Seq<Tok> { ap_o(s, 25, b.pool_voting_thresholds) }
pub proof fn lemma_ser_ppu_k25(s: Seq<Tok>, x: Seq<Tok>, y: Seq<Tok>, b: ProtocolParamUpdate) requires x == s + y ensures ser_ppu_k25(x, b) == s + ser_ppu_k25(y, b)
{ reveal(ser_ppu_k25); lemma_ap_o(x, 25, b.pool_voting_thresholds); lemma_ap_o(y, 25, b.pool_voting_thresholds); lemma_shift(s, x, y, ser_ppu_k25(x, b), ser_ppu_k25(y, b), ap_o(Seq::empty(), 25, b.pool_voting_thresholds)); }
#[verifier::opaque]
pub open spec fn ser_ppu_k26(s: Seq<Tok>, b: ProtocolParamUpdate) -> Seq<Tok> { ap_o(s, 26, b.drep_voting_thresholds) }
pub proof fn lemma_ser_ppu_k26(s: Seq<Tok>, x: Seq<Tok>, y: Seq<Tok>, b: ProtocolParamUpdate) requires x == s + y ensures ser_ppu_k26(x, b) == s + ser_ppu_k26(y, b)
{ reveal(ser_ppu_k26); lemma_ap_o(x, 26, b.drep_voting_thresholds); lemma_ap_o(y, 26, b.drep_voting_thresholds); lemma_shift(s, x, y, ser_ppu_k26(x, b), ser_ppu_k26(y, b), ap_o(Seq::empty(), 26, b.drep_voting_thresholds)); }
#[verifier::opaque]
pub open spec fn ser_ppu_k27(s: Seq<Tok>, b: ProtocolParamUpdate) -> Seq<Tok> { ap_o(s, 27, b.min_committee_size) }
pub proof fn lemma_ser_ppu_k27(s: Seq<Tok>, x: Seq<Tok>, y: Seq<Tok>, b: ProtocolParamUpdate) requires x == s + y ensures ser_ppu_k27(x, b) == s + ser_ppu_k27(y, b)
{ reveal(ser_ppu_k27); lemma_ap_o(x, 27, b.min_committee_size); lemma_ap_o(y, 27, b.min_committee_size); lemma_shift(s, x, y, ser_ppu_k27(x, b), ser_ppu_k27(y, b), ap_o(Seq::empty(), 27, b.min_committee_size)); }
#[verifier::opaque]
pub open spec fn ser_ppu_k28(s: Seq<Tok>, b: ProtocolParamUpdate) -> Seq<Tok> { ap_o(s, 28, b.committee_term_limit) }
pub proof fn lemma_ser_ppu_k28(s: Seq<Tok>, x: Seq<Tok>, y: Seq<Tok>, b: ProtocolParamUpdate) requires x == s + y ensures ser_ppu_k28(x, b) == s + ser_ppu_k28(y, b)
{ reveal(ser_ppu_k28); lemma_ap_o(x, 28, b.committee_term_limit); lemma_ap_o(y, 28, b.committee_term_limit); lemma_shift(s, x, y, ser_ppu_k28(x, b), ser_ppu_k28(y, b), ap_o(Seq::empty(), 28, b.committee_term_limit)); }
#[verifier::opaque]
pub open spec fn ser_ppu_k29(s: Seq<Tok>, b: ProtocolParamUpdate) -> Seq<Tok> { ap_o(s, 29, b.governance_action_validity_period) }
pub proof fn lemma_ser_ppu_k29(s: Seq<Tok>, x: Seq<Tok>, y: Seq<Tok>, b: ProtocolParamUpdate) requires x == s + y ensures ser_ppu_k29(x, b) == s + ser_ppu_k29(y, b)
{ reveal(ser_ppu_k29); lemma_ap_o(x, 29, b.governance_action_validity_period); lemma_ap_o(y, 29, b.governance_action_validity_period); lemma_shift(s, x, y, ser_ppu_k29(x, b), ser_ppu_k29(y, b), ap_o(Seq::empty(), 29, b.governance_action_validity_period)); }
#[verifier::opaque]
pub open spec fn ser_ppu_k30(s: Seq<Tok>, b: ProtocolParamUpdate) -> Seq<Tok> { ap_o(s, 30, b.governance_action_deposit) }
pub proof fn lemma_ser_ppu_k30(s: Seq<Tok>, x: Seq<Tok>, y: Seq<Tok>, b: ProtocolParamUpdate) requires x == s + y ensures ser_ppu_k30(x, b) == s + ser_ppu_k30(y, b)
{ reveal(ser_ppu_k30); lemma_ap_o(x, 30, b.governance_action_deposit); lemma_ap_o(y, 30, b.governance_action_deposit); lemma_shift(s, x, y, ser_ppu_k30(x, b), ser_ppu_k30(y, b), ap_o(Seq::empty(), 30, b.governance_action_deposit)); }
#[verifier::opaque]
pub open spec fn ser_ppu_k31(s: Seq<Tok>, b: ProtocolParamUpdate) -> Seq<Tok> { ap_o(s, 31, b.drep_deposit) }
pub proof fn lemma_ser_ppu_k31(s: Seq<Tok>, x: Seq<Tok>, y: Seq<Tok>, b: ProtocolParamUpdate) requires x == s + y ensures ser_ppu_k31(x, b) == s + ser_ppu_k31(y, b)
{ reveal(ser_ppu_k31); lemma_ap_o(x, 31, b.drep_deposit); lemma_ap_o(y, 31, b.drep_deposit); lemma_shift(s, x, y, ser_ppu_k31(x, b), ser_ppu_k31(y, b), ap_o(Seq::empty(), 31, b.drep_deposit)); }
#[verifier::opaque]
pub open spec fn ser_ppu_k32(s: Seq<Tok>, b: ProtocolParamUpdate) -> Seq<Tok> { ap_o(s, 32, b.drep_inactivity_period) }
pub proof fn lemma_ser_ppu_k32(s: Seq<Tok>, x: Seq<Tok>, y: Seq<Tok>, b: ProtocolParamUpdate) requires x == s + y ensures ser_ppu_k32(x, b) == s + ser_ppu_k32(y, b)
{ reveal(ser_ppu_k32); lemma_ap_o(x, 32, b.drep_inactivity_period); lemma_ap_o(y, 32, b.drep_inactivity_period); lemma_shift(s, x, y, ser_ppu_k32(x, b), ser_ppu_k32(y, b), ap_o(Seq::empty(), 32, b.drep_inactivity_period)); }
#[verifier::opaque]
pub open spec fn ser_ppu_k33(s: Seq<Tok>, b: ProtocolParamUpdate) -> Seq<Tok> { ap_o(s, 33, b.ref_script_coins_per_byte) }
pub proof fn lemma_ser_ppu_k33(s: Seq<Tok>, x: Seq<Tok>, y: Seq<Tok>, b: ProtocolParamUpdate) requires x == s + y ensures ser_ppu_k33(x, b) == s + ser_ppu_k33(y, b)
{ reveal(ser_ppu_k33); lemma_ap_o(x, 33, b.ref_script_coins_per_byte); lemma_ap_o(y, 33, b.ref_script_coins_per_byte); lemma_shift(s, x, y, ser_ppu_k33(x, b), ser_ppu_k33(y, b), ap_o(Seq::empty(), 33, b.ref_script_coins_per_byte)); }
/// apply form of the CDDL encoding: tokens so far `s` followed by Map(n) and the entries in key-table order
pub open spec fn ser_ppu_apply(s: Seq<Tok>, b: ProtocolParamUpdate) -> Seq<Tok> { ser_ppu_k33(ser_ppu_k32(ser_ppu_k31(ser_ppu_k30(ser_ppu_k29(ser_ppu_k28(ser_ppu_k27(ser_ppu_k26(ser_ppu_k25(ser_ppu_k24(ser_ppu_k23(ser_ppu_k22(ser_ppu_k21(ser_ppu_k20(ser_ppu_k19(ser_ppu_k18(ser_ppu_k17(ser_ppu_k16(ser_ppu_k14(ser_ppu_k13(ser_ppu_k12(ser_ppu_k11(ser_ppu_k10(ser_ppu_k9(ser_ppu_k8(ser_ppu_k7(ser_ppu_k6(ser_ppu_k5(ser_ppu_k4(ser_ppu_k3(ser_ppu_k2(ser_ppu_k1(ser_ppu_k0(s.push(Tok::Map(ser_ppu_count(b) as u64)), b), b), b), b), b), b), b), b), b), b), b), b), b), b), b), b), b), b), b), b), b), b), b), b), b), b), b), b), b), b), b), b), b) }
pub proof fn lemma_ser_ppu_apply(s: Seq<Tok>, b: ProtocolParamUpdate) ensures ser_ppu_apply(s, b) == s + ser_ppu_apply(Seq::empty(), b)
{
    let e = Seq::<Tok>::empty(); let m = Tok::Map(ser_ppu_count(b) as u64);
    let x0 = s.push(m); let y0 = e.push(m); assert(x0 =~= s + y0);
    lemma_ser_ppu_k0(s, x0, y0, b); let x1 = ser_ppu_k0(x0, b); let y1 = ser_ppu_k0(y0, b);
    lemma_ser_ppu_k1(s, x1, y1, b); let x2 = ser_ppu_k1(x1, b); let y2 = ser_ppu_k1(y1, b);
    lemma_ser_ppu_k2(s, x2, y2, b); let x3 = ser_ppu_k2(x2, b); let y3 = ser_ppu_k2(y2, b);
    lemma_ser_ppu_k3(s, x3, y3, b); let x4 = ser_ppu_k3(x3, b); let y4 = ser_ppu_k3(y3, b);
    lemma_ser_ppu_k4(s, x4, y4, b); let x5 = ser_ppu_k4(x4, b); let y5 = ser_ppu_k4(y4, b);
    lemma_ser_ppu_k5(s, x5, y5, b); let x6 = ser_ppu_k5(x5, b); let y6 = ser_ppu_k5(y5, b);
    lemma_ser_ppu_k6(s, x6, y6, b); let x7 = ser_ppu_k6(x6, b); let y7 = ser_ppu_k6(y6, b);
    lemma_ser_ppu_k7(s, x7, y7, b); let x8 = ser_ppu_k7(x7, b); let y8 = ser_ppu_k7(y7, b);
    lemma_ser_ppu_k8(s, x8, y8, b); let x9 = ser_ppu_k8(x8, b); let y9 = ser_ppu_k8(y8, b);
    lemma_ser_ppu_k9(s, x9, y9, b); let x10 = ser_ppu_k9(x9, b); let y10 = ser_ppu_k9(y9, b);
    lemma_ser_ppu_k10(s, x10, y10, b); let x11 = ser_ppu_k10(x10, b); let y11 = ser_ppu_k10(y10, b);
    lemma_ser_ppu_k11(s, x11, y11, b); let x12 = ser_ppu_k11(x11, b); let y12 = ser_ppu_k11(y11, b);
    lemma_ser_ppu_k12(s, x12, y12, b); let x13 = ser_ppu_k12(x12, b); let y13 = ser_ppu_k12(y12, b);
    lemma_ser_ppu_k13(s, x13, y13, b); let x14 = ser_ppu_k13(x13, b); let y14 = ser_ppu_k13(y13, b);
    lemma_ser_ppu_k14(s, x14, y14, b); let x15 = ser_ppu_k14(x14, b); let y15 = ser_ppu_k14(y14, b);
    lemma_ser_ppu_k16(s, x15, y15, b); let x16 = ser_ppu_k16(x15, b); let y16 = ser_ppu_k16(y15, b);
    lemma_ser_ppu_k17(s, x16, y16, b); let x17 = ser_ppu_k17(x16, b); let y17 = ser_ppu_k17(y16, b);
    lemma_ser_ppu_k18(s, x17, y17, b); let x18 = ser_ppu_k18(x17, b); let y18 = ser_ppu_k18(y17, b);
    lemma_ser_ppu_k19(s, x18, y18, b); let x19 = ser_ppu_k19(x18, b); let y19 = ser_ppu_k19(y18, b);
    lemma_ser_ppu_k20(s, x19, y19, b); let x20 = ser_ppu_k20(x19, b); let y20 = ser_ppu_k20(y19, b);
    lemma_ser_ppu_k21(s, x20, y20, b); let x21 = ser_ppu_k21(x20, b); let y21 = ser_ppu_k21(y20, b);
    lemma_ser_ppu_k22(s, x21, y21, b); let x22 = ser_ppu_k22(x21, b); let y22 = ser_ppu_k22(y21, b);
    lemma_ser_ppu_k23(s, x22, y22, b); let x23 = ser_ppu_k23(x22, b); let y23 = ser_ppu_k23(y22, b);
    lemma_ser_ppu_k24(s, x23, y23, b); let x24 = ser_ppu_k24(x23, b); let y24 = ser_ppu_k24(y23, b);
    lemma_ser_ppu_k25(s, x24, y24, b); let x25 = ser_ppu_k25(x24, b); let y25 = ser_ppu_k25(y24, b);
    lemma_ser_ppu_k26(s, x25, y25, b); let x26 = ser_ppu_k26(x25, b); let y26 = ser_ppu_k26(y25, b);
    lemma_ser_ppu_k27(s, x26, y26, b); let x27 = ser_ppu_k27(x26, b); let y27 = ser_ppu_k27(y26, b);
    lemma_ser_ppu_k28(s, x27, y27, b); let x28 = ser_ppu_k28(x27, b); let y28 = ser_ppu_k28(y27, b);
    lemma_ser_ppu_k29(s, x28, y28, b); let x29 = ser_ppu_k29(x28, b); let y29 = ser_ppu_k29(y28, b);
    lemma_ser_ppu_k30(s, x29, y29, b); let x30 = ser_ppu_k30(x29, b); let y30 = ser_ppu_k30(y29, b);
    lemma_ser_ppu_k31(s, x30, y30, b); let x31 = ser_ppu_k31(x30, b); let y31 = ser_ppu_k31(y30, b);
    lemma_ser_ppu_k32(s, x31, y31, b); let x32 = ser_ppu_k32(x31, b); let y32 = ser_ppu_k32(y31, b);
    lemma_ser_ppu_k33(s, x32, y32, b); let x33 = ser_ppu_k33(x32, b); let y33 = ser_ppu_k33(y32, b);
}
