ser_coll!(BigNum, Costmdls, DRepVotingThresholds, ExUnitPrices, ExUnits, Nonce, PoolVotingThresholds, ProtocolVersion, UnitInterval);
pub type Coin = BigNum;
pub type Epoch = u32;
