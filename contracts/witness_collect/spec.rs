impl Clone for PlutusWitnesses { #[verifier::external_body] fn clone(&self) -> (r: Self) ensures r == *self { unimplemented!() } }
/// PlutusWitnesses::collect: (scripts, datums, redeemers) of a witness sequence — a function of the sequence (its loop is not under contract)
pub uninterp spec fn collect_scripts(s: Seq<PlutusWitness>) -> PlutusScripts;
pub uninterp spec fn collect_datums(s: Seq<PlutusWitness>) -> Option<PlutusList>;
pub uninterp spec fn collect_redeemers(s: Seq<PlutusWitness>) -> Redeemers;
impl PlutusWitnesses {
    #[verifier::external_body] pub fn collect(&self) -> (r: (PlutusScripts, Option<PlutusList>, Redeemers))
        ensures r.0 == collect_scripts(self.0@), r.1 == collect_datums(self.0@), r.2 == collect_redeemers(self.0@) { unimplemented!() }
}
// ---- the seven sources of Plutus witnesses and language versions
impl TxInputsBuilder {
    pub uninterp spec fn pw(&self) -> Option<Seq<PlutusWitness>>;
    pub uninterp spec fn langs(&self) -> Set<Language>;
    #[verifier::external_body] pub fn get_plutus_input_scripts(&self) -> (r: Option<PlutusWitnesses>)
        ensures r is Some <==> self.pw() is Some, r is Some ==> r->Some_0.0@ == self.pw()->Some_0 { unimplemented!() }
    #[verifier::external_body] pub fn get_used_plutus_lang_versions(&self) -> (r: BTreeSet<Language>) ensures r@ == self.langs(), self.langs().finite() { unimplemented!() }
    #[verifier::external_body] pub fn get_native_input_scripts(&self) -> Option<NativeScripts> { unimplemented!() }
}
macro_rules! pw_source { ($($n:ident),*) => { verus!{ $(
    impl $n {
        pub uninterp spec fn pw(&self) -> Seq<PlutusWitness>;
        pub uninterp spec fn langs(&self) -> Set<Language>;
        #[verifier::external_body] pub fn get_plutus_witnesses(&self) -> (r: PlutusWitnesses) ensures r.0@ == self.pw() { unimplemented!() }
        #[verifier::external_body] pub fn get_used_plutus_lang_versions(&self) -> (r: BTreeSet<Language>) ensures r@ == self.langs(), self.langs().finite() { unimplemented!() }
    }
)* } } }
pw_source!(MintBuilder, CertificatesBuilder, WithdrawalsBuilder, VotingBuilder, VotingProposalBuilder);
pub open spec fn o_seq(o: Option<Seq<PlutusWitness>>) -> Seq<PlutusWitness> { match o { Some(s) => s, None => Seq::empty() } }
pub open spec fn src_k(b: TransactionBuilder, k: int) -> Seq<PlutusWitness> {
    if k == 0 { o_seq(b.inputs.pw()) } else if k == 1 { o_seq(b.collateral.pw()) }
    else if k == 2 { match b.mint { Some(x) => x.pw(), None => Seq::empty() } }
    else if k == 3 { match b.certs { Some(x) => x.pw(), None => Seq::empty() } }
    else if k == 4 { match b.withdrawals { Some(x) => x.pw(), None => Seq::empty() } }
    else if k == 5 { match b.voting_procedures { Some(x) => x.pw(), None => Seq::empty() } }
    else { match b.voting_proposals { Some(x) => x.pw(), None => Seq::empty() } }
}
/// the script uses of the first k parts, in visiting order
pub open spec fn pre(b: TransactionBuilder, k: int) -> Seq<PlutusWitness> decreases k { if k <= 0 { Seq::empty() } else { pre(b, k - 1) + src_k(b, k - 1) } }
/// every Plutus script use of the transaction, in the order the builder visits its parts: spends, collateral, mint, certificates,
/// withdrawals, votes, proposals.  BOTH the script-data hash and the emitted witness set must be derived from exactly this sequence.
pub open spec fn all_pw(b: TransactionBuilder) -> Seq<PlutusWitness> { pre(b, 7) }
pub proof fn lemma_pre_step(b: TransactionBuilder, k: int, cur: Seq<PlutusWitness>, r0: Seq<PlutusWitness>, src: Seq<PlutusWitness>, n: int)
    requires 0 <= k < 7, r0 == pre(b, k), src == src_k(b, k), n == src.len(), cur == r0 + src.take(n)
    ensures cur == pre(b, k + 1)
{ assert(src.take(n) =~= src); }
pub proof fn lemma_pre_full(b: TransactionBuilder, k: int)
    requires 0 <= k < 7
    ensures pre(b, k) + src_k(b, k).take(src_k(b, k).len() as int) == pre(b, k + 1)
{ assert(src_k(b, k).take(src_k(b, k).len() as int) =~= src_k(b, k)); }
pub proof fn lemma_pre_skip(b: TransactionBuilder, k: int, cur: Seq<PlutusWitness>)
    requires 0 <= k < 7, cur == pre(b, k), src_k(b, k).len() == 0
    ensures cur == pre(b, k + 1)
{ assert(cur + src_k(b, k) =~= cur); }
pub open spec fn all_langs(b: TransactionBuilder) -> Set<Language> {
    (if b.inputs.pw() is Some { b.inputs.langs() } else { Set::empty() }) + (if b.collateral.pw() is Some { b.collateral.langs() } else { Set::empty() })
      + (match b.mint { Some(x) => x.langs(), None => Set::empty() })
      + (match b.certs { Some(x) => x.langs(), None => Set::empty() })
      + (match b.withdrawals { Some(x) => x.langs(), None => Set::empty() })
      + (match b.voting_procedures { Some(x) => x.langs(), None => Set::empty() })
      + (match b.voting_proposals { Some(x) => x.langs(), None => Set::empty() })
}
/// datums of the transaction: those attached to script uses, then the extra witness datums, in order
pub open spec fn all_datums(b: TransactionBuilder, from_pw: Option<PlutusList>) -> Option<Seq<PlutusData>> {
    match b.extra_datums {
        Some(x) => Some((match from_pw { Some(d) => d.items(), None => Seq::empty() }) + x.items()),
        None => match from_pw { Some(d) => Some(d.items()), None => None },
    }
}
impl TransactionBuilder {
    pub uninterp spec fn native_view(&self) -> Option<NativeScripts>;
    #[verifier::external_body] pub fn get_combined_native_scripts(&self) -> (r: Option<NativeScripts>) ensures r == self.native_view() { unimplemented!() }
}
impl TransactionWitnessSet {
    #[verifier::external_body] pub fn new() -> (r: Self)
        ensures r.vkeys is None, r.native_scripts is None, r.bootstraps is None, r.plutus_scripts is None, r.plutus_data is None, r.redeemers is None { unimplemented!() }
}
// ---- placeholder witnesses of the mock transaction -------------------------------------------------------------------------------
opaque_types!(Ed25519Signature, PublicKey, Vkey, Vkeywitness, BootstrapWitness, ByronAddress);
clone_eq!(Vkeywitness);
/// number of distinct keys that must sign (count_needed_vkeys: unit signers)
pub uninterp spec fn needed_vkeys(b: TransactionBuilder) -> usize;
#[verifier::external_body] pub fn count_needed_vkeys(tx_builder: &TransactionBuilder) -> (r: usize) ensures r == needed_vkeys(*tx_builder) { unimplemented!() }
/// Byron addresses owning inputs, as raw bytes (get_bootstraps: the inputs builder's set)
#[verifier::external_body] pub fn get_bootstraps(inputs: &TxInputsBuilder) -> (r: BTreeSet<Vec<u8>>) ensures r@ == inputs.byron_owners(), r@.finite() { unimplemented!() }
#[verifier::external_body] pub fn fake_raw_key_sig() -> Ed25519Signature { unimplemented!() }
#[verifier::external_body] pub fn fake_raw_key_public(x: u64) -> PublicKey { unimplemented!() }
#[verifier::external_body] pub fn fake_bootstrap_witness(index: u64, addr: &ByronAddress) -> BootstrapWitness { unimplemented!() }
impl Vkey { #[verifier::external_body] pub fn new(pk: &PublicKey) -> Vkey { unimplemented!() } }
impl Vkeywitness { #[verifier::external_body] pub fn new(vkey: &Vkey, signature: &Ed25519Signature) -> Vkeywitness { unimplemented!() } }
impl ByronAddress { #[verifier::external_body] pub fn from_bytes(bytes: Vec<u8>) -> Result<ByronAddress, JsError> { unimplemented!() } }
impl Vkeywitnesses {
    /// number of add() calls (the fake keys are pairwise distinct: fakes.rs, not under contract)
    pub uninterp spec fn count(&self) -> nat;
    #[verifier::external_body] pub fn new() -> (r: Vkeywitnesses) ensures r.count() == 0 { unimplemented!() }
    #[verifier::external_body] pub fn add(&mut self, w: &Vkeywitness) -> (r: bool) ensures final(self).count() == old(self).count() + 1 { unimplemented!() }
}
impl BootstrapWitnesses {
    pub uninterp spec fn count(&self) -> nat;
    #[verifier::external_body] pub fn new() -> (r: BootstrapWitnesses) ensures r.count() == 0 { unimplemented!() }
    #[verifier::external_body] pub fn add(&mut self, w: &BootstrapWitness) -> (r: bool) ensures final(self).count() == old(self).count() + 1 { unimplemented!() }
}
impl PlutusList {
    #[verifier::external_body] pub fn extend(&mut self, other: &PlutusList) ensures final(self).items() == old(self).items() + other.items() { unimplemented!() }
}
pub trait NoneOrEmpty {
    spec fn empty(&self) -> bool;
    fn is_none_or_empty(&self) -> (r: bool) ensures r == self.empty();
}
pub trait EmptyToNone: Sized {
    fn empty_to_none(self) -> (r: Option<Self>) where Self: NoneOrEmpty ensures r == (if self.empty() { None::<Self> } else { Some(self) });
}
macro_rules! coll_empty { ($($n:ident),*) => { verus!{ $(
    impl NoneOrEmpty for $n {
        open spec fn empty(&self) -> bool { self.items().len() == 0 }
        #[verifier::external_body] fn is_none_or_empty(&self) -> (r: bool) { unimplemented!() }
    }
)* } } }
coll_empty!(NativeScripts, PlutusScripts, PlutusList);
impl TxInputsBuilder { pub uninterp spec fn byron_owners(&self) -> Set<Vec<u8>>; }
/// the Byron owners whose bootstrap witness the final transaction carries: those of the regular inputs AND of the collateral inputs (property C06)
pub open spec fn byron_all(b: TransactionBuilder) -> Set<Vec<u8>> { b.inputs.byron_owners() + b.collateral.byron_owners() }
