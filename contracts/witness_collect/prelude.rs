use std::collections::BTreeSet;
opaque_types!(PlutusWitness, CostModel, Vkeywitnesses, BootstrapWitnesses);
clone_eq!(PlutusWitness, CostModel);
/// Plutus language version: a token with the derived total order (needed by BTreeSet<Language>)
#[derive(PartialEq, Eq, PartialOrd, Ord)]
pub struct Language(pub u8);
impl Clone for Language { #[verifier::external_body] fn clone(&self) -> (r: Language) ensures r == *self { unimplemented!() } }

/// first occurrences of a sequence, in order (what the deduplicated_* functions keep)
pub uninterp spec fn dedup_items<T>(s: Seq<T>) -> Seq<T>;
// ---- collections placed in the witness set: element sequence views; de-duplication keeps first occurrences
macro_rules! seq_coll { ($n:ident, $e:ty) => { verus!{
    #[verifier::external_body] pub struct $n { _p: core::marker::PhantomData<u8> }
    impl Clone for $n { #[verifier::external_body] fn clone(&self) -> (r: Self) ensures r == *self { unimplemented!() } }
    impl $n {
        pub uninterp spec fn items(&self) -> Seq<$e>;
        pub uninterp spec fn dedup(&self) -> $n;        // deduplicated_clone(): same elements, first occurrences, no duplicates (C16; encoders not here)
        #[verifier::external_body] pub fn len(&self) -> (r: usize) ensures r == self.items().len() { unimplemented!() }
        #[verifier::external_body] pub fn deduplicated_clone(&self) -> (r: $n) ensures r == self.dedup(), r.items() == dedup_items(self.items()) { unimplemented!() }
    }
} } }
opaque_types!(NativeScript, PlutusScript, Redeemer);
seq_coll!(NativeScripts, NativeScript);
seq_coll!(PlutusScripts, PlutusScript);
seq_coll!(PlutusList, PlutusData);
#[verifier::external_body] pub struct Redeemers { _p: core::marker::PhantomData<u8> }
impl Clone for Redeemers { #[verifier::external_body] fn clone(&self) -> (r: Self) ensures r == *self { unimplemented!() } }
impl Redeemers {
    pub uninterp spec fn items(&self) -> Seq<Redeemer>;
    #[verifier::external_body] pub fn len(&self) -> (r: usize) ensures r == self.items().len() { unimplemented!() }
}
impl PlutusList {
    pub uninterp spec fn of(s: Seq<PlutusData>) -> PlutusList;    // the list holding exactly s (default encoding)
    #[verifier::external_body] pub fn new() -> (r: PlutusList) ensures r.items() == Seq::<PlutusData>::empty() { unimplemented!() }
    #[verifier::external_body] pub fn add(&mut self, elem: &PlutusData) ensures final(self).items() == old(self).items().push(*elem) { unimplemented!() }
    #[verifier::external_body] pub fn iter(&self) -> (r: core::slice::Iter<'_, PlutusData>)
        ensures r.remaining() == refs(self.items()), r.obeys_prophetic_iter_laws(), r.decrease() is Some { unimplemented!() }
}
#[verifier::external_body] pub struct Costmdls { _p: core::marker::PhantomData<u8> }
impl Costmdls {
    pub uninterp spec fn m(&self) -> Map<Language, CostModel>;
    #[verifier::external_body] pub fn new() -> (r: Costmdls) ensures r.m() == Map::<Language, CostModel>::empty() { unimplemented!() }
    #[verifier::external_body] pub fn len(&self) -> (r: usize) ensures r == self.m().dom().len(), self.m().dom().finite() { unimplemented!() }
    #[verifier::external_body] pub fn get(&self, key: &Language) -> (r: Option<CostModel>)
        ensures self.m().dom().contains(*key) ==> r == Some(self.m()[*key]), !self.m().dom().contains(*key) ==> r is None { unimplemented!() }
    #[verifier::external_body] pub fn insert(&mut self, key: &Language, value: &CostModel) -> (r: Option<CostModel>)
        ensures final(self).m() == old(self).m().insert(*key, *value) { unimplemented!() }
}
/// hash_script_data, by its contract from unit script_hash (the preimage layout is proved there)
pub uninterp spec fn script_data_hash_of(r: Redeemers, c: Costmdls, d: Option<PlutusList>) -> ScriptDataHash;
#[verifier::external_body] pub fn hash_script_data(redeemers: &Redeemers, cost_models: &Costmdls, datums: Option<PlutusList>) -> (r: ScriptDataHash)
    ensures r == script_data_hash_of(*redeemers, *cost_models, datums) { unimplemented!() }
pub mod fees { pub use super::LinearFee; }
pub enum CoinSelectionStrategyCIP2 { LargestFirst, RandomImprove, LargestFirstMultiAsset, RandomImproveMultiAsset }

/// BTreeSet::append as documented by std: moves all elements of `b` into `a` (R-setappend)
#[verifier::external_body] pub fn set_append<T: Ord>(a: &mut BTreeSet<T>, b: BTreeSet<T>) ensures final(a)@ == old(a)@ + b@ { unimplemented!() }
