impl FixedTransaction {
    /// the constructor stores what it is given (its own contract, incl. the hash over exactly these body bytes, is proved in unit fixed_tx)
    #[verifier::external_body] pub fn new_with_original_bytes(tx_body: TransactionBody, raw_body: Vec<u8>, tx_witnesses_set: FixedTxWitnessesSet, is_valid: bool,
        auxiliary_data: Option<AuxiliaryData>, raw_auxiliary_data: Option<Vec<u8>>) -> (r: Result<FixedTransaction, JsError>)
        ensures r is Ok ==> r->Ok_0.body == tx_body && r->Ok_0.body_bytes == raw_body && r->Ok_0.witness_set == tx_witnesses_set && r->Ok_0.is_valid == is_valid
                    && r->Ok_0.auxiliary_data == auxiliary_data && r->Ok_0.auxiliary_bytes == raw_auxiliary_data { unimplemented!() }
}
