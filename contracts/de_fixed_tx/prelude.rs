deb_opaque!(TransactionBody, AuxiliaryData, FixedTxWitnessesSet);
opaque_types!(TransactionHash);
impl AuxiliaryData { #[verifier::external_body] pub fn to_bytes(&self) -> (r: Vec<u8>) { unimplemented!() } }
impl TransactionBody { #[verifier::external_body] pub fn to_bytes(&self) -> (r: Vec<u8>) { unimplemented!() } }
