/// `bytes[..N].try_into().unwrap()`: the first N bytes as an array (R-arrayfrom).  The precondition is exactly what keeps the slice range
/// and the conversion from panicking (std semantics of slicing and of TryFrom<&[u8]> for [u8; N]: ASSUMED)
#[verifier::external_body] pub fn array_from_prefix<const N: usize>(bytes: &Vec<u8>) -> (r: [u8; N])
    requires bytes@.len() >= N
    ensures r@ == bytes@.take(N as int)
{ unimplemented!() }
