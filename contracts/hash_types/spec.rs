pub uninterp spec fn Ed25519KeyHash_arr(b: Seq<u8>) -> [u8; 28];
/// the array holding exactly these bytes (arrays of equal view are equal: ASSUMED extensionality of [u8; N])
#[verifier::external_body] pub proof fn lemma_Ed25519KeyHash_arr(a: [u8; 28]) ensures Ed25519KeyHash_arr(a@) == a { }
pub open spec fn Ed25519KeyHash_of(b: Seq<u8>) -> Ed25519KeyHash { Ed25519KeyHash(Ed25519KeyHash_arr(b)) }
pub open spec fn Ed25519KeyHash_dec(rem: Seq<Tok>) -> Option<(Ed25519KeyHash, int)> { if rem.len() > 0 && rem[0] is Bytes && rem[0]->Bytes_0.len() == 28 { Some((Ed25519KeyHash_of(rem[0]->Bytes_0), 1int)) } else { None } }
impl RoundTrip for Ed25519KeyHash {
    proof fn lemma_rt(x: Self, rest: Seq<Tok>) { lemma_Ed25519KeyHash_arr(x.0); assert((x.enc() + rest)[0] == Tok::Bytes(x.0@)); assert(x.0@.len() == 28); }
}
pub uninterp spec fn ScriptHash_arr(b: Seq<u8>) -> [u8; 28];
/// the array holding exactly these bytes (arrays of equal view are equal: ASSUMED extensionality of [u8; N])
#[verifier::external_body] pub proof fn lemma_ScriptHash_arr(a: [u8; 28]) ensures ScriptHash_arr(a@) == a { }
pub open spec fn ScriptHash_of(b: Seq<u8>) -> ScriptHash { ScriptHash(ScriptHash_arr(b)) }
pub open spec fn ScriptHash_dec(rem: Seq<Tok>) -> Option<(ScriptHash, int)> { if rem.len() > 0 && rem[0] is Bytes && rem[0]->Bytes_0.len() == 28 { Some((ScriptHash_of(rem[0]->Bytes_0), 1int)) } else { None } }
impl RoundTrip for ScriptHash {
    proof fn lemma_rt(x: Self, rest: Seq<Tok>) { lemma_ScriptHash_arr(x.0); assert((x.enc() + rest)[0] == Tok::Bytes(x.0@)); assert(x.0@.len() == 28); }
}
pub uninterp spec fn AnchorDataHash_arr(b: Seq<u8>) -> [u8; 32];
/// the array holding exactly these bytes (arrays of equal view are equal: ASSUMED extensionality of [u8; N])
#[verifier::external_body] pub proof fn lemma_AnchorDataHash_arr(a: [u8; 32]) ensures AnchorDataHash_arr(a@) == a { }
pub open spec fn AnchorDataHash_of(b: Seq<u8>) -> AnchorDataHash { AnchorDataHash(AnchorDataHash_arr(b)) }
pub open spec fn AnchorDataHash_dec(rem: Seq<Tok>) -> Option<(AnchorDataHash, int)> { if rem.len() > 0 && rem[0] is Bytes && rem[0]->Bytes_0.len() == 32 { Some((AnchorDataHash_of(rem[0]->Bytes_0), 1int)) } else { None } }
impl RoundTrip for AnchorDataHash {
    proof fn lemma_rt(x: Self, rest: Seq<Tok>) { lemma_AnchorDataHash_arr(x.0); assert((x.enc() + rest)[0] == Tok::Bytes(x.0@)); assert(x.0@.len() == 32); }
}
pub uninterp spec fn TransactionHash_arr(b: Seq<u8>) -> [u8; 32];
/// the array holding exactly these bytes (arrays of equal view are equal: ASSUMED extensionality of [u8; N])
#[verifier::external_body] pub proof fn lemma_TransactionHash_arr(a: [u8; 32]) ensures TransactionHash_arr(a@) == a { }
pub open spec fn TransactionHash_of(b: Seq<u8>) -> TransactionHash { TransactionHash(TransactionHash_arr(b)) }
pub open spec fn TransactionHash_dec(rem: Seq<Tok>) -> Option<(TransactionHash, int)> { if rem.len() > 0 && rem[0] is Bytes && rem[0]->Bytes_0.len() == 32 { Some((TransactionHash_of(rem[0]->Bytes_0), 1int)) } else { None } }
impl RoundTrip for TransactionHash {
    proof fn lemma_rt(x: Self, rest: Seq<Tok>) { lemma_TransactionHash_arr(x.0); assert((x.enc() + rest)[0] == Tok::Bytes(x.0@)); assert(x.0@.len() == 32); }
}
pub uninterp spec fn GenesisDelegateHash_arr(b: Seq<u8>) -> [u8; 28];
/// the array holding exactly these bytes (arrays of equal view are equal: ASSUMED extensionality of [u8; N])
#[verifier::external_body] pub proof fn lemma_GenesisDelegateHash_arr(a: [u8; 28]) ensures GenesisDelegateHash_arr(a@) == a { }
pub open spec fn GenesisDelegateHash_of(b: Seq<u8>) -> GenesisDelegateHash { GenesisDelegateHash(GenesisDelegateHash_arr(b)) }
pub open spec fn GenesisDelegateHash_dec(rem: Seq<Tok>) -> Option<(GenesisDelegateHash, int)> { if rem.len() > 0 && rem[0] is Bytes && rem[0]->Bytes_0.len() == 28 { Some((GenesisDelegateHash_of(rem[0]->Bytes_0), 1int)) } else { None } }
impl RoundTrip for GenesisDelegateHash {
    proof fn lemma_rt(x: Self, rest: Seq<Tok>) { lemma_GenesisDelegateHash_arr(x.0); assert((x.enc() + rest)[0] == Tok::Bytes(x.0@)); assert(x.0@.len() == 28); }
}
pub uninterp spec fn GenesisHash_arr(b: Seq<u8>) -> [u8; 28];
/// the array holding exactly these bytes (arrays of equal view are equal: ASSUMED extensionality of [u8; N])
#[verifier::external_body] pub proof fn lemma_GenesisHash_arr(a: [u8; 28]) ensures GenesisHash_arr(a@) == a { }
pub open spec fn GenesisHash_of(b: Seq<u8>) -> GenesisHash { GenesisHash(GenesisHash_arr(b)) }
pub open spec fn GenesisHash_dec(rem: Seq<Tok>) -> Option<(GenesisHash, int)> { if rem.len() > 0 && rem[0] is Bytes && rem[0]->Bytes_0.len() == 28 { Some((GenesisHash_of(rem[0]->Bytes_0), 1int)) } else { None } }
impl RoundTrip for GenesisHash {
    proof fn lemma_rt(x: Self, rest: Seq<Tok>) { lemma_GenesisHash_arr(x.0); assert((x.enc() + rest)[0] == Tok::Bytes(x.0@)); assert(x.0@.len() == 28); }
}
pub uninterp spec fn AuxiliaryDataHash_arr(b: Seq<u8>) -> [u8; 32];
/// the array holding exactly these bytes (arrays of equal view are equal: ASSUMED extensionality of [u8; N])
#[verifier::external_body] pub proof fn lemma_AuxiliaryDataHash_arr(a: [u8; 32]) ensures AuxiliaryDataHash_arr(a@) == a { }
pub open spec fn AuxiliaryDataHash_of(b: Seq<u8>) -> AuxiliaryDataHash { AuxiliaryDataHash(AuxiliaryDataHash_arr(b)) }
pub open spec fn AuxiliaryDataHash_dec(rem: Seq<Tok>) -> Option<(AuxiliaryDataHash, int)> { if rem.len() > 0 && rem[0] is Bytes && rem[0]->Bytes_0.len() == 32 { Some((AuxiliaryDataHash_of(rem[0]->Bytes_0), 1int)) } else { None } }
impl RoundTrip for AuxiliaryDataHash {
    proof fn lemma_rt(x: Self, rest: Seq<Tok>) { lemma_AuxiliaryDataHash_arr(x.0); assert((x.enc() + rest)[0] == Tok::Bytes(x.0@)); assert(x.0@.len() == 32); }
}
pub uninterp spec fn PoolMetadataHash_arr(b: Seq<u8>) -> [u8; 32];
/// the array holding exactly these bytes (arrays of equal view are equal: ASSUMED extensionality of [u8; N])
#[verifier::external_body] pub proof fn lemma_PoolMetadataHash_arr(a: [u8; 32]) ensures PoolMetadataHash_arr(a@) == a { }
pub open spec fn PoolMetadataHash_of(b: Seq<u8>) -> PoolMetadataHash { PoolMetadataHash(PoolMetadataHash_arr(b)) }
pub open spec fn PoolMetadataHash_dec(rem: Seq<Tok>) -> Option<(PoolMetadataHash, int)> { if rem.len() > 0 && rem[0] is Bytes && rem[0]->Bytes_0.len() == 32 { Some((PoolMetadataHash_of(rem[0]->Bytes_0), 1int)) } else { None } }
impl RoundTrip for PoolMetadataHash {
    proof fn lemma_rt(x: Self, rest: Seq<Tok>) { lemma_PoolMetadataHash_arr(x.0); assert((x.enc() + rest)[0] == Tok::Bytes(x.0@)); assert(x.0@.len() == 32); }
}
pub uninterp spec fn VRFKeyHash_arr(b: Seq<u8>) -> [u8; 32];
/// the array holding exactly these bytes (arrays of equal view are equal: ASSUMED extensionality of [u8; N])
#[verifier::external_body] pub proof fn lemma_VRFKeyHash_arr(a: [u8; 32]) ensures VRFKeyHash_arr(a@) == a { }
pub open spec fn VRFKeyHash_of(b: Seq<u8>) -> VRFKeyHash { VRFKeyHash(VRFKeyHash_arr(b)) }
pub open spec fn VRFKeyHash_dec(rem: Seq<Tok>) -> Option<(VRFKeyHash, int)> { if rem.len() > 0 && rem[0] is Bytes && rem[0]->Bytes_0.len() == 32 { Some((VRFKeyHash_of(rem[0]->Bytes_0), 1int)) } else { None } }
impl RoundTrip for VRFKeyHash {
    proof fn lemma_rt(x: Self, rest: Seq<Tok>) { lemma_VRFKeyHash_arr(x.0); assert((x.enc() + rest)[0] == Tok::Bytes(x.0@)); assert(x.0@.len() == 32); }
}
pub uninterp spec fn BlockHash_arr(b: Seq<u8>) -> [u8; 32];
/// the array holding exactly these bytes (arrays of equal view are equal: ASSUMED extensionality of [u8; N])
#[verifier::external_body] pub proof fn lemma_BlockHash_arr(a: [u8; 32]) ensures BlockHash_arr(a@) == a { }
pub open spec fn BlockHash_of(b: Seq<u8>) -> BlockHash { BlockHash(BlockHash_arr(b)) }
pub open spec fn BlockHash_dec(rem: Seq<Tok>) -> Option<(BlockHash, int)> { if rem.len() > 0 && rem[0] is Bytes && rem[0]->Bytes_0.len() == 32 { Some((BlockHash_of(rem[0]->Bytes_0), 1int)) } else { None } }
impl RoundTrip for BlockHash {
    proof fn lemma_rt(x: Self, rest: Seq<Tok>) { lemma_BlockHash_arr(x.0); assert((x.enc() + rest)[0] == Tok::Bytes(x.0@)); assert(x.0@.len() == 32); }
}
pub uninterp spec fn DataHash_arr(b: Seq<u8>) -> [u8; 32];
/// the array holding exactly these bytes (arrays of equal view are equal: ASSUMED extensionality of [u8; N])
#[verifier::external_body] pub proof fn lemma_DataHash_arr(a: [u8; 32]) ensures DataHash_arr(a@) == a { }
pub open spec fn DataHash_of(b: Seq<u8>) -> DataHash { DataHash(DataHash_arr(b)) }
pub open spec fn DataHash_dec(rem: Seq<Tok>) -> Option<(DataHash, int)> { if rem.len() > 0 && rem[0] is Bytes && rem[0]->Bytes_0.len() == 32 { Some((DataHash_of(rem[0]->Bytes_0), 1int)) } else { None } }
impl RoundTrip for DataHash {
    proof fn lemma_rt(x: Self, rest: Seq<Tok>) { lemma_DataHash_arr(x.0); assert((x.enc() + rest)[0] == Tok::Bytes(x.0@)); assert(x.0@.len() == 32); }
}
pub uninterp spec fn ScriptDataHash_arr(b: Seq<u8>) -> [u8; 32];
/// the array holding exactly these bytes (arrays of equal view are equal: ASSUMED extensionality of [u8; N])
#[verifier::external_body] pub proof fn lemma_ScriptDataHash_arr(a: [u8; 32]) ensures ScriptDataHash_arr(a@) == a { }
pub open spec fn ScriptDataHash_of(b: Seq<u8>) -> ScriptDataHash { ScriptDataHash(ScriptDataHash_arr(b)) }
pub open spec fn ScriptDataHash_dec(rem: Seq<Tok>) -> Option<(ScriptDataHash, int)> { if rem.len() > 0 && rem[0] is Bytes && rem[0]->Bytes_0.len() == 32 { Some((ScriptDataHash_of(rem[0]->Bytes_0), 1int)) } else { None } }
impl RoundTrip for ScriptDataHash {
    proof fn lemma_rt(x: Self, rest: Seq<Tok>) { lemma_ScriptDataHash_arr(x.0); assert((x.enc() + rest)[0] == Tok::Bytes(x.0@)); assert(x.0@.len() == 32); }
}
pub uninterp spec fn VRFVKey_arr(b: Seq<u8>) -> [u8; 32];
/// the array holding exactly these bytes (arrays of equal view are equal: ASSUMED extensionality of [u8; N])
#[verifier::external_body] pub proof fn lemma_VRFVKey_arr(a: [u8; 32]) ensures VRFVKey_arr(a@) == a { }
pub open spec fn VRFVKey_of(b: Seq<u8>) -> VRFVKey { VRFVKey(VRFVKey_arr(b)) }
pub open spec fn VRFVKey_dec(rem: Seq<Tok>) -> Option<(VRFVKey, int)> { if rem.len() > 0 && rem[0] is Bytes && rem[0]->Bytes_0.len() == 32 { Some((VRFVKey_of(rem[0]->Bytes_0), 1int)) } else { None } }
impl RoundTrip for VRFVKey {
    proof fn lemma_rt(x: Self, rest: Seq<Tok>) { lemma_VRFVKey_arr(x.0); assert((x.enc() + rest)[0] == Tok::Bytes(x.0@)); assert(x.0@.len() == 32); }
}
pub uninterp spec fn KESVKey_arr(b: Seq<u8>) -> [u8; 32];
/// the array holding exactly these bytes (arrays of equal view are equal: ASSUMED extensionality of [u8; N])
#[verifier::external_body] pub proof fn lemma_KESVKey_arr(a: [u8; 32]) ensures KESVKey_arr(a@) == a { }
pub open spec fn KESVKey_of(b: Seq<u8>) -> KESVKey { KESVKey(KESVKey_arr(b)) }
pub open spec fn KESVKey_dec(rem: Seq<Tok>) -> Option<(KESVKey, int)> { if rem.len() > 0 && rem[0] is Bytes && rem[0]->Bytes_0.len() == 32 { Some((KESVKey_of(rem[0]->Bytes_0), 1int)) } else { None } }
impl RoundTrip for KESVKey {
    proof fn lemma_rt(x: Self, rest: Seq<Tok>) { lemma_KESVKey_arr(x.0); assert((x.enc() + rest)[0] == Tok::Bytes(x.0@)); assert(x.0@.len() == 32); }
}
