// ---- hand-written specs (conway.cddl) ----
// voting_procedure = [ vote, anchor / null ]; vote = 0 .. 2  (no / yes / abstain)
pub open spec fn VotingProcedure_enc(x: VotingProcedure) -> Seq<Tok> {
    seq![Tok::Arr(2), Tok::UInt(match x.vote { VoteKind::No => 0, VoteKind::Yes => 1, VoteKind::Abstain => 2 })] + opt_null(x.anchor)
}
// credential = [0, addr_keyhash // 1, script_hash]
pub open spec fn Credential_enc(x: Credential) -> Seq<Tok> {
    match x.0 { CredType::Key(h) => seq![Tok::Arr(2), Tok::UInt(0), Tok::Bytes(h.bytes_of())], CredType::Script(h) => seq![Tok::Arr(2), Tok::UInt(1), Tok::Bytes(h.bytes_of())] }
}
// drep = [0, addr_keyhash // 1, script_hash // 2 // 3]
pub open spec fn DRepEnum_enc(x: DRepEnum) -> Seq<Tok> {
    match x {
        DRepEnum::KeyHash(h) => seq![Tok::Arr(2), Tok::UInt(0), Tok::Bytes(h.bytes_of())],
        DRepEnum::ScriptHash(h) => seq![Tok::Arr(2), Tok::UInt(1), Tok::Bytes(h.bytes_of())],
        DRepEnum::AlwaysAbstain => seq![Tok::Arr(1), Tok::UInt(2)],
        DRepEnum::AlwaysNoConfidence => seq![Tok::Arr(1), Tok::UInt(3)],
    }
}
// voter = [0, addr_keyhash // 1, script_hash // 2, addr_keyhash // 3, script_hash // 4, addr_keyhash]  (cc hot key/script, drep key/script, pool)
pub open spec fn VoterEnum_enc(x: VoterEnum) -> Seq<Tok> {
    match x {
        VoterEnum::ConstitutionalCommitteeHotCred(c) => match c.0 { CredType::Key(h) => seq![Tok::Arr(2), Tok::UInt(0)] + h.enc(), CredType::Script(h) => seq![Tok::Arr(2), Tok::UInt(1)] + h.enc() },
        VoterEnum::DRep(c) => match c.0 { CredType::Key(h) => seq![Tok::Arr(2), Tok::UInt(2)] + h.enc(), CredType::Script(h) => seq![Tok::Arr(2), Tok::UInt(3)] + h.enc() },
        VoterEnum::StakingPool(h) => seq![Tok::Arr(2), Tok::UInt(4)] + h.enc(),
    }
}
// redeemer_tag = 0 spend / 1 mint / 2 cert / 3 reward / 4 voting / 5 proposing
pub open spec fn RedeemerTagKind_enc(x: RedeemerTagKind) -> Seq<Tok> {
    seq![Tok::UInt(match x { RedeemerTagKind::Spend => 0, RedeemerTagKind::Mint => 1, RedeemerTagKind::Cert => 2, RedeemerTagKind::Reward => 3, RedeemerTagKind::Vote => 4, RedeemerTagKind::VotingProposal => 5 })]
}
