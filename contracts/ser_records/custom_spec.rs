// ---- hand-written specs (conway.cddl), continued: the enum-shaped ones are in enum_spec.rs (shared with unit de_enums) ----
// stake_registration = (0, stake_credential) ; reg_cert = (7, stake_credential, coin)
pub open spec fn StakeRegistration_enc(x: StakeRegistration) -> Seq<Tok> {
    match x.coin { Some(c) => seq![Tok::Arr(3), Tok::UInt(7)] + x.stake_credential.enc() + c.enc(), None => seq![Tok::Arr(2), Tok::UInt(0)] + x.stake_credential.enc() }
}
// network_id = 0 / 1
pub open spec fn NetworkId_enc(x: NetworkId) -> Seq<Tok> { seq![Tok::UInt(match x.0 { NetworkIdKind::Testnet => 0, NetworkIdKind::Mainnet => 1 })] }
// redeemer (array form) = [ tag, index, data, ex_units ]
pub open spec fn Redeemer_enc(x: Redeemer) -> Seq<Tok> { seq![Tok::Arr(4)] + x.tag.enc() + x.index.enc() + x.data.enc() + x.ex_units.enc() }
// nonce = [ 0 // 1, bytes .size 32 ]
pub open spec fn Nonce_enc(x: Nonce) -> Seq<Tok> { match x.hash { Some(h) => seq![Tok::Arr(2), Tok::UInt(1), Tok::Bytes(h@)], None => seq![Tok::Arr(1), Tok::UInt(0)] } }
// stake_deregistration = (1, stake_credential) ; unreg_cert = (8, stake_credential, coin)
pub open spec fn StakeDeregistration_enc(x: StakeDeregistration) -> Seq<Tok> {
    match x.coin { Some(c) => seq![Tok::Arr(3), Tok::UInt(8)] + x.stake_credential.enc() + c.enc(), None => seq![Tok::Arr(2), Tok::UInt(1)] + x.stake_credential.enc() }
}
// pool_registration = (3, pool_params)   with pool_params the nine fields inline: an array of 10
pub open spec fn PoolRegistration_enc(x: PoolRegistration) -> Seq<Tok> { seq![Tok::Arr(10), Tok::UInt(3)] + PoolParams_enc(x.pool_params).skip(1) }
// voting_procedures = { + voter => { + gov_action_id => voting_procedure } }: a voter without votes is not written, and the outer
// length is the number of voters that ARE written
pub open spec fn vp_cnt(s: Seq<(Voter, Vec<(GovernanceActionId, VotingProcedure)>)>) -> nat decreases s.len() {
    if s.len() == 0 { 0 } else { vp_cnt(s.drop_last()) + (if s.last().1@.len() > 0 { 1nat } else { 0nat }) }
}
pub open spec fn vp_body(s: Seq<(Voter, Vec<(GovernanceActionId, VotingProcedure)>)>) -> Seq<Tok> decreases s.len() {
    if s.len() == 0 { Seq::empty() } else {
        vp_body(s.drop_last()) + (if s.last().1@.len() > 0 { s.last().0.enc() + seq![Tok::Map(s.last().1@.len() as u64)] + flat2(s.last().1@) } else { Seq::empty() })
    }
}
pub proof fn lemma_vp_step(s: Seq<(Voter, Vec<(GovernanceActionId, VotingProcedure)>)>, i: int)
    requires 0 <= i < s.len()
    ensures vp_cnt(s.take(i + 1)) == vp_cnt(s.take(i)) + (if s[i].1@.len() > 0 { 1nat } else { 0nat }), vp_cnt(s.take(i)) <= i,
            vp_body(s.take(i + 1)) == vp_body(s.take(i)) + (if s[i].1@.len() > 0 { s[i].0.enc() + seq![Tok::Map(s[i].1@.len() as u64)] + flat2(s[i].1@) } else { Seq::empty() })
    decreases i
{ assert(s.take(i + 1).drop_last() =~= s.take(i)); if i > 0 { lemma_vp_step(s, i - 1); } }
pub open spec fn VotingProcedures_enc(x: VotingProcedures) -> Seq<Tok> { seq![Tok::Map(vp_cnt(x.0@) as u64)] + vp_body(x.0@) }
// move_instantaneous_reward = [ 0 / 1, { stake_credential => delta_coin } / coin ]
pub open spec fn MoveInstantaneousReward_enc(x: MoveInstantaneousReward) -> Seq<Tok> {
    seq![Tok::Arr(2), Tok::UInt(match x.pot { MIRPot::Reserves => 0, MIRPot::Treasury => 1 })]
        + (match x.variant { MIREnum::ToOtherPot(c) => c.enc(), MIREnum::ToStakeCredentials(m) => m.enc() })
}
// committee (inline in update_committee): { committee_cold_credential => epoch }, unit_interval
pub open spec fn Committee_group(x: Committee) -> Seq<Tok> { seq![Tok::Map(x.members@.len() as u64)] + flat2(x.members@) + x.quorum_threshold.enc() }
// update_committee = (4, gov_action_id / null, set<committee_cold_credential>, { committee_cold_credential => epoch }, unit_interval)
pub open spec fn UpdateCommitteeAction_enc(x: UpdateCommitteeAction) -> Seq<Tok> {
    seq![Tok::Arr(5), Tok::UInt(4)] + opt_null(x.gov_action_id) + x.members_to_remove.enc() + Committee_group(x.committee)
}
pub open spec fn aux_entry<T: Ser>(k: u64, o: Option<T>) -> Seq<Tok> { match o { Some(x) => seq![Tok::UInt(k)] + x.enc(), None => Seq::empty() } }
pub open spec fn aux_plutus(o: Option<PlutusScripts>) -> Seq<Tok> {
    match o {
        Some(p) => seq![Tok::UInt(2)] + p.enc_ver(lang_v1())
            + (if p.has(lang_v2()) { seq![Tok::UInt(3)] + p.enc_ver(lang_v2()) } else { Seq::empty() })
            + (if p.has(lang_v3()) { seq![Tok::UInt(4)] + p.enc_ver(lang_v3()) } else { Seq::empty() }),
        None => Seq::empty(),
    }
}
pub open spec fn aux_count(x: AuxiliaryData) -> int {
    (if x.metadata is Some { 1int } else { 0 }) + (if x.native_scripts is Some { 1int } else { 0 })
    + (match x.plutus_scripts { Some(p) => 1 + (if p.has(lang_v2()) { 1int } else { 0 }) + (if p.has(lang_v3()) { 1int } else { 0 }), None => 0 })
}
/// the compact Shelley / Shelley-MA forms are kept when there is metadata, no Plutus script and the Alonzo form is not asked for
pub open spec fn AuxiliaryData_enc(x: AuxiliaryData) -> Seq<Tok> {
    if !x.prefer_alonzo_format && x.metadata is Some && x.plutus_scripts is None {
        match x.native_scripts { Some(ns) => seq![Tok::Arr(2)] + x.metadata->Some_0.enc() + ns.enc(), None => x.metadata->Some_0.enc() }
    } else {
        seq![Tok::Tag(259), Tok::Map(aux_count(x) as u64)] + aux_entry(0, x.metadata) + aux_entry(1, x.native_scripts) + aux_plutus(x.plutus_scripts)
    }
}
// redeemers = [ + [ tag, index, data, ex_units ] ] / { + [ tag, index ] => [ data, ex_units ] }   (conway.cddl); the map form is the default
pub open spec fn Redeemer_key(x: Redeemer) -> Seq<Tok> { seq![Tok::Arr(2)] + x.tag.enc() + x.index.enc() }
pub open spec fn Redeemer_val(x: Redeemer) -> Seq<Tok> { seq![Tok::Arr(2)] + x.data.enc() + x.ex_units.enc() }
pub open spec fn red_items(s: Seq<Redeemer>, as_map: bool) -> Seq<Tok> decreases s.len() {
    if s.len() == 0 { Seq::empty() } else { red_items(s.drop_last(), as_map) + (if as_map { Redeemer_key(s.last()) + Redeemer_val(s.last()) } else { Redeemer_enc(s.last()) }) }
}
pub proof fn lemma_red_step(s: Seq<Redeemer>, i: int, as_map: bool) requires 0 <= i < s.len()
    ensures red_items(s.take(i + 1), as_map) == red_items(s.take(i), as_map) + (if as_map { Redeemer_key(s[i]) + Redeemer_val(s[i]) } else { Redeemer_enc(s[i]) })
{ assert(s.take(i + 1).drop_last() =~= s.take(i)); }
pub open spec fn Redeemers_as_map(x: Redeemers) -> bool { match x.serialization_format { Some(f) => f is Map, None => true } }
pub open spec fn Redeemers_enc(x: Redeemers) -> Seq<Tok> {
    if Redeemers_as_map(x) { seq![Tok::Map(x.redeemers@.len() as u64)] + red_items(x.redeemers@, true) } else { seq![Tok::Arr(x.redeemers@.len() as u64)] + red_items(x.redeemers@, false) }
}
// vkeywitness / bootstrap_witness sets of the witness set: nonempty_set<a> = #6.258([+ a]) / [+ a]; the tag is written unless the
// collection was decoded without one and is told to keep its original form
pub open spec fn wit_tagged(force: bool, t: CborSetType) -> bool { if force { t is Tagged } else { true } }
pub open spec fn Vkeywitnesses_enc(x: Vkeywitnesses) -> Seq<Tok> {
    (if wit_tagged(x.force_original_cbor_set_type, x.cbor_set_type) { seq![Tok::Tag(258)] } else { Seq::empty() }) + seq![Tok::Arr(x.witnesses@.len() as u64)] + flat(x.witnesses@)
}
pub open spec fn BootstrapWitnesses_enc(x: BootstrapWitnesses) -> Seq<Tok> {
    (if wit_tagged(x.force_original_cbor_set_type, x.cbor_set_type) { seq![Tok::Tag(258)] } else { Seq::empty() }) + seq![Tok::Arr(x.witnesses@.len() as u64)] + flat(x.witnesses@)
}
