// GENERATED: field types whose own encoders are not under contract in this unit
ser_opaque!(AnchorDataHash, Credential, DNSRecordAorAAAA, DNSRecordSRV, DRep, Ed25519KeyHash, Ed25519Signature, GenesisDelegateHash, GenesisHash, Ipv4, Ipv6, PoolMetadataHash, TransactionHash, URL, VRFKeyHash, Vkey);
