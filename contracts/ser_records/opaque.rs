// GENERATED: field types whose own encoders are not under contract in this unit
ser_opaque!(AnchorDataHash, Ed25519Signature, GenesisDelegateHash, GenesisHash, Int, NativeScripts, PoolMetadataHash, ProtocolParamUpdate, RewardAddress, TransactionHash, VRFKeyHash, Vkey);
