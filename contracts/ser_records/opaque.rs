// GENERATED: field types whose own encoders are not under contract in this unit
ser_opaque!(AnchorDataHash, Ed25519Signature, GenesisDelegateHash, GenesisHash, Int, Language, MoveInstantaneousRewardsCert, NativeScripts, PoolMetadataHash, PoolRegistration, ProtocolParamUpdate, RewardAddress, SlotBigNum, StakeDeregistration, TransactionHash, UpdateCommitteeAction, VRFKeyHash, Vkey);
