// GENERATED: field types whose own encoders are not under contract in this unit
ser_opaque!(AnchorDataHash, DNSRecordAorAAAA, DNSRecordSRV, Ed25519Signature, GenesisDelegateHash, GenesisHash, Ipv4, Ipv6, PoolMetadataHash, ProtocolParamUpdate, TransactionHash, TreasuryWithdrawals, URL, VRFKeyHash, Vkey);
