// transaction_metadatum: the encoding of each alternative (shared by the encoder unit ser_records and the decoder unit de_metadatum)
pub open spec fn TransactionMetadatumEnum_enc(x: TransactionMetadatumEnum) -> Seq<Tok> {
    match x {
        TransactionMetadatumEnum::MetadataMap(m) => m.enc(), TransactionMetadatumEnum::MetadataList(l) => l.enc(), TransactionMetadatumEnum::Int(i) => i.enc(),
        TransactionMetadatumEnum::Bytes(b) => seq![Tok::Bytes(b@)], TransactionMetadatumEnum::Text(t) => seq![Tok::Text(t@)],
    }
}
