pub trait SerializeNullable {
    spec fn enc_nullable(&self) -> Seq<Tok>;
    fn serialize_nullable(&self, serializer: &mut Serializer) -> (r: Result<(), CborError>)
        ensures r is Ok, final(serializer).toks() == old(serializer).toks() + self.enc_nullable();
}
/// Coin = BigNum(u64): one unsigned integer (its own encoder: unit ser_lists / Kani bignum_cbor_roundtrip)
#[derive(Clone, Copy)]
pub struct BigNum(pub u64);
pub type Coin = BigNum;
impl Ser for BigNum {
    open spec fn enc(&self) -> Seq<Tok> { seq![Tok::UInt(self.0)] }
    #[verifier::external_body] fn serialize(&self, serializer: &mut Serializer) -> (r: Result<(), CborError>) { unimplemented!() }
}
pub type Epoch = u32;
pub type Port = u16;
pub type TransactionIndex = u32;
pub type GovernanceActionIndex = u32;
impl Ser for u16 {
    open spec fn enc(&self) -> Seq<Tok> { seq![Tok::UInt(*self as u64)] }
    #[verifier::external_body] fn serialize(&self, serializer: &mut Serializer) -> (r: Result<(), CborError>) { unimplemented!() }
}
/// a hash type: serializes (its own encoder not under contract here) and exposes its raw bytes
macro_rules! ser_hash { ($($n:ident),* $(,)?) => { verus!{ $(
    #[verifier::external_body] pub struct $n { _p: core::marker::PhantomData<u8> }
    impl Ser for $n {
        uninterp spec fn enc(&self) -> Seq<Tok>;
        #[verifier::external_body] fn serialize(&self, serializer: &mut Serializer) -> (r: Result<(), CborError>) { unimplemented!() }
    }
    impl $n {
        pub uninterp spec fn bytes_of(&self) -> Seq<u8>;
        #[verifier::external_body] pub fn to_bytes(&self) -> (r: Vec<u8>) ensures r@ == self.bytes_of() { unimplemented!() }
    }
)* } } }
ser_hash!(Ed25519KeyHash, ScriptHash);
pub type SubCoin = UnitInterval;
ser_opaque!(PlutusData);
pub type SlotBigNum = BigNum;
pub type DeltaCoin = Int;
use std::rc::Rc;
use std::collections::{HashSet, BTreeSet};
opaque_types!(DedupIndex);
#[derive(PartialEq, Eq, Structural)]
pub enum CborSetType { Tagged, Untagged }
clone_eq!(CborSetType);
/// `element.serialize(..)` on an `&Rc<T>` auto-derefs to T's encoder
impl<T: Ser> Ser for Rc<T> {
    open spec fn enc(&self) -> Seq<Tok> { (**self).enc() }
    #[verifier::external_body] fn serialize(&self, serializer: &mut Serializer) -> (r: Result<(), CborError>) { unimplemented!() }
}
ser_opaque!(MetadatumItem);
pub type TransactionMetadatumLabel = BigNum;
#[verifier::external_body] pub struct Language { _p: core::marker::PhantomData<u8> }
pub uninterp spec fn lang_v1() -> Language;
pub uninterp spec fn lang_v2() -> Language;
pub uninterp spec fn lang_v3() -> Language;
impl Language {
    #[verifier::external_body] pub fn new_plutus_v1() -> (r: Language) ensures r == lang_v1() { unimplemented!() }
    #[verifier::external_body] pub fn new_plutus_v2() -> (r: Language) ensures r == lang_v2() { unimplemented!() }
    #[verifier::external_body] pub fn new_plutus_v3() -> (r: Language) ensures r == lang_v3() { unimplemented!() }
}
impl Ser for Language {
    uninterp spec fn enc(&self) -> Seq<Tok>;
    #[verifier::external_body] fn serialize(&self, serializer: &mut Serializer) -> (r: Result<(), CborError>) { unimplemented!() }
}
#[verifier::external_body] pub struct PlutusScripts { _p: core::marker::PhantomData<u8> }
impl PlutusScripts {
    pub uninterp spec fn has(&self, l: Language) -> bool;
    pub uninterp spec fn enc_ver(&self, l: Language) -> Seq<Tok>;
    #[verifier::external_body] pub fn has_version(&self, language: &Language) -> (r: bool) ensures r == self.has(*language) { unimplemented!() }
    #[verifier::external_body] pub fn serialize_by_version(&self, version: &Language, serializer: &mut Serializer) -> (r: Result<(), CborError>)
        ensures r is Ok, final(serializer).toks() == old(serializer).toks() + self.enc_ver(*version) { unimplemented!() }
}
impl Clone for NativeScripts { #[verifier::external_body] fn clone(&self) -> (r: Self) ensures r == *self { unimplemented!() } }
clone_eq!(CborContainerType);   // derived Clone of a field-less enum
