ser_opaque!(Int);
// derived Ord / Eq of Language(LanguageKind): declaration order of the kinds = their discriminants
pub open spec fn lnum(l: Language) -> int { match l.0 { LanguageKind::PlutusV1 => 0, LanguageKind::PlutusV2 => 1, LanguageKind::PlutusV3 => 2 } }
pub open spec fn ord_of(a: int, b: int) -> core::cmp::Ordering { if a < b { core::cmp::Ordering::Less } else if a == b { core::cmp::Ordering::Equal } else { core::cmp::Ordering::Greater } }
impl vstd::std_specs::cmp::PartialEqSpecImpl for LanguageKind { open spec fn obeys_eq_spec() -> bool { true } open spec fn eq_spec(&self, o: &LanguageKind) -> bool { *self == *o } }
impl PartialEq for LanguageKind { #[verifier::external_body] fn eq(&self, o: &LanguageKind) -> (r: bool) { unimplemented!() } }
impl vstd::std_specs::cmp::OrdSpecImpl for Language { open spec fn obeys_cmp_spec() -> bool { true } open spec fn cmp_spec(&self, o: &Language) -> core::cmp::Ordering { ord_of(lnum(*self), lnum(*o)) } }
impl vstd::std_specs::cmp::PartialOrdSpecImpl for Language { open spec fn obeys_partial_cmp_spec() -> bool { true } open spec fn partial_cmp_spec(&self, o: &Language) -> Option<core::cmp::Ordering> { Some(ord_of(lnum(*self), lnum(*o))) } }
impl vstd::std_specs::cmp::PartialEqSpecImpl for Language { open spec fn obeys_eq_spec() -> bool { true } open spec fn eq_spec(&self, o: &Language) -> bool { *self == *o } }
impl PartialEq for Language { #[verifier::external_body] fn eq(&self, o: &Language) -> (r: bool) { unimplemented!() } }
impl Eq for Language {}
impl PartialOrd for Language { #[verifier::external_body] fn partial_cmp(&self, o: &Language) -> (r: Option<core::cmp::Ordering>) { unimplemented!() } }
impl Ord for Language { #[verifier::external_body] fn cmp(&self, o: &Language) -> (r: core::cmp::Ordering) { unimplemented!() } }
clone_eq!(Language);
impl Language {
    /// impl_to_from!: to_bytes = the serializer's output
    #[verifier::external_body] pub fn to_bytes(&self) -> (r: Vec<u8>) ensures r@ == bytes_of_toks(self.enc()) { unimplemented!() }
}
/// cbor_event head lengths as far as key_len looks at them (ASSUMED; the head-length table itself is Kani-checked in kani:cbor_calculator): a small
/// unsigned integer is one byte, a byte string of fewer than 24 bytes is one head byte plus its content
#[verifier::external_body] pub proof fn lemma_small_heads(k: u64, b: Seq<u8>)
    ensures k <= 23 ==> bytes_of_toks(seq![Tok::UInt(k)]).len() == 1, b.len() <= 23 ==> bytes_of_toks(seq![Tok::Bytes(b)]).len() == 1 + b.len() { }
/// std::collections::BTreeMap<Language, CostModel> as its entry sequence in ascending key order (R-btree); distinct keys are BTreeMap's invariant
pub struct CostMap { pub entries: Vec<(Language, CostModel)> }
pub open spec fn keys_of(e: Seq<(Language, CostModel)>) -> Seq<Language> { e.map_values(|p: (Language, CostModel)| p.0) }
impl CostMap {
    pub open spec fn wf(&self) -> bool { keys_of(self.entries@).no_duplicates() }
    pub open spec fn has(&self, l: Language) -> bool { keys_of(self.entries@).contains(l) }
    pub open spec fn at(&self, l: Language) -> CostModel { let i = choose|i: int| 0 <= i < self.entries@.len() && self.entries@[i].0 == l; self.entries@[i].1 }
    #[verifier::external_body] pub fn len(&self) -> (r: usize) ensures r == self.entries@.len() { unimplemented!() }
    #[verifier::external_body] pub fn get(&self, k: &Language) -> (r: Option<&CostModel>)
        ensures r is Some <==> self.has(*k), r is Some ==> *r->Some_0 == self.at(*k) { unimplemented!() }
    /// `self.0.iter().map(|(k, _v)| k.clone()).collect()` (R-mapcollect): the keys in iteration order
    #[verifier::external_body] pub fn keys_cloned_(&self) -> (r: Vec<Language>) ensures r@ == keys_of(self.entries@) { unimplemented!() }
}
/// `<[T]>::sort_by` (std, ASSUMED) for a comparator that computes a total order `ord`: the result is a permutation of the input in which no
/// earlier element compares Greater than a later one
#[verifier::external_body]
pub fn sort_by_<T, F: Fn(&T, &T) -> core::cmp::Ordering>(v: &mut Vec<T>, Ghost(ord): Ghost<spec_fn(T, T) -> core::cmp::Ordering>, f: F)
    requires forall|a: &T, b: &T| f.requires((a, b)), forall|a: &T, b: &T, o: core::cmp::Ordering| f.ensures((a, b), o) ==> o == ord(*a, *b),
             forall|a: T| (#[trigger] ord(a, a)) is Equal,
             forall|a: T, b: T| (#[trigger] ord(a, b)) is Less <==> ord(b, a) is Greater,
             forall|a: T, b: T, c: T| !((#[trigger] ord(a, b)) is Greater) && !((#[trigger] ord(b, c)) is Greater) ==> !(ord(a, c) is Greater),
    ensures final(v)@.len() == old(v)@.len(), final(v)@.to_multiset() == old(v)@.to_multiset(),
            old(v)@.no_duplicates() ==> final(v)@.no_duplicates(),
            forall|x: T| final(v)@.contains(x) <==> old(v)@.contains(x),
            forall|i: int, j: int| 0 <= i < j < final(v)@.len() ==> !(ord(final(v)@[i], final(v)@[j]) is Greater),
{ unimplemented!() }
