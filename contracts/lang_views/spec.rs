pub open spec fn flat<T: Ser>(s: Seq<T>) -> Seq<Tok> decreases s.len() { if s.len() == 0 { Seq::empty() } else { flat(s.drop_last()) + s.last().enc() } }
pub proof fn lemma_flat_step<T: Ser>(s: Seq<T>, i: int) requires 0 <= i < s.len() ensures flat(s.take(i + 1)) == flat(s.take(i)) + s[i].enc()
{ assert(s.take(i + 1).drop_last() =~= s.take(i)); }
pub open spec fn CostModel_enc(x: CostModel) -> Seq<Tok> { seq![Tok::Arr(x.0@.len() as u64)] + flat(x.0@) }
// ---- the ledger's "language views" (Alonzo CDDL `language_views`, as the ledger hashes them for script_data_hash): a definite map whose keys are in
// canonical order = shorter encoded key first, then bytewise.  PlutusV1 is double-encoded for historical reasons: its key is the byte string 41 00 (2 bytes)
// and its value a byte string holding the INDEFINITE-length list of costs; V2 / V3 are the plain keys 01 / 02 (1 byte) with the definite cost list.
// So the order is V2, V3, V1.
pub open spec fn key_len_spec(l: Language) -> int { if l.0 is PlutusV1 { 2 } else { 1 } }
#[verifier::opaque]
pub open spec fn canon_cmp(a: Language, b: Language) -> core::cmp::Ordering {
    if key_len_spec(a) != key_len_spec(b) { ord_of(key_len_spec(a), key_len_spec(b)) } else { ord_of(lnum(a), lnum(b)) }
}
pub open spec fn rank(l: Language) -> int { match l.0 { LanguageKind::PlutusV2 => 0, LanguageKind::PlutusV3 => 1, LanguageKind::PlutusV1 => 2 } }
pub open spec fn view_entry(l: Language, cm: CostModel) -> Seq<Tok> {
    if l.0 is PlutusV1 { seq![Tok::Bytes(bytes_of_toks(l.enc())), Tok::Bytes(bytes_of_toks(seq![Tok::ArrIndef] + flat(cm.0@) + seq![Tok::Special(CBORSpecial::Break)]))] }
    else { l.enc() + cm.enc() }
}
pub open spec fn lang(k: LanguageKind) -> Language { Language(k) }
pub open spec fn opt_entry(m: CostMap, l: Language) -> Seq<Tok> { if m.has(l) { view_entry(l, m.at(l)) } else { Seq::empty() } }
pub open spec fn views_toks(m: CostMap) -> Seq<Tok> {
    seq![Tok::Map(m.entries@.len() as u64)] + opt_entry(m, lang(LanguageKind::PlutusV2)) + opt_entry(m, lang(LanguageKind::PlutusV3)) + opt_entry(m, lang(LanguageKind::PlutusV1))
}
pub open spec fn entries_of(m: CostMap, ks: Seq<Language>, n: int) -> Seq<Tok> decreases n { if n <= 0 { Seq::empty() } else { entries_of(m, ks, n - 1) + view_entry(ks[n - 1], m.at(ks[n - 1])) } }
/// a strictly ascending (by rank) sequence holding exactly the present languages is the canonical one
pub proof fn lemma_sorted_is_canon(m: CostMap, ks: Seq<Language>)
    requires forall|i: int, j: int| 0 <= i < j < ks.len() ==> rank(ks[i]) < rank(ks[j]), forall|l: Language| ks.contains(l) <==> m.has(l)
    ensures entries_of(m, ks, ks.len() as int) == opt_entry(m, lang(LanguageKind::PlutusV2)) + opt_entry(m, lang(LanguageKind::PlutusV3)) + opt_entry(m, lang(LanguageKind::PlutusV1))
{
    let v2 = lang(LanguageKind::PlutusV2); let v3 = lang(LanguageKind::PlutusV3); let v1 = lang(LanguageKind::PlutusV1);
    assert forall|i: int| 0 <= i < ks.len() implies rank(#[trigger] ks[i]) >= i by {
        if i >= 1 { assert(rank(ks[0]) < rank(ks[1])); } if i >= 2 { assert(rank(ks[1]) < rank(ks[2])); } if i >= 3 { assert(rank(ks[2]) < rank(ks[3])); }
        if i >= 4 { assert(rank(ks[3]) < rank(ks[i])); }
    }
    if ks.len() > 3 { assert(rank(ks[3]) >= 3); }
    assert(ks.len() <= 3);
    assert forall|i: int| 0 <= i < ks.len() implies ks.contains(#[trigger] ks[i]) by { }
    reveal_with_fuel(entries_of, 4);
    if ks.contains(v2) { let i = choose|i: int| 0 <= i < ks.len() && ks[i] == v2; assert(i == 0) by { if i > 0 { assert(rank(ks[0]) < rank(ks[i])); } } }
    if ks.contains(v1) { let i = choose|i: int| 0 <= i < ks.len() && ks[i] == v1; assert(i == ks.len() - 1) by { if i < ks.len() - 1 { assert(rank(ks[i]) < rank(ks[ks.len() - 1])); } } }
    if ks.contains(v3) { let i = choose|i: int| 0 <= i < ks.len() && ks[i] == v3; }
    if ks.len() >= 1 { assert(ks.contains(ks[0])); } if ks.len() >= 2 { assert(ks.contains(ks[1])); assert(rank(ks[0]) < rank(ks[1])); } if ks.len() >= 3 { assert(ks.contains(ks[2])); assert(rank(ks[1]) < rank(ks[2])); }
    assert(entries_of(m, ks, ks.len() as int) =~= opt_entry(m, v2) + opt_entry(m, v3) + opt_entry(m, v1));
}
/// the comparator is a total order, and on distinct languages it is the strict rank order V2 < V3 < V1
pub proof fn lemma_canon_total()
    ensures forall|a: Language| (#[trigger] canon_cmp(a, a)) is Equal,
            forall|a: Language, b: Language| (#[trigger] canon_cmp(a, b)) is Less <==> canon_cmp(b, a) is Greater,
            forall|a: Language, b: Language, c: Language| !((#[trigger] canon_cmp(a, b)) is Greater) && !((#[trigger] canon_cmp(b, c)) is Greater) ==> !(canon_cmp(a, c) is Greater),
            forall|a: Language, b: Language| !((#[trigger] canon_cmp(a, b)) is Greater) && a != b ==> rank(a) < rank(b),
{ reveal(canon_cmp); }
