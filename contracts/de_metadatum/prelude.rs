ser_coll!(MetadataMap, MetadataList, Int);
de_opaque!(MetadataMap, MetadataList, Int);
pub uninterp spec fn byte_len(s: String) -> nat;
/// ASSUMED about the three nested encoders (each under contract in ser_records / numeric harnesses): a metadata list starts with an array
/// head, a metadata map with a map head, an Int with an unsigned / negative integer token
#[verifier::external_body] pub proof fn lemma_heads(l: MetadataList, m: MetadataMap, i: Int)
    ensures l.enc().len() > 0 && (l.enc()[0] is Arr || l.enc()[0] is ArrIndef), m.enc().len() > 0 && (m.enc()[0] is Map || m.enc()[0] is MapIndef),
            i.enc().len() > 0 && (i.enc()[0] is UInt || i.enc()[0] is NInt) { }
