/// transaction_metadatum = { * md => md } / [ * md ] / int / bytes .size (0..64) / text .size (0..64): dispatch on the type of the first token
/// (the text alternative is left out of this completeness spec: byte length of strings is outside the verifier's reach)
pub open spec fn Metadatum_dec(rem: Seq<Tok>) -> Option<(TransactionMetadatumEnum, int)> {
    if rem.len() == 0 { None }
    else if rem[0] is Arr || rem[0] is ArrIndef { match MetadataList::dec(rem) { Some((l, n)) => Some((TransactionMetadatumEnum::MetadataList(l), n)), None => None } }
    else if rem[0] is Map || rem[0] is MapIndef { match MetadataMap::dec(rem) { Some((m, n)) => Some((TransactionMetadatumEnum::MetadataMap(m), n)), None => None } }
    else if rem[0] is UInt || rem[0] is NInt { match Int::dec(rem) { Some((i, n)) => Some((TransactionMetadatumEnum::Int(i), n)), None => None } }
    else if rem[0] is Bytes && rem[0]->Bytes_0.len() <= 64 { Some((TransactionMetadatumEnum::Bytes(bytes_vec(rem[0]->Bytes_0)), 1int)) }
    else { None }
}
pub uninterp spec fn bytes_vec(b: Seq<u8>) -> Vec<u8>;
/// the vector holding exactly these bytes (vectors of equal view are equal: ASSUMED extensionality of Vec<u8>)
#[verifier::external_body] pub proof fn lemma_bytes_vec(v: Vec<u8>) ensures bytes_vec(v@) == v { }
pub open spec fn metadatum_in_spec(x: TransactionMetadatumEnum) -> bool { match x { TransactionMetadatumEnum::Text(_) => false, TransactionMetadatumEnum::Bytes(b) => b@.len() <= 64, _ => true } }
pub proof fn lemma_Metadatum_rt(x: TransactionMetadatumEnum, rest: Seq<Tok>)
    requires metadatum_in_spec(x)
    ensures Metadatum_dec(x.enc() + rest) == Some((x, x.enc().len() as int))
{
    let rem = x.enc() + rest;
    match x {
        TransactionMetadatumEnum::MetadataList(l) => { MetadataList::lemma_rt(l, rest); lemma_heads(l, arbitrary(), arbitrary()); assert(rem[0] == l.enc()[0]); },
        TransactionMetadatumEnum::MetadataMap(m) => { MetadataMap::lemma_rt(m, rest); lemma_heads(arbitrary(), m, arbitrary()); assert(rem[0] == m.enc()[0]); },
        TransactionMetadatumEnum::Int(i) => { Int::lemma_rt(i, rest); lemma_heads(arbitrary(), arbitrary(), i); assert(rem[0] == i.enc()[0]); },
        TransactionMetadatumEnum::Bytes(b) => { lemma_bytes_vec(b); assert(rem[0] == Tok::Bytes(b@)); },
        TransactionMetadatumEnum::Text(t) => { },
    }
}
