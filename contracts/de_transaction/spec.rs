/// transaction = [ transaction_body, transaction_witness_set, bool, auxiliary_data / null ]   (the 4 items without the array head)
pub open spec fn Transaction_decg(rem: Seq<Tok>) -> Option<(Transaction, int)> {
    match TransactionBody::dec(rem) { Some((b, n0)) =>
    match TransactionWitnessSet::dec(rem.skip(n0)) { Some((w, n1)) => {
        let r2 = rem.skip(n0).skip(n1);
        if r2.len() > 0 && r2[0] is Special && r2[0]->Special_0 is Bool {
            match dec_nullable::<AuxiliaryData>(r2.skip(1)) { Some((a, n3)) =>
                Some((Transaction { body: b, witness_set: w, is_valid: r2[0]->Special_0->Bool_0, auxiliary_data: a }, n0 + n1 + 1 + n3)), None => None }
        } else { None } },
    None => None }, None => None }
}
pub open spec fn Transaction_dec(rem: Seq<Tok>) -> Option<(Transaction, int)> {
    if rem.len() > 0 && rem[0] == Tok::Arr(4) {
        match Transaction_decg(rem.skip(1)) { Some((x, n)) => Some((x, 1 + n)), None => None }
    } else if rem.len() > 0 && rem[0] is ArrIndef {
        match Transaction_decg(rem.skip(1)) { Some((x, n)) => if rem.skip(1).skip(n).len() > 0 && rem.skip(1).skip(n)[0] == Tok::Special(CBORSpecial::Break) { Some((x, 2 + n)) } else { None }, None => None }
    } else { None }
}
impl RoundTrip for Transaction {
    #[verifier::rlimit(400)] #[verifier::spinoff_prover] proof fn lemma_rt(x: Self, rest: Seq<Tok>) {
        let rem = x.enc() + rest;
        let t3 = rest;
        let t2 = opt_null(x.auxiliary_data) + t3;
        let t1b = seq![Tok::Special(CBORSpecial::Bool(x.is_valid))] + t2;
        let t1 = x.witness_set.enc() + t1b;
        let t0 = x.body.enc() + t1;
        assert(rem[0] == Tok::Arr(4));
        assert(rem.skip(1) =~= t0);
        TransactionBody::lemma_rt(x.body, t1);
        assert(t0.skip(x.body.enc().len() as int) =~= t1);
        TransactionWitnessSet::lemma_rt(x.witness_set, t1b);
        assert(t1.skip(x.witness_set.enc().len() as int) =~= t1b);
        assert(t1b[0] == Tok::Special(CBORSpecial::Bool(x.is_valid)));
        assert(t1b.skip(1) =~= t2);
        match x.auxiliary_data { Some(v) => { AuxiliaryData::lemma_rt(v, t3); lemma_enc_not_special::<AuxiliaryData>(v, t3); assert(t2.skip(v.enc().len() as int) =~= t3); }, None => { assert(t2[0] == Tok::Special(CBORSpecial::Null)); assert(t2.skip(1) =~= t3); } }
        assert(Self::dec(rem) == Transaction_dec(rem));
        assert(x == (Transaction { body: x.body, witness_set: x.witness_set, is_valid: x.is_valid, auxiliary_data: x.auxiliary_data }));
    }
}
