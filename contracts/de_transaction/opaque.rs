de_opaque!(TransactionBody, TransactionWitnessSet, AuxiliaryData);
