deb_opaque!(Vkeywitnesses, NativeScripts, BootstrapWitnesses, PlutusList, Redeemers);
#[verifier::external_body] pub struct Language { _p: core::marker::PhantomData<u8> }
pub uninterp spec fn lang_v(n: int) -> Language;
impl Language {
    #[verifier::external_body] pub fn new_plutus_v1() -> (r: Language) ensures r == lang_v(1) { unimplemented!() }
    #[verifier::external_body] pub fn new_plutus_v2() -> (r: Language) ensures r == lang_v(2) { unimplemented!() }
    #[verifier::external_body] pub fn new_plutus_v3() -> (r: Language) ensures r == lang_v(3) { unimplemented!() }
}
/// Plutus script lists are decoded for a given language version (key 3 / 6 / 7): the byte-level relation carries the version
#[verifier::external_body] pub struct PlutusScripts { _p: core::marker::PhantomData<u8> }
pub uninterp spec fn decb_ps(buf: Seq<u8>, p: nat, lang: Language) -> Option<(PlutusScripts, nat)>;
pub open spec fn ps_post(buf: Seq<u8>, a: nat, b: nat, r: Result<PlutusScripts, DeserializeError>, lang: Language) -> bool {
    r is Ok ==> decb_ps(buf, a, lang) == Some((r->Ok_0, b))
}
impl PlutusScripts {
    #[verifier::external_body] pub fn deserialize_with_version(raw: &mut Deserializer, version: &Language) -> (r: Result<PlutusScripts, DeserializeError>)
        requires old(raw).wf() ensures frame(*old(raw), *final(raw)), ps_post(old(raw).buf(), old(raw).pos(), final(raw).pos(), r, *version) { unimplemented!() }
}
#[verifier::opaque]
pub open spec fn cap_ps(buf: Seq<u8>, v: Option<PlutusScripts>, rawb: Option<Vec<u8>>, lang: Language) -> bool {
    (v is Some <==> rawb is Some)
    && (v is Some ==> exists|a: nat| (#[trigger] decb_ps(buf, a, lang)) is Some && decb_ps(buf, a, lang)->Some_0.0 == v->Some_0 && a <= decb_ps(buf, a, lang)->Some_0.1 <= buf.len()
                && rawb->Some_0@ == buf.subrange(a as int, decb_ps(buf, a, lang)->Some_0.1 as int))
}
/// the three per-version lists folded into the one field of the witness set (PlutusScripts::merge; not under contract here)
pub uninterp spec fn merged(l: Option<PlutusScripts>, r: Option<PlutusScripts>, v: Language) -> Option<PlutusScripts>;
#[verifier::external_body] pub fn merge_option_plutus_list(left: Option<PlutusScripts>, right: Option<PlutusScripts>, right_version: &Language) -> (r: Option<PlutusScripts>)
    ensures r == merged(left, right, *right_version) { unimplemented!() }
pub open spec fn b2i(b: bool) -> int { if b { 1 } else { 0 } }
/// every captured field of the raw parts is the exact input range its value was decoded from (or nothing is captured)
pub open spec fn raw_ok(buf: Seq<u8>, with_raw: bool, vkeys: Option<Vkeywitnesses>, native_scripts: Option<NativeScripts>, bootstraps: Option<BootstrapWitnesses>,
    v1: Option<PlutusScripts>, v2: Option<PlutusScripts>, v3: Option<PlutusScripts>, plutus_data: Option<PlutusList>, redeemers: Option<Redeemers>, rp: TransactionWitnessSetRaw) -> bool {
    if with_raw {
        cap(buf, vkeys, rp.vkeys) && cap(buf, native_scripts, rp.native_scripts) && cap(buf, bootstraps, rp.bootstraps) && cap(buf, plutus_data, rp.plutus_data)
        && cap(buf, redeemers, rp.redeemers) && cap_ps(buf, v1, rp.plutus_scripts_v1, lang_v(1)) && cap_ps(buf, v2, rp.plutus_scripts_v2, lang_v(2)) && cap_ps(buf, v3, rp.plutus_scripts_v3, lang_v(3))
    } else {
        rp.vkeys is None && rp.native_scripts is None && rp.bootstraps is None && rp.plutus_data is None && rp.redeemers is None
        && rp.plutus_scripts_v1 is None && rp.plutus_scripts_v2 is None && rp.plutus_scripts_v3 is None
    }
}
// R-lambdalift: the three non-capturing closures `|raw| PlutusScripts::deserialize_with_version(raw, &Language::new_plutus_vN())` as named
// functions with the closure's body (the rewrite anchors on the closure text, so a changed closure loses the anchor instead of being
// checked against a stale copy); bodies verified here
pub fn de_ps_v1(raw: &mut Deserializer) -> (r: Result<PlutusScripts, DeserializeError>)
    requires old(raw).wf() ensures frame(*old(raw), *final(raw)), ps_post(old(raw).buf(), old(raw).pos(), final(raw).pos(), r, lang_v(1))
{ PlutusScripts::deserialize_with_version(raw, &Language::new_plutus_v1()) }
pub fn de_ps_v2(raw: &mut Deserializer) -> (r: Result<PlutusScripts, DeserializeError>)
    requires old(raw).wf() ensures frame(*old(raw), *final(raw)), ps_post(old(raw).buf(), old(raw).pos(), final(raw).pos(), r, lang_v(2))
{ PlutusScripts::deserialize_with_version(raw, &Language::new_plutus_v2()) }
pub fn de_ps_v3(raw: &mut Deserializer) -> (r: Result<PlutusScripts, DeserializeError>)
    requires old(raw).wf() ensures frame(*old(raw), *final(raw)), ps_post(old(raw).buf(), old(raw).pos(), final(raw).pos(), r, lang_v(3))
{ PlutusScripts::deserialize_with_version(raw, &Language::new_plutus_v3()) }
pub proof fn lemma_cap_ps_intro(buf: Seq<u8>, v: PlutusScripts, bytes: Vec<u8>, a: nat, lang: Language)
    requires decb_ps(buf, a, lang) is Some, decb_ps(buf, a, lang)->Some_0.0 == v, a <= decb_ps(buf, a, lang)->Some_0.1 <= buf.len(), bytes@ == buf.subrange(a as int, decb_ps(buf, a, lang)->Some_0.1 as int)
    ensures cap_ps(buf, Some(v), Some(bytes), lang)
{ reveal(cap_ps); }
pub proof fn lemma_cap_ps_none(buf: Seq<u8>, lang: Language) ensures cap_ps(buf, None, None, lang) { reveal(cap_ps); }
