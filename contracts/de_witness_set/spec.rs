/// what the witness-set decoder promises about a successful result
pub open spec fn ws_post(buf: Seq<u8>, with_raw: bool, ws: TransactionWitnessSet, rp: TransactionWitnessSetRaw) -> bool {
    exists|v1: Option<PlutusScripts>, v2: Option<PlutusScripts>, v3: Option<PlutusScripts>|
        #[trigger] raw_ok(buf, with_raw, ws.vkeys, ws.native_scripts, ws.bootstraps, v1, v2, v3, ws.plutus_data, ws.redeemers, rp)
        && ws.plutus_scripts == merged(merged(merged(None, v1, lang_v(1)), v2, lang_v(2)), v3, lang_v(3))
}
pub proof fn lemma_ws_post(buf: Seq<u8>, with_raw: bool, ws: TransactionWitnessSet, rp: TransactionWitnessSetRaw, v1: Option<PlutusScripts>, v2: Option<PlutusScripts>, v3: Option<PlutusScripts>)
    requires raw_ok(buf, with_raw, ws.vkeys, ws.native_scripts, ws.bootstraps, v1, v2, v3, ws.plutus_data, ws.redeemers, rp),
             ws.plutus_scripts == merged(merged(merged(None, v1, lang_v(1)), v2, lang_v(2)), v3, lang_v(3))
    ensures ws_post(buf, with_raw, ws, rp)
{ }
