pub type Coin = BigNum;
pub type AssetId = int;       // abstract (policy id, asset name) pair; spec-only
#[verifier::external_body] pub struct MultiAsset { _p: core::marker::PhantomData<u8> }
impl Clone for MultiAsset { #[verifier::external_body] fn clone(&self) -> (r: Self) ensures r == *self { unimplemented!() } }
impl MultiAsset {
    pub uninterp spec fn m(&self) -> Map<AssetId, nat>;
    /// MultiAsset::sub (lib.rs): per asset, left minus right clamped at zero (nested BTreeMap code with closures: ASSUMED, aimed at by the
    /// bounded Kani harnesses of round 0 which do not finish here)
    #[verifier::external_body] pub fn sub(&self, rhs: &MultiAsset) -> (r: MultiAsset)
        ensures r == ma_sub(*self, *rhs),     // a function of its arguments
                forall|a: AssetId| #[trigger] ma_qty(ma_sub(*self, *rhs), a) == (if ma_qty(*self, a) >= ma_qty(*rhs, a) { ma_qty(*self, a) - ma_qty(*rhs, a) } else { 0 }) as nat { unimplemented!() }
    /// number of policies; an empty map holds no asset
    pub uninterp spec fn policies(&self) -> nat;
    #[verifier::external_body] pub fn len(&self) -> (r: usize) ensures r == self.policies(), r == 0 ==> forall|a: AssetId| #[trigger] ma_qty(*self, a) == 0 { unimplemented!() }
}
pub open spec fn ma_qty(ma: MultiAsset, a: AssetId) -> nat { if ma.m().dom().contains(a) { ma.m()[a] } else { 0 } }
pub open spec fn qty(v: Value, a: AssetId) -> nat { match v.multiasset { Some(ma) => ma_qty(ma, a), None => 0 } }
pub uninterp spec fn ma_sub(a: MultiAsset, b: MultiAsset) -> MultiAsset;
