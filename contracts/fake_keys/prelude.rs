// the numbered placeholder keys / signatures of the mock transaction (fakes.rs): fixed 24 / 56 byte prefixes followed by the index as 8 little-endian
// bytes - so that DIFFERENT indexes give DIFFERENT witnesses and the witness SET of the mock transaction has one element per required signer.
// Key / signature types: any 32 / 64 bytes are accepted by from_bytes (length check only: ASSUMED, chain_crypto) and kept verbatim.
#[verifier::external_body] pub struct PublicKey { _p: core::marker::PhantomData<u8> }
#[verifier::external_body] pub struct Ed25519Signature { _p: core::marker::PhantomData<u8> }
pub struct Vkey(pub PublicKey);
#[verifier::external_body] pub struct KeyError { _p: core::marker::PhantomData<u8> }
impl core::fmt::Debug for KeyError { #[verifier::external_body] fn fmt(&self, f: &mut core::fmt::Formatter<'_>) -> core::fmt::Result { unimplemented!() } }
impl PublicKey {
    pub uninterp spec fn raw(&self) -> Seq<u8>;
    #[verifier::external_body] pub fn from_bytes(bytes: &[u8]) -> (r: Result<PublicKey, KeyError>)
        ensures r is Ok <==> bytes@.len() == 32, r is Ok ==> r->Ok_0.raw() == bytes@ { unimplemented!() }
}
impl Clone for PublicKey { #[verifier::external_body] fn clone(&self) -> (r: PublicKey) ensures r == *self { unimplemented!() } }
impl Ed25519Signature {
    pub uninterp spec fn raw(&self) -> Seq<u8>;
    #[verifier::external_body] pub fn from_bytes(bytes: Vec<u8>) -> (r: Result<Ed25519Signature, KeyError>)
        ensures r is Ok <==> bytes@.len() == 64, r is Ok ==> r->Ok_0.raw() == bytes@ { unimplemented!() }
}
impl Vkey { #[verifier::external_body] pub fn new(pk: &PublicKey) -> (r: Vkey) ensures r.0 == *pk { unimplemented!() } }
/// `<[T]>::to_vec` (std, ASSUMED; used on byte arrays only: the clone of a byte is the byte)
pub assume_specification<T: Clone>[ <[T]>::to_vec ](s: &[T]) -> (r: Vec<T>) ensures r@ == s@;
