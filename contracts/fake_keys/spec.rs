/// byte i of the little-endian representation of x
pub open spec fn le_byte(x: u64, i: int) -> u8 { ((x >> ((i * 8) as u64)) & 0xff) as u8 }
pub open spec fn le8(x: u64) -> Seq<u8> { seq![le_byte(x, 0), le_byte(x, 1), le_byte(x, 2), le_byte(x, 3), le_byte(x, 4), le_byte(x, 5), le_byte(x, 6), le_byte(x, 7)] }
/// the 8 bytes determine the index: different indexes give different placeholder keys
pub proof fn lemma_le8_inj(x: u64, y: u64) requires le8(x) == le8(y) ensures x == y
{
    assert(le8(x)[0] == le8(y)[0] && le8(x)[1] == le8(y)[1] && le8(x)[2] == le8(y)[2] && le8(x)[3] == le8(y)[3] && le8(x)[4] == le8(y)[4] && le8(x)[5] == le8(y)[5] && le8(x)[6] == le8(y)[6] && le8(x)[7] == le8(y)[7]);
    assert(x == y) by (bit_vector)
        requires ((x >> 0u64) & 0xff) as u8 == ((y >> 0u64) & 0xff) as u8, ((x >> 8u64) & 0xff) as u8 == ((y >> 8u64) & 0xff) as u8, ((x >> 16u64) & 0xff) as u8 == ((y >> 16u64) & 0xff) as u8,
                 ((x >> 24u64) & 0xff) as u8 == ((y >> 24u64) & 0xff) as u8, ((x >> 32u64) & 0xff) as u8 == ((y >> 32u64) & 0xff) as u8, ((x >> 40u64) & 0xff) as u8 == ((y >> 40u64) & 0xff) as u8,
                 ((x >> 48u64) & 0xff) as u8 == ((y >> 48u64) & 0xff) as u8, ((x >> 56u64) & 0xff) as u8 == ((y >> 56u64) & 0xff) as u8;
}
