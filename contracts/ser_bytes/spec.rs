// CDDL: bounded_bytes = bytes .size (0..64); longer byte strings are written as an indefinite-length byte string (0x5f) of definite
// chunks of exactly 64 bytes (the last one shorter), closed by a break.  The literal 64 is the CDDL's, not the code's constant.
pub open spec fn chunk_toks(b: Seq<u8>, pos: int) -> Seq<Tok>
    decreases b.len() - pos
{
    if pos < 0 || pos >= b.len() { Seq::empty() } else {
        let e = if b.len() - pos < 64 { b.len() as int } else { pos + 64 };
        seq![Tok::Bytes(b.subrange(pos, e))] + chunk_toks(b, e)
    }
}
pub open spec fn bounded_bytes_enc(b: Seq<u8>) -> Seq<Tok> {
    if b.len() <= 64 { seq![Tok::Bytes(b)] }
    else { seq![Tok::Raw(seq![0x5fu8])] + chunk_toks(b, 0) + seq![Tok::Special(CBORSpecial::Break)] }
}
