// CDDL: bounded_bytes = bytes .size (0..64); longer byte strings are written as an indefinite-length byte string (0x5f) of definite
// chunks of exactly 64 bytes (the last one shorter), closed by a break.  The literal 64 is the CDDL's, not the code's constant.
pub open spec fn chunk_toks(b: Seq<u8>, pos: int) -> Seq<Tok>
    decreases b.len() - pos
{
    if pos < 0 || pos >= b.len() { Seq::empty() } else {
        let e = if b.len() - pos < 64 { b.len() as int } else { pos + 64 };
        seq![Tok::Bytes(b.subrange(pos, e))] + chunk_toks(b, e)
    }
}
pub open spec fn bounded_bytes_enc(b: Seq<u8>) -> Seq<Tok> {
    if b.len() <= 64 { seq![Tok::Bytes(b)] }
    else { seq![Tok::Raw(seq![0x5fu8])] + chunk_toks(b, 0) + seq![Tok::Special(CBORSpecial::Break)] }
}
// ---- what the bounded-bytes reader accepts and yields, on tokens -------------------------------------------------------------
/// chunks from index i on: definite byte strings of at most 64 bytes, closed by a break
pub open spec fn chunks_ok(rem: Seq<Tok>, i: int) -> bool decreases rem.len() - i {
    if i < 0 || i >= rem.len() { false }
    else if rem[i] == Tok::Special(CBORSpecial::Break) { true }
    else { rem[i] is Bytes && rem[i]->Bytes_0.len() <= 64 && chunks_ok(rem, i + 1) }
}
/// (collected content, index just after the break)
pub open spec fn chunks_dec(rem: Seq<Tok>, i: int) -> (Seq<u8>, int) decreases rem.len() - i {
    if i < 0 || i >= rem.len() || !(rem[i] is Bytes) { (Seq::empty(), i + 1) }
    else { let d = chunks_dec(rem, i + 1); (rem[i]->Bytes_0 + d.0, d.1) }
}
pub open spec fn bb_accepts(rem: Seq<Tok>) -> bool {
    rem.len() > 0 && ((rem[0] is Bytes && rem[0]->Bytes_0.len() <= 64) || (rem[0] == indef_bytes_start() && chunks_ok(rem, 1)))
}
pub open spec fn bb_decode(rem: Seq<Tok>) -> (Seq<u8>, int) {
    if rem[0] is Bytes { (rem[0]->Bytes_0, 1) } else { chunks_dec(rem, 1) }
}
// ---- C01 for bounded bytes: the reader accepts what the writer wrote and yields the original byte string, whatever follows ----
pub proof fn lemma_chunks_inverse(b: Seq<u8>, pos: int, rem: Seq<Tok>, i: int)
    requires 0 <= pos <= b.len(), 0 <= i, i + chunk_toks(b, pos).len() < rem.len(),
             rem.subrange(i, i + chunk_toks(b, pos).len()) == chunk_toks(b, pos),
             rem[i + chunk_toks(b, pos).len()] == Tok::Special(CBORSpecial::Break),
    ensures chunks_ok(rem, i), chunks_dec(rem, i).0 == b.subrange(pos, b.len() as int), chunks_dec(rem, i).1 == i + chunk_toks(b, pos).len() + 1
    decreases b.len() - pos
{
    let ct = chunk_toks(b, pos);
    if pos >= b.len() {
        assert(ct.len() == 0);
        assert(b.subrange(pos, b.len() as int) =~= Seq::<u8>::empty());
    } else {
        let e = if b.len() - pos < 64 { b.len() as int } else { pos + 64 };
        let tail = chunk_toks(b, e);
        assert(ct == seq![Tok::Bytes(b.subrange(pos, e))] + tail);
        assert(ct.len() == 1 + tail.len());
        assert(rem[i] == rem.subrange(i, i + ct.len())[0]);
        assert(rem[i] == Tok::Bytes(b.subrange(pos, e)));
        assert(rem.subrange(i + 1, i + 1 + tail.len()) =~= tail) by {
            assert forall|k: int| 0 <= k < tail.len() implies rem.subrange(i + 1, i + 1 + tail.len())[k] == tail[k] by {
                assert(rem.subrange(i, i + ct.len())[k + 1] == ct[k + 1]);
            }
        }
        lemma_chunks_inverse(b, e, rem, i + 1);
        assert(b.subrange(pos, e) + b.subrange(e, b.len() as int) =~= b.subrange(pos, b.len() as int));
    }
}
pub proof fn lemma_bb_roundtrip(b: Seq<u8>, rest: Seq<Tok>)
    ensures bb_accepts(bounded_bytes_enc(b) + rest),
            bb_decode(bounded_bytes_enc(b) + rest).0 == b,
            (bounded_bytes_enc(b) + rest).skip(bb_decode(bounded_bytes_enc(b) + rest).1) == rest,
{
    let enc = bounded_bytes_enc(b);
    let rem = enc + rest;
    if b.len() <= 64 {
        assert(rem[0] == Tok::Bytes(b));
        assert(rem.skip(1) =~= rest);
    } else {
        let ct = chunk_toks(b, 0);
        assert(enc.len() == ct.len() + 2);
        assert(rem[0] == indef_bytes_start());
        assert(rem.subrange(1, 1 + ct.len() as int) =~= ct);
        assert(rem[1 + ct.len() as int] == Tok::Special(CBORSpecial::Break));
        lemma_chunks_inverse(b, 0, rem, 1);
        assert(b.subrange(0, b.len() as int) =~= b);
        assert(rem.skip(ct.len() as int + 2) =~= rest);
    }
}
