pub const BOUNDED_BYTES_CHUNK_SIZE: usize = 64;
