/// datum_option = [ 0, hash32 // 1, data ]   with data = #6.24(bytes .cbor plutus_data)
pub open spec fn data_option_enc(d: DataOption) -> Seq<Tok> {
    match d { DataOption::DataHash(h) => seq![Tok::Arr(2), Tok::UInt(0)] + h.enc(), DataOption::Data(x) => seq![Tok::Arr(2), Tok::UInt(1), Tok::Tag(24), Tok::Bytes(x.bytes_of())] }
}
/// script = [ 0, native_script // 1, plutus_v1_script // 2, plutus_v2_script // 3, plutus_v3_script ]
pub open spec fn script_ns(l: LanguageKind) -> u64 { match l { LanguageKind::PlutusV1 => 1, LanguageKind::PlutusV2 => 2, LanguageKind::PlutusV3 => 3 } }
pub open spec fn script_ref_enum_enc(s: ScriptRefEnum) -> Seq<Tok> {
    match s { ScriptRefEnum::NativeScript(n) => seq![Tok::Arr(2), Tok::UInt(0)] + n.enc(), ScriptRefEnum::PlutusScript(p) => seq![Tok::Arr(2), Tok::UInt(script_ns(p.language)), Tok::Bytes(p.bytes@)] }
}
