ser_opaque!(DataHash, NativeScript, TransactionInput, TransactionOutput);
/// inline datum: its own CBOR bytes, wrapped as an encoded-CBOR byte string (#6.24)
#[verifier::external_body] pub struct PlutusData { _p: core::marker::PhantomData<u8> }
impl PlutusData {
    pub uninterp spec fn bytes_of(&self) -> Seq<u8>;
    #[verifier::external_body] pub fn to_bytes(&self) -> (r: Vec<u8>) ensures r@ == self.bytes_of() { unimplemented!() }
}
