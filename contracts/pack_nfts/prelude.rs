// ---------------------------------------------------------------------------------------------------------
// pack_nfts unit (C05): the greedy packer of the asset change, pack_nfts_for_change (a fn nested in add_change_if_needed), on its real text.
// Proved: the bundles it returns hold, per asset and ALL TOGETHER, at most what the change holds - the one fact the balance proof of the
// asset-change block (unit change, variant asset_change) assumes about it.  Where the bundles are cut (the size tests) is not constrained.
// Asset ids are (policy, asset name) pairs here; MultiAsset / Assets stay opaque with quantity views; their map operations (new / insert / get / keys /
// iteration) carry the BTreeMap semantics as ASSUMED contracts.
// ---------------------------------------------------------------------------------------------------------
opaque_types!(ScriptHash, AssetName, Address, DataHash, PlutusData, ScriptRef, CborContainerType);
pub type PolicyID = ScriptHash;
pub type Coin = BigNum;
clone_eq!(ScriptHash, AssetName, Address, ScriptRef);
#[verifier::external_body] pub struct MultiAsset { _p: core::marker::PhantomData<u8> }
#[verifier::external_body] pub struct Assets { _p: core::marker::PhantomData<u8> }
impl Clone for MultiAsset { #[verifier::external_body] fn clone(&self) -> (r: Self) ensures r == *self { unimplemented!() } }
impl Clone for Assets { #[verifier::external_body] fn clone(&self) -> (r: Self) ensures r == *self { unimplemented!() } }
pub type AssetId = (PolicyID, AssetName);
impl MultiAsset {
    pub uninterp spec fn q(&self, a: AssetId) -> nat;
    pub uninterp spec fn pols(&self) -> Seq<(PolicyID, Assets)>;
    #[verifier::external_body] pub fn new() -> (r: Self) ensures forall|a: AssetId| r.q(a) == 0 { unimplemented!() }
    #[verifier::external_body] pub fn insert(&mut self, policy_id: &PolicyID, assets: &Assets) -> (r: Option<Assets>)
        ensures forall|n: AssetName| final(self).q((*policy_id, n)) == assets.q(n),
                forall|p: PolicyID, n: AssetName| p != *policy_id ==> final(self).q((p, n)) == old(self).q((p, n)) { unimplemented!() }
    /// `ma.0.iter()`: the (policy, assets) entries, each policy once, the assets of a policy are the quantities the bundle holds under it
    #[verifier::external_body] pub fn policies_(&self) -> (r: Vec<(PolicyID, Assets)>)
        ensures r@ == self.pols(),
                forall|i: int, j: int| 0 <= i < j < r@.len() ==> r@[i].0 != r@[j].0,
                forall|i: int, n: AssetName| 0 <= i < r@.len() ==> (#[trigger] r@[i].1.q(n)) == self.q((r@[i].0, n)) { unimplemented!() }
}
impl Assets {
    pub uninterp spec fn q(&self, n: AssetName) -> nat;
    #[verifier::external_body] pub fn new() -> (r: Self) ensures forall|n: AssetName| r.q(n) == 0 { unimplemented!() }
    #[verifier::external_body] pub fn insert(&mut self, key: &AssetName, value: &BigNum) -> (r: Option<BigNum>)
        ensures final(self).q(*key) == value.0, forall|n: AssetName| n != *key ==> final(self).q(n) == old(self).q(n) { unimplemented!() }
    #[verifier::external_body] pub fn get(&self, key: &AssetName) -> (r: Option<BigNum>)
        ensures r is Some ==> r->Some_0.0 == self.q(*key), self.has(*key) ==> r is Some { unimplemented!() }
    pub uninterp spec fn has(&self, n: AssetName) -> bool;
    /// the asset names of the entries, each once
    #[verifier::external_body] pub fn keys(&self) -> (r: AssetNames)
        ensures r.0@.no_duplicates(), forall|k: int| 0 <= k < r.0@.len() ==> self.has(#[trigger] r.0@[k]) { unimplemented!() }
}
pub open spec fn qty(v: Value, a: AssetId) -> nat { match v.multiasset { Some(ma) => ma.q(a), None => 0 } }
impl Clone for Value { #[verifier::external_body] fn clone(&self) -> (r: Self) ensures r == *self { unimplemented!() } }
impl Clone for TransactionOutput { #[verifier::external_body] fn clone(&self) -> (r: Self) ensures r == *self { unimplemented!() } }
impl Value {
    #[verifier::external_body] pub fn new(coin: &Coin) -> (r: Value) ensures r.coin == *coin, r.multiasset is None { unimplemented!() }
    #[verifier::external_body] pub fn coin(&self) -> (r: Coin) ensures r == self.coin { unimplemented!() }
    #[verifier::external_body] pub fn set_coin(&mut self, coin: &Coin) ensures final(self).coin == *coin, final(self).multiasset == old(self).multiasset { unimplemented!() }
    #[verifier::external_body] pub fn multiasset(&self) -> (r: Option<MultiAsset>) ensures r == self.multiasset { unimplemented!() }
    #[verifier::external_body] pub fn set_multiasset(&mut self, multiasset: &MultiAsset) ensures final(self).coin == old(self).coin, final(self).multiasset == Some(*multiasset) { unimplemented!() }
    /// exact-or-Err in lovelace and in every asset (PROVED in unit value_add)
    #[verifier::external_body] pub fn checked_add(&self, rhs: &Value) -> (r: Result<Value, JsError>)
        ensures r is Ok ==> forall|a: AssetId| qty(r->Ok_0, a) == qty(*self, a) + qty(*rhs, a),
                r is Ok ==> (self.multiasset is Some || rhs.multiasset is Some) ==> r->Ok_0.multiasset is Some { unimplemented!() }
    #[verifier::external_body] pub fn to_bytes(&self) -> (r: Vec<u8>) { unimplemented!() }
}
pub struct MinOutputAdaCalculator { pub output: TransactionOutput, pub data_cost: DataCost }
impl MinOutputAdaCalculator {
    #[verifier::external_body] pub fn new_empty(data_cost: &DataCost) -> (r: Result<MinOutputAdaCalculator, JsError>) { unimplemented!() }
    #[verifier::external_body] pub fn set_amount(&mut self, amount: &Value) { unimplemented!() }
    #[verifier::external_body] pub fn calculate_ada(&self) -> (r: Result<BigNum, JsError>) { unimplemented!() }
}
/// the size test of the packer (nested fn, not under contract: where bundles are cut does not matter to the claim)
#[verifier::external_body] pub fn will_adding_asset_make_output_overflow(output: &TransactionOutput, current_assets: &Assets, asset_to_add: (PolicyID, AssetName, BigNum), max_value_size: u32, data_cost: &DataCost) -> (r: Result<bool, JsError>) { unimplemented!() }
impl Clone for DataOption { #[verifier::external_body] fn clone(&self) -> (r: Self) ensures r == *self { unimplemented!() } }

/// sum over bundles of the quantity of one asset (the form the balance proof uses: from position k on)
pub open spec fn ma_sum_from(s: Seq<MultiAsset>, k: int, a: AssetId) -> nat decreases s.len() - k { if k < 0 || k >= s.len() { 0 } else { s[k].q(a) + ma_sum_from(s, k + 1, a) } }
pub proof fn lemma_sum_push(s: Seq<MultiAsset>, x: MultiAsset, k: int, a: AssetId)
    requires 0 <= k <= s.len()
    ensures ma_sum_from(s.push(x), k, a) == ma_sum_from(s, k, a) + x.q(a)
    decreases s.len() - k
{
    if k < s.len() { lemma_sum_push(s, x, k + 1, a); assert(s.push(x)[k] == s[k]); }
    else { assert(s.push(x)[k] == x); assert(ma_sum_from(s.push(x), k + 1, a) == 0); }
}
/// policy p is one of the first pi entries of the change bundle
pub open spec fn pol_taken(pols: Seq<(PolicyID, Assets)>, pi: int, p: PolicyID) -> bool { exists|i: int| 0 <= i < pi && i < pols.len() && (#[trigger] pols[i]).0 == p }
pub open spec fn name_taken(names: Seq<AssetName>, ni: int, n: AssetName) -> bool { exists|k: int| 0 <= k < ni && k < names.len() && #[trigger] names[k] == n }
/// between two policies: finished bundles + the output being filled hold, per asset, at most what the change holds of it - and nothing of a policy not reached yet
pub open spec fn outer_inv(ce: Value, pols: Seq<(PolicyID, Assets)>, pi: int, done: Seq<MultiAsset>, out: Value) -> bool {
    forall|a: AssetId| #[trigger] ma_sum_from(done, 0, a) + qty(out, a) <= (if pol_taken(pols, pi, a.0) { qty(ce, a) } else { 0 })
}
/// inside policy pi, after ni of its names: every quantity taken so far sits in exactly one place - a finished bundle, the output being filled, or the assets being
/// rebuilt for the current policy
pub open spec fn inner_inv(ce: Value, pols: Seq<(PolicyID, Assets)>, names: Seq<AssetName>, pi: int, ni: int, done: Seq<MultiAsset>, out: Value, reb: Assets) -> bool {
    forall|a: AssetId| #[trigger] ma_sum_from(done, 0, a) + qty(out, a) + (if a.0 == pols[pi].0 { reb.q(a.1) } else { 0 })
        <= (if pol_taken(pols, pi, a.0) || (a.0 == pols[pi].0 && name_taken(names, ni, a.1)) { qty(ce, a) } else { 0 })
}
