/// decode one of the `[tag, hash]` / `[tag]` shaped enums: the array head, the variant tag, then per variant
pub open spec fn Credential_dec(rem: Seq<Tok>) -> Option<(Credential, int)> {
    if rem.len() > 1 && rem[0] == Tok::Arr(2) && rem[1] is UInt {
        if rem[1]->UInt_0 == 0 { match Ed25519KeyHash::dec(rem.skip(2)) { Some((h, n)) => Some((Credential(CredType::Key(h)), 2 + n)), None => None } }
        else if rem[1]->UInt_0 == 1 { match ScriptHash::dec(rem.skip(2)) { Some((h, n)) => Some((Credential(CredType::Script(h)), 2 + n)), None => None } }
        else { None }
    } else { None }
}
pub open spec fn DRepEnum_dec(rem: Seq<Tok>) -> Option<(DRepEnum, int)> {
    if rem.len() > 1 && (rem[0] == Tok::Arr(2) || rem[0] == Tok::Arr(1)) && rem[1] is UInt {
        if rem[1]->UInt_0 == 0 { match Ed25519KeyHash::dec(rem.skip(2)) { Some((h, n)) => Some((DRepEnum::KeyHash(h), 2 + n)), None => None } }
        else if rem[1]->UInt_0 == 1 { match ScriptHash::dec(rem.skip(2)) { Some((h, n)) => Some((DRepEnum::ScriptHash(h), 2 + n)), None => None } }
        else if rem[1]->UInt_0 == 2 { Some((DRepEnum::AlwaysAbstain, 2int)) }
        else if rem[1]->UInt_0 == 3 { Some((DRepEnum::AlwaysNoConfidence, 2int)) }
        else { None }
    } else { None }
}
pub open spec fn VoterEnum_dec(rem: Seq<Tok>) -> Option<(VoterEnum, int)> {
    if rem.len() > 1 && rem[0] == Tok::Arr(2) && rem[1] is UInt {
        let k = rem[1]->UInt_0;
        if k == 0 { match Ed25519KeyHash::dec(rem.skip(2)) { Some((h, n)) => Some((VoterEnum::ConstitutionalCommitteeHotCred(Credential(CredType::Key(h))), 2 + n)), None => None } }
        else if k == 1 { match ScriptHash::dec(rem.skip(2)) { Some((h, n)) => Some((VoterEnum::ConstitutionalCommitteeHotCred(Credential(CredType::Script(h))), 2 + n)), None => None } }
        else if k == 2 { match Ed25519KeyHash::dec(rem.skip(2)) { Some((h, n)) => Some((VoterEnum::DRep(Credential(CredType::Key(h))), 2 + n)), None => None } }
        else if k == 3 { match ScriptHash::dec(rem.skip(2)) { Some((h, n)) => Some((VoterEnum::DRep(Credential(CredType::Script(h))), 2 + n)), None => None } }
        else if k == 4 { match Ed25519KeyHash::dec(rem.skip(2)) { Some((h, n)) => Some((VoterEnum::StakingPool(h), 2 + n)), None => None } }
        else { None }
    } else { None }
}
pub open spec fn VotingProcedure_dec(rem: Seq<Tok>) -> Option<(VotingProcedure, int)> {
    if rem.len() > 1 && rem[0] == Tok::Arr(2) && rem[1] is UInt && rem[1]->UInt_0 <= 2 {
        match dec_nullable::<Anchor>(rem.skip(2)) { Some((a, n)) =>
            Some((VotingProcedure { vote: if rem[1]->UInt_0 == 0 { VoteKind::No } else if rem[1]->UInt_0 == 1 { VoteKind::Yes } else { VoteKind::Abstain }, anchor: a }, 2 + n)), None => None }
    } else { None }
}
impl RoundTrip for Credential {
    proof fn lemma_rt(x: Self, rest: Seq<Tok>) {
        let rem = x.enc() + rest;
        match x.0 { CredType::Key(h) => { Ed25519KeyHash::lemma_hash(h); assert(rem.skip(2) =~= seq![Tok::Bytes(h.bytes_of())] + rest); assert(rem[1] == Tok::UInt(0)); },
                    CredType::Script(h) => { ScriptHash::lemma_hash(h); assert(rem.skip(2) =~= seq![Tok::Bytes(h.bytes_of())] + rest); assert(rem[1] == Tok::UInt(1)); } }
        assert(Self::dec(rem) == Credential_dec(rem));
    }
}
impl RoundTrip for DRepEnum {
    proof fn lemma_rt(x: Self, rest: Seq<Tok>) {
        let rem = x.enc() + rest;
        match x { DRepEnum::KeyHash(h) => { Ed25519KeyHash::lemma_hash(h); assert(rem.skip(2) =~= seq![Tok::Bytes(h.bytes_of())] + rest); assert(rem[1] == Tok::UInt(0)); },
                  DRepEnum::ScriptHash(h) => { ScriptHash::lemma_hash(h); assert(rem.skip(2) =~= seq![Tok::Bytes(h.bytes_of())] + rest); assert(rem[1] == Tok::UInt(1)); },
                  DRepEnum::AlwaysAbstain => { assert(rem[1] == Tok::UInt(2)); assert(rem[0] == Tok::Arr(1)); },
                  DRepEnum::AlwaysNoConfidence => { assert(rem[1] == Tok::UInt(3)); assert(rem[0] == Tok::Arr(1)); } }
        assert(Self::dec(rem) == DRepEnum_dec(rem));
    }
}
impl RoundTrip for VoterEnum {
    proof fn lemma_rt(x: Self, rest: Seq<Tok>) {
        let rem = x.enc() + rest;
        assert(x.enc() =~= VoterEnum_enc(x));
        match x {
            VoterEnum::ConstitutionalCommitteeHotCred(c) => match c.0 {
                CredType::Key(h) => { Ed25519KeyHash::lemma_hash(h); assert(rem.skip(2) =~= seq![Tok::Bytes(h.bytes_of())] + rest); assert(rem[1] == Tok::UInt(0)); assert(c == Credential(CredType::Key(h))); },
                CredType::Script(h) => { ScriptHash::lemma_hash(h); assert(rem.skip(2) =~= seq![Tok::Bytes(h.bytes_of())] + rest); assert(rem[1] == Tok::UInt(1)); assert(c == Credential(CredType::Script(h))); } },
            VoterEnum::DRep(c) => match c.0 {
                CredType::Key(h) => { Ed25519KeyHash::lemma_hash(h); assert(rem.skip(2) =~= seq![Tok::Bytes(h.bytes_of())] + rest); assert(rem[1] == Tok::UInt(2)); assert(c == Credential(CredType::Key(h))); },
                CredType::Script(h) => { ScriptHash::lemma_hash(h); assert(rem.skip(2) =~= seq![Tok::Bytes(h.bytes_of())] + rest); assert(rem[1] == Tok::UInt(3)); assert(c == Credential(CredType::Script(h))); } },
            VoterEnum::StakingPool(h) => { Ed25519KeyHash::lemma_hash(h); assert(rem.skip(2) =~= seq![Tok::Bytes(h.bytes_of())] + rest); assert(rem[1] == Tok::UInt(4)); },
        }
        assert(Self::dec(rem) == VoterEnum_dec(rem));
    }
}
impl RoundTrip for VotingProcedure {
    proof fn lemma_rt(x: Self, rest: Seq<Tok>) {
        let rem = x.enc() + rest;
        assert(x.enc() =~= VotingProcedure_enc(x));
        let t2 = opt_null(x.anchor) + rest;
        assert(rem.skip(2) =~= t2);
        match x.anchor { Some(v) => { Anchor::lemma_rt(v, rest); lemma_enc_not_special::<Anchor>(v, rest); assert(t2.skip(v.enc().len() as int) =~= rest); }, None => { assert(t2[0] == Tok::Special(CBORSpecial::Null)); assert(t2.skip(1) =~= rest); } }
        assert(Self::dec(rem) == VotingProcedure_dec(rem));
        assert(x == (VotingProcedure { vote: x.vote, anchor: x.anchor }));
    }
}
pub open spec fn RedeemerTagKind_dec(rem: Seq<Tok>) -> Option<(RedeemerTagKind, int)> {
    if rem.len() > 0 && rem[0] is UInt && rem[0]->UInt_0 <= 5 {
        let v = rem[0]->UInt_0;
        Some((if v == 0 { RedeemerTagKind::Spend } else if v == 1 { RedeemerTagKind::Mint } else if v == 2 { RedeemerTagKind::Cert } else if v == 3 { RedeemerTagKind::Reward }
              else if v == 4 { RedeemerTagKind::Vote } else { RedeemerTagKind::VotingProposal }, 1int))
    } else { None }
}
impl RoundTrip for RedeemerTagKind {
    proof fn lemma_rt(x: Self, rest: Seq<Tok>) { let rem = x.enc() + rest; assert(x.enc() =~= RedeemerTagKind_enc(x)); assert(rem[0] == RedeemerTagKind_enc(x)[0]); assert(Self::dec(rem) == RedeemerTagKind_dec(rem)); }
}
