/// a hash type: serializes (its own encoder not under contract here) and exposes its raw bytes
macro_rules! ser_hash { ($($n:ident),* $(,)?) => { verus!{ $(
    #[verifier::external_body] pub struct $n { _p: core::marker::PhantomData<u8> }
    impl Ser for $n {
        uninterp spec fn enc(&self) -> Seq<Tok>;
        #[verifier::external_body] fn serialize(&self, serializer: &mut Serializer) -> (r: Result<(), CborError>) { unimplemented!() }
    }
    impl $n {
        pub uninterp spec fn bytes_of(&self) -> Seq<u8>;
        #[verifier::external_body] pub fn to_bytes(&self) -> (r: Vec<u8>) ensures r@ == self.bytes_of() { unimplemented!() }
    }
)* } } }
ser_hash!(Ed25519KeyHash, ScriptHash);
ser_coll!(Anchor);
// hash types at token level: one definite byte string of the type's byte count (impl_hash_type!: `write_bytes(self.0)` / `raw.bytes()`
// with a length check; the macro's two methods are not under contract: ASSUMED, with the byte count 28 of both types)
macro_rules! de_hash { ($($n:ident),* $(,)?) => { verus!{ $(
    impl $n {
        pub uninterp spec fn of_bytes(b: Seq<u8>) -> $n;
        #[verifier::external_body] pub proof fn lemma_hash(x: $n)
            ensures x.enc() == seq![Tok::Bytes(x.bytes_of())], x.bytes_of().len() == 28, $n::of_bytes(x.bytes_of()) == x { }
    }
    impl De for $n {
        open spec fn dec(rem: Seq<Tok>) -> Option<(Self, int)> {
            if rem.len() > 0 && rem[0] is Bytes && rem[0]->Bytes_0.len() == 28 { Some(($n::of_bytes(rem[0]->Bytes_0), 1int)) } else { None }
        }
        #[verifier::external_body] fn deserialize(raw: &mut Deserializer) -> (r: Result<Self, DeserializeError>) { unimplemented!() }
        proof fn lemma_dec_head(rem: Seq<Tok>) { }
    }
)* } } }
de_hash!(Ed25519KeyHash, ScriptHash);
de_opaque!(Anchor);
