// ---------------------------------------------------------------------------------------------------------
// mint_update unit (C14): MintBuilder::update_mint_value on its real text - the running quantity of an asset stays inside the Int range
// (-2^64 ..= 2^64-1) or the call fails, for BOTH kinds of minting script.  BTreeMap = OMap model; `entry(k).or_insert(v)` = the stored value
// (inserted when absent) handed out as a mutable borrow (ASSUMED std semantics).
// ---------------------------------------------------------------------------------------------------------
opaque_types!(AssetName, ScriptHash, NativeScriptSourceEnum, PlutusScriptSourceEnum, Redeemer);
pub type PolicyID = ScriptHash;
clone_eq!(AssetName, ScriptHash, NativeScriptSourceEnum, PlutusScriptSourceEnum, Redeemer);
impl NativeScriptSourceEnum { pub uninterp spec fn hash_of(&self) -> ScriptHash; #[verifier::external_body] pub fn script_hash(&self) -> (r: ScriptHash) ensures r == self.hash_of() { unimplemented!() } }
impl PlutusScriptSourceEnum { pub uninterp spec fn hash_of(&self) -> ScriptHash; #[verifier::external_body] pub fn script_hash(&self) -> (r: ScriptHash) ensures r == self.hash_of() { unimplemented!() } }
#[verifier::external_body]
pub fn omap_or_insert_<'a, K, V>(m: &'a mut OMap<K, V>, k: K, v: V) -> (r: &'a mut V)
    ensures *r == (if old(m)@.contains_key(k) { old(m)@[k] } else { v }), final(m)@ == old(m)@.insert(k, *final(r))
{ unimplemented!() }
impl MintBuilder {
    /// the witness must be of the kind (and source) already registered for its policy: not under contract here, it changes nothing
    #[verifier::external_body] pub fn validate_mint_witness(mint_witness: &MintWitness, current_script_mint: Option<&ScriptMint>) -> (r: Result<(), JsError>) { unimplemented!() }
}
pub open spec fn int_wf(i: Int) -> bool { -0x1_0000_0000_0000_0000 <= i.0 <= 0xffff_ffff_ffff_ffff }
/// the quantity the builder holds for (policy, asset name): 0 when there is no entry
pub open spec fn held(b: MintBuilder, p: PolicyID, a: AssetName) -> int {
    if b.mints@.contains_key(p) { match b.mints@[p] {
        ScriptMint::Native(n) => if n.mints@.contains_key(a) { n.mints@[a].0 as int } else { 0 },
        ScriptMint::Plutus(n) => if n.mints@.contains_key(a) { n.mints@[a].0 as int } else { 0 } } } else { 0 }
}
pub open spec fn wit_hash(w: MintWitness) -> ScriptHash { match w.0 { MintWitnessEnum::NativeScript(s) => s.hash_of(), MintWitnessEnum::Plutus(s, _) => s.hash_of() } }
/// the entry registered under the witness's policy (if any) is of the witness's kind - what validate_mint_witness establishes; stated as a precondition-free
/// case split in the contract (an entry of the other kind makes the real code do nothing)
pub open spec fn kind_matches(b: MintBuilder, w: MintWitness) -> bool {
    b.mints@.contains_key(wit_hash(w)) ==> match (w.0, b.mints@[wit_hash(w)]) { (MintWitnessEnum::NativeScript(_), ScriptMint::Native(_)) => true, (MintWitnessEnum::Plutus(_, _), ScriptMint::Plutus(_)) => true, _ => false }
}
