// ---------------------------------------------------------------------------------------------------------
// Byte-level model of cbor_event's Deserializer over a std::io::Cursor<Vec<u8>> (a DEPENDENCY: contracts ASSUMED): a byte buffer
// and a read position.  Readers never change the buffer, never move backwards and stay inside the buffer; nothing is said about
// WHAT they return (the token-level model de_model.rs does that) - this model is for the decoders that capture the exact byte range
// an item was read from (C04) and for panic-freedom of their bookkeeping on every input (C02).
// Cursor's seek / fill_buf idioms are the four R-seek methods.
// ---------------------------------------------------------------------------------------------------------
#[verifier::external_body] pub struct Deserializer { _p: core::marker::PhantomData<u8> }
pub open spec fn frame(a: Deserializer, b: Deserializer) -> bool { b.buf() == a.buf() && b.wf() && b.pos() >= a.pos() }
impl Deserializer {
    pub uninterp spec fn buf(&self) -> Seq<u8>;
    pub uninterp spec fn pos(&self) -> nat;
    pub open spec fn wf(&self) -> bool { self.pos() <= self.buf().len() && self.buf().len() <= u64::MAX }
    #[verifier::external_body] pub fn pos_(&mut self) -> (r: u64)
        requires old(self).wf() ensures r == old(self).pos(), *final(self) == *old(self) { unimplemented!() }
    #[verifier::external_body] pub fn set_pos(&mut self, p: u64) -> (r: u64)
        ensures r == p, final(self).buf() == old(self).buf(), final(self).pos() == p { unimplemented!() }
    #[verifier::external_body] pub fn peek_vec(&mut self, n: usize) -> (r: Vec<u8>)
        requires old(self).pos() + n <= old(self).buf().len()   // `[..n]` on the filled buffer panics otherwise
        ensures r@ == old(self).buf().subrange(old(self).pos() as int, old(self).pos() + n), final(self).buf() == old(self).buf(), final(self).pos() == old(self).pos() { unimplemented!() }
    #[verifier::external_body] pub fn cbor_type(&mut self) -> (r: Result<CBORType, CborError>)
        requires old(self).wf() ensures *final(self) == *old(self) { unimplemented!() }
    #[verifier::external_body] pub fn map(&mut self) -> (r: Result<cbor_event::Len, CborError>)
        requires old(self).wf() ensures frame(*old(self), *final(self)) { unimplemented!() }
    #[verifier::external_body] pub fn array(&mut self) -> (r: Result<cbor_event::Len, CborError>)
        requires old(self).wf() ensures frame(*old(self), *final(self)) { unimplemented!() }
    /// a successful read of an integer consumes at least its initial byte
    #[verifier::external_body] pub fn unsigned_integer(&mut self) -> (r: Result<u64, CborError>)
        requires old(self).wf() ensures frame(*old(self), *final(self)), r is Ok ==> final(self).pos() > old(self).pos() { unimplemented!() }
    #[verifier::external_body] pub fn text(&mut self) -> (r: Result<String, CborError>)
        requires old(self).wf() ensures frame(*old(self), *final(self)) { unimplemented!() }
    #[verifier::external_body] pub fn special(&mut self) -> (r: Result<CBORSpecial, CborError>)
        requires old(self).wf() ensures frame(*old(self), *final(self)) { unimplemented!() }
}
// the library's error type: only Ok/Err-ness matters; conversions as in error.rs
pub enum Key { Str(String), Uint(u64), OptUint(Option<u64>) }
pub enum DeserializeFailure {
    EndingBreakMissing, CBOR(CborError), CustomError(String), ExpectedNull, ExpectedBool, NoVariantMatched,
    DuplicateKey(Key), UnknownKey(Key), BreakInDefiniteLen, MandatoryFieldMissing(Key), UnexpectedKeyType(CBORType),
}
#[verifier::external_body] pub struct DeserializeError { _p: core::marker::PhantomData<u8> }
impl DeserializeError {
    #[verifier::external_body] pub fn new(location: &str, failure: DeserializeFailure) -> DeserializeError { unimplemented!() }
    #[verifier::external_body] pub fn annotate(self, location: &str) -> DeserializeError { unimplemented!() }
}
impl From<CborError> for DeserializeError { #[verifier::external_body] fn from(e: CborError) -> (r: DeserializeError) { unimplemented!() } }
impl From<DeserializeFailure> for DeserializeError { #[verifier::external_body] fn from(e: DeserializeFailure) -> (r: DeserializeError) { unimplemented!() } }
impl vstd::std_specs::convert::FromSpecImpl<CborError> for DeserializeError { open spec fn obeys_from_spec() -> bool { false } uninterp spec fn from_spec(e: CborError) -> DeserializeError; }
impl vstd::std_specs::convert::FromSpecImpl<DeserializeFailure> for DeserializeError { open spec fn obeys_from_spec() -> bool { false } uninterp spec fn from_spec(e: DeserializeFailure) -> DeserializeError; }

/// `Deserialize` at byte level: `decb(buf, p)` = (value, end position) of what the decoder accepts at position p (an uninterpreted
/// relation per type: the decoders themselves are under contract at token level elsewhere); the decoder is a function of the buffer
/// and the position, leaves the buffer alone and ends at that end position
pub trait DeB: Sized {
    spec fn decb(buf: Seq<u8>, p: nat) -> Option<(Self, nat)>;
    fn deserialize(raw: &mut Deserializer) -> (r: Result<Self, DeserializeError>)
        requires old(raw).wf()
        ensures frame(*old(raw), *final(raw)), r is Ok ==> Self::decb(old(raw).buf(), old(raw).pos()) == Some((r->Ok_0, final(raw).pos()));
}
pub open spec fn deb_post<T: DeB>(buf: Seq<u8>, a: nat, b: nat, r: Result<T, DeserializeError>) -> bool {
    r is Ok ==> T::decb(buf, a) == Some((r->Ok_0, b))
}
macro_rules! deb_opaque { ($($n:ident),* $(,)?) => { verus!{ $(
    #[verifier::external_body] pub struct $n { _p: core::marker::PhantomData<u8> }
    impl DeB for $n {
        uninterp spec fn decb(buf: Seq<u8>, p: nat) -> Option<(Self, nat)>;
        #[verifier::external_body] fn deserialize(raw: &mut Deserializer) -> (r: Result<Self, DeserializeError>) { unimplemented!() }
    }
)* } } }
/// the bytes `rawb` are exactly the input bytes the value `v` was decoded from
#[verifier::opaque]
pub open spec fn cap<T: DeB>(buf: Seq<u8>, v: Option<T>, rawb: Option<Vec<u8>>) -> bool {
    (v is Some <==> rawb is Some)
    && (v is Some ==> exists|a: nat| (#[trigger] T::decb(buf, a)) is Some && T::decb(buf, a)->Some_0.0 == v->Some_0 && a <= T::decb(buf, a)->Some_0.1 <= buf.len()
                && rawb->Some_0@ == buf.subrange(a as int, T::decb(buf, a)->Some_0.1 as int))
}
pub proof fn lemma_cap_intro<T: DeB>(buf: Seq<u8>, v: T, bytes: Vec<u8>, a: nat)
    requires T::decb(buf, a) is Some, T::decb(buf, a)->Some_0.0 == v, a <= T::decb(buf, a)->Some_0.1 <= buf.len(), bytes@ == buf.subrange(a as int, T::decb(buf, a)->Some_0.1 as int)
    ensures cap(buf, Some(v), Some(bytes))
{ reveal(cap); }
pub proof fn lemma_cap_none<T: DeB>(buf: Seq<u8>) ensures cap(buf, None::<T>, None) { reveal(cap); }
