// ---------------------------------------------------------------------------------------------------------
// std::collections::BTreeMap where the code reaches INTO it (get_mut / remove / insert while iterating another map): a finite map with an
// iteration order `order()` (ascending keys; only "every entry exactly once" is used).  A DEPENDENCY: contracts ASSUMED (std semantics).
// `get_mut` hands out a mutable borrow of the stored value: the map after the borrow ends holds whatever the borrow was left at.
// ---------------------------------------------------------------------------------------------------------
#[verifier::external_body] #[verifier::reject_recursive_types(K)] #[verifier::reject_recursive_types(V)]
pub struct OMap<K, V> { _p: core::marker::PhantomData<(K, V)> }
impl<K, V> View for OMap<K, V> { type V = Map<K, V>; uninterp spec fn view(&self) -> Map<K, V>; }
impl<K, V> OMap<K, V> {
    pub uninterp spec fn order(&self) -> Seq<(K, V)>;
    #[verifier::external_body] pub proof fn lemma_order(&self)
        ensures self@.dom().finite(), self@.dom().len() == self.order().len(), self.order().len() <= usize::MAX,
                forall|i: int, j: int| 0 <= i < j < self.order().len() ==> self.order()[i].0 != self.order()[j].0,
                forall|i: int| 0 <= i < self.order().len() ==> self@.contains_key(#[trigger] self.order()[i].0) && self@[self.order()[i].0] == self.order()[i].1,
                forall|k: K| self@.contains_key(k) ==> exists|i: int| 0 <= i < self.order().len() && #[trigger] self.order()[i].0 == k { }
    #[verifier::external_body] pub fn new() -> (r: Self) ensures r@ == Map::<K, V>::empty() { unimplemented!() }
    #[verifier::external_body] pub fn len(&self) -> (r: usize) ensures r == self@.dom().len(), r == self.order().len() { unimplemented!() }
    #[verifier::external_body] pub fn is_empty(&self) -> (r: bool) ensures r == (self@.dom().len() == 0) { unimplemented!() }
    #[verifier::external_body] pub fn contains_key(&self, k: &K) -> (r: bool) ensures r == self@.contains_key(*k) { unimplemented!() }
    #[verifier::external_body] pub fn get(&self, k: &K) -> (r: Option<&V>) ensures r is Some <==> self@.contains_key(*k), r is Some ==> *r->Some_0 == self@[*k] { unimplemented!() }
    #[verifier::external_body] pub fn get_mut(&mut self, k: &K) -> (r: Option<&mut V>)
        ensures r is Some <==> old(self)@.contains_key(*k),
                r is Some ==> *r->Some_0 == old(self)@[*k] && final(self)@ == old(self)@.insert(*k, *final(r->Some_0)),
                r is None ==> final(self)@ == old(self)@ { unimplemented!() }
    #[verifier::external_body] pub fn insert(&mut self, k: K, v: V) -> (r: Option<V>)
        ensures final(self)@ == old(self)@.insert(k, v), r is Some <==> old(self)@.contains_key(k), r is Some ==> r->Some_0 == old(self)@[k] { unimplemented!() }
    #[verifier::external_body] pub fn remove(&mut self, k: &K) -> (r: Option<V>)
        ensures final(self)@ == old(self)@.remove(*k), r is Some <==> old(self)@.contains_key(*k), r is Some ==> r->Some_0 == old(self)@[*k] { unimplemented!() }
    #[verifier::external_body] pub fn iter(&self) -> (r: core::slice::Iter<'_, (K, V)>)
        ensures r.remaining() == refs(self.order()), r.obeys_prophetic_iter_laws(), r.decrease() is Some { unimplemented!() }
}
