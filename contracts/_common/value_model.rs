// ---------------------------------------------------------------------------------------------------------
// Abstract view of Value / MultiAsset shared by the builder-level units.
//   qty(v, a) : quantity of native asset a in v (absent = 0);  v.coin : lovelace.
// The contracts of the Value operations below are ASSUMED in these units; the ones within reach are proved on the
// real text in unit `value_ops` with the same contract text.
// ---------------------------------------------------------------------------------------------------------
pub type Coin = BigNum;
pub type AssetId = int;       // abstract (policy id, asset name) pair; spec-only
#[verifier::external_body] pub struct MultiAsset { _p: core::marker::PhantomData<u8> }
impl MultiAsset {
    pub uninterp spec fn m(&self) -> Map<AssetId, nat>;
    pub uninterp spec fn bytes_of(&self) -> Seq<u8>;
    #[verifier::external_body] pub fn to_bytes(&self) -> (r: Vec<u8>) ensures r@ == self.bytes_of() { unimplemented!() }
}
impl Clone for MultiAsset { #[verifier::external_body] fn clone(&self) -> (r: Self) ensures r == *self { unimplemented!() } }
pub open spec fn ma_qty(ma: MultiAsset, a: AssetId) -> nat { if ma.m().dom().contains(a) { ma.m()[a] } else { 0 } }
pub open spec fn qty(v: Value, a: AssetId) -> nat { match v.multiasset { Some(ma) => ma_qty(ma, a), None => 0 } }
/// a multiasset bundle whose every quantity is zero counts as "no assets"
pub open spec fn no_assets(v: Value) -> bool { forall|a: AssetId| qty(v, a) == 0 }

impl Clone for Value { #[verifier::external_body] fn clone(&self) -> (r: Self) ensures r == *self { unimplemented!() } }

// Value's hand-written PartialEq compares coin and the multiasset maps entry by entry after dropping an *empty* map
// (explicit zero entries count), so `==` IMPLIES equality of views; the converse does not hold and is not claimed.
pub uninterp spec fn value_eq(a: Value, b: Value) -> bool;
pub broadcast axiom fn ax_value_eq(a: Value, b: Value)
    requires #[trigger] value_eq(a, b)
    ensures a.coin == b.coin, forall|x: AssetId| qty(a, x) == qty(b, x);
impl vstd::std_specs::cmp::PartialEqSpecImpl for Value {
    open spec fn obeys_eq_spec() -> bool { true }
    open spec fn eq_spec(&self, other: &Value) -> bool { value_eq(*self, *other) }
}
impl PartialEq for Value { #[verifier::external_body] fn eq(&self, other: &Value) -> (r: bool) { unimplemented!() } }

// derived PartialEq of BigNum(u64) = equality of the number (ASSUMED for the derive, like the order below)
impl vstd::std_specs::cmp::PartialEqSpecImpl for BigNum {
    open spec fn obeys_eq_spec() -> bool { true }
    open spec fn eq_spec(&self, other: &BigNum) -> bool { self.0 == other.0 }
}
// derived Ord of BigNum(u64) = integer order
impl vstd::std_specs::cmp::PartialOrdSpecImpl for BigNum {
    open spec fn obeys_partial_cmp_spec() -> bool { true }
    open spec fn partial_cmp_spec(&self, other: &BigNum) -> Option<core::cmp::Ordering> {
        if self.0 < other.0 { Some(core::cmp::Ordering::Less) } else if self.0 == other.0 { Some(core::cmp::Ordering::Equal) } else { Some(core::cmp::Ordering::Greater) }
    }
}
impl PartialOrd for BigNum { #[verifier::external_body] fn partial_cmp(&self, o: &BigNum) -> (r: Option<core::cmp::Ordering>) { unimplemented!() } }

impl Value {
    #[verifier::external_body] pub fn new(coin: &Coin) -> (r: Value) ensures r.coin == *coin, r.multiasset is None { unimplemented!() }
    #[verifier::external_body] pub fn zero() -> (r: Value) ensures r.coin.0 == 0, r.multiasset is None { unimplemented!() }
    #[verifier::external_body] pub fn new_from_assets(multiasset: &MultiAsset) -> (r: Value)
        ensures r.coin.0 == 0, forall|a: AssetId| qty(r, a) == ma_qty(*multiasset, a) { unimplemented!() }
    #[verifier::external_body] pub fn coin(&self) -> (r: Coin) ensures r == self.coin { unimplemented!() }
    #[verifier::external_body] pub fn set_coin(&mut self, coin: &Coin) ensures final(self).coin == *coin, final(self).multiasset == old(self).multiasset { unimplemented!() }
    // exact-or-Err in lovelace and in every asset
    #[verifier::external_body] pub fn checked_add(&self, rhs: &Value) -> (r: Result<Value, JsError>)
        ensures
            r is Ok ==> r->Ok_0.coin.0 == self.coin.0 + rhs.coin.0,
            r is Ok ==> forall|a: AssetId| qty(r->Ok_0, a) == qty(*self, a) + qty(*rhs, a),
            r is Err ==> (self.coin.0 + rhs.coin.0 > u64::MAX || exists|a: AssetId| qty(*self, a) + qty(*rhs, a) > u64::MAX),
    { unimplemented!() }
    // AS THE CODE IS: coin exact-or-Err; each asset clamped at 0; result has a multiasset part only if something positive is left
    #[verifier::external_body] pub fn checked_sub(&self, rhs_value: &Value) -> (r: Result<Value, JsError>)
        ensures
            self.coin.0 >= rhs_value.coin.0 <==> r is Ok,
            r is Ok ==> r->Ok_0.coin.0 == self.coin.0 - rhs_value.coin.0,
            r is Ok ==> forall|a: AssetId| qty(r->Ok_0, a) == (if qty(*self, a) >= qty(*rhs_value, a) { qty(*self, a) - qty(*rhs_value, a) } else { 0 }) as nat,
            r is Ok && rhs_value.multiasset is None ==> r->Ok_0.multiasset == self.multiasset,
    { unimplemented!() }
}

impl vstd::std_specs::convert::FromSpecImpl<u64> for BigNum {
    open spec fn obeys_from_spec() -> bool { true }
    open spec fn from_spec(v: u64) -> BigNum { BigNum(v) }
}

// Value's PartialOrd: component-wise partial order on (lovelace, every asset), absent asset = 0 (ASSUMED here; C14 states it)
pub open spec fn value_le(a: Value, b: Value) -> bool { a.coin.0 <= b.coin.0 && forall|x: AssetId| qty(a, x) <= qty(b, x) }
pub open spec fn value_view_eq(a: Value, b: Value) -> bool { a.coin.0 == b.coin.0 && forall|x: AssetId| qty(a, x) == qty(b, x) }
impl vstd::std_specs::cmp::PartialOrdSpecImpl for Value {
    open spec fn obeys_partial_cmp_spec() -> bool { true }
    open spec fn partial_cmp_spec(&self, other: &Value) -> Option<core::cmp::Ordering> {
        if value_view_eq(*self, *other) { Some(core::cmp::Ordering::Equal) }
        else if value_le(*self, *other) { Some(core::cmp::Ordering::Less) }
        else if value_le(*other, *self) { Some(core::cmp::Ordering::Greater) }
        else { None }
    }
}
impl PartialOrd for Value { #[verifier::external_body] fn partial_cmp(&self, o: &Value) -> (r: Option<core::cmp::Ordering>) { unimplemented!() } }
