// std slice readers an edit may start using (ASSUMED std semantics; `==` of the element types used here is structural equality)
pub assume_specification<T: PartialEq>[ <[T]>::contains ](s: &[T], x: &T) -> (r: bool) ensures r == s@.contains(*x);
