// ASSUMPTION (DESIGN section 9): native 64-bit target, usize is 8 bytes (the wasm32 target is not covered)
global size_of usize == 8;
