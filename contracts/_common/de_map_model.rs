// ---------------------------------------------------------------------------------------------------------
// "CBOR map with optional integer keys" records (transaction body, post-Alonzo output, witness set, protocol parameter update):
// the key table of one such type as a trait, the tokens the CDDL prescribes for the entries from table slot i on (`suf`), and the
// lemmas a key-dispatch decoder loop needs (all proved here, nothing assumed).  Slots are the positions of the key table in
// increasing key order; a slot is `present` when the encoder writes its entry.
// ---------------------------------------------------------------------------------------------------------
pub trait MapRec: Sized {
    spec fn nslots() -> int;
    spec fn key(i: int) -> u64;
    spec fn present(&self, i: int) -> bool;
    /// tokens of the entry's value (meaningful when the slot is present)
    spec fn fenc(&self, i: int) -> Seq<Tok>;
    proof fn lemma_keys()
        ensures Self::nslots() >= 0, forall|i: int, j: int| 0 <= i < j < Self::nslots() ==> Self::key(i) != Self::key(j);
}
/// entries of slots i.. in table order
pub open spec fn suf<T: MapRec>(x: T, i: int) -> Seq<Tok> decreases T::nslots() - i
{
    if i < 0 || i >= T::nslots() { Seq::empty() }
    else if x.present(i) { seq![Tok::UInt(T::key(i))] + x.fenc(i) + suf(x, i + 1) }
    else { suf(x, i + 1) }
}
/// number of entries written for slots i..
pub open spec fn cnt_from<T: MapRec>(x: T, i: int) -> int decreases T::nslots() - i
{
    if i < 0 || i >= T::nslots() { 0 } else { (if x.present(i) { 1int } else { 0int }) + cnt_from(x, i + 1) }
}
/// first present slot at or after i (nslots() when there is none)
pub open spec fn nxt<T: MapRec>(x: T, i: int) -> int decreases T::nslots() - i
{
    if i < 0 || i >= T::nslots() { T::nslots() } else if x.present(i) { i } else { nxt(x, i + 1) }
}
pub proof fn lemma_cnt_nonneg<T: MapRec>(x: T, i: int)
    ensures cnt_from(x, i) >= 0
    decreases T::nslots() - i
{
    if 0 <= i < T::nslots() { lemma_cnt_nonneg(x, i + 1); }
}
pub proof fn lemma_nxt<T: MapRec>(x: T, i: int)
    requires 0 <= i <= T::nslots()
    ensures i <= nxt(x, i) <= T::nslots(),
            suf(x, i) == suf(x, nxt(x, i)),
            cnt_from(x, i) == cnt_from(x, nxt(x, i)),
            forall|j: int| i <= j < nxt(x, i) ==> !(#[trigger] x.present(j)),
            nxt(x, i) < T::nslots() ==> x.present(nxt(x, i)) && cnt_from(x, i) > 0
                && suf(x, i) == seq![Tok::UInt(T::key(nxt(x, i)))] + x.fenc(nxt(x, i)) + suf(x, nxt(x, i) + 1)
                && cnt_from(x, i) == 1 + cnt_from(x, nxt(x, i) + 1),
            nxt(x, i) == T::nslots() ==> cnt_from(x, i) == 0 && suf(x, i) == Seq::<Tok>::empty(),
    decreases T::nslots() - i
{
    if i < T::nslots() {
        if x.present(i) { lemma_cnt_nonneg(x, i + 1); } else { lemma_nxt(x, i + 1); }
    }
}
/// generic round-trip step of a field decoder (type taken from the argument)
pub proof fn lemma_rt_of<T: RoundTrip>(x: T, rest: Seq<Tok>)
    ensures T::dec(x.enc() + rest) == Some((x, x.enc().len() as int))
{ T::lemma_rt(x, rest); }
