// ---------------------------------------------------------------------------------------------------------
// Token-level model of cbor_event's Serializer (a DEPENDENCY: its contracts are ASSUMED; the byte-level facts that matter —
// shortest heads — are cross-checked against the real cbor_event by Kani harnesses).
// A serializer's state is the sequence of CBOR tokens written so far.  The writer is monomorphised to Vec<u8> (what to_bytes / to_hex /
// the hash helpers use): std's `impl Write for Vec<u8>` never fails, so every write returns Ok.
// ---------------------------------------------------------------------------------------------------------
#[verifier::external_body] pub struct IoError { _p: core::marker::PhantomData<u8> }
#[derive(PartialEq, Eq, Clone, Copy, Structural)]
pub enum CBORType { UnsignedInteger, NegativeInteger, Bytes, Text, Array, Map, Tag, Special }
/// cbor_event::Error, as far as the library constructs it (the other variants only travel)
pub enum CborError { Expected(CBORType, CBORType), CustomError(String), IoError(IoError), IndefiniteLenNotSupported(CBORType), WrongLen(u64, cbor_event::Len, &'static str), TrailingData, Other }
impl core::fmt::Debug for CborError { #[verifier::external_body] fn fmt(&self, f: &mut core::fmt::Formatter<'_>) -> core::fmt::Result { unimplemented!() } }
#[derive(PartialEq, Eq, Structural)]
pub enum CBORSpecial { Bool(bool), Null, Undefined, Break }
#[derive(PartialEq, Eq, Clone, Copy, Structural)]
pub enum CborLen { Indefinite, Len(u64) }
pub mod cbor_event {
    pub use super::CborLen as Len;
    pub type Error = super::CborError;
    pub type Type = super::CBORType;
    pub type Special = super::CBORSpecial;
    pub type Result<T> = core::result::Result<T, super::CborError>;
}
pub enum Tok {
    Map(u64), MapIndef, Arr(u64), ArrIndef, UInt(u64), NInt(int), Tag(u64), Bytes(Seq<u8>), Text(Seq<char>),
    Special(CBORSpecial), Raw(Seq<u8>),
    /// (decoder side only) the content bytes of a byte string whose head has already been consumed
    Payload(Seq<u8>),
}
/// cbor_event's `write_bytes<B: AsRef<[u8]>>`: the argument kinds the library passes
pub trait BytesLike { spec fn bview(&self) -> Seq<u8>; }
impl<'a> BytesLike for &'a [u8] { open spec fn bview(&self) -> Seq<u8> { (*self)@ } }
impl BytesLike for Vec<u8> { open spec fn bview(&self) -> Seq<u8> { self@ } }
impl<'a> BytesLike for &'a Vec<u8> { open spec fn bview(&self) -> Seq<u8> { (*self)@ } }
impl<'a, const N: usize> BytesLike for &'a [u8; N] { open spec fn bview(&self) -> Seq<u8> { (*self)@ } }
impl<const N: usize> BytesLike for [u8; N] { open spec fn bview(&self) -> Seq<u8> { self@ } }
impl<'a, 'b> BytesLike for &'a &'b Vec<u8> { open spec fn bview(&self) -> Seq<u8> { (**self)@ } }
/// cbor_event's `write_text<S: AsRef<str>>`
pub trait TextLike { spec fn tview(&self) -> Seq<char>; }
impl<'a> TextLike for &'a String { open spec fn tview(&self) -> Seq<char> { (*self)@ } }
impl<'a> TextLike for &'a str { open spec fn tview(&self) -> Seq<char> { (*self)@ } }
impl TextLike for String { open spec fn tview(&self) -> Seq<char> { self@ } }
impl<'a, 'b> TextLike for &'a &'b String { open spec fn tview(&self) -> Seq<char> { (**self)@ } }
#[verifier::external_body] pub struct Serializer { _p: core::marker::PhantomData<u8> }
/// the bytes a token sequence denotes (heads as cbor_event writes them: shortest form, cross-checked by Kani)
pub uninterp spec fn bytes_of_toks(t: Seq<Tok>) -> Seq<u8>;
impl Serializer {
    pub uninterp spec fn toks(&self) -> Seq<Tok>;
    #[verifier::external_body] pub fn new_vec() -> (r: Serializer) ensures r.toks() == Seq::<Tok>::empty() { unimplemented!() }
    #[verifier::external_body] pub fn finalize(self) -> (r: Vec<u8>) ensures r@ == bytes_of_toks(self.toks()) { unimplemented!() }
    #[verifier::external_body] pub fn write_map(&mut self, len: cbor_event::Len) -> (r: Result<(), CborError>)
        ensures r is Ok, final(self).toks() == old(self).toks().push(match len { cbor_event::Len::Len(n) => Tok::Map(n), cbor_event::Len::Indefinite => Tok::MapIndef }) { unimplemented!() }
    #[verifier::external_body] pub fn write_array(&mut self, len: cbor_event::Len) -> (r: Result<(), CborError>)
        ensures r is Ok, final(self).toks() == old(self).toks().push(match len { cbor_event::Len::Len(n) => Tok::Arr(n), cbor_event::Len::Indefinite => Tok::ArrIndef }) { unimplemented!() }
    #[verifier::external_body] pub fn write_unsigned_integer(&mut self, v: u64) -> (r: Result<(), CborError>)
        ensures r is Ok, final(self).toks() == old(self).toks().push(Tok::UInt(v)) { unimplemented!() }
    /// cbor_event computes the nint argument as `(-v - 1) as u64`: a negative v denotes itself, a non-negative v wraps to v - 2^64 (0 is how -2^64 is
    /// written), and i64::MIN overflows the negation (panic in debug builds): excluded by the precondition
    #[verifier::external_body] pub fn write_negative_integer(&mut self, v: i64) -> (r: Result<(), CborError>)
        requires v != i64::MIN
        ensures r is Ok, final(self).toks() == old(self).toks().push(Tok::NInt(if v < 0 { v as int } else { v - 0x1_0000_0000_0000_0000 })) { unimplemented!() }
    #[verifier::external_body] pub fn write_tag(&mut self, t: u64) -> (r: Result<(), CborError>)
        ensures r is Ok, final(self).toks() == old(self).toks().push(Tok::Tag(t)) { unimplemented!() }
    #[verifier::external_body] pub fn write_bytes<B: BytesLike>(&mut self, b: B) -> (r: Result<(), CborError>)
        ensures r is Ok, final(self).toks() == old(self).toks().push(Tok::Bytes(b.bview())) { unimplemented!() }
    #[verifier::external_body] pub fn write_text<S: TextLike>(&mut self, t: S) -> (r: Result<(), CborError>)
        ensures r is Ok, final(self).toks() == old(self).toks().push(Tok::Text(t.tview())) { unimplemented!() }
    #[verifier::external_body] pub fn write_raw_bytes(&mut self, b: &[u8]) -> (r: Result<(), CborError>)
        ensures r is Ok, final(self).toks() == old(self).toks().push(Tok::Raw(b@)) { unimplemented!() }
    #[verifier::external_body] pub fn write_special(&mut self, s: CBORSpecial) -> (r: Result<(), CborError>)
        ensures r is Ok, final(self).toks() == old(self).toks().push(Tok::Special(s)) { unimplemented!() }
}
/// the library's `cbor_event::se::Serialize`, with the returned `&mut Serializer` alias dropped (R-serret)
pub trait Ser {
    /// tokens this value serializes to
    spec fn enc(&self) -> Seq<Tok>;
    fn serialize(&self, serializer: &mut Serializer) -> (r: Result<(), CborError>)
        ensures r is Ok, final(serializer).toks() == old(serializer).toks() + self.enc();
}
/// a serializable type whose own encoder is not under contract in this unit
macro_rules! ser_opaque { ($($n:ident),* $(,)?) => { verus!{ $(
    #[verifier::external_body] pub struct $n { _p: core::marker::PhantomData<u8> }
    impl Ser for $n {
        uninterp spec fn enc(&self) -> Seq<Tok>;
        #[verifier::external_body] fn serialize(&self, serializer: &mut Serializer) -> (r: Result<(), CborError>) { unimplemented!() }
    }
)* } } }
pub trait NoneOrEmpty {
    spec fn empty(&self) -> bool;
    fn is_none_or_empty(&self) -> (r: bool) ensures r == self.empty();
}

// traits.rs: `impl<T: NoneOrEmpty> NoneOrEmpty for Option<T>` (None counts as empty)
impl<T: NoneOrEmpty> NoneOrEmpty for Option<T> {
    open spec fn empty(&self) -> bool { match self { Some(x) => x.empty(), None => true } }
    #[verifier::external_body] fn is_none_or_empty(&self) -> (r: bool) { unimplemented!() }
}
/// a serializable, possibly-empty collection type whose own encoder is not under contract in this unit
macro_rules! ser_coll { ($($n:ident),* $(,)?) => { verus!{ $(
    #[verifier::external_body] pub struct $n { _p: core::marker::PhantomData<u8> }
    impl Ser for $n {
        uninterp spec fn enc(&self) -> Seq<Tok>;
        #[verifier::external_body] fn serialize(&self, serializer: &mut Serializer) -> (r: Result<(), CborError>) { unimplemented!() }
    }
    impl NoneOrEmpty for $n {
        uninterp spec fn empty(&self) -> bool;
        #[verifier::external_body] fn is_none_or_empty(&self) -> (r: bool) { unimplemented!() }
    }
)* } } }
// generic building blocks of "map with optional keys" encoders, in APPLY form (tokens so far -> tokens after the entry)
#[verifier::opaque]
pub open spec fn cnt_o<T>(o: Option<T>) -> int { if o is Some { 1 } else { 0 } }
#[verifier::opaque]
pub open spec fn cnt_ne<T: NoneOrEmpty>(o: Option<T>) -> int { if o is Some && !o->Some_0.empty() { 1 } else { 0 } }
pub open spec fn ap_req<T: Ser>(s: Seq<Tok>, k: u64, x: T) -> Seq<Tok> { s.push(Tok::UInt(k)) + x.enc() }
pub open spec fn ap_o<T: Ser>(s: Seq<Tok>, k: u64, o: Option<T>) -> Seq<Tok> { match o { Some(x) => s.push(Tok::UInt(k)) + x.enc(), None => s } }
pub open spec fn ap_ne<T: Ser + NoneOrEmpty>(s: Seq<Tok>, k: u64, o: Option<T>) -> Seq<Tok> {
    if o is Some && !o->Some_0.empty() { s.push(Tok::UInt(k)) + o->Some_0.enc() } else { s }
}
pub proof fn lemma_ap_req<T: Ser>(s: Seq<Tok>, k: u64, x: T) ensures ap_req(s, k, x) =~= s + ap_req(Seq::empty(), k, x) { }
pub proof fn lemma_ap_o<T: Ser>(s: Seq<Tok>, k: u64, o: Option<T>) ensures ap_o(s, k, o) =~= s + ap_o(Seq::empty(), k, o) { }
pub proof fn lemma_ap_ne<T: Ser + NoneOrEmpty>(s: Seq<Tok>, k: u64, o: Option<T>) ensures ap_ne(s, k, o) =~= s + ap_ne(Seq::empty(), k, o) { }
pub proof fn lemma_shift(s: Seq<Tok>, x: Seq<Tok>, y: Seq<Tok>, fx: Seq<Tok>, fy: Seq<Tok>, d: Seq<Tok>)
    requires x == s + y, fx == x + d, fy == y + d
    ensures fx == s + fy
{ assert(fx =~= s + fy); }

// cbor_event's own `Serialize for u32 / u64`: one unsigned integer token
impl Ser for u32 {
    open spec fn enc(&self) -> Seq<Tok> { seq![Tok::UInt(*self as u64)] }
    #[verifier::external_body] fn serialize(&self, serializer: &mut Serializer) -> (r: Result<(), CborError>) { unimplemented!() }
}
impl Ser for u64 {
    open spec fn enc(&self) -> Seq<Tok> { seq![Tok::UInt(*self)] }
    #[verifier::external_body] fn serialize(&self, serializer: &mut Serializer) -> (r: Result<(), CborError>) { unimplemented!() }
}
