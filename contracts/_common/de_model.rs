// ---------------------------------------------------------------------------------------------------------
// Token-level model of cbor_event's Deserializer (a DEPENDENCY: contracts ASSUMED).  The state is the sequence of tokens still to be
// read - the tokens a Serializer wrote (cbor_model.rs).  Each reader is deterministic on a matching next token: it succeeds, returns
// what the token holds and removes it.  Nothing is promised on a non-matching token (it may fail or not), so these contracts can carry
// "decode . encode = id", not totality on arbitrary bytes.
// ---------------------------------------------------------------------------------------------------------
#[verifier::external_body] pub struct Deserializer { _p: core::marker::PhantomData<u8> }
/// size of the length field that follows the initial byte (0, 1, 2, 4 or 8): only its identity between cbor_len() and advance() matters
pub uninterp spec fn len_sz(n: nat) -> usize;
pub open spec fn indef_bytes_start() -> Tok { Tok::Raw(seq![0x5fu8]) }
pub open spec fn type_of(t: Tok) -> CBORType {
    match t {
        Tok::UInt(_) => CBORType::UnsignedInteger, Tok::NInt(_) => CBORType::NegativeInteger, Tok::Bytes(_) => CBORType::Bytes, Tok::Text(_) => CBORType::Text,
        Tok::Arr(_) => CBORType::Array, Tok::ArrIndef => CBORType::Array, Tok::Map(_) => CBORType::Map, Tok::MapIndef => CBORType::Map, Tok::Tag(_) => CBORType::Tag,
        Tok::Special(_) => CBORType::Special,
        Tok::Raw(_) => CBORType::Bytes,      // only used for the indefinite byte-string start 0x5f (indef_bytes_start)
        Tok::Payload(_) => CBORType::Bytes,  // never asked
    }
}
pub open spec fn typed(t: Tok) -> bool { !(t is Payload) && (t is Raw ==> t == indef_bytes_start()) }
impl Deserializer {
    pub uninterp spec fn rem(&self) -> Seq<Tok>;
    #[verifier::external_body] pub fn cbor_type(&mut self) -> (r: Result<CBORType, CborError>)
        ensures final(self).rem() == old(self).rem(),
                old(self).rem().len() > 0 && typed(old(self).rem()[0]) ==> r is Ok && r->Ok_0 == type_of(old(self).rem()[0]) { unimplemented!() }
    #[verifier::external_body] pub fn cbor_len(&mut self) -> (r: Result<(cbor_event::Len, usize), CborError>)
        ensures final(self).rem() == old(self).rem(), r is Ok ==> r->Ok_0.1 <= 8,
                old(self).rem().len() > 0 && old(self).rem()[0] is Bytes ==> r is Ok && r->Ok_0.0 == cbor_event::Len::Len(old(self).rem()[0]->Bytes_0.len() as u64) && r->Ok_0.1 == len_sz(old(self).rem()[0]->Bytes_0.len()) && r->Ok_0.1 <= 8,
                old(self).rem().len() > 0 && old(self).rem()[0] == indef_bytes_start() ==> r is Ok && r->Ok_0.0 is Indefinite && r->Ok_0.1 == 0,
                // a negative integer -1 - n (0 <= n < 2^64): the "length" is its argument n
                old(self).rem().len() > 0 && old(self).rem()[0] is NInt && -0x1_0000_0000_0000_0000 <= old(self).rem()[0]->NInt_0 <= -1
                    ==> r is Ok && r->Ok_0.0 == cbor_event::Len::Len((-1 - old(self).rem()[0]->NInt_0) as u64) && r->Ok_0.1 == len_sz((-1 - old(self).rem()[0]->NInt_0) as nat) { unimplemented!() }
    #[verifier::external_body] pub fn bytes(&mut self) -> (r: Result<Vec<u8>, CborError>)
        ensures old(self).rem().len() > 0 && old(self).rem()[0] is Bytes ==> r is Ok && r->Ok_0@ == old(self).rem()[0]->Bytes_0 && final(self).rem() == old(self).rem().skip(1) { unimplemented!() }
    /// skips n raw bytes: exactly the head of a definite byte string (its content stays, as Payload), or the 0x5f start byte
    #[verifier::external_body] pub fn advance(&mut self, n: usize) -> (r: Result<(), CborError>)
        ensures old(self).rem().len() > 0 && old(self).rem()[0] is Bytes && n == 1 + len_sz(old(self).rem()[0]->Bytes_0.len())
                    ==> r is Ok && final(self).rem() == seq![Tok::Payload(old(self).rem()[0]->Bytes_0)] + old(self).rem().skip(1),
                old(self).rem().len() > 0 && old(self).rem()[0] == indef_bytes_start() && n == 1 ==> r is Ok && final(self).rem() == old(self).rem().skip(1),
                old(self).rem().len() > 0 && old(self).rem()[0] is NInt && -0x1_0000_0000_0000_0000 <= old(self).rem()[0]->NInt_0 <= -1 && n == 1 + len_sz((-1 - old(self).rem()[0]->NInt_0) as nat)
                    ==> r is Ok && final(self).rem() == old(self).rem().skip(1) { unimplemented!() }
    /// `as_mut_ref().by_ref().take(len).read_to_end(&mut out)` (R-readexact): appends the next `len` raw bytes
    #[verifier::external_body] pub fn read_raw(&mut self, len: u64, out: &mut Vec<u8>) -> (r: Result<usize, CborError>)
        ensures old(self).rem().len() > 0 && old(self).rem()[0] is Payload && len == old(self).rem()[0]->Payload_0.len()
                    ==> r is Ok && final(out)@ == old(out)@ + old(self).rem()[0]->Payload_0 && final(self).rem() == old(self).rem().skip(1) { unimplemented!() }
    #[verifier::external_body] pub fn array(&mut self) -> (r: Result<cbor_event::Len, CborError>)
        ensures old(self).rem().len() > 0 && old(self).rem()[0] is Arr ==> r is Ok && r->Ok_0 == cbor_event::Len::Len(old(self).rem()[0]->Arr_0) && final(self).rem() == old(self).rem().skip(1),
                old(self).rem().len() > 0 && old(self).rem()[0] is ArrIndef ==> r is Ok && r->Ok_0 is Indefinite && final(self).rem() == old(self).rem().skip(1),
                r is Ok ==> old(self).rem().len() > 0 && (old(self).rem()[0] is Arr || old(self).rem()[0] is ArrIndef) { unimplemented!() }
    #[verifier::external_body] pub fn map(&mut self) -> (r: Result<cbor_event::Len, CborError>)
        ensures old(self).rem().len() > 0 && old(self).rem()[0] is Map ==> r is Ok && r->Ok_0 == cbor_event::Len::Len(old(self).rem()[0]->Map_0) && final(self).rem() == old(self).rem().skip(1),
                old(self).rem().len() > 0 && old(self).rem()[0] is MapIndef ==> r is Ok && r->Ok_0 is Indefinite && final(self).rem() == old(self).rem().skip(1),
                r is Ok ==> old(self).rem().len() > 0 && (old(self).rem()[0] is Map || old(self).rem()[0] is MapIndef) { unimplemented!() }
    #[verifier::external_body] pub fn text(&mut self) -> (r: Result<String, CborError>)
        ensures r is Ok ==> old(self).rem().len() > 0 && old(self).rem()[0] is Text && final(self).rem() == old(self).rem().skip(1) { unimplemented!() }
    #[verifier::external_body] pub fn tag(&mut self) -> (r: Result<u64, CborError>)
        ensures old(self).rem().len() > 0 && old(self).rem()[0] is Tag ==> r is Ok && r->Ok_0 == old(self).rem()[0]->Tag_0 && final(self).rem() == old(self).rem().skip(1),
                // a typed token that is not a tag: an error, nothing consumed (cbor_event checks the type before it reads)
                old(self).rem().len() > 0 && typed(old(self).rem()[0]) && !(old(self).rem()[0] is Tag) ==> r is Err && final(self).rem() == old(self).rem() { unimplemented!() }
    #[verifier::external_body] pub fn unsigned_integer(&mut self) -> (r: Result<u64, CborError>)
        ensures old(self).rem().len() > 0 && old(self).rem()[0] is UInt ==> r is Ok && r->Ok_0 == old(self).rem()[0]->UInt_0 && final(self).rem() == old(self).rem().skip(1),
                r is Ok ==> old(self).rem().len() > 0 && old(self).rem()[0] is UInt     // cbor_event rejects any other type
    { unimplemented!() }
    /// cbor_event's own nint reader returns an i64: exact for -2^63 ..= -1, nothing is promised below that (the library's read_nint exists for this reason)
    #[verifier::external_body] pub fn negative_integer(&mut self) -> (r: Result<i64, CborError>)
        ensures old(self).rem().len() > 0 && old(self).rem()[0] is NInt && -0x8000_0000_0000_0000 <= old(self).rem()[0]->NInt_0 <= -1 ==> r is Ok && r->Ok_0 == old(self).rem()[0]->NInt_0 && final(self).rem() == old(self).rem().skip(1),
                r is Ok ==> old(self).rem().len() > 0 && old(self).rem()[0] is NInt { unimplemented!() }
    #[verifier::external_body] pub fn special(&mut self) -> (r: Result<CBORSpecial, CborError>)
        ensures old(self).rem().len() > 0 && old(self).rem()[0] is Special ==> r is Ok && r->Ok_0 == old(self).rem()[0]->Special_0 && final(self).rem() == old(self).rem().skip(1),
                r is Ok ==> old(self).rem().len() > 0 && old(self).rem()[0] is Special { unimplemented!() }
}
// the library's error type: only Ok/Err-ness matters; conversions as in error.rs
pub enum Key { Str(String), Uint(u64), OptUint(Option<u64>) }
pub enum DeserializeFailure {
    OutOfRange { min: usize, max: usize, found: usize }, EndingBreakMissing, CBOR(CborError), CustomError(String),
    TagMismatch { found: u64, expected: u64 }, FixedValueMismatch { found: Key, expected: Key }, ExpectedNull, NoVariantMatched, Other,
    DuplicateKey(Key), UnknownKey(Key), BreakInDefiniteLen, MandatoryFieldMissing(Key), UnexpectedKeyType(CBORType),
    BadAddressType(u8), DefiniteLenMismatch(u64, Option<u64>), ExpectedBool, FixedValuesMismatch { found: Key, expected: Vec<Key> }, Metadata(JsError),
    VariableLenNatDecodeFailed, IoError(String),
}
#[verifier::external_body] pub struct DeserializeError { _p: core::marker::PhantomData<u8> }
impl DeserializeError {
    #[verifier::external_body] pub fn new(location: &str, failure: DeserializeFailure) -> DeserializeError { unimplemented!() }
    #[verifier::external_body] pub fn annotate(self, location: &str) -> DeserializeError { unimplemented!() }
}
impl From<CborError> for DeserializeError { #[verifier::external_body] fn from(e: CborError) -> (r: DeserializeError) { unimplemented!() } }
impl From<DeserializeFailure> for DeserializeError { #[verifier::external_body] fn from(e: DeserializeFailure) -> (r: DeserializeError) { unimplemented!() } }
impl vstd::std_specs::convert::FromSpecImpl<CborError> for DeserializeError { open spec fn obeys_from_spec() -> bool { false } uninterp spec fn from_spec(e: CborError) -> DeserializeError; }
impl vstd::std_specs::convert::FromSpecImpl<DeserializeFailure> for DeserializeError { open spec fn obeys_from_spec() -> bool { false } uninterp spec fn from_spec(e: DeserializeFailure) -> DeserializeError; }

// ---- decoders as functions on the token stream ------------------------------------------------------------------------------------
/// `Deserialize`: `dec(rem)` = (value, number of tokens consumed) for token streams the decoder is GUARANTEED to accept at their head
/// (completeness direction only: what else it may accept is not said, so these contracts carry "decode . encode = id", not strictness)
pub trait De: Sized {
    spec fn dec(rem: Seq<Tok>) -> Option<(Self, int)>;
    fn deserialize(raw: &mut Deserializer) -> (r: Result<Self, DeserializeError>)
        ensures Self::dec(old(raw).rem()) is Some ==> r is Ok && r->Ok_0 == Self::dec(old(raw).rem())->Some_0.0
                    && 0 <= Self::dec(old(raw).rem())->Some_0.1 <= old(raw).rem().len()
                    && final(raw).rem() == old(raw).rem().skip(Self::dec(old(raw).rem())->Some_0.1);
    /// what is accepted starts with a typed token that is not a `special` (no ledger item is encoded as null / bool / break), so
    /// "is the next token a break?" is decidable in front of any item
    proof fn lemma_dec_head(rem: Seq<Tok>)
        requires Self::dec(rem) is Some
        ensures rem.len() > 0, typed(rem[0]), !(rem[0] is Special);
}
/// `x / null` fields: traits.rs `impl<T: Deserialize> DeserializeNullable for T`
pub open spec fn dec_nullable<T: De>(rem: Seq<Tok>) -> Option<(Option<T>, int)> {
    if rem.len() > 0 && rem[0] == Tok::Special(CBORSpecial::Null) { Some((None, 1)) }
    else if rem.len() > 0 && typed(rem[0]) && !(rem[0] is Special) { match T::dec(rem) { Some((x, n)) => Some((Some(x), n)), None => None } }
    else { None }
}
pub trait DeserializeNullable: De {
    fn deserialize_nullable(raw: &mut Deserializer) -> (r: Result<Option<Self>, DeserializeError>)
        ensures dec_nullable::<Self>(old(raw).rem()) is Some ==> r is Ok && r->Ok_0 == dec_nullable::<Self>(old(raw).rem())->Some_0.0
                    && 0 <= dec_nullable::<Self>(old(raw).rem())->Some_0.1 <= old(raw).rem().len()
                    && final(raw).rem() == old(raw).rem().skip(dec_nullable::<Self>(old(raw).rem())->Some_0.1);
}
/// encoder and decoder of a type are inverse on the token stream, whatever follows (C01 for that type)
pub trait RoundTrip: Ser + De {
    proof fn lemma_rt(x: Self, rest: Seq<Tok>)
        ensures Self::dec(x.enc() + rest) == Some((x, x.enc().len() as int));
}
/// a type whose own decoder is not under contract in this unit: `dec` uninterpreted, round trip ASSUMED (listed per type)
macro_rules! de_opaque { ($($n:ident),* $(,)?) => { verus!{ $(
    impl De for $n {
        uninterp spec fn dec(rem: Seq<Tok>) -> Option<(Self, int)>;
        #[verifier::external_body] fn deserialize(raw: &mut Deserializer) -> (r: Result<Self, DeserializeError>) { unimplemented!() }
        #[verifier::external_body] proof fn lemma_dec_head(rem: Seq<Tok>) { }
    }
    impl RoundTrip for $n {
        #[verifier::external_body] proof fn lemma_rt(x: Self, rest: Seq<Tok>) { }
    }
)* } } }
