// Declarations shared by all units: the error type is opaque (only Ok/Err-ness matters to any property).
#[verifier::external_body]
pub struct JsError { _p: core::marker::PhantomData<u8> }
impl JsError {
    #[verifier::external_body]
    pub fn from_str(s: &str) -> JsError { unimplemented!() }
}
