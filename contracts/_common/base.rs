// Declarations shared by all units: the error type is opaque (only Ok/Err-ness matters to any property).
#[verifier::external_body]
pub struct JsError { _p: core::marker::PhantomData<u8> }
impl JsError {
    #[verifier::external_body]
    pub fn from_str(s: &str) -> JsError { unimplemented!() }
}
impl core::fmt::Debug for JsError { #[verifier::external_body] fn fmt(&self, f: &mut core::fmt::Formatter<'_>) -> core::fmt::Result { unimplemented!() } }

/// sequence of references to the elements of a sequence (what a slice iterator yields)
pub open spec fn refs<'a, T>(s: Seq<T>) -> Seq<&'a T> { s.map_values(|x: T| &x) }

/// opaque stand-in for a type whose content no obligation of the unit looks at; it still serializes (uninterpreted bytes)
macro_rules! opaque_types { ($($n:ident),* $(,)?) => { verus!{ $(
    #[verifier::external_body] pub struct $n { _p: core::marker::PhantomData<u8> }
    impl $n {
        pub uninterp spec fn bytes_of(&self) -> Seq<u8>;
        #[verifier::external_body] pub fn to_bytes(&self) -> (r: Vec<u8>) ensures r@ == self.bytes_of() { unimplemented!() }
    }
)* } } }

// std combinators that vstd does not specify in this build (definitions of the std library, ASSUMED)
pub assume_specification<T, E> [Result::<T, E>::unwrap_or] (r: Result<T, E>, d: T) -> (x: T)
    ensures r is Ok ==> x == r->Ok_0, r is Err ==> x == d;

pub assume_specification<T> [Option::<Option<T>>::flatten] (o: Option<Option<T>>) -> (x: Option<T>)
    ensures o is None ==> x is None, o is Some ==> x == o->Some_0;
pub assume_specification<T, E> [Option::<Result<T, E>>::transpose] (o: Option<Result<T, E>>) -> (r: Result<Option<T>, E>)
    ensures o is None ==> r == Ok::<Option<T>, E>(None),
            o is Some && o->Some_0 is Ok ==> r == Ok::<Option<T>, E>(Some(o->Some_0->Ok_0)),
            o is Some && o->Some_0 is Err ==> r is Err;

macro_rules! clone_eq { ($($n:ident),* $(,)?) => { verus!{ $( impl Clone for $n { #[verifier::external_body] fn clone(&self) -> (r: Self) ensures r == *self { unimplemented!() } } )* } } }
