// Declarations shared by all units: the error type is opaque (only Ok/Err-ness matters to any property).
#[verifier::external_body]
pub struct JsError { _p: core::marker::PhantomData<u8> }
impl JsError {
    #[verifier::external_body]
    pub fn from_str(s: &str) -> JsError { unimplemented!() }
}

/// sequence of references to the elements of a sequence (what a slice iterator yields)
pub open spec fn refs<'a, T>(s: Seq<T>) -> Seq<&'a T> { s.map_values(|x: T| &x) }
