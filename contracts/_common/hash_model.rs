// ---------------------------------------------------------------------------------------------------------
// std::collections::{HashSet, HashMap} (a DEPENDENCY: contracts ASSUMED): a finite set / map; iterating visits every element exactly
// once, in an order that is a function of the collection's value and otherwise unknown (`order()`).
// (vstd's own HashSet / HashMap specs are used where no iteration is involved; its iterator specs could not be driven here.)
// ---------------------------------------------------------------------------------------------------------
#[verifier::external_body] #[verifier::reject_recursive_types(T)]
pub struct HashSet<T> { _p: core::marker::PhantomData<T> }
impl<T> View for HashSet<T> { type V = Set<T>; uninterp spec fn view(&self) -> Set<T>; }
impl<T> HashSet<T> {
    pub uninterp spec fn order(&self) -> Seq<T>;
    #[verifier::external_body] pub proof fn lemma_order(&self)
        ensures self.order().no_duplicates(), self.order().to_set() == self@, self@.finite(), self@.len() == self.order().len() { }
    #[verifier::external_body] pub fn new() -> (r: Self) ensures r@ == Set::<T>::empty() { unimplemented!() }
    #[verifier::external_body] pub fn len(&self) -> (r: usize) ensures r == self@.len(), r == self.order().len() { unimplemented!() }
    #[verifier::external_body] pub fn is_empty(&self) -> (r: bool) ensures r == (self@.len() == 0), r == (self.order().len() == 0) { unimplemented!() }
    #[verifier::external_body] pub fn contains(&self, x: &T) -> (r: bool) ensures r == self@.contains(*x) { unimplemented!() }
    #[verifier::external_body] pub fn insert(&mut self, x: T) -> (r: bool) ensures final(self)@ == old(self)@.insert(x), r == !old(self)@.contains(x) { unimplemented!() }
    #[verifier::external_body] pub fn remove(&mut self, x: &T) -> (r: bool) ensures final(self)@ == old(self)@.remove(*x), r == old(self)@.contains(*x) { unimplemented!() }
    #[verifier::external_body] pub fn iter(&self) -> (r: core::slice::Iter<'_, T>)
        ensures r.remaining() == refs(self.order()), r.obeys_prophetic_iter_laws(), r.decrease() is Some { unimplemented!() }
}
#[verifier::external_body] #[verifier::reject_recursive_types(K)] #[verifier::reject_recursive_types(V)]
pub struct HashMap<K, V> { _p: core::marker::PhantomData<(K, V)> }
impl<K, V> View for HashMap<K, V> { type V = Map<K, V>; uninterp spec fn view(&self) -> Map<K, V>; }
impl<K, V> HashMap<K, V> {
    pub uninterp spec fn order(&self) -> Seq<(K, V)>;
    /// the entries in iteration order: every key once, with its value
    #[verifier::external_body] pub proof fn lemma_order(&self)
        ensures self@.dom().finite(), self@.dom().len() == self.order().len(),
                forall|i: int, j: int| 0 <= i < j < self.order().len() ==> self.order()[i].0 != self.order()[j].0,
                forall|i: int| 0 <= i < self.order().len() ==> self@.contains_key(#[trigger] self.order()[i].0) && self@[self.order()[i].0] == self.order()[i].1,
                forall|k: K| self@.contains_key(k) ==> exists|i: int| 0 <= i < self.order().len() && #[trigger] self.order()[i].0 == k { }
    #[verifier::external_body] pub fn new() -> (r: Self) ensures r@ == Map::<K, V>::empty() { unimplemented!() }
    #[verifier::external_body] pub fn len(&self) -> (r: usize) ensures r == self@.dom().len(), r == self.order().len() { unimplemented!() }
    #[verifier::external_body] pub fn is_empty(&self) -> (r: bool) ensures r == (self.order().len() == 0) { unimplemented!() }
    #[verifier::external_body] pub fn contains_key(&self, k: &K) -> (r: bool) ensures r == self@.contains_key(*k) { unimplemented!() }
    #[verifier::external_body] pub fn get(&self, k: &K) -> (r: Option<&V>)
        ensures r is Some <==> self@.contains_key(*k), r is Some ==> *r->Some_0 == self@[*k] { unimplemented!() }
    #[verifier::external_body] pub fn insert(&mut self, k: K, v: V) -> (r: Option<V>)
        ensures final(self)@ == old(self)@.insert(k, v), r is Some <==> old(self)@.contains_key(k), r is Some ==> r->Some_0 == old(self)@[k] { unimplemented!() }
    #[verifier::external_body] pub fn iter(&self) -> (r: core::slice::Iter<'_, (K, V)>)
        ensures r.remaining() == refs(self.order()), r.obeys_prophetic_iter_laws(), r.decrease() is Some { unimplemented!() }
}
