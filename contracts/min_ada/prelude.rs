pub type Coin = BigNum;
#[verifier::external_body] pub struct Address { _p: core::marker::PhantomData<u8> }
#[verifier::external_body] pub struct MultiAsset { _p: core::marker::PhantomData<u8> }
#[verifier::external_body] pub struct DataOption { _p: core::marker::PhantomData<u8> }
#[verifier::external_body] pub struct ScriptRef { _p: core::marker::PhantomData<u8> }
#[verifier::external_body] pub struct CborContainerType { _p: core::marker::PhantomData<u8> }

/// length of the shortest CBOR unsigned-integer head (cross-checked against the real cbor_event by Kani: kani:lib_level:bignum_cbor_roundtrip)
pub open spec fn uint_len(c: u64) -> nat {
    if c <= 23 { 1 } else if c < 0x100 { 2 } else if c < 0x10000 { 3 } else if c < 0x1_0000_0000 { 5 } else { 9 }
}
