pub type Coin = BigNum;
#[verifier::external_body] pub struct Address { _p: core::marker::PhantomData<u8> }
#[verifier::external_body] pub struct MultiAsset { _p: core::marker::PhantomData<u8> }
#[verifier::external_body] pub struct ScriptRef { _p: core::marker::PhantomData<u8> }
#[verifier::external_body] pub struct CborContainerType { _p: core::marker::PhantomData<u8> }

/// length of the shortest CBOR unsigned-integer head (cross-checked against the real cbor_event by Kani: kani:lib_level:bignum_cbor_roundtrip)
pub open spec fn uint_len(c: u64) -> nat {
    if c <= 23 { 1 } else if c < 0x100 { 2 } else if c < 0x10000 { 3 } else if c < 0x1_0000_0000 { 5 } else { 9 }
}

// ---- output builder (min-coin helper) ----
#[verifier::external_body] pub struct DataHash { _p: core::marker::PhantomData<u8> }
#[verifier::external_body] pub struct PlutusData { _p: core::marker::PhantomData<u8> }
clone_eq!(Address, MultiAsset, DataHash, PlutusData, ScriptRef, Value, TransactionOutputAmountBuilder);
/// the fixed 57-byte base address / 1 ADA output the calculator starts from (`create_fake_output`: parses a literal bech32 string)
pub uninterp spec fn fake_output() -> TransactionOutput;
impl MinOutputAdaCalculator {
    #[verifier::external_body] pub fn create_fake_output() -> (r: Result<TransactionOutput, JsError>)
        ensures r is Ok ==> r->Ok_0 == fake_output(), fake_output().plutus_data is None, fake_output().script_ref is None, fake_output().serialization_format is None { unimplemented!() }
}
/// utils.rs hash_plutus_data (unit script_hash): a function of the datum
pub uninterp spec fn data_hash_of(d: PlutusData) -> DataHash;
#[verifier::external_body] pub fn hash_plutus_data(plutus_data: &PlutusData) -> (r: DataHash) ensures r == data_hash_of(*plutus_data) { unimplemented!() }
