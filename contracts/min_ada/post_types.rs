// ASSUMED LAW (the one assumption of this unit): the serialized output is everything-but-the-coin plus the coin written once
// as a shortest-form CBOR uint.  Cross-checked on real serializer shapes by Kani (kani:utils:output_size_law_*).
pub uninterp spec fn base_len(a: &Address, ma: &Option<MultiAsset>, d: &Option<DataOption>, s: &Option<ScriptRef>, f: &Option<CborContainerType>) -> nat;
pub open spec fn ser_len(o: &TransactionOutput) -> nat {
    base_len(&o.address, &o.amount.multiasset, &o.plutus_data, &o.script_ref, &o.serialization_format) + uint_len(o.amount.coin.0)
}
impl TransactionOutput {
    #[verifier::external_body]
    pub fn to_bytes(&self) -> (r: Vec<u8>) ensures r.len() == ser_len(self) { unimplemented!() }
}
impl Clone for TransactionOutput { #[verifier::external_body] fn clone(&self) -> (r: Self) ensures r == *self { unimplemented!() } }
impl Clone for DataCost { #[verifier::external_body] fn clone(&self) -> (r: Self) ensures r == *self { unimplemented!() } }

pub open spec fn with_coin(o: TransactionOutput, c: u64) -> TransactionOutput {
    TransactionOutput { amount: Value { coin: BigNum(c), ..o.amount }, ..o }
}
/// the bound of property C07 for an output whose coin field holds c
pub open spec fn req(o: TransactionOutput, cpb: u64, c: u64) -> int { (ser_len(&with_coin(o, c)) + 160) * cpb }
pub open spec fn maxu(a: u64, b: u64) -> u64 { if a > b { a } else { b } }
pub proof fn lemma_req_mono(o: TransactionOutput, cpb: u64, c1: u64, c2: u64)
    requires c1 <= c2
    ensures req(o, cpb, c1) <= req(o, cpb, c2)
{
    let s1 = ser_len(&with_coin(o, c1)); let s2 = ser_len(&with_coin(o, c2));
    assert(uint_len(c1) <= uint_len(c2));
    assert(s1 <= s2);
    assert((s1 + 160) * cpb <= (s2 + 160) * cpb) by(nonlinear_arith) requires s1 <= s2, cpb >= 0;
}
pub open spec fn inv(o: TransactionOutput, cpb: u64, cur: u64) -> bool {
    let c0 = o.amount.coin.0;
    cur == c0 || (cur > c0 && cur <= req(o, cpb, cur) && c0 < req(o, cpb, c0))
}
/// C07, first sentence: c = result, m = max(c, current coin):  m >= cpb*(160+size(out[coin:=m]))  and  c <= bound at the widest coin
pub open spec fn min_ada_post(o: TransactionOutput, cpb: u64, c: u64) -> bool {
    &&& maxu(c, o.amount.coin.0) >= req(o, cpb, maxu(c, o.amount.coin.0))
    &&& c <= req(o, cpb, u64::MAX)
}

/// the output `TransactionOutputAmountBuilder::build` produces from a builder whose amount is set
pub open spec fn built_output(b: TransactionOutputAmountBuilder) -> TransactionOutput {
    TransactionOutput { address: b.address, amount: b.amount->Some_0, plutus_data: b.data, script_ref: b.script_ref, serialization_format: None }
}
