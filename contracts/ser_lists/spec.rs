impl PlutusList {
    #[verifier::external_body] pub fn deduplicated_view(&self) -> (r: Vec<&PlutusData>) ensures r@ == refs(dedup_seq(self.elems@)) { unimplemented!() }
}
/// plutus list: definite array iff the list says so, or (by default) iff it is empty; otherwise indefinite array closed by break
pub open spec fn list_definite(l: PlutusList) -> bool { match l.definite_encoding { Some(d) => d, None => l.elems@.len() == 0 } }
pub open spec fn list_enc(l: PlutusList) -> Seq<Tok> {
    if list_definite(l) { seq![Tok::Arr(l.elems@.len() as u64)] + flat(l.elems@) } else { seq![Tok::ArrIndef] + flat(l.elems@) + seq![Tok::Special(CBORSpecial::Break)] }
}
/// the same as a tagged set (#6.258), optionally writing only first occurrences: the declared length must then be THEIR number
pub open spec fn list_set_enc(l: PlutusList, dedup: bool) -> Seq<Tok> {
    let items = if dedup { dedup_seq(l.elems@) } else { l.elems@ };
    if list_definite(l) { seq![Tok::Tag(258), Tok::Arr(items.len() as u64)] + flat(items) } else { seq![Tok::Tag(258), Tok::ArrIndef] + flat(items) + seq![Tok::Special(CBORSpecial::Break)] }
}
pub proof fn lemma_flat_refs<T: Ser>(s: Seq<T>, r: Seq<&T>, i: int) requires r == refs(s), 0 <= i < s.len() ensures *r[i] == s[i] { }
/// Plutus constructor application, CDDL `constr<a>`: alternatives 0..6 -> tags 121..127, 7..127 -> tags 1280..1400, anything else the
/// general form #6.102([alternative, fields])
pub open spec fn compact_tag_of(alt: u64) -> Option<u64> {
    if alt <= 6 { Some((121 + alt) as u64) } else if alt <= 127 { Some((1280 + (alt - 7)) as u64) } else { None }
}
pub open spec fn constr_enc(c: ConstrPlutusData) -> Seq<Tok> {
    match compact_tag_of(c.alternative.0) {
        Some(t) => seq![Tok::Tag(t)] + list_enc(c.data),
        None => seq![Tok::Tag(102), Tok::Arr(2), Tok::UInt(c.alternative.0)] + list_enc(c.data),
    }
}
