impl PlutusList {
    #[verifier::external_body] pub fn deduplicated_view(&self) -> (r: Vec<&PlutusData>) ensures r@ == refs(dedup_seq(self.elems@)) { unimplemented!() }
}
/// plutus list: definite array iff the list says so, or (by default) iff it is empty; otherwise indefinite array closed by break
pub open spec fn list_definite(l: PlutusList) -> bool { match l.definite_encoding { Some(d) => d, None => l.elems@.len() == 0 } }
pub open spec fn list_enc(l: PlutusList) -> Seq<Tok> {
    if list_definite(l) { seq![Tok::Arr(l.elems@.len() as u64)] + flat(l.elems@) } else { seq![Tok::ArrIndef] + flat(l.elems@) + seq![Tok::Special(CBORSpecial::Break)] }
}
/// the same as a tagged set (#6.258), optionally writing only first occurrences: the declared length must then be THEIR number
pub open spec fn list_set_enc(l: PlutusList, dedup: bool) -> Seq<Tok> {
    let items = if dedup { dedup_seq(l.elems@) } else { l.elems@ };
    if list_definite(l) { seq![Tok::Tag(258), Tok::Arr(items.len() as u64)] + flat(items) } else { seq![Tok::Tag(258), Tok::ArrIndef] + flat(items) + seq![Tok::Special(CBORSpecial::Break)] }
}
pub proof fn lemma_flat_refs<T: Ser>(s: Seq<T>, r: Seq<&T>, i: int) requires r == refs(s), 0 <= i < s.len() ensures *r[i] == s[i] { }
/// Plutus constructor application, CDDL `constr<a>`: alternatives 0..6 -> tags 121..127, 7..127 -> tags 1280..1400, anything else the
/// general form #6.102([alternative, fields])
pub open spec fn compact_tag_of(alt: u64) -> Option<u64> {
    if alt <= 6 { Some((121 + alt) as u64) } else if alt <= 127 { Some((1280 + (alt - 7)) as u64) } else { None }
}
pub open spec fn constr_enc(c: ConstrPlutusData) -> Seq<Tok> {
    match compact_tag_of(c.alternative.0) {
        Some(t) => seq![Tok::Tag(t)] + list_enc(c.data),
        None => seq![Tok::Tag(102), Tok::Arr(2), Tok::UInt(c.alternative.0)] + list_enc(c.data),
    }
}
impl NativeScripts {
    /// first occurrences in order (proved in unit dedup_plutus_list)
    #[verifier::external_body] pub fn deduplicated_view(&self) -> (r: Vec<&NativeScript>) ensures r@ == refs(dedup_seq(self.scripts@)) { unimplemented!() }
}
/// native script lists: a plain definite array on their own; in the witness set a tagged set (#6.258) whose declared length is the number
/// of scripts actually written (all of them, or the first occurrences)
pub open spec fn nscripts_set_enc(l: NativeScripts, dedup: bool) -> Seq<Tok> {
    let items = if dedup { dedup_seq(l.scripts@) } else { l.scripts@ };
    seq![Tok::Tag(258), Tok::Arr(items.len() as u64)] + flat(items)
}
/// the scripts of one language version, in order; and their first occurrences (PlutusScripts::view / deduplicated_view(Some(v)): filter
/// loops, the de-duplication itself is proved in unit dedup_plutus_list; ASSUMED here)
pub open spec fn of_lang(s: Seq<PlutusScript>, v: Language) -> Seq<PlutusScript> { s.filter(|x: PlutusScript| x.lang() == v) }
impl PlutusScripts {
    #[verifier::external_body] pub fn view(&self, version: &Language) -> (r: Vec<&PlutusScript>) ensures r@ == refs(of_lang(self.scripts@, *version)) { unimplemented!() }
    #[verifier::external_body] pub fn deduplicated_view(&self, version: Option<&Language>) -> (r: Vec<&PlutusScript>)
        ensures version is Some ==> r@ == refs(dedup_seq(of_lang(self.scripts@, *version->Some_0))), version is None ==> r@ == refs(dedup_seq(self.scripts@)) { unimplemented!() }
}
/// plutus_v1_script set of the witness set (key 3 / 6 / 7): #6.258([* script]) over the scripts of that version, declared length = scripts written
pub open spec fn pscripts_set_enc(l: PlutusScripts, dedup: bool, v: Language) -> Seq<Tok> {
    let items = if dedup { dedup_seq(of_lang(l.scripts@, v)) } else { of_lang(l.scripts@, v) };
    seq![Tok::Tag(258), Tok::Arr(items.len() as u64)] + flat(items)
}
