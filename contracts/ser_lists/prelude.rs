ser_coll!(PlutusData, NativeScript, PlutusScript);
#[verifier::external_body] pub struct Language { _p: core::marker::PhantomData<u8> }
#[verifier::external_body] pub struct LangSetTypes { _p: core::marker::PhantomData<u8> }
impl PlutusScript { pub uninterp spec fn lang(&self) -> Language; }
pub enum CborSetType { Tagged, Untagged }
pub open spec fn flat<T: Ser>(s: Seq<T>) -> Seq<Tok> decreases s.len() { if s.len() == 0 { Seq::empty() } else { flat(s.drop_last()) + s.last().enc() } }
pub proof fn lemma_flat_step<T: Ser>(s: Seq<T>, i: int) requires 0 <= i < s.len() ensures flat(s.take(i + 1)) == flat(s.take(i)) + s[i].enc()
{ assert(s.take(i + 1).drop_last() =~= s.take(i)); }
/// first occurrences, in order (what deduplicated_view() yields); only its length and elements are used here
pub uninterp spec fn dedup_seq<T>(s: Seq<T>) -> Seq<T>;
impl vstd::std_specs::convert::FromSpecImpl<BigNum> for u64 {
    open spec fn obeys_from_spec() -> bool { true }
    open spec fn from_spec(v: BigNum) -> u64 { v.0 }
}
