// ---- native scripts of every script source: each sub-builder reports the inline native scripts its witnesses carry (their own collectors are
// under contract in unit source_signers / native_signers); here only what they return matters
opaque_types!(NativeScript);
#[verifier::external_body] pub struct NativeScripts { _p: core::marker::PhantomData<u8> }
impl NativeScripts {
    pub uninterp spec fn items(&self) -> Seq<NativeScript>;
    pub open spec fn set(&self) -> Set<NativeScript> { self.items().to_set() }
    #[verifier::external_body] pub fn new() -> (r: Self) ensures r.items().len() == 0 { unimplemented!() }
    #[verifier::external_body] pub fn len(&self) -> (r: usize) ensures r == self.items().len() { unimplemented!() }
    /// add keeps one copy of every script (unit dedup_native_scripts)
    #[verifier::external_body] pub fn add(&mut self, elem: &NativeScript)
        ensures final(self).set() == old(self).set().insert(*elem), old(self).items().contains(*elem) ==> final(self).items() == old(self).items(),
                !old(self).items().contains(*elem) ==> final(self).items() == old(self).items().push(*elem) { unimplemented!() }
    #[verifier::external_body] pub fn iter(&self) -> (r: core::slice::Iter<'_, NativeScript>)
        ensures r.remaining() == refs(self.items()), r.obeys_prophetic_iter_laws(), r.decrease() is Some { unimplemented!() }
}
impl TxInputsBuilder {
    pub uninterp spec fn native_opt(&self) -> Option<NativeScripts>;
    #[verifier::external_body] pub fn get_native_input_scripts(&self) -> (r: Option<NativeScripts>) ensures r == self.native_opt() { unimplemented!() }
}
macro_rules! native_source { ($($t:ident),*) => { verus!{ $(
    impl $t {
        pub uninterp spec fn native(&self) -> NativeScripts;
        #[verifier::external_body] pub fn get_native_scripts(&self) -> (r: NativeScripts) ensures r == self.native() { unimplemented!() }
    }
)* } } }
native_source!(MintBuilder, WithdrawalsBuilder, CertificatesBuilder, VotingBuilder);
pub mod fees { pub use super::LinearFee; }
