pub open spec fn oset(o: Option<NativeScripts>) -> Set<NativeScript> { match o { Some(n) => n.set(), None => Set::empty() } }
pub open spec fn bset<T>(o: Option<T>, f: spec_fn(T) -> NativeScripts) -> Set<NativeScript> { match o { Some(b) => f(b).set(), None => Set::empty() } }
/// inline native scripts of every source: inputs, collateral, mint, certificates, withdrawals, votes
pub open spec fn nat_srcs(tb: TransactionBuilder) -> Set<NativeScript> {
    oset(tb.inputs.native_opt()) + oset(tb.collateral.native_opt()) + bset(tb.mint, |b: MintBuilder| b.native()) + bset(tb.certs, |b: CertificatesBuilder| b.native())
        + bset(tb.withdrawals, |b: WithdrawalsBuilder| b.native()) + bset(tb.voting_procedures, |b: VotingBuilder| b.native())
}
pub proof fn lemma_take_set_ns(r: Seq<NativeScript>, i: int) requires 0 <= i < r.len() ensures r.take(i + 1).to_set() =~= r.take(i).to_set().insert(r[i])
{
    let a = r.take(i + 1); let b = r.take(i);
    assert forall|x: NativeScript| a.to_set().contains(x) <==> b.to_set().contains(x) || x == r[i] by {
        if a.contains(x) { let j = choose|j: int| 0 <= j < a.len() && a[j] == x; if j < i { assert(b[j] == x); } }
        if b.contains(x) { let j = choose|j: int| 0 <= j < b.len() && b[j] == x; assert(a[j] == x); }
        if x == r[i] { assert(a[i] == x); }
    }
}
