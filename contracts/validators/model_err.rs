// `Display::to_string` of the error type (text of an error message: not modelled; only that the call returns)
impl DeserializeError { #[verifier::external_body] pub fn to_string(&self) -> (r: String) { unimplemented!() } }
