// `Display::to_string` of the error type (text of an error message: not modelled; only that the call returns)
impl DeserializeError { #[verifier::external_body] pub fn to_string(&self) -> (r: String) { unimplemented!() } }

/// `<&[u8] as TryInto<[u8; N]>>::try_into` for N = 4 / 16 (std, ASSUMED; R-opcall): Ok exactly when the slice has N elements; the array then holds them in order
pub struct TryFromSliceError_ { pub u: u8 }
#[verifier::external_body] pub fn slice_to_array4_(s: &[u8]) -> (r: Result<[u8; 4], TryFromSliceError_>)
    ensures r is Ok <==> s@.len() == 4, r is Ok ==> r->Ok_0@ == s@ { unimplemented!() }
#[verifier::external_body] pub fn slice_to_array16_(s: &[u8]) -> (r: Result<[u8; 16], TryFromSliceError_>)
    ensures r is Ok <==> s@.len() == 16, r is Ok ==> r->Ok_0@ == s@ { unimplemented!() }
