pub enum DeserializeFailure {
    OutOfRange { min: usize, max: usize, found: usize },
    DefiniteLenMismatch(u64, Option<u64>),
    CBOR(CborError),
    Other,
}
#[verifier::external_body] pub struct DeserializeError { _p: core::marker::PhantomData<u8> }
impl DeserializeError {
    #[verifier::external_body] pub fn new(location: &str, failure: DeserializeFailure) -> DeserializeError { unimplemented!() }
}
/// String::len: number of UTF-8 bytes (uninterpreted; the property's size bounds on text are byte bounds, as the CBOR text head counts bytes)
pub uninterp spec fn byte_len(s: String) -> nat;
pub assume_specification [ String::len ] (s: &String) -> (r: usize) ensures r == byte_len(*s);
opaque_types!(MetadataMap, MetadataList, Int);

/// `s.chars().count()` (R-charcount; not on the unchanged tree: the surface a length check might be edited to use): chars, not bytes - at most the byte length
pub uninterp spec fn char_count(s: String) -> nat;
#[verifier::external_body] pub fn str_char_count_(s: &String) -> (r: usize) ensures r == char_count(*s), char_count(*s) <= byte_len(*s) { unimplemented!() }
