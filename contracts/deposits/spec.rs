impl Value {
    #[verifier::external_body] pub fn new(coin: &Coin) -> (r: Value) ensures r.coin == *coin, r.multiasset is None { unimplemented!() }
}
impl Clone for VotingProposal { #[verifier::external_body] fn clone(&self) -> (r: Self) ensures r == *self { unimplemented!() } }

// ===== the ledger's tables (written from the property statement / Conway ledger rules, not from the code) ===============
/// deposit charged for one certificate: stake / DRep / combined registrations with their explicit or parameter-based
/// amount, pool registration counted as a first registration; nothing else
pub open spec fn ledger_deposit(c: Certificate, pool_dep: BigNum, key_dep: BigNum) -> nat {
    match c.0 {
        CertificateEnum::StakeRegistration(x) => (match x.coin { Some(k) => k.0, None => key_dep.0 }) as nat,
        CertificateEnum::PoolRegistration(_) => pool_dep.0 as nat,
        CertificateEnum::DRepRegistration(x) => x.coin.0 as nat,
        CertificateEnum::StakeRegistrationAndDelegation(x) => x.coin.0 as nat,
        CertificateEnum::VoteRegistrationAndDelegation(x) => x.coin.0 as nat,
        CertificateEnum::StakeVoteRegistrationAndDelegation(x) => x.coin.0 as nat,
        _ => 0,
    }
}
/// refund paid inside the transaction: stake and DRep deregistrations only (a pool's deposit is returned at the epoch
/// boundary to the reward account, not as an input of the retiring transaction)
pub open spec fn ledger_refund(c: Certificate, key_dep: BigNum) -> nat {
    match c.0 {
        CertificateEnum::StakeDeregistration(x) => (match x.coin { Some(k) => k.0, None => key_dep.0 }) as nat,
        CertificateEnum::DRepDeregistration(x) => x.coin.0 as nat,
        _ => 0,
    }
}
pub open spec fn sum_deposit(s: Seq<Certificate>, p: BigNum, k: BigNum) -> nat decreases s.len() {
    if s.len() == 0 { 0 } else { sum_deposit(s.drop_last(), p, k) + ledger_deposit(s.last(), p, k) }
}
pub open spec fn sum_refund(s: Seq<Certificate>, k: BigNum) -> nat decreases s.len() {
    if s.len() == 0 { 0 } else { sum_refund(s.drop_last(), k) + ledger_refund(s.last(), k) }
}
pub open spec fn sum_bn(s: Seq<BigNum>) -> nat decreases s.len() { if s.len() == 0 { 0 } else { sum_bn(s.drop_last()) + s.last().0 as nat } }

pub proof fn lemma_dep_step(s: Seq<Certificate>, i: int, p: BigNum, k: BigNum)
    requires 0 <= i < s.len()
    ensures sum_deposit(s.take(i + 1), p, k) == sum_deposit(s.take(i), p, k) + ledger_deposit(s[i], p, k),
            sum_refund(s.take(i + 1), k) == sum_refund(s.take(i), k) + ledger_refund(s[i], k)
{ assert(s.take(i + 1).drop_last() =~= s.take(i)); }
pub proof fn lemma_dep_mono(s: Seq<Certificate>, i: int, p: BigNum, k: BigNum)
    requires 0 <= i <= s.len()
    ensures sum_deposit(s.take(i), p, k) <= sum_deposit(s, p, k), sum_refund(s.take(i), k) <= sum_refund(s, k)
    decreases s.len() - i
{ if i < s.len() { lemma_dep_mono(s, i + 1, p, k); lemma_dep_step(s, i, p, k); } else { assert(s.take(i) =~= s); } }
pub proof fn lemma_bn_step(s: Seq<BigNum>, i: int)
    requires 0 <= i < s.len()
    ensures sum_bn(s.take(i + 1)) == sum_bn(s.take(i)) + s[i].0
{ assert(s.take(i + 1).drop_last() =~= s.take(i)); }
pub proof fn lemma_bn_mono(s: Seq<BigNum>, i: int)
    requires 0 <= i <= s.len()
    ensures sum_bn(s.take(i)) <= sum_bn(s)
    decreases s.len() - i
{ if i < s.len() { lemma_bn_mono(s, i + 1); lemma_bn_step(s, i); } else { assert(s.take(i) =~= s); } }

// ===== views =================================================================================================================
/// certificates of a builder in insertion order (= the order they are written into the body)
pub open spec fn builder_certs(b: CertificatesBuilder) -> Seq<Certificate> { b.certs@.map_values(|e: (Certificate, Option<ScriptWitnessType>)| e.0) }
pub open spec fn body_certs(c: Certificates) -> Seq<Certificate> { c.certs@.map_values(|r: Rc<Certificate>| *r) }
pub open spec fn builder_withdrawals(b: WithdrawalsBuilder) -> Seq<BigNum> { b.withdrawals@.map_values(|e: (RewardAddress, (Coin, Option<ScriptWitnessType>))| e.1.0) }
pub open spec fn proposal_deposits(p: VotingProposals) -> Seq<BigNum> { p.proposals@.map_values(|r: Rc<VotingProposal>| r.deposit) }
impl VotingProposals {
    #[verifier::external_body] pub fn len(&self) -> (r: usize) ensures r == self.proposals@.len() { unimplemented!() }
    #[verifier::external_body] pub fn get(&self, index: usize) -> (r: VotingProposal) requires index < self.proposals@.len() ensures r == *self.proposals@[index as int] { unimplemented!() }
}
