use std::rc::Rc;
pub type Coin = BigNum;
opaque_types!(Credential, Anchor, Ed25519KeyHash, DRep, StakeDelegation, PoolRegistration, PoolRetirement, GenesisKeyDelegation,
    MoveInstantaneousRewardsCert, CommitteeHotAuth, CommitteeColdResign, DRepUpdate, StakeAndVoteDelegation, VoteDelegation,
    ScriptWitnessType, RewardAddress, CborSetType, DedupIndex, GovernanceAction, MultiAsset,
    TransactionInputs, TransactionOutputs, Update, AuxiliaryDataHash, Mint, ScriptDataHash, Ed25519KeyHashes, NetworkId, TransactionOutput, VotingProcedures);
pub type SlotBigNum = BigNum;

/// hashlink::LinkedHashMap as far as the deposit code uses it: iteration (`values()`, `&map`) visits entries in insertion order.
/// Modelled by the sequence of its entries (ASSUMED: a dependency).
pub struct LinkedHashMap<K, V> { pub entries: Vec<(K, V)> }
impl<K, V> LinkedHashMap<K, V> {
    pub open spec fn vals(&self) -> Seq<V> { self.entries@.map_values(|e: (K, V)| e.1) }
    #[verifier::external_body] pub fn values(&self) -> (r: core::slice::Iter<'_, V>)
        ensures r.remaining() == refs(self.vals()), r.obeys_prophetic_iter_laws(), r.decrease() is Some { unimplemented!() }
}
