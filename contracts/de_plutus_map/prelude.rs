// ---- PlutusMap decoder at byte level (C04): every key and every value of the decoded map is what PlutusData's OWN decoder returned at some position of
// the input - the decoder that captures the item's original bytes (ser_plutus / de_witness_set) - never a datum re-assembled without them.
deb_opaque!(PlutusDataEnum);
/// (the real shape of PlutusData: the datum and the bytes it was decoded from)
pub struct PlutusData { pub datum: PlutusDataEnum, pub original_bytes: Option<Vec<u8>> }
impl DeB for PlutusData {
    uninterp spec fn decb(buf: Seq<u8>, p: nat) -> Option<(Self, nat)>;
    #[verifier::external_body] fn deserialize(raw: &mut Deserializer) -> (r: Result<Self, DeserializeError>) { unimplemented!() }
}
/// a successfully decoded datum occupies at least one byte (ASSUMED: every CBOR item has an initial byte)
#[verifier::external_body] pub broadcast proof fn ax_datum_progress(buf: Seq<u8>, p: nat)
    requires (#[trigger] PlutusData::decb(buf, p)) is Some ensures PlutusData::decb(buf, p)->Some_0.1 > p { }
/// PlutusMap (a LinkedHashMap<PlutusData, PlutusMapValues>; its Entry-API insert is not under contract): the sequence of (key, value) pairs added
#[verifier::external_body] pub struct PlutusMap { _p: core::marker::PhantomData<u8> }
impl PlutusMap {
    pub uninterp spec fn added(&self) -> Seq<(PlutusData, PlutusData)>;
    #[verifier::external_body] pub fn new() -> (r: Self) ensures r.added().len() == 0 { unimplemented!() }
    #[verifier::external_body] pub fn add_value_move(&mut self, key: PlutusData, value: PlutusData) ensures final(self).added() == old(self).added().push((key, value)) { unimplemented!() }
}
/// serialization/utils.rs is_break_tag at byte level: reads nothing or the break byte; never moves backwards
#[verifier::external_body] pub fn is_break_tag(raw: &mut Deserializer, location: &str) -> (r: Result<bool, DeserializeError>)
    requires old(raw).wf() ensures frame(*old(raw), *final(raw)) { unimplemented!() }
impl DeserializeError { }
