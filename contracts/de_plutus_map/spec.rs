/// v is what PlutusData's own decoder yields somewhere in buf
pub open spec fn from_dec(buf: Seq<u8>, v: PlutusData) -> bool { exists|a: nat| (#[trigger] PlutusData::decb(buf, a)) is Some && PlutusData::decb(buf, a)->Some_0.0 == v }
pub proof fn lemma_from_dec(buf: Seq<u8>, a: nat, v: PlutusData) requires PlutusData::decb(buf, a) is Some, PlutusData::decb(buf, a)->Some_0.0 == v ensures from_dec(buf, v) { }
pub open spec fn all_from_dec(buf: Seq<u8>, s: Seq<(PlutusData, PlutusData)>) -> bool { forall|i: int| 0 <= i < s.len() ==> from_dec(buf, (#[trigger] s[i]).0) && from_dec(buf, s[i].1) }
