use std::rc::Rc;
use std::collections::{HashSet, BTreeSet};
pub type Coin = BigNum;
pub type RequiredSigners = Ed25519KeyHashes;
pub type Epoch = u32;
// element type: an opaque token with the derived structural traits (ASSUMED: the real derives are structural)
#[derive(PartialEq, Eq, Hash, PartialOrd, Ord)]
pub struct Ed25519KeyHash(pub u64);
impl Clone for Ed25519KeyHash { #[verifier::external_body] fn clone(&self) -> (r: Ed25519KeyHash) ensures r == *self { unimplemented!() } }
#[derive(Clone)]
pub enum CborSetType { Tagged, Untagged }
opaque_types!(ScriptHash, Anchor, DRep, MoveInstantaneousRewardsCert, VRFKeyHash, GenesisHash, VotesOfVoter);
clone_eq!(Credential);
// certificates whose fields the signer table reaches only through accessors (ASSUMED accessor contracts: plain field reads)
#[verifier::external_body] pub struct PoolParams { _p: core::marker::PhantomData<u8> }
impl PoolParams {
    pub uninterp spec fn owners(&self) -> Ed25519KeyHashes;
    pub uninterp spec fn op(&self) -> Ed25519KeyHash;
    #[verifier::external_body] pub fn pool_owners(&self) -> (r: Ed25519KeyHashes) ensures r == self.owners(), r.wf() { unimplemented!() }
    #[verifier::external_body] pub fn operator(&self) -> (r: Ed25519KeyHash) ensures r == self.op() { unimplemented!() }
}
#[verifier::external_body] pub struct PoolRegistration { _p: core::marker::PhantomData<u8> }
impl PoolRegistration {
    pub uninterp spec fn params(&self) -> PoolParams;
    #[verifier::external_body] pub fn pool_params(&self) -> (r: PoolParams) ensures r == self.params() { unimplemented!() }
}
#[verifier::external_body] pub struct GenesisDelegateHash { _p: core::marker::PhantomData<u8> }
impl GenesisDelegateHash {
    pub uninterp spec fn bytes(&self) -> Seq<u8>;
    #[verifier::external_body] pub fn to_bytes(&self) -> (r: Vec<u8>) ensures r@ == self.bytes(), r@.len() == 28 { unimplemented!() }
}
#[verifier::external_body] pub struct GenesisKeyDelegation { _p: core::marker::PhantomData<u8> }
pub uninterp spec fn kh_of(b: Seq<u8>) -> Ed25519KeyHash;
impl GenesisKeyDelegation {
    /// the key hash the code names for this (pre-Conway, genesis-only) certificate: the genesis DELEGATE hash re-read as a key hash.
    /// NOT taken from the ledger (which names the genesis key); one key either way.  Scope note in DESIGN 13.
    pub uninterp spec fn named_key(&self) -> Ed25519KeyHash;
    #[verifier::external_body] pub fn genesis_delegate_hash(&self) -> (r: GenesisDelegateHash) ensures kh_of(r.bytes()) == self.named_key() { unimplemented!() }
}
impl Ed25519KeyHash {
    // impl_hash_type!: from_bytes accepts exactly BYTE_COUNT = 28 bytes
    #[verifier::external_body] pub fn from_bytes(bytes: Vec<u8>) -> (r: Result<Ed25519KeyHash, JsError>) ensures bytes@.len() == 28 ==> r is Ok && r->Ok_0 == kh_of(bytes@) { unimplemented!() }
}
// script sources are REAL types (unit.toml); their payloads are opaque
opaque_types!(NativeScript, PlutusScript, PlutusData, Redeemer, Language, TransactionInput);
clone_eq!(TransactionInput);
/// signers a native script itself names (From<&NativeScript> for Ed25519KeyHashes; not under contract here)
pub uninterp spec fn ns_signers(s: NativeScript) -> Ed25519KeyHashes;
impl<'a> From<&'a NativeScript> for Ed25519KeyHashes {
    #[verifier::external_body] fn from(s: &'a NativeScript) -> (r: Ed25519KeyHashes) ensures r == ns_signers(*s) { unimplemented!() }
}
impl<'a> vstd::std_specs::convert::FromSpecImpl<&'a NativeScript> for Ed25519KeyHashes {
    open spec fn obeys_from_spec() -> bool { true }
    open spec fn from_spec(s: &'a NativeScript) -> Ed25519KeyHashes { ns_signers(*s) }
}
#[verifier::external_body] pub struct TransactionInputs { _p: core::marker::PhantomData<u8> }
impl TransactionInputs {
    /// the sequence this set was built from (from_vec de-duplicates it keeping first occurrences: unit dedup_tx_inputs)
    pub uninterp spec fn src(&self) -> Seq<TransactionInput>;
    #[verifier::external_body] pub fn from_vec(inputs_vec: Vec<TransactionInput>) -> (r: TransactionInputs) ensures r.src() == inputs_vec@ { unimplemented!() }
}
#[verifier::external_body] pub struct RewardAddress { _p: core::marker::PhantomData<u8> }
impl RewardAddress {
    pub uninterp spec fn cred(&self) -> Credential;
    #[verifier::external_body] pub fn payment_cred(&self) -> (r: Credential) ensures r == self.cred() { unimplemented!() }
}

/// hashlink::LinkedHashMap as far as these functions use it: `values()` visits the values in insertion order (ASSUMED: a dependency)
pub struct LinkedHashMap<K, V> { pub entries: Vec<(K, V)> }
impl<K, V> LinkedHashMap<K, V> {
    pub open spec fn vals(&self) -> Seq<V> { self.entries@.map_values(|e: (K, V)| e.1) }
    #[verifier::external_body] pub fn values(&self) -> (r: core::slice::Iter<'_, V>)
        ensures r.remaining() == refs(self.vals()), r.obeys_prophetic_iter_laws(), r.decrease() is Some { unimplemented!() }
}
opaque_types!(InputsMap, BootstrapSet, TxBuilderInput);

// Plutus language of a script source (C09)
clone_eq!(Language, PlutusScript);
impl PlutusScript {
    pub uninterp spec fn lang(&self) -> Language;
    #[verifier::external_body] pub fn language_version(&self) -> (r: Language) ensures r == self.lang() { unimplemented!() }
}
impl vstd::std_specs::cmp::OrdSpecImpl for Language { uninterp spec fn obeys_cmp_spec() -> bool; uninterp spec fn cmp_spec(&self, o: &Language) -> core::cmp::Ordering; }
impl vstd::std_specs::cmp::PartialOrdSpecImpl for Language { uninterp spec fn obeys_partial_cmp_spec() -> bool; uninterp spec fn partial_cmp_spec(&self, o: &Language) -> Option<core::cmp::Ordering>; }
impl PartialEq for Language { #[verifier::external_body] fn eq(&self, o: &Language) -> bool { unimplemented!() } }
impl Eq for Language {}
impl PartialOrd for Language { #[verifier::external_body] fn partial_cmp(&self, o: &Language) -> Option<core::cmp::Ordering> { unimplemented!() } }
impl Ord for Language { #[verifier::external_body] fn cmp(&self, o: &Language) -> core::cmp::Ordering { unimplemented!() } }

impl InputsMap {
    /// the outpoint is registered, and registered as a script input (the Option<ScriptHash> stored with it is Some)
    pub uninterp spec fn scripted(&self, k: TransactionInput) -> bool;
    /// BTreeMap::get on the input map, as far as this unit looks at the result: whether a script hash is stored with the input
    #[verifier::external_body] pub fn get(&self, k: &TransactionInput) -> (r: Option<&(TxBuilderInput, Option<ScriptHash>)>)
        ensures (r is Some && r->Some_0.1 is Some) == self.scripted(*k) { unimplemented!() }
}
