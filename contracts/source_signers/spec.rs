// ---- C18: per-source tables of the keys that must sign (ledger: witsVKeyNeeded / getVKeyWitnessConwayTxCert) -----------------------
pub open spec fn kset(h: Ed25519KeyHash) -> Set<Rc<Ed25519KeyHash>> { set![Rc::new(h)] }
pub open spec fn cred_key(c: Credential) -> Set<Rc<Ed25519KeyHash>> { match c.0 { CredType::Key(h) => kset(h), CredType::Script(_) => Set::empty() } }
/// signers a script use declares: the caller's explicit list if given; for an inline native script otherwise the keys the script names
pub open spec fn native_src_signers(s: NativeScriptSourceEnum) -> Option<Ed25519KeyHashes> {
    match s {
        NativeScriptSourceEnum::NativeScript(script, rs) => match rs { Some(k) => Some(k), None => Some(ns_signers(script)) },
        NativeScriptSourceEnum::RefInput(_, _, rs, _) => rs,
    }
}
pub open spec fn plutus_src_signers(s: PlutusScriptSourceEnum) -> Option<Ed25519KeyHashes> {
    match s { PlutusScriptSourceEnum::Script(_, rs) => rs, PlutusScriptSourceEnum::RefInput(_, rs) => rs }
}
pub open spec fn wit_signers(w: ScriptWitnessType) -> Option<Ed25519KeyHashes> {
    match w { ScriptWitnessType::NativeScriptWitness(s) => native_src_signers(s), ScriptWitnessType::PlutusScriptWitness(s) => plutus_src_signers(s.script) }
}
/// every signer list a stored witness carries is a well-formed de-duplicated collection (type invariant of Ed25519KeyHashes, unit dedup_keyhashes)
pub open spec fn wit_wf(o: Option<ScriptWitnessType>) -> bool {
    match o { Some(w) => match wit_signers(w) { Some(k) => k.wf(), None => true }, None => true }
}
/// C18: the reference inputs a script use needs among the body's reference inputs: the input holding its script when the script is
/// supplied by reference (native or Plutus), and the input holding its datum when the datum is supplied by reference
pub open spec fn script_ref_of(w: ScriptWitnessType) -> Option<TransactionInput> {
    match w {
        ScriptWitnessType::NativeScriptWitness(NativeScriptSourceEnum::RefInput(i, _, _, _)) => Some(i),
        ScriptWitnessType::PlutusScriptWitness(pw) => match pw.script { PlutusScriptSourceEnum::RefInput(r, _) => Some(r.input_ref), _ => None },
        _ => None,
    }
}
pub open spec fn datum_ref_of(w: ScriptWitnessType) -> Option<TransactionInput> {
    match w { ScriptWitnessType::PlutusScriptWitness(pw) => match pw.datum { Some(DatumSourceEnum::RefInput(i)) => Some(i), _ => None }, _ => None }
}
pub open spec fn opt_seq1<T>(o: Option<T>) -> Seq<T> { match o { Some(x) => seq![x], None => Seq::empty() } }
pub open spec fn wit_refs(o: Option<ScriptWitnessType>) -> Seq<TransactionInput> {
    match o { Some(w) => opt_seq1(script_ref_of(w)) + opt_seq1(datum_ref_of(w)), None => Seq::empty() }
}
pub open spec fn certs_refs(s: Seq<(Certificate, Option<ScriptWitnessType>)>) -> Seq<TransactionInput> decreases s.len() {
    if s.len() == 0 { Seq::empty() } else { certs_refs(s.drop_last()) + wit_refs(s.last().1) }
}
pub proof fn lemma_certs_refs_step(s: Seq<(Certificate, Option<ScriptWitnessType>)>, i: int)
    requires 0 <= i < s.len() ensures certs_refs(s.take(i + 1)) == certs_refs(s.take(i)) + wit_refs(s[i].1)
{ assert(s.take(i + 1).drop_last() =~= s.take(i)); }
pub open spec fn wds_refs(s: Seq<(RewardAddress, (Coin, Option<ScriptWitnessType>))>) -> Seq<TransactionInput> decreases s.len() {
    if s.len() == 0 { Seq::empty() } else { wds_refs(s.drop_last()) + wit_refs(s.last().1.1) }
}
pub proof fn lemma_wds_refs_step(s: Seq<(RewardAddress, (Coin, Option<ScriptWitnessType>))>, i: int)
    requires 0 <= i < s.len() ensures wds_refs(s.take(i + 1)) == wds_refs(s.take(i)) + wit_refs(s[i].1.1)
{ assert(s.take(i + 1).drop_last() =~= s.take(i)); }
pub open spec fn opt_wit_keys(o: Option<ScriptWitnessType>) -> Set<Rc<Ed25519KeyHash>> {
    match o { Some(w) => match wit_signers(w) { Some(k) => k.keyhashes@.to_set(), None => Set::empty() }, None => Set::empty() }
}
/// certificate authors: a key credential named by the certificate signs it; script credentials do not; a registration signs only in
/// its Conway form (with deposit); a pool registration is signed by the operator and every owner; MIR by nobody the builder knows.
pub open spec fn cert_keys(c: Certificate) -> Set<Rc<Ed25519KeyHash>> {
    match c.0 {
        CertificateEnum::StakeRegistration(x) => if x.coin is Some { cred_key(x.stake_credential) } else { Set::empty() },
        CertificateEnum::StakeDeregistration(x) => cred_key(x.stake_credential),
        CertificateEnum::StakeDelegation(x) => cred_key(x.stake_credential),
        CertificateEnum::PoolRegistration(x) => x.params().owners().keyhashes@.to_set() + kset(x.params().op()),
        CertificateEnum::PoolRetirement(x) => kset(x.pool_keyhash),
        CertificateEnum::GenesisKeyDelegation(x) => kset(x.named_key()),   // as the code names it (see prelude)
        CertificateEnum::MoveInstantaneousRewardsCert(x) => Set::empty(),
        CertificateEnum::CommitteeHotAuth(x) => cred_key(x.committee_cold_credential),
        CertificateEnum::CommitteeColdResign(x) => cred_key(x.committee_cold_credential),
        CertificateEnum::DRepDeregistration(x) => cred_key(x.voting_credential),
        CertificateEnum::DRepRegistration(x) => cred_key(x.voting_credential),
        CertificateEnum::DRepUpdate(x) => cred_key(x.voting_credential),
        CertificateEnum::StakeAndVoteDelegation(x) => cred_key(x.stake_credential),
        CertificateEnum::StakeRegistrationAndDelegation(x) => cred_key(x.stake_credential),
        CertificateEnum::StakeVoteRegistrationAndDelegation(x) => cred_key(x.stake_credential),
        CertificateEnum::VoteDelegation(x) => cred_key(x.stake_credential),
        CertificateEnum::VoteRegistrationAndDelegation(x) => cred_key(x.stake_credential),
    }
}
pub broadcast proof fn lemma_push_set_b<T>(s: Seq<T>, x: T)
    ensures #[trigger] s.push(x).to_set() =~= s.to_set().insert(x)
{
    assert forall|y: T| s.push(x).to_set().contains(y) <==> s.to_set().insert(x).contains(y) by {
        if s.push(x).contains(y) { let i = choose|i: int| 0 <= i < s.push(x).len() && s.push(x)[i] == y; if i < s.len() { assert(s[i] == y); } }
        if s.contains(y) { let i = choose|i: int| 0 <= i < s.len() && s[i] == y; assert(s.push(x)[i] == y); }
        assert(s.push(x)[s.len() as int] == x);
    }
}
pub proof fn lemma_contains_set<T>(s: Seq<T>, x: T)
    requires s.contains(x)
    ensures s.to_set().insert(x) =~= s.to_set()
{ }

pub open spec fn certs_keys(s: Seq<(Certificate, Option<ScriptWitnessType>)>) -> Set<Rc<Ed25519KeyHash>> decreases s.len() {
    if s.len() == 0 { Set::empty() } else { certs_keys(s.drop_last()) + cert_keys(s.last().0) + opt_wit_keys(s.last().1) }
}
pub proof fn lemma_certs_keys_step(s: Seq<(Certificate, Option<ScriptWitnessType>)>, i: int)
    requires 0 <= i < s.len()
    ensures certs_keys(s.take(i + 1)) == certs_keys(s.take(i)) + cert_keys(s[i].0) + opt_wit_keys(s[i].1)
{ assert(s.take(i + 1).drop_last() =~= s.take(i)); }
/// withdrawals: the key of a key-credential reward account signs; a script one brings the signers its witness declares
pub open spec fn wds_keys(s: Seq<(RewardAddress, (Coin, Option<ScriptWitnessType>))>) -> Set<Rc<Ed25519KeyHash>> decreases s.len() {
    if s.len() == 0 { Set::empty() } else { wds_keys(s.drop_last()) + cred_key(s.last().0.cred()) + opt_wit_keys(s.last().1.1) }
}
pub proof fn lemma_wds_keys_step(s: Seq<(RewardAddress, (Coin, Option<ScriptWitnessType>))>, i: int)
    requires 0 <= i < s.len()
    ensures wds_keys(s.take(i + 1)) == wds_keys(s.take(i)) + cred_key(s[i].0.cred()) + opt_wit_keys(s[i].1.1)
{ assert(s.take(i + 1).drop_last() =~= s.take(i)); }

/// votes: a key voter (committee hot key, DRep key, pool key) signs; a script voter brings the signers its witness declares
pub open spec fn voter_key(v: Voter) -> Option<Ed25519KeyHash> {
    match v.0 {
        VoterEnum::ConstitutionalCommitteeHotCred(c) => match c.0 { CredType::Key(h) => Some(h), CredType::Script(_) => None },
        VoterEnum::DRep(c) => match c.0 { CredType::Key(h) => Some(h), CredType::Script(_) => None },
        VoterEnum::StakingPool(h) => Some(h),
    }
}
pub open spec fn votes_keys(s: Seq<(Voter, VoterVotes)>) -> Set<Rc<Ed25519KeyHash>> decreases s.len() {
    if s.len() == 0 { Set::empty() } else {
        votes_keys(s.drop_last()) + (match voter_key(s.last().0) { Some(h) => kset(h), None => Set::empty() }) + opt_wit_keys(s.last().1.script_witness)
    }
}
pub proof fn lemma_votes_keys_step(s: Seq<(Voter, VoterVotes)>, i: int)
    requires 0 <= i < s.len()
    ensures votes_keys(s.take(i + 1)) == votes_keys(s.take(i)) + (match voter_key(s[i].0) { Some(h) => kset(h), None => Set::empty() }) + opt_wit_keys(s[i].1.script_witness)
{ assert(s.take(i + 1).drop_last() =~= s.take(i)); }
pub open spec fn votes_refs(s: Seq<(Voter, VoterVotes)>) -> Seq<TransactionInput> decreases s.len() {
    if s.len() == 0 { Seq::empty() } else { votes_refs(s.drop_last()) + wit_refs(s.last().1.script_witness) }
}
pub proof fn lemma_votes_refs_step(s: Seq<(Voter, VoterVotes)>, i: int)
    requires 0 <= i < s.len() ensures votes_refs(s.take(i + 1)) == votes_refs(s.take(i)) + wit_refs(s[i].1.script_witness)
{ assert(s.take(i + 1).drop_last() =~= s.take(i)); }

/// inputs: the payment keys registered with key inputs, plus the signers every script witness of every script input declares
pub open spec fn inner_keys(s: Seq<Option<ScriptWitnessType>>) -> Set<Rc<Ed25519KeyHash>> decreases s.len() {
    if s.len() == 0 { Set::empty() } else { inner_keys(s.drop_last()) + opt_wit_keys(s.last()) }
}
pub proof fn lemma_inner_keys_step(s: Seq<Option<ScriptWitnessType>>, i: int)
    requires 0 <= i < s.len() ensures inner_keys(s.take(i + 1)) == inner_keys(s.take(i)) + opt_wit_keys(s[i])
{ assert(s.take(i + 1).drop_last() =~= s.take(i)); }
pub open spec fn outer_keys(s: Seq<LinkedHashMap<TransactionInput, Option<ScriptWitnessType>>>) -> Set<Rc<Ed25519KeyHash>> decreases s.len() {
    if s.len() == 0 { Set::empty() } else { outer_keys(s.drop_last()) + inner_keys(s.last().vals()) }
}
pub proof fn lemma_outer_keys_step(s: Seq<LinkedHashMap<TransactionInput, Option<ScriptWitnessType>>>, i: int)
    requires 0 <= i < s.len() ensures outer_keys(s.take(i + 1)) == outer_keys(s.take(i)) + inner_keys(s[i].vals())
{ assert(s.take(i + 1).drop_last() =~= s.take(i)); }
pub open spec fn all_wits_wf(s: Seq<LinkedHashMap<TransactionInput, Option<ScriptWitnessType>>>) -> bool {
    forall|i: int, j: int| 0 <= i < s.len() && 0 <= j < s[i].vals().len() ==> wit_wf(#[trigger] s[i].vals()[j])
}
// ---- Plutus language versions a source brings into the script-integrity hash (C09): the language of EVERY Plutus witness, whether the
// script is attached or referenced
pub open spec fn src_lang(s: PlutusScriptSourceEnum) -> Language {
    match s { PlutusScriptSourceEnum::Script(script, _) => script.lang(), PlutusScriptSourceEnum::RefInput(r, _) => r.language }
}
pub open spec fn wit_langs(w: Option<ScriptWitnessType>) -> Set<Language> {
    match w { Some(ScriptWitnessType::PlutusScriptWitness(s)) => set![src_lang(s.script)], _ => Set::empty() }
}
pub open spec fn certs_langs(s: Seq<(Certificate, Option<ScriptWitnessType>)>) -> Set<Language> decreases s.len() {
    if s.len() == 0 { Set::empty() } else { certs_langs(s.drop_last()) + wit_langs(s.last().1) }
}
pub proof fn lemma_certs_langs_step(s: Seq<(Certificate, Option<ScriptWitnessType>)>, i: int)
    requires 0 <= i < s.len() ensures certs_langs(s.take(i + 1)) == certs_langs(s.take(i)) + wit_langs(s[i].1)
{ assert(s.take(i + 1).drop_last() =~= s.take(i)); }
pub open spec fn wds_langs(s: Seq<(RewardAddress, (Coin, Option<ScriptWitnessType>))>) -> Set<Language> decreases s.len() {
    if s.len() == 0 { Set::empty() } else { wds_langs(s.drop_last()) + wit_langs(s.last().1.1) }
}
pub proof fn lemma_wds_langs_step(s: Seq<(RewardAddress, (Coin, Option<ScriptWitnessType>))>, i: int)
    requires 0 <= i < s.len() ensures wds_langs(s.take(i + 1)) == wds_langs(s.take(i)) + wit_langs(s[i].1.1)
{ assert(s.take(i + 1).drop_last() =~= s.take(i)); }
pub open spec fn votes_langs(s: Seq<(Voter, VoterVotes)>) -> Set<Language> decreases s.len() {
    if s.len() == 0 { Set::empty() } else { votes_langs(s.drop_last()) + wit_langs(s.last().1.script_witness) }
}
pub proof fn lemma_votes_langs_step(s: Seq<(Voter, VoterVotes)>, i: int)
    requires 0 <= i < s.len() ensures votes_langs(s.take(i + 1)) == votes_langs(s.take(i)) + wit_langs(s[i].1.script_witness)
{ assert(s.take(i + 1).drop_last() =~= s.take(i)); }
pub open spec fn inner_langs(s: Seq<Option<ScriptWitnessType>>) -> Set<Language> decreases s.len() {
    if s.len() == 0 { Set::empty() } else { inner_langs(s.drop_last()) + wit_langs(s.last()) }
}
pub proof fn lemma_inner_langs_step(s: Seq<Option<ScriptWitnessType>>, i: int)
    requires 0 <= i < s.len() ensures inner_langs(s.take(i + 1)) == inner_langs(s.take(i)) + wit_langs(s[i])
{ assert(s.take(i + 1).drop_last() =~= s.take(i)); }
pub open spec fn outer_langs(s: Seq<LinkedHashMap<TransactionInput, Option<ScriptWitnessType>>>) -> Set<Language> decreases s.len() {
    if s.len() == 0 { Set::empty() } else { outer_langs(s.drop_last()) + inner_langs(s.last().vals()) }
}
pub proof fn lemma_outer_langs_step(s: Seq<LinkedHashMap<TransactionInput, Option<ScriptWitnessType>>>, i: int)
    requires 0 <= i < s.len() ensures outer_langs(s.take(i + 1)) == outer_langs(s.take(i)) + inner_langs(s[i].vals())
{ assert(s.take(i + 1).drop_last() =~= s.take(i)); }

// ---- C09 (KF-71): the languages IN USE by the inputs are those of the Plutus witnesses whose input is still registered as a script input - the witnesses
// get_plutus_input_scripts emits redeemers for; a witness left behind by an input that was registered again as a key / Byron input does not count
pub open spec fn live_inner_langs(m: InputsMap, s: Seq<(TransactionInput, Option<ScriptWitnessType>)>) -> Set<Language> decreases s.len() {
    if s.len() == 0 { Set::empty() } else { live_inner_langs(m, s.drop_last()) + (if m.scripted(s.last().0) { wit_langs(s.last().1) } else { Set::empty() }) }
}
pub proof fn lemma_live_inner_step(m: InputsMap, s: Seq<(TransactionInput, Option<ScriptWitnessType>)>, i: int)
    requires 0 <= i < s.len() ensures live_inner_langs(m, s.take(i + 1)) == live_inner_langs(m, s.take(i)) + (if m.scripted(s[i].0) { wit_langs(s[i].1) } else { Set::empty() })
{ assert(s.take(i + 1).drop_last() =~= s.take(i)); }
pub open spec fn live_outer_langs(m: InputsMap, s: Seq<LinkedHashMap<TransactionInput, Option<ScriptWitnessType>>>) -> Set<Language> decreases s.len() {
    if s.len() == 0 { Set::empty() } else { live_outer_langs(m, s.drop_last()) + live_inner_langs(m, s.last().entries@) }
}
pub proof fn lemma_live_outer_step(m: InputsMap, s: Seq<LinkedHashMap<TransactionInput, Option<ScriptWitnessType>>>, i: int)
    requires 0 <= i < s.len() ensures live_outer_langs(m, s.take(i + 1)) == live_outer_langs(m, s.take(i)) + live_inner_langs(m, s[i].entries@)
{ assert(s.take(i + 1).drop_last() =~= s.take(i)); }
