use core::cmp::Ordering;
/// lexicographic order of byte strings (what `Vec<u8>::cmp` is documented to compute: ASSUMED for std)
pub open spec fn lex_cmp(a: Seq<u8>, b: Seq<u8>) -> Ordering decreases a.len() {
    if a.len() == 0 && b.len() == 0 { Ordering::Equal }
    else if a.len() == 0 { Ordering::Less }
    else if b.len() == 0 { Ordering::Greater }
    else if a[0] < b[0] { Ordering::Less }
    else if a[0] > b[0] { Ordering::Greater }
    else { lex_cmp(a.subrange(1, a.len() as int), b.subrange(1, b.len() as int)) }
}
/// the Vec<u8> inside AssetName, as far as `cmp` uses it: length and std's lexicographic comparison
#[verifier::external_body] pub struct Bytes { _p: core::marker::PhantomData<u8> }
impl Bytes {
    pub uninterp spec fn view(&self) -> Seq<u8>;
    #[verifier::external_body] pub fn len(&self) -> (r: usize) ensures r == self@.len() { unimplemented!() }
    #[verifier::external_body] pub fn cmp(&self, other: &Bytes) -> (r: Ordering) ensures r == lex_cmp(self@, other@) { unimplemented!() }
}
/// RFC 7049 canonical key order for byte-string keys as the ledger uses it: shorter keys first, equal lengths bytewise.
/// (The encoded key is head(len) ++ bytes; for lengths < 2^32... the head order is the length order.)
pub open spec fn canonical_key_order(a: Seq<u8>, b: Seq<u8>) -> Ordering {
    if a.len() < b.len() { Ordering::Less } else if a.len() > b.len() { Ordering::Greater } else { lex_cmp(a, b) }
}
