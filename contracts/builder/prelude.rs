// ---------------------------------------------------------------------------------------------------------
// builder unit prelude: the sub-builders and ledger types the TransactionBuilder is composed of are opaque here;
// what they contribute to balance / fee / size is exposed through uninterpreted views, and the callee contracts
// relating the real methods to those views are ASSUMED here (those within reach are proved in units
// `deposits`, `min_ada`, `fees` with the same contract text).
// ---------------------------------------------------------------------------------------------------------
opaque_types!(Address, DataHash, PlutusData, ScriptRef, CborContainerType, TransactionInput, TransactionInputs, Certificates, Withdrawals, Update,
    AuxiliaryDataHash, AuxiliaryData, Mint, ScriptDataHash, Ed25519KeyHashes, NetworkId, VotingProcedures, VotingProposals,
    TxInputsBuilder, CertificatesBuilder, WithdrawalsBuilder, MintBuilder, VotingBuilder, VotingProposalBuilder,
    ExUnitPrices, UnitInterval, LinearFee, ReferenceInputsMap, TransactionUnspentOutputs, ChangeConfigRest);
pub type SlotBigNum = BigNum;

clone_eq!(DataHash, PlutusData, ScriptRef, Address, TransactionInput, TransactionInputs, AuxiliaryData, ScriptDataHash, Ed25519KeyHashes, TxInputsBuilder,
    CertificatesBuilder, WithdrawalsBuilder, MintBuilder, VotingBuilder, VotingProposalBuilder, ExUnitPrices, UnitInterval, LinearFee, ReferenceInputsMap);
