// ===== TransactionBuilder: parts left abstract ==================================================================
impl TransactionBuilder {
    pub uninterp spec fn ref_inputs_view(&self) -> TransactionInputs;     // union of the reference-input sources (C16/C18; not decided here)
    pub uninterp spec fn witness_view(&self) -> TransactionWitnessSet;
    pub uninterp spec fn total_ref_size(&self) -> nat;
    #[verifier::external_body] pub fn get_reference_inputs(&self) -> (r: TransactionInputs) ensures r == self.ref_inputs_view() { unimplemented!() }
    #[verifier::external_body] pub fn get_witness_set(&self) -> (r: TransactionWitnessSet) ensures r == self.witness_view() { unimplemented!() }
    #[verifier::external_body] pub fn validate_inputs_intersection(&self) -> (r: Result<(), JsError>) { unimplemented!() }
    #[verifier::external_body] pub fn get_total_ref_scripts_size(&self) -> (r: Result<usize, JsError>) ensures r is Ok ==> r->Ok_0 == self.total_ref_size() { unimplemented!() }
}

