clone_eq!(TransactionBuilderConfigBuilder);
