// in the builder unit the witness set and datum list are opaque (their construction is proved in unit witness_collect)
opaque_types!(TransactionWitnessSet, PlutusList);
clone_eq!(PlutusList);
