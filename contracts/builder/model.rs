// ===== views of the opaque sub-builders =====================================================================
impl TxInputsBuilder {
    /// the stored inputs (one per outpoint, key order) with the amounts the caller supplied
    pub uninterp spec fn items(&self) -> Seq<TxBuilderInput>;
    /// the input set written into the body
    pub uninterp spec fn inputs_view(&self) -> TransactionInputs;
    #[verifier::external_body] pub fn iter(&self) -> (r: core::slice::Iter<'_, TxBuilderInput>)
        ensures r.remaining() == refs(self.items()), r.obeys_prophetic_iter_laws(), r.decrease() is Some { unimplemented!() }
    #[verifier::external_body] pub fn len(&self) -> (r: usize) ensures r == self.items().len() { unimplemented!() }
    #[verifier::external_body] pub fn inputs(&self) -> (r: TransactionInputs) ensures r == self.inputs_view() { unimplemented!() }
    #[verifier::external_body] pub fn inputs_option(&self) -> (r: Option<TransactionInputs>)
        ensures self.items().len() > 0 ==> r == Some(self.inputs_view()), self.items().len() == 0 ==> r is None { unimplemented!() }
    // proved on the real loop in unit tx_inputs (same text)
    #[verifier::external_body] pub fn total_value(&self) -> (r: Result<Value, JsError>)
        ensures r is Ok ==> r->Ok_0.coin.0 == sum_coin(in_amounts(self.items())) && forall|a: AssetId| qty(r->Ok_0, a) == sum_qty(in_amounts(self.items()), a)
    { unimplemented!() }
    #[verifier::external_body] pub fn has_plutus_scripts(&self) -> bool { unimplemented!() }
}
pub open spec fn in_amounts(s: Seq<TxBuilderInput>) -> Seq<Value> { s.map_values(|i: TxBuilderInput| i.amount) }
pub open spec fn out_amounts(s: Seq<TransactionOutput>) -> Seq<Value> { s.map_values(|o: TransactionOutput| o.amount) }
pub open spec fn sum_coin(s: Seq<Value>) -> nat decreases s.len() { if s.len() == 0 { 0 } else { sum_coin(s.drop_last()) + s.last().coin.0 as nat } }
pub open spec fn sum_qty(s: Seq<Value>, a: AssetId) -> nat decreases s.len() { if s.len() == 0 { 0 } else { sum_qty(s.drop_last(), a) + qty(s.last(), a) } }

impl CertificatesBuilder {
    pub uninterp spec fn deposit(&self, pool_deposit: BigNum, key_deposit: BigNum) -> nat;   // = sum of ledger deposits (unit deposits)
    pub uninterp spec fn refund(&self, pool_deposit: BigNum, key_deposit: BigNum) -> nat;    // = sum of ledger refunds (unit deposits)
    pub uninterp spec fn built(&self) -> Certificates;
    #[verifier::external_body] pub fn get_certificates_deposit(&self, pool_deposit: &BigNum, key_deposit: &BigNum) -> (r: Result<Coin, JsError>)
        ensures r is Ok <==> self.deposit(*pool_deposit, *key_deposit) <= u64::MAX, r is Ok ==> r->Ok_0.0 == self.deposit(*pool_deposit, *key_deposit) { unimplemented!() }
    #[verifier::external_body] pub fn get_certificates_refund(&self, pool_deposit: &BigNum, key_deposit: &BigNum) -> (r: Result<Value, JsError>)
        ensures r is Ok <==> self.refund(*pool_deposit, *key_deposit) <= u64::MAX,
                r is Ok ==> r->Ok_0.coin.0 == self.refund(*pool_deposit, *key_deposit) && r->Ok_0.multiasset is None { unimplemented!() }
    #[verifier::external_body] pub fn build(&self) -> (r: Certificates) ensures r == self.built() { unimplemented!() }
    #[verifier::external_body] pub fn has_plutus_scripts(&self) -> bool { unimplemented!() }
}
impl WithdrawalsBuilder {
    pub uninterp spec fn total(&self) -> nat;       // sum of the withdrawal amounts
    pub uninterp spec fn built(&self) -> Withdrawals;
    #[verifier::external_body] pub fn get_total_withdrawals(&self) -> (r: Result<Value, JsError>)
        ensures r is Ok <==> self.total() <= u64::MAX, r is Ok ==> r->Ok_0.coin.0 == self.total() && r->Ok_0.multiasset is None { unimplemented!() }
    #[verifier::external_body] pub fn build(&self) -> (r: Withdrawals) ensures r == self.built() { unimplemented!() }
    #[verifier::external_body] pub fn has_plutus_scripts(&self) -> bool { unimplemented!() }
}
impl VotingProposalBuilder {
    pub uninterp spec fn total_deposit(&self) -> nat;
    pub uninterp spec fn built(&self) -> VotingProposals;
    #[verifier::external_body] pub fn get_total_deposit(&self) -> (r: Result<Coin, JsError>)
        ensures r is Ok <==> self.total_deposit() <= u64::MAX, r is Ok ==> r->Ok_0.0 == self.total_deposit() { unimplemented!() }
    #[verifier::external_body] pub fn build(&self) -> (r: VotingProposals) ensures r == self.built() { unimplemented!() }
    #[verifier::external_body] pub fn has_plutus_scripts(&self) -> bool { unimplemented!() }
}
impl VotingBuilder {
    pub uninterp spec fn built(&self) -> VotingProcedures;
    #[verifier::external_body] pub fn build(&self) -> (r: VotingProcedures) ensures r == self.built() { unimplemented!() }
    #[verifier::external_body] pub fn has_plutus_scripts(&self) -> bool { unimplemented!() }
}
impl Mint {
    /// signed quantity minted (+) or burned (-) per asset in the mint field
    pub uninterp spec fn delta(&self, a: AssetId) -> int;
    #[verifier::external_body] pub fn as_positive_multiasset(&self) -> (r: MultiAsset)
        ensures forall|a: AssetId| ma_qty(r, a) == (if self.delta(a) > 0 { self.delta(a) } else { 0 }) as nat { unimplemented!() }
    #[verifier::external_body] pub fn as_negative_multiasset(&self) -> (r: MultiAsset)
        ensures forall|a: AssetId| ma_qty(r, a) == (if self.delta(a) < 0 { -self.delta(a) } else { 0 }) as nat { unimplemented!() }
}
impl MintBuilder {
    pub uninterp spec fn built(&self) -> Mint;
    #[verifier::external_body] pub fn build_unchecked(&self) -> (r: Mint) ensures r == self.built() { unimplemented!() }
    #[verifier::external_body] pub fn build(&self) -> (r: Result<Mint, JsError>) ensures r is Ok ==> r->Ok_0 == self.built() { unimplemented!() }
    #[verifier::external_body] pub fn has_plutus_scripts(&self) -> bool { unimplemented!() }
}
impl Ed25519KeyHashes {
    pub uninterp spec fn opt_view(&self) -> Option<Ed25519KeyHashes>;
    #[verifier::external_body] pub fn to_option(&self) -> (r: Option<Ed25519KeyHashes>) ensures r == self.opt_view() { unimplemented!() }
}
impl TransactionInputs {
    pub uninterp spec fn opt_view(&self) -> Option<TransactionInputs>;
    #[verifier::external_body] pub fn to_option(&self) -> (r: Option<TransactionInputs>) ensures r == self.opt_view() { unimplemented!() }
}
pub uninterp spec fn h_aux(x: AuxiliaryData) -> AuxiliaryDataHash;   // Blake2b-256 of the serialized auxiliary data (unit script_hash)
pub mod utils {
    use super::*;
    #[verifier::external_body] pub fn hash_auxiliary_data(x: &AuxiliaryData) -> (r: AuxiliaryDataHash) ensures r == h_aux(*x) { unimplemented!() }
}
impl Clone for TransactionOutputs { #[verifier::external_body] fn clone(&self) -> (r: Self) ensures r == *self { unimplemented!() } }
impl Clone for TransactionOutput { #[verifier::external_body] fn clone(&self) -> (r: Self) ensures r == *self { unimplemented!() } }
impl Clone for DataCost { #[verifier::external_body] fn clone(&self) -> (r: Self) ensures r == *self { unimplemented!() } }
impl Clone for TransactionBuilder { #[verifier::external_body] fn clone(&self) -> (r: Self) ensures r == *self { unimplemented!() } }
impl Clone for TransactionBuilderConfig { #[verifier::external_body] fn clone(&self) -> (r: Self) ensures r == *self { unimplemented!() } }
impl Clone for TxBuilderFee { #[verifier::external_body] fn clone(&self) -> (r: Self) ensures r == *self { unimplemented!() } }


// ===== sizes, min-ADA, fees (callees of the guards) ===========================================================
pub uninterp spec fn value_size(v: Value) -> nat;                      // serialized size of a Value
pub uninterp spec fn spec_min_ada(o: TransactionOutput, d: DataCost) -> nat;   // = result of min_ada_for_output, characterised in unit min_ada
impl Value { #[verifier::external_body] pub fn to_bytes(&self) -> (r: Vec<u8>) ensures r.len() == value_size(*self) { unimplemented!() } }
#[verifier::external_body] pub fn min_ada_for_output(o: &TransactionOutput, d: &DataCost) -> (r: Result<BigNum, JsError>)
    ensures r is Ok ==> r->Ok_0.0 == spec_min_ada(*o, *d) { unimplemented!() }

/// the transaction `fake_full_tx` assembles for a builder: body + placeholder witnesses of the size the real ones will have
pub uninterp spec fn fake_tx_of(b: TransactionBuilder, body: TransactionBody) -> Transaction;
pub uninterp spec fn tx_size(tx: Transaction) -> nat;
#[verifier::external_body] pub fn fake_full_tx(tx_builder: &TransactionBuilder, body: TransactionBody) -> (r: Result<Transaction, JsError>)
    ensures r is Ok ==> r->Ok_0 == fake_tx_of(*tx_builder, body) && r->Ok_0.body == body && r->Ok_0.auxiliary_data == tx_builder.auxiliary_data { unimplemented!() }
impl Transaction { #[verifier::external_body] pub fn to_bytes(&self) -> (r: Vec<u8>) ensures r.len() == tx_size(*self) { unimplemented!() } }
pub mod fees {
    use super::*;
    pub use super::LinearFee;
    pub uninterp spec fn lin_fee(tx: Transaction, f: LinearFee) -> nat;           // constant + coefficient * size        (unit fees)
    pub uninterp spec fn script_fee(tx: Transaction, p: ExUnitPrices) -> nat;     // ceil(ex-unit cost of all redeemers)   (unit fees)
    #[verifier::external_body] pub fn min_fee(tx: &Transaction, linear_fee: &LinearFee) -> (r: Result<Coin, JsError>)
        ensures r is Ok ==> r->Ok_0.0 == lin_fee(*tx, *linear_fee) { unimplemented!() }
    #[verifier::external_body] pub fn min_script_fee(tx: &Transaction, p: &ExUnitPrices) -> (r: Result<Coin, JsError>)
        ensures r is Ok ==> r->Ok_0.0 == script_fee(*tx, *p) { unimplemented!() }
}
pub uninterp spec fn ref_fee(size: nat, p: UnitInterval) -> nat;                    // tiered reference-script fee           (unit fees)
#[verifier::external_body] pub fn min_ref_script_fee(total_ref_scripts_size: usize, p: &UnitInterval) -> (r: Result<Coin, JsError>)
    ensures r is Ok ==> r->Ok_0.0 == ref_fee(total_ref_scripts_size as nat, *p) { unimplemented!() }
impl TransactionBody {
    pub uninterp spec fn bytes_of(&self) -> Seq<u8>;
    #[verifier::external_body] pub fn to_bytes(&self) -> (r: Vec<u8>) ensures r@ == self.bytes_of() { unimplemented!() }
}
impl TransactionOutput {
    pub uninterp spec fn bytes_of(&self) -> Seq<u8>;
    #[verifier::external_body] pub fn to_bytes(&self) -> (r: Vec<u8>) ensures r@ == self.bytes_of() { unimplemented!() }
}

// ===== specification of what the builder is supposed to compute ==================================================
pub open spec fn fee_if_set(b: TransactionBuilder) -> Option<BigNum> {
    match b.fee {
        Some(f) => Some(f),
        None => match b.fee_request { TxBuilderFee::Exactly(f) => Some(f), TxBuilderFee::NotLess(f) => Some(f), TxBuilderFee::Unspecified => None },
    }
}
/// fee policy of property C06: caller-fixed fee is used exactly, caller minimum is a lower bound, otherwise the computed fee
pub open spec fn policy_fee(req: TxBuilderFee, computed: BigNum) -> BigNum {
    match req {
        TxBuilderFee::Unspecified => computed,
        TxBuilderFee::NotLess(m) => if computed.0 < m.0 { m } else { computed },
        TxBuilderFee::Exactly(f) => f,
    }
}
pub open spec fn opt_map_certs(o: Option<CertificatesBuilder>) -> Option<Certificates> { match o { Some(x) => Some(x.built()), None => None } }
pub open spec fn body_of(b: TransactionBuilder) -> TransactionBody {
    TransactionBody {
        inputs: b.inputs.inputs_view(),
        outputs: b.outputs,
        fee: fee_if_set(b)->Some_0,
        ttl: b.ttl,
        certs: match b.certs { Some(x) => Some(x.built()), None => None },
        withdrawals: match b.withdrawals { Some(x) => Some(x.built()), None => None },
        update: None,
        auxiliary_data_hash: match b.auxiliary_data { Some(x) => Some(h_aux(x)), None => None },
        validity_start_interval: b.validity_start_interval,
        mint: match b.mint { Some(x) => Some(x.built()), None => None },
        script_data_hash: b.script_data_hash,
        collateral: if b.collateral.items().len() > 0 { Some(b.collateral.inputs_view()) } else { None },
        required_signers: b.required_signers.opt_view(),
        network_id: None,
        collateral_return: b.collateral_return,
        total_collateral: b.total_collateral,
        reference_inputs: b.ref_inputs_view().opt_view(),
        voting_procedures: match b.voting_procedures { Some(x) => Some(x.built()), None => None },
        voting_proposals: match b.voting_proposals { Some(x) => Some(x.built()), None => None },
        donation: b.donation,
        current_treasury_value: b.current_treasury_value,
    }
}
pub open spec fn fake_tx(b: TransactionBuilder) -> Transaction { fake_tx_of(b, body_of(b)) }
/// ledger minimum fee of the builder's (placeholder-witnessed) transaction: linear + script + reference-script parts
pub open spec fn min_fee_spec(b: TransactionBuilder) -> nat {
    fees::lin_fee(fake_tx(b), b.config.fee_algo)
    + (match b.config.ex_unit_prices { Some(p) => fees::script_fee(fake_tx(b), p), None => 0 })
    + (match b.config.ref_script_coins_per_byte { Some(p) => ref_fee(b.total_ref_size(), p), None => 0 })
}

// ---- preservation of value (C05) over the builder's own amounts
pub open spec fn mint_delta(b: TransactionBuilder, a: AssetId) -> int { match b.mint { Some(m) => m.built().delta(a), None => 0 } }
pub open spec fn implicit_in(b: TransactionBuilder) -> nat {
    (match b.withdrawals { Some(w) => w.total(), None => 0 }) + (match b.certs { Some(c) => c.refund(b.config.pool_deposit, b.config.key_deposit), None => 0 })
}
pub open spec fn deposits(b: TransactionBuilder) -> nat {
    (match b.certs { Some(c) => c.deposit(b.config.pool_deposit, b.config.key_deposit), None => 0 }) + (match b.voting_proposals { Some(p) => p.total_deposit(), None => 0 })
}
pub open spec fn donation_of(b: TransactionBuilder) -> nat { match b.donation { Some(d) => d.0 as nat, None => 0 } }
/// the ledger's preservation-of-value rule over the amounts the caller supplied, for lovelace and every asset
pub open spec fn balanced(b: TransactionBuilder, fee: nat) -> bool {
    &&& sum_coin(in_amounts(b.inputs.items())) + implicit_in(b) == sum_coin(out_amounts(b.outputs.0@)) + fee + deposits(b) + donation_of(b)
    &&& forall|a: AssetId| sum_qty(in_amounts(b.inputs.items()), a) + mint_delta(b, a) == sum_qty(out_amounts(b.outputs.0@), a)
}
pub proof fn lemma_sum_take_last(s: Seq<Value>, i: int)
    requires 0 <= i < s.len()
    ensures sum_coin(s.take(i + 1)) == sum_coin(s.take(i)) + s[i].coin.0,
            forall|a: AssetId| sum_qty(s.take(i + 1), a) == sum_qty(s.take(i), a) + qty(s[i], a)
{
    assert(s.take(i + 1).drop_last() =~= s.take(i));
}

// ===== more abstract callees =====================================================================================
impl TransactionOutput {
    #[verifier::external_body] pub fn new(address: &Address, amount: &Value) -> (r: TransactionOutput)
        ensures r.address == *address, r.amount == *amount, r.plutus_data is None, r.script_ref is None { unimplemented!() }
}
impl TransactionBuilder {
    /// (one line delegating to the input builder; the input builder after the call is `with_regular`: unit tx_inputs proves what it stores)
    #[verifier::external_body] pub fn add_regular_input(&mut self, address: &Address, input: &TransactionInput, amount: &Value) -> (r: Result<(), JsError>)
        ensures r is Ok ==> *final(self) == (TransactionBuilder { inputs: old(self).inputs.with_regular(*address, *input, *amount), ..*old(self) }), r is Err ==> *final(self) == *old(self) { unimplemented!() }
    // the balancing routine itself (input selection + change) is NOT under contract: nothing is assumed about what it does to the builder
    // INTERIOR OBLIGATION of its one caller in this unit (add_inputs_from_and_change_with_collateral_return), stated as a precondition of the stand-in (C06):
    // while the fee is being estimated, the placeholder collateral return holds the WHOLE value of the collateral inputs and the placeholder total their whole
    // coin - the largest return / total the final step can set, so the transaction the fee is computed on is not smaller than the final one
    #[verifier::external_body] pub fn add_inputs_from_and_change(&mut self, inputs: &TransactionUnspentOutputs, strategy: CoinSelectionStrategyCIP2, change_config: &ChangeConfig) -> (r: Result<bool, JsError>)
        requires old(self).collateral_return is Some, old(self).total_collateral is Some,
                 old(self).collateral_return->Some_0.amount.coin.0 == sum_coin(in_amounts(old(self).collateral.items())),
                 forall|a: AssetId| qty(old(self).collateral_return->Some_0.amount, a) == sum_qty(in_amounts(old(self).collateral.items()), a),
                 old(self).total_collateral->Some_0.0 == sum_coin(in_amounts(old(self).collateral.items())),
        ensures final(self).collateral == old(self).collateral, final(self).config == old(self).config { unimplemented!() }
}
pub enum CoinSelectionStrategyCIP2 { LargestFirst, RandomImprove, LargestFirstMultiAsset, RandomImproveMultiAsset }
pub struct ChangeConfig { pub address: Address, pub rest: ChangeConfigRest }

// ===== collateral (C19) ===============================================================================================
/// value held by the collateral inputs
pub open spec fn col_coin(b: TransactionBuilder) -> nat { sum_coin(in_amounts(b.collateral.items())) }
pub open spec fn col_qty(b: TransactionBuilder, a: AssetId) -> nat { sum_qty(in_amounts(b.collateral.items()), a) }
pub open spec fn ret_coin(b: TransactionBuilder) -> nat { match b.collateral_return { Some(o) => o.amount.coin.0 as nat, None => 0 } }
pub open spec fn ret_qty(b: TransactionBuilder, a: AssetId) -> nat { match b.collateral_return { Some(o) => qty(o.amount, a), None => 0 } }
/// C19: collateral inputs = collateral return + total collateral, as an equation on whole values (total is pure lovelace)
pub open spec fn collateral_eq(b: TransactionBuilder) -> bool {
    &&& b.total_collateral is Some
    &&& col_coin(b) == ret_coin(b) + b.total_collateral->Some_0.0
    &&& forall|a: AssetId| col_qty(b, a) == ret_qty(b, a)
}

/// MinOutputAdaCalculator's surface (unit min_ada), so that an edit that goes through the calculator instead of min_ada_for_output still
/// reaches the verifier: the calculator computes spec_min_ada of the output IT HOLDS (new_empty: a fixed fake 57-byte base address output)
pub struct MinOutputAdaCalculator { pub output: TransactionOutput, pub data_cost: DataCost }
pub uninterp spec fn fake_calc_output() -> TransactionOutput;
impl MinOutputAdaCalculator {
    #[verifier::external_body] pub fn new(output: &TransactionOutput, data_cost: &DataCost) -> (r: MinOutputAdaCalculator) ensures r.output == *output, r.data_cost == *data_cost { unimplemented!() }
    #[verifier::external_body] pub fn new_empty(data_cost: &DataCost) -> (r: Result<MinOutputAdaCalculator, JsError>) ensures r is Ok ==> r->Ok_0.output == fake_calc_output() && r->Ok_0.data_cost == *data_cost { unimplemented!() }
    #[verifier::external_body] pub fn set_address(&mut self, address: &Address) ensures *final(self) == (MinOutputAdaCalculator { output: TransactionOutput { address: *address, ..old(self).output }, ..*old(self) }) { unimplemented!() }
    #[verifier::external_body] pub fn set_amount(&mut self, amount: &Value) ensures *final(self) == (MinOutputAdaCalculator { output: TransactionOutput { amount: *amount, ..old(self).output }, ..*old(self) }) { unimplemented!() }
    #[verifier::external_body] pub fn calculate_ada(&self) -> (r: Result<BigNum, JsError>) ensures r is Ok ==> r->Ok_0.0 == spec_min_ada(self.output, self.data_cost) { unimplemented!() }
}
pub open spec fn return_within_max_value_size(b: TransactionBuilder) -> bool {
    b.collateral_return is Some ==> value_size(b.collateral_return->Some_0.amount) <= b.config.max_value_size
}
pub open spec fn return_meets_min_ada(b: TransactionBuilder) -> bool {
    b.collateral_return is Some ==> b.collateral_return->Some_0.amount.coin.0 >= spec_min_ada(b.collateral_return->Some_0, b.config.data_cost)
}
pub proof fn lemma_sum_mono(s: Seq<Value>, i: int)
    requires 0 <= i <= s.len()
    ensures sum_coin(s.take(i)) <= sum_coin(s), forall|a: AssetId| sum_qty(s.take(i), a) <= sum_qty(s, a)
    decreases s.len() - i
{
    if i < s.len() {
        lemma_sum_mono(s, i + 1);
        lemma_sum_take_last(s, i);
    } else { assert(s.take(i) =~= s); }
}
impl TxInputsBuilder {
    /// the input builder after a regular input was added
    pub uninterp spec fn with_regular(&self, address: Address, input: TransactionInput, amount: Value) -> TxInputsBuilder;
}

