// ===== the deprecated typed setters (set_withdrawals / set_certs): a FRESH sub-builder filled with exactly the entries given ==================================
opaque_types!(RewardAddressO, CertificateO);
impl Withdrawals {
    /// the (reward account, coin) entries of the map, in its iteration order (`&withdrawals.0`; R-lhm)
    pub uninterp spec fn pairs(&self) -> Seq<(RewardAddressO, Coin)>;
    #[verifier::external_body] pub fn pairs_(&self) -> (r: Vec<(RewardAddressO, Coin)>) ensures r@ == self.pairs() { unimplemented!() }
}
impl Certificates {
    /// the certificates of the collection, in order (`&certs.certs`)
    pub uninterp spec fn items(&self) -> Seq<CertificateO>;
    #[verifier::external_body] pub fn items_(&self) -> (r: Vec<CertificateO>) ensures r@ == self.items() { unimplemented!() }
}
impl WithdrawalsBuilder {
    /// the successful `add` calls this builder was filled by, in order (what `add` does with them: unit deposits / pointers)
    pub uninterp spec fn adds(&self) -> Seq<(RewardAddressO, Coin)>;
    #[verifier::external_body] pub fn new() -> (r: WithdrawalsBuilder) ensures r.adds() == Seq::<(RewardAddressO, Coin)>::empty() { unimplemented!() }
    #[verifier::external_body] pub fn add(&mut self, address: &RewardAddressO, coin: &Coin) -> (r: Result<(), JsError>)
        ensures r is Ok ==> final(self).adds() == old(self).adds().push((*address, *coin)), r is Err ==> *final(self) == *old(self) { unimplemented!() }
}
impl CertificatesBuilder {
    pub uninterp spec fn adds(&self) -> Seq<CertificateO>;
    #[verifier::external_body] pub fn new() -> (r: CertificatesBuilder) ensures r.adds() == Seq::<CertificateO>::empty() { unimplemented!() }
    #[verifier::external_body] pub fn add(&mut self, cert: &CertificateO) -> (r: Result<(), JsError>)
        ensures r is Ok ==> final(self).adds() == old(self).adds().push(*cert), r is Err ==> *final(self) == *old(self) { unimplemented!() }
}

// ===== mint-and-output helpers (C07: "minted-asset outputs" are admitted like every other output) ==============================================================
opaque_types!(NativeScriptO, AssetNameO, PolicyIdO, MintO, MintAssetsO, TransactionOutputAmountBuilder);
#[verifier::external_body] pub struct IntO { _p: core::marker::PhantomData<u8> }
impl IntO { pub uninterp spec fn positive(&self) -> bool; #[verifier::external_body] pub fn is_positive(&self) -> (r: bool) ensures r == self.positive() { unimplemented!() } }
impl NativeScriptO { #[verifier::external_body] pub fn hash(&self) -> (r: PolicyIdO) { unimplemented!() } }
impl MintAssetsO { #[verifier::external_body] pub fn new_from_entry(key: &AssetNameO, value: &IntO) -> (r: Result<MintAssetsO, JsError>) { unimplemented!() } }
impl MintO {
    #[verifier::external_body] pub fn new_from_entry(key: &PolicyIdO, value: &MintAssetsO) -> (r: MintO) { unimplemented!() }
    #[verifier::external_body] pub fn as_positive_multiasset(&self) -> (r: MultiAsset) { unimplemented!() }
}
impl TransactionOutputAmountBuilder {
    // the output builder (its min-coin helper is under contract in unit min_ada; here: opaque - whatever it builds goes through add_output)
    #[verifier::external_body] pub fn with_coin_and_asset(&self, coin: &Coin, multiasset: &MultiAsset) -> (r: TransactionOutputAmountBuilder) { unimplemented!() }
    #[verifier::external_body] pub fn with_asset_and_min_required_coin_by_utxo_cost(&self, multiasset: &MultiAsset, data_cost: &DataCost) -> (r: Result<TransactionOutputAmountBuilder, JsError>) { unimplemented!() }
    #[verifier::external_body] pub fn build(&self) -> (r: Result<TransactionOutput, JsError>) { unimplemented!() }
}
opaque_types!(NativeScriptSourceO, MintWitnessO);
impl NativeScriptSourceO { #[verifier::external_body] pub fn new(script: &NativeScriptO) -> (r: NativeScriptSourceO) { unimplemented!() } }
impl MintWitnessO { #[verifier::external_body] pub fn new_native_script(native_script: &NativeScriptSourceO) -> (r: MintWitnessO) { unimplemented!() } }
impl MintBuilder {
    // (MintBuilder::new / add_asset are under contract in unit mint_update; here the mint builder is opaque: only WHICH field of the builder changes matters)
    #[verifier::external_body] pub fn new() -> (r: MintBuilder) { unimplemented!() }
    #[verifier::external_body] pub fn add_asset(&mut self, mint: &MintWitnessO, asset_name: &AssetNameO, amount: &IntO) -> (r: Result<(), JsError>) { unimplemented!() }
}

// ===== explicitly required signers (C18: one of the signer sources) ==============================================================================================
opaque_types!(Ed25519KeyHashO);
impl Ed25519KeyHashes {
    /// the key hashes held (Ed25519KeyHashes::add is proved duplicate-free in unit dedup_keyhashes)
    pub uninterp spec fn keys(&self) -> Set<Ed25519KeyHashO>;
    #[verifier::external_body] pub fn add(&mut self, k: &Ed25519KeyHashO) -> (r: bool) ensures final(self).keys() == old(self).keys().insert(*k) { unimplemented!() }
}

impl TxInputsBuilder {
    /// TxInputsBuilder::add_regular_input (PROVED in unit tx_inputs: the input map keyed by outpoint, amount and script size kept): `with_regular`, or unchanged on error
    #[verifier::external_body] pub fn add_regular_input(&mut self, address: &Address, input: &TransactionInput, amount: &Value) -> (r: Result<(), JsError>)
        ensures r is Ok ==> *final(self) == old(self).with_regular(*address, *input, *amount), r is Err ==> *final(self) == *old(self) { unimplemented!() }
}

// ===== the deprecated one-line input wrappers: exactly the input builder's own operation, nothing else of the transaction builder touched ======================
opaque_types!(ByronAddressO, PlutusWitnessO);
impl TxInputsBuilder {
    // the input builder's registration functions (each PROVED in unit tx_inputs); here: uninterpreted "the input builder after the call"
    pub uninterp spec fn with_key(&self, hash: Ed25519KeyHashO, input: TransactionInput, amount: Value) -> TxInputsBuilder;
    pub uninterp spec fn with_bootstrap(&self, addr: ByronAddressO, input: TransactionInput, amount: Value) -> TxInputsBuilder;
    pub uninterp spec fn with_plutus(&self, w: PlutusWitnessO, input: TransactionInput, amount: Value) -> TxInputsBuilder;
    pub uninterp spec fn with_native(&self, s: NativeScriptSourceO, input: TransactionInput, amount: Value) -> TxInputsBuilder;
    #[verifier::external_body] pub fn add_key_input(&mut self, hash: &Ed25519KeyHashO, input: &TransactionInput, amount: &Value) ensures *final(self) == old(self).with_key(*hash, *input, *amount) { unimplemented!() }
    #[verifier::external_body] pub fn add_bootstrap_input(&mut self, hash: &ByronAddressO, input: &TransactionInput, amount: &Value) ensures *final(self) == old(self).with_bootstrap(*hash, *input, *amount) { unimplemented!() }
    #[verifier::external_body] pub fn add_plutus_script_input(&mut self, witness: &PlutusWitnessO, input: &TransactionInput, amount: &Value) ensures *final(self) == old(self).with_plutus(*witness, *input, *amount) { unimplemented!() }
    #[verifier::external_body] pub fn add_native_script_input(&mut self, script: &NativeScriptSourceO, input: &TransactionInput, amount: &Value) ensures *final(self) == old(self).with_native(*script, *input, *amount) { unimplemented!() }
}
impl NativeScriptSourceO { pub uninterp spec fn of(s: NativeScriptO) -> NativeScriptSourceO; }

// ===== the constructor ==========================================================================================================================================
impl TxInputsBuilder { #[verifier::external_body] pub fn new() -> (r: TxInputsBuilder) ensures r.items().len() == 0 { unimplemented!() } }
impl TransactionOutputs { #[verifier::external_body] pub fn new() -> (r: TransactionOutputs) ensures r.0@.len() == 0 { unimplemented!() } }
impl Ed25519KeyHashes { #[verifier::external_body] pub fn new() -> (r: Ed25519KeyHashes) ensures r.keys() == Set::<Ed25519KeyHashO>::empty() { unimplemented!() } }
impl ReferenceInputsMap { #[verifier::external_body] pub fn new_() -> (r: ReferenceInputsMap) { unimplemented!() } }
