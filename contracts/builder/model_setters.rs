// ===== the deprecated typed setters (set_withdrawals / set_certs): a FRESH sub-builder filled with exactly the entries given ==================================
opaque_types!(RewardAddressO, CertificateO);
impl Withdrawals {
    /// the (reward account, coin) entries of the map, in its iteration order (`&withdrawals.0`; R-lhm)
    pub uninterp spec fn pairs(&self) -> Seq<(RewardAddressO, Coin)>;
    #[verifier::external_body] pub fn pairs_(&self) -> (r: Vec<(RewardAddressO, Coin)>) ensures r@ == self.pairs() { unimplemented!() }
}
impl Certificates {
    /// the certificates of the collection, in order (`&certs.certs`)
    pub uninterp spec fn items(&self) -> Seq<CertificateO>;
    #[verifier::external_body] pub fn items_(&self) -> (r: Vec<CertificateO>) ensures r@ == self.items() { unimplemented!() }
}
impl WithdrawalsBuilder {
    /// the successful `add` calls this builder was filled by, in order (what `add` does with them: unit deposits / pointers)
    pub uninterp spec fn adds(&self) -> Seq<(RewardAddressO, Coin)>;
    #[verifier::external_body] pub fn new() -> (r: WithdrawalsBuilder) ensures r.adds() == Seq::<(RewardAddressO, Coin)>::empty() { unimplemented!() }
    #[verifier::external_body] pub fn add(&mut self, address: &RewardAddressO, coin: &Coin) -> (r: Result<(), JsError>)
        ensures r is Ok ==> final(self).adds() == old(self).adds().push((*address, *coin)), r is Err ==> *final(self) == *old(self) { unimplemented!() }
}
impl CertificatesBuilder {
    pub uninterp spec fn adds(&self) -> Seq<CertificateO>;
    #[verifier::external_body] pub fn new() -> (r: CertificatesBuilder) ensures r.adds() == Seq::<CertificateO>::empty() { unimplemented!() }
    #[verifier::external_body] pub fn add(&mut self, cert: &CertificateO) -> (r: Result<(), JsError>)
        ensures r is Ok ==> final(self).adds() == old(self).adds().push(*cert), r is Err ==> *final(self) == *old(self) { unimplemented!() }
}
