/// key hashes a native script names: the hash of a `sig` leaf, the union over the sub-scripts of all / any / n-of-k, nothing for
/// the two timelocks (Conway CDDL native_script; the ledger asks a witness for each of them in the worst case)
pub open spec fn ks(s: NativeScript) -> Set<Rc<Ed25519KeyHash>> decreases s, 0nat
{
    match s.0 {
        NativeScriptEnum::ScriptPubkey(p) => set![Rc::new(p.addr_keyhash)],
        NativeScriptEnum::ScriptAll(a) => kss(a.native_scripts.scripts, a.native_scripts.scripts@.len()),
        NativeScriptEnum::ScriptAny(a) => kss(a.native_scripts.scripts, a.native_scripts.scripts@.len()),
        NativeScriptEnum::ScriptNOfK(a) => kss(a.native_scripts.scripts, a.native_scripts.scripts@.len()),
        NativeScriptEnum::TimelockStart(_) => Set::empty(),
        NativeScriptEnum::TimelockExpiry(_) => Set::empty(),
    }
}
/// union of `ks` over the first n scripts of a list
pub open spec fn kss(v: Vec<NativeScript>, n: nat) -> Set<Rc<Ed25519KeyHash>> decreases v, n
    when n <= v@.len()
    via kss_decreases
{
    if n == 0 { Set::empty() } else { kss(v, (n - 1) as nat) + ks(v@[n - 1]) }
}
#[via_fn]
proof fn kss_decreases(v: Vec<NativeScript>, n: nat) {
    if n != 0 { broadcast use vstd::std_specs::vec::axiom_vec_index_decreases; assert(decreases_to!(v => v@[n - 1])); }
}
