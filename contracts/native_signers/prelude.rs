pub type SlotBigNum = u64;   // only carried inside the timelock variants, never read here
