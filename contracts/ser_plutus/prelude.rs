#[verifier::external_body] pub struct DeserializeError { _p: core::marker::PhantomData<u8> }
/// cbor_event::de::Deserializer over a std::io::Cursor<Vec<u8>>: a byte buffer and a read position (ASSUMED semantics of
/// Cursor's seek / fill_buf / consume, R-seek)
#[verifier::external_body] pub struct Deserializer { _p: core::marker::PhantomData<u8> }
impl Deserializer {
    pub uninterp spec fn buf(&self) -> Seq<u8>;
    pub uninterp spec fn pos(&self) -> nat;
    pub open spec fn wf(&self) -> bool { self.pos() <= self.buf().len() && self.buf().len() <= u64::MAX }
    #[verifier::external_body] pub fn pos_(&mut self) -> (r: u64)
        requires old(self).wf() ensures r == old(self).pos(), final(self).buf() == old(self).buf(), final(self).pos() == old(self).pos() { unimplemented!() }
    #[verifier::external_body] pub fn set_pos(&mut self, p: u64) -> (r: u64)
        ensures r == p, final(self).buf() == old(self).buf(), final(self).pos() == p { unimplemented!() }
    #[verifier::external_body] pub fn peek_vec(&mut self, n: usize) -> (r: Vec<u8>)
        requires old(self).pos() + n <= old(self).buf().len()   // `[..n]` on the filled buffer panics otherwise
        ensures r@ == old(self).buf().subrange(old(self).pos() as int, old(self).pos() + n), final(self).buf() == old(self).buf(), final(self).pos() == old(self).pos() { unimplemented!() }
    #[verifier::external_body] pub fn skip_raw(&mut self, n: usize)
        ensures final(self).buf() == old(self).buf(), final(self).pos() == old(self).pos() + n { unimplemented!() }
}
ser_opaque!(ConstrPlutusData, PlutusMap, PlutusList, BigInt);
/// what the datum decoder accepts at a position: (decoded value, end position); uninterpreted relation
pub uninterp spec fn dec_datum(b: Seq<u8>, p: nat) -> Option<(PlutusDataEnum, nat)>;
impl PlutusDataEnum {
    #[verifier::external_body] pub fn deserialize(raw: &mut Deserializer) -> (r: Result<PlutusDataEnum, DeserializeError>)
        requires old(raw).wf()
        ensures final(raw).buf() == old(raw).buf(), final(raw).wf(),
                r is Ok ==> dec_datum(old(raw).buf(), old(raw).pos()) == Some((r->Ok_0, final(raw).pos())) && final(raw).pos() >= old(raw).pos() { unimplemented!() }
}
impl Ser for PlutusDataEnum {
    uninterp spec fn enc(&self) -> Seq<Tok>;
    #[verifier::external_body] fn serialize(&self, serializer: &mut Serializer) -> (r: Result<(), CborError>) { unimplemented!() }
}
