pub trait SerializeNullable {
    spec fn enc_nullable(&self) -> Seq<Tok>;
    fn serialize_nullable(&self, serializer: &mut Serializer) -> (r: Result<(), CborError>)
        ensures r is Ok, final(serializer).toks() == old(serializer).toks() + self.enc_nullable();
}
#[derive(Clone, Copy)]
pub struct BigNum(pub u64);
pub type Coin = BigNum;
impl Ser for BigNum {
    open spec fn enc(&self) -> Seq<Tok> { seq![Tok::UInt(self.0)] }
    #[verifier::external_body] fn serialize(&self, serializer: &mut Serializer) -> (r: Result<(), CborError>) { unimplemented!() }
}
pub type Epoch = u32;
pub type Port = u16;
pub type SlotBigNum = BigNum;
impl Ser for u16 {
    open spec fn enc(&self) -> Seq<Tok> { seq![Tok::UInt(*self as u64)] }
    #[verifier::external_body] fn serialize(&self, serializer: &mut Serializer) -> (r: Result<(), CborError>) { unimplemented!() }
}
pub type TransactionIndex = u32;
pub type Slot32 = u32;
impl From<u32> for BigNum { #[verifier::external_body] fn from(x: u32) -> (r: BigNum) ensures r.0 == x { unimplemented!() } }
impl vstd::std_specs::convert::FromSpecImpl<u32> for BigNum { open spec fn obeys_from_spec() -> bool { true } open spec fn from_spec(v: u32) -> BigNum { BigNum(v as u64) } }
