pub open spec fn opt_null<T: Ser>(o: Option<T>) -> Seq<Tok> { match o { Some(x) => x.enc(), None => seq![Tok::Special(CBORSpecial::Null)] } }
/// ASSUMED of every encoder: it writes at least one token and does not start with a `special` (no ledger type encodes as null / bool /
/// break at top level), so `x / null` is decidable on the first token
#[verifier::external_body] pub proof fn lemma_enc_not_special<T: Ser>(x: T, rest: Seq<Tok>)
    ensures x.enc().len() > 0, (x.enc() + rest).len() > 0, typed((x.enc() + rest)[0]), !((x.enc() + rest)[0] is Special) { }
