pub open spec fn opt_refs<T>(o: Option<T>, f: spec_fn(T) -> Seq<TransactionInput>) -> Set<TransactionInput> { match o { Some(b) => f(b).to_set(), None => Set::empty() } }
/// reference inputs the script witnesses of every source ask for
pub open spec fn src_refs(tb: TransactionBuilder) -> Set<TransactionInput> {
    tb.inputs.ref_seq().to_set()
        + opt_refs(tb.mint, |b: MintBuilder| b.ref_seq()) + opt_refs(tb.withdrawals, |b: WithdrawalsBuilder| b.ref_seq()) + opt_refs(tb.certs, |b: CertificatesBuilder| b.ref_seq())
        + opt_refs(tb.voting_procedures, |b: VotingBuilder| b.ref_seq()) + opt_refs(tb.voting_proposals, |b: VotingProposalBuilder| b.ref_seq())
}
/// what the body's reference-input field must hold: every reference input a script source needs and every explicitly added one, except those that
/// are also regular inputs (the ledger forbids the overlap; explicit ones are only filtered when the configuration says so)
pub open spec fn expected_refs(tb: TransactionBuilder) -> Set<TransactionInput> {
    (src_refs(tb) + tb.reference_inputs.keyset()).filter(|x: TransactionInput| (src_refs(tb).contains(x) && !tb.inputs.has(x))
        || (tb.reference_inputs.keyset().contains(x) && (!tb.config.deduplicate_explicit_ref_inputs_with_regular_inputs || !tb.inputs.has(x))))
}
pub open spec fn kept(tbi: TxInputsBuilder, s: Set<TransactionInput>) -> Set<TransactionInput> { s.filter(|x: TransactionInput| !tbi.has(x)) }
pub proof fn lemma_kept_step(tbi: TxInputsBuilder, r: Seq<TransactionInput>, i: int)
    requires 0 <= i < r.len()
    ensures kept(tbi, r.take(i + 1).to_set()) =~= (if tbi.has(r[i]) { kept(tbi, r.take(i).to_set()) } else { kept(tbi, r.take(i).to_set()).insert(r[i]) })
{
    let a = r.take(i + 1); let b = r.take(i);
    assert forall|x: TransactionInput| a.to_set().contains(x) <==> b.to_set().contains(x) || x == r[i] by {
        if a.contains(x) { let j = choose|j: int| 0 <= j < a.len() && a[j] == x; if j < i { assert(b[j] == x); } }
        if b.contains(x) { let j = choose|j: int| 0 <= j < b.len() && b[j] == x; assert(a[j] == x); }
        if x == r[i] { assert(a[i] == x); }
    }
}
pub proof fn lemma_take_set(r: Seq<TransactionInput>, i: int) requires 0 <= i < r.len() ensures r.take(i + 1).to_set() =~= r.take(i).to_set().insert(r[i])
{
    let a = r.take(i + 1); let b = r.take(i);
    assert forall|x: TransactionInput| a.to_set().contains(x) <==> b.to_set().contains(x) || x == r[i] by {
        if a.contains(x) { let j = choose|j: int| 0 <= j < a.len() && a[j] == x; if j < i { assert(b[j] == x); } }
        if b.contains(x) { let j = choose|j: int| 0 <= j < b.len() && b[j] == x; assert(a[j] == x); }
        if x == r[i] { assert(a[i] == x); }
    }
}
