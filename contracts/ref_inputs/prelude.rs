use std::collections::BTreeSet;
// ---- reference-input sources of the transaction builder: each sub-builder reports the reference inputs its script witnesses use (their own
// get_ref_inputs are under contract in unit source_signers); here only the sequences they return matter
impl PartialEq for TransactionInput { #[verifier::external_body] fn eq(&self, o: &TransactionInput) -> bool { unimplemented!() } }
impl Eq for TransactionInput {}
impl PartialOrd for TransactionInput { #[verifier::external_body] fn partial_cmp(&self, o: &TransactionInput) -> Option<core::cmp::Ordering> { unimplemented!() } }
impl Ord for TransactionInput { #[verifier::external_body] fn cmp(&self, o: &TransactionInput) -> core::cmp::Ordering { unimplemented!() } }
/// ASSUMED: the derived Ord of TransactionInput is a total order consistent with == (vstd's precondition for BTreeSet)
pub open spec fn set_ok() -> bool { vstd::laws_cmp::obeys_cmp_spec::<TransactionInput>() }
impl TransactionInputs {
    pub uninterp spec fn items(&self) -> Seq<TransactionInput>;
    /// `for input in &inputs` (IntoIterator for &TransactionInputs: the stored vector in order; R-intoiter)
    #[verifier::external_body] pub fn iter_(&self) -> (r: core::slice::Iter<'_, TransactionInput>)
        ensures r.remaining() == refs(self.items()), r.obeys_prophetic_iter_laws(), r.decrease() is Some { unimplemented!() }
    /// from_vec keeps the first occurrence of every input (unit dedup_tx_inputs): same elements, no repetition
    #[verifier::external_body] pub fn from_vec(inputs_vec: Vec<TransactionInput>) -> (r: TransactionInputs)
        ensures r.items().to_set() == inputs_vec@.to_set(), r.items().no_duplicates(), inputs_vec@.no_duplicates() ==> r.items() == inputs_vec@ { unimplemented!() }
}
macro_rules! ref_source { ($($t:ident),*) => { verus!{ $(
    impl $t {
        pub uninterp spec fn ref_seq(&self) -> Seq<TransactionInput>;
        #[verifier::external_body] pub fn get_ref_inputs(&self) -> (r: TransactionInputs) ensures r.items() == self.ref_seq() { unimplemented!() }
    }
)* } } }
ref_source!(TxInputsBuilder, MintBuilder, WithdrawalsBuilder, CertificatesBuilder, VotingBuilder, VotingProposalBuilder);
impl TxInputsBuilder {
    /// the outpoint is one of the regular inputs
    pub uninterp spec fn has(&self, i: TransactionInput) -> bool;
    #[verifier::external_body] pub fn has_input(&self, input: &TransactionInput) -> (r: bool) ensures r == self.has(*input) { unimplemented!() }
}
impl ReferenceInputsMap {
    /// the explicitly added reference inputs (keys of the HashMap<TransactionInput, usize>)
    pub uninterp spec fn keyset(&self) -> Set<TransactionInput>;
    /// `.keys().cloned().collect()` / `.keys().cloned()` (R-keysvec): every key once, in the map's iteration order
    #[verifier::external_body] pub fn keys_vec_(&self) -> (r: Vec<TransactionInput>) ensures r@.to_set() == self.keyset(), r@.no_duplicates() { unimplemented!() }
}
/// `set.into_iter().collect()` (R-collect): the elements in ascending order, each once
#[verifier::external_body] pub fn btree_into_vec_(s: BTreeSet<TransactionInput>) -> (r: Vec<TransactionInput>) ensures r@.to_set() == s@, r@.no_duplicates() { unimplemented!() }
pub mod fees { pub use super::LinearFee; }
