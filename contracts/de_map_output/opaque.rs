de_opaque!(Address, DataOption, ScriptRef, Value);
