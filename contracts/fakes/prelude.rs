// the placeholder witnesses of the mock transaction (fakes.rs): what decides the predicted size is that each has the byte lengths of
// the real thing.  Keys and signatures are fixed-size crypto types (32 / 64 bytes whatever the value: ASSUMED, chain_crypto); the two
// variable-length parts of a bootstrap witness are its chain code and the address attributes.
opaque_types!(Ed25519Signature, PublicKey, Vkey, ByronAddress);
clone_eq!(Vkey, Ed25519Signature);
impl ByronAddress {
    /// CBOR bytes of the address attributes (derivation path, protocol magic): `ByronAddress::attributes` (serializes them; not under contract)
    pub uninterp spec fn attrs(&self) -> Seq<u8>;
    #[verifier::external_body] pub fn attributes(&self) -> (r: Vec<u8>) ensures r@ == self.attrs() { unimplemented!() }
}
pub uninterp spec fn fake_vkey_of(x: u64) -> Vkey;
pub uninterp spec fn fake_sig_of(x: u64) -> Ed25519Signature;
#[verifier::external_body] pub fn fake_vkey_numbered(x: u64) -> (r: Vkey) ensures r == fake_vkey_of(x) { unimplemented!() }
#[verifier::external_body] pub fn fake_signature(x: u64) -> (r: Ed25519Signature) ensures r == fake_sig_of(x) { unimplemented!() }
