// ---- the multi-asset change block (variant `asset_change` of add_change_if_needed_with_optional_script_and_datum)
pub open spec fn out_coin_c(b: TransactionBuilder) -> nat { sum_coin(out_amounts(b.outputs.0@)) + deposits(b) + donation_of(b) }
pub open spec fn out_qty_c(b: TransactionBuilder, a: AssetId) -> int { sum_qty(out_amounts(b.outputs.0@), a) + (if mint_delta(b, a) < 0 { -mint_delta(b, a) } else { 0 }) }
pub open spec fn in_qty_c(b: TransactionBuilder, a: AssetId) -> int { sum_qty(in_amounts(b.inputs.items()), a) + (if mint_delta(b, a) > 0 { mint_delta(b, a) } else { 0 }) }
/// some asset is held in excess of what the outputs (and burns) take: there is asset change to place
pub open spec fn asset_surplus(b: TransactionBuilder) -> bool { exists|a: AssetId| in_qty_c(b, a) > out_qty_c(b, a) }
/// what is still to be placed: total input == outputs so far + deposits + donation + left + fee set aside, in lovelace and in every asset;
/// nothing but the output list has been touched
#[verifier::opaque]
pub open spec fn left_inv(old_b: TransactionBuilder, b: TransactionBuilder, it: Value, left: Value, fee_aside: nat) -> bool {
    &&& b == (TransactionBuilder { outputs: b.outputs, ..old_b })
    &&& it.coin.0 == out_coin_c(b) + left.coin.0 + fee_aside
    &&& forall|a: AssetId| qty(it, a) == out_qty_c(b, a) + qty(left, a)
}
/// what a successful add_change_if_needed leaves behind on EVERY path: a fee is set, the ledger's preservation-of-value equation holds with it
/// in lovelace and in every asset, and nothing but the fee and the output list was touched
pub open spec fn change_bal(old_b: TransactionBuilder, new_b: TransactionBuilder) -> bool {
    &&& new_b.fee is Some && balanced(new_b, new_b.fee->Some_0.0 as nat)
    &&& new_b == (TransactionBuilder { fee: new_b.fee, outputs: new_b.outputs, ..old_b })
}
pub open spec fn ma_sum_from(s: Seq<MultiAsset>, k: int, a: AssetId) -> nat decreases s.len() - k { if k < 0 || k >= s.len() { 0 } else { ma_qty(s[k], a) + ma_sum_from(s, k + 1, a) } }
pub proof fn lemma_left_push(old_b: TransactionBuilder, b: TransactionBuilder, b2: TransactionBuilder, it: Value, left: Value, left2: Value, o: TransactionOutput, fa: nat, fa2: nat)
    requires left_inv(old_b, b, it, left, fa), b2.outputs.0@ == b.outputs.0@.push(o), b2 == (TransactionBuilder { outputs: b2.outputs, ..b }),
             left2.coin.0 + o.amount.coin.0 + fa2 == left.coin.0 + fa, forall|a: AssetId| qty(left2, a) + qty(o.amount, a) == qty(left, a)
    ensures left_inv(old_b, b2, it, left2, fa2)
{
    reveal(left_inv);
    lemma_out_push(b.outputs.0@, o);
    assert forall|a: AssetId| qty(it, a) == out_qty_c(b2, a) + qty(left2, a) by { assert(qty(it, a) == out_qty_c(b, a) + qty(left, a)); }
}
/// the last output receives the rest
pub proof fn lemma_left_topup(old_b: TransactionBuilder, b: TransactionBuilder, b2: TransactionBuilder, it: Value, left: Value, fa: nat)
    requires left_inv(old_b, b, it, left, fa), b.outputs.0@.len() > 0, b2.outputs.0@.len() == b.outputs.0@.len(),
             b2.outputs.0@.drop_last() == b.outputs.0@.drop_last(), b2 == (TransactionBuilder { outputs: b2.outputs, ..b }),
             b2.outputs.0@.last().amount.coin.0 == b.outputs.0@.last().amount.coin.0 + left.coin.0,
             forall|a: AssetId| qty(b2.outputs.0@.last().amount, a) == qty(b.outputs.0@.last().amount, a) + qty(left, a)
    ensures it.coin.0 == out_coin_c(b2) + fa, forall|a: AssetId| qty(it, a) == out_qty_c(b2, a), b2 == (TransactionBuilder { outputs: b2.outputs, ..old_b })
{
    reveal(left_inv);
    let s = b.outputs.0@; let s2 = b2.outputs.0@;
    assert(out_amounts(s).drop_last() =~= out_amounts(s.drop_last()));
    assert(out_amounts(s2).drop_last() =~= out_amounts(s2.drop_last()));
    assert forall|a: AssetId| qty(it, a) == out_qty_c(b2, a) by { assert(qty(it, a) == out_qty_c(b, a) + qty(left, a)); }
}
/// conclusion of the asset path: the fee that was set aside is the fee set, and the rest (if any) went to the last output
pub proof fn lemma_change_final(old_b: TransactionBuilder, b_pre: TransactionBuilder, b_fee: TransactionBuilder, b_new: TransactionBuilder, it: Value, left: Value, new_fee: BigNum)
    requires left_inv(old_b, b_pre, it, left, new_fee.0 as nat),
             it.coin.0 == sum_coin(in_amounts(old_b.inputs.items())) + implicit_in(old_b), forall|a: AssetId| qty(it, a) == in_qty_c(old_b, a),
             b_fee == (TransactionBuilder { fee: Some(new_fee), ..b_pre }),
             (b_new == b_fee && left.coin.0 == 0 && forall|a: AssetId| qty(left, a) == 0)
             || (b_new == (TransactionBuilder { outputs: b_new.outputs, ..b_fee }) && b_fee.outputs.0@.len() > 0 && b_new.outputs.0@.len() == b_fee.outputs.0@.len()
                 && b_new.outputs.0@.drop_last() == b_fee.outputs.0@.drop_last()
                 && b_new.outputs.0@.last().amount.coin.0 == b_fee.outputs.0@.last().amount.coin.0 + left.coin.0
                 && forall|a: AssetId| qty(b_new.outputs.0@.last().amount, a) == qty(b_fee.outputs.0@.last().amount, a) + qty(left, a))
    ensures change_bal(old_b, b_new)
{
    reveal(left_inv);
    if b_new == b_fee {
        assert forall|a: AssetId| sum_qty(in_amounts(b_new.inputs.items()), a) + mint_delta(b_new, a) == sum_qty(out_amounts(b_new.outputs.0@), a) by { assert(qty(it, a) == out_qty_c(b_pre, a) + qty(left, a)); assert(qty(it, a) == in_qty_c(old_b, a)); }
    } else {
        let b2 = TransactionBuilder { outputs: b_new.outputs, ..b_pre };
        lemma_left_topup(old_b, b_pre, b2, it, left, new_fee.0 as nat);
        assert forall|a: AssetId| sum_qty(in_amounts(b_new.inputs.items()), a) + mint_delta(b_new, a) == sum_qty(out_amounts(b_new.outputs.0@), a) by { assert(qty(it, a) == out_qty_c(b2, a)); assert(qty(it, a) == in_qty_c(old_b, a)); }
    }
}

pub proof fn lemma_left_fee(old_b: TransactionBuilder, b: TransactionBuilder, it: Value, left: Value, left2: Value, fee: nat)
    requires left_inv(old_b, b, it, left, 0), left2.coin.0 + fee == left.coin.0, left2.multiasset == left.multiasset
    ensures left_inv(old_b, b, it, left2, fee)
{ reveal(left_inv); }
pub proof fn lemma_left_frame(old_b: TransactionBuilder, b: TransactionBuilder, it: Value, left: Value, fa: nat)
    requires left_inv(old_b, b, it, left, fa)
    ensures b == (TransactionBuilder { outputs: b.outputs, ..old_b })
{ reveal(left_inv); }

/// every output from position `from` on was admitted like a requested output: value within the maximum value size, coin at least its own minimum ADA (C07)
pub open spec fn adm_from(cfg: TransactionBuilderConfig, outs: Seq<TransactionOutput>, from: int) -> bool {
    forall|k: int| from <= k < outs.len() ==> value_size((#[trigger] outs[k]).amount) <= cfg.max_value_size && outs[k].amount.coin.0 >= spec_min_ada(outs[k], cfg.data_cost)
}
pub proof fn lemma_adm_push(cfg: TransactionBuilderConfig, outs: Seq<TransactionOutput>, from: int, o: TransactionOutput)
    requires adm_from(cfg, outs, from), value_size(o.amount) <= cfg.max_value_size, o.amount.coin.0 >= spec_min_ada(o, cfg.data_cost)
    ensures adm_from(cfg, outs.push(o), from)
{
    assert forall|k: int| from <= k < outs.push(o).len() implies value_size((#[trigger] outs.push(o)[k]).amount) <= cfg.max_value_size && outs.push(o)[k].amount.coin.0 >= spec_min_ada(outs.push(o)[k], cfg.data_cost) by {
        if k < outs.len() { assert(outs.push(o)[k] == outs[k]); }
    }
}
pub proof fn lemma_adm_last(cfg: TransactionBuilderConfig, outs: Seq<TransactionOutput>, outs2: Seq<TransactionOutput>, from: int)
    requires adm_from(cfg, outs, from), from >= 0, outs.len() > 0, outs2.len() == outs.len(), outs2.drop_last() == outs.drop_last(),
             value_size(outs2.last().amount) <= cfg.max_value_size, outs2.last().amount.coin.0 >= spec_min_ada(outs2.last(), cfg.data_cost)
    ensures adm_from(cfg, outs2, from)
{
    assert forall|k: int| from <= k < outs2.len() implies value_size((#[trigger] outs2[k]).amount) <= cfg.max_value_size && outs2[k].amount.coin.0 >= spec_min_ada(outs2[k], cfg.data_cost) by {
        if k < outs2.len() - 1 { assert(outs2[k] == outs2.drop_last()[k]); assert(outs[k] == outs.drop_last()[k]); }
    }
}
