// ---- add_change_if_needed: what its ADA-only and exact-balance paths call
/// marker of the paths that are cut out of the verified text (R-cutblock): nothing is claimed for an execution that enters the cut block
pub uninterp spec fn unverified_path() -> bool;
#[verifier::external_body] pub fn asset_change_not_under_contract_(tb: &mut TransactionBuilder) -> (r: Result<bool, JsError>) ensures unverified_path() { unimplemented!() }
#[verifier::external_body] pub struct ValueShortage { _p: core::marker::PhantomData<u8> }
impl core::fmt::Display for ValueShortage { #[verifier::external_body] fn fmt(&self, f: &mut core::fmt::Formatter<'_>) -> core::fmt::Result { unimplemented!() } }
/// utils.rs get_input_shortage (loops over the asset maps; not under contract here: the comparison that follows it decides)
#[verifier::external_body] pub fn get_input_shortage(all_inputs_value: &Value, all_outputs_value: &Value, fee: &Coin) -> (r: Result<Option<ValueShortage>, JsError>) { unimplemented!() }
impl MultiAsset {
    /// number of policies; a bundle without policies holds no asset (ASSUMED: MultiAsset is a map of maps)
    pub uninterp spec fn n_policies(&self) -> nat;
    #[verifier::external_body] pub fn len(&self) -> (r: usize) ensures r == self.n_policies(), r == 0 ==> forall|a: AssetId| ma_qty(*self, a) == 0 { unimplemented!() }
}
impl Value {
    #[verifier::external_body] pub fn multiasset(&self) -> (r: Option<MultiAsset>) ensures r == self.multiasset { unimplemented!() }
}
impl MinOutputAdaCalculator {
    #[verifier::external_body] pub fn set_data_hash(&mut self, data_hash: &DataHash) ensures *final(self) == (MinOutputAdaCalculator { output: TransactionOutput { plutus_data: Some(DataOption::DataHash(*data_hash)), ..old(self).output }, ..*old(self) }) { unimplemented!() }
    #[verifier::external_body] pub fn set_plutus_data(&mut self, data: &PlutusData) ensures *final(self) == (MinOutputAdaCalculator { output: TransactionOutput { plutus_data: Some(DataOption::Data(*data)), ..old(self).output }, ..*old(self) }) { unimplemented!() }
    #[verifier::external_body] pub fn set_script_ref(&mut self, script_ref: &ScriptRef) ensures *final(self) == (MinOutputAdaCalculator { output: TransactionOutput { script_ref: Some(*script_ref), ..old(self).output }, ..*old(self) }) { unimplemented!() }
}
clone_eq!(DataOption);

// ---- the multi-asset change block
/// sum over bundles of the quantity of one asset
pub open spec fn ma_sum(s: Seq<MultiAsset>, a: AssetId) -> nat decreases s.len() { if s.len() == 0 { 0 } else { ma_sum(s.drop_last(), a) + ma_qty(s.last(), a) } }
/// `change_left.multiasset ... partial_cmp(&MultiAsset::new()) == Some(Greater)`: some asset is left (MultiAsset's partial order is proved component-wise in unit ma_cmp)
#[verifier::external_body] pub fn has_positive_asset_(v: &Value) -> (r: bool) ensures r == exists|a: AssetId| qty(*v, a) > 0 { unimplemented!() }
impl Value {
    #[verifier::external_body] pub fn set_multiasset(&mut self, multiasset: &MultiAsset) ensures final(self).coin == old(self).coin, final(self).multiasset == Some(*multiasset) { unimplemented!() }
    #[verifier::external_body] pub fn is_zero(&self) -> (r: bool) ensures r ==> self.coin.0 == 0 && forall|a: AssetId| qty(*self, a) == 0 { unimplemented!() }
}

/// `ma.partial_cmp(&MultiAsset::new()) == Some(Greater)`: some quantity is positive (MultiAsset's partial order is proved component-wise in unit ma_cmp)
#[verifier::external_body] pub fn ma_has_positive_(ma: &MultiAsset) -> (r: bool) ensures r == exists|a: AssetId| ma_qty(*ma, a) > 0 { unimplemented!() }
