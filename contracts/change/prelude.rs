// ---- add_change_if_needed: what its ADA-only and exact-balance paths call
/// marker of the paths that are cut out of the verified text (R-cutblock): nothing is claimed for an execution that enters the cut block
pub uninterp spec fn unverified_path() -> bool;
#[verifier::external_body] pub fn asset_change_not_under_contract_(tb: &mut TransactionBuilder) -> (r: Result<bool, JsError>) ensures unverified_path() { unimplemented!() }
#[verifier::external_body] pub struct ValueShortage { _p: core::marker::PhantomData<u8> }
impl core::fmt::Display for ValueShortage { #[verifier::external_body] fn fmt(&self, f: &mut core::fmt::Formatter<'_>) -> core::fmt::Result { unimplemented!() } }
/// utils.rs get_input_shortage (loops over the asset maps; not under contract here: the comparison that follows it decides)
#[verifier::external_body] pub fn get_input_shortage(all_inputs_value: &Value, all_outputs_value: &Value, fee: &Coin) -> (r: Result<Option<ValueShortage>, JsError>) { unimplemented!() }
impl MultiAsset {
    /// number of policies; a bundle without policies holds no asset (ASSUMED: MultiAsset is a map of maps)
    pub uninterp spec fn n_policies(&self) -> nat;
    #[verifier::external_body] pub fn len(&self) -> (r: usize) ensures r == self.n_policies(), r == 0 ==> forall|a: AssetId| ma_qty(*self, a) == 0 { unimplemented!() }
}
impl Value {
    #[verifier::external_body] pub fn multiasset(&self) -> (r: Option<MultiAsset>) ensures r == self.multiasset { unimplemented!() }
}
impl MinOutputAdaCalculator {
    #[verifier::external_body] pub fn set_data_hash(&mut self, data_hash: &DataHash) ensures *final(self) == (MinOutputAdaCalculator { output: TransactionOutput { plutus_data: Some(DataOption::DataHash(*data_hash)), ..old(self).output }, ..*old(self) }) { unimplemented!() }
    #[verifier::external_body] pub fn set_plutus_data(&mut self, data: &PlutusData) ensures *final(self) == (MinOutputAdaCalculator { output: TransactionOutput { plutus_data: Some(DataOption::Data(*data)), ..old(self).output }, ..*old(self) }) { unimplemented!() }
    #[verifier::external_body] pub fn set_script_ref(&mut self, script_ref: &ScriptRef) ensures *final(self) == (MinOutputAdaCalculator { output: TransactionOutput { script_ref: Some(*script_ref), ..old(self).output }, ..*old(self) }) { unimplemented!() }
}
clone_eq!(DataOption);
