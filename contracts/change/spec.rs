/// a bundle without policies holds no asset (ASSUMED: MultiAsset is a map policy -> (asset name -> quantity))
#[verifier::external_body] pub broadcast proof fn ax_no_policies(ma: MultiAsset) requires #[trigger] ma.n_policies() == 0 ensures forall|a: AssetId| ma_qty(ma, a) == 0 { }
pub proof fn lemma_out_push(s: Seq<TransactionOutput>, o: TransactionOutput)
    ensures sum_coin(out_amounts(s.push(o))) == sum_coin(out_amounts(s)) + o.amount.coin.0, forall|a: AssetId| sum_qty(out_amounts(s.push(o)), a) == sum_qty(out_amounts(s), a) + qty(o.amount, a)
{
    assert(out_amounts(s.push(o)) =~= out_amounts(s).push(o.amount));
    assert(out_amounts(s).push(o.amount).drop_last() =~= out_amounts(s));
}
/// the fee policy leaves a fee alone that is at least a fee the policy already produced
pub proof fn lemma_policy_keeps(req: TxBuilderFee, y: BigNum, x: BigNum)
    requires x.0 >= policy_fee(req, y).0, req is Exactly ==> x.0 <= req->Exactly_0.0
    ensures policy_fee(req, x) == x
{ }
/// what add_change_if_needed must leave behind on success: a fee is set and inputs == outputs + fee (+ deposits, donation) in lovelace and in every
/// asset; at most one output was appended and nothing else was touched
pub open spec fn change_ok(old_b: TransactionBuilder, new_b: TransactionBuilder, added: bool) -> bool {
    &&& new_b.fee is Some && balanced(new_b, new_b.fee->Some_0.0 as nat)
    &&& new_b == (TransactionBuilder { fee: new_b.fee, outputs: new_b.outputs, ..old_b })
    &&& !added ==> new_b.outputs.0@ == old_b.outputs.0@
    &&& added ==> new_b.outputs.0@.len() == old_b.outputs.0@.len() + 1 && new_b.outputs.0@.drop_last() == old_b.outputs.0@
}
/// the appended change output: to the requested address with the requested datum / script, admitted like any other output (value size, minimum ADA)
pub open spec fn change_output_ok(b: TransactionBuilder, o: TransactionOutput, address: Address, plutus_data: Option<DataOption>, script_ref: Option<ScriptRef>) -> bool {
    o.address == address && o.plutus_data == plutus_data && o.script_ref == script_ref
      && value_size(o.amount) <= b.config.max_value_size && o.amount.coin.0 >= spec_min_ada(o, b.config.data_cost)
}
