ser_opaque!(BigNum, BlockHash, Vkey, VRFVKey, VRFCert, KESVKey, Ed25519Signature, KESSignature, TransactionBodies, TransactionWitnessSets, AuxiliaryDataSet);
pub type SlotBigNum = BigNum;
pub type TransactionIndex = u32;
pub type TransactionIndexes = Vec<TransactionIndex>;
/// ProtocolVersion's two encoders are under contract in unit ser_records (record [major, minor]); here: the array form is the head 82 + the group
#[verifier::external_body] pub struct ProtocolVersion { _p: core::marker::PhantomData<u8> }
impl ProtocolVersion {
    pub uninterp spec fn group(&self) -> Seq<Tok>;
    #[verifier::external_body] pub fn serialize_as_embedded_group(&self, serializer: &mut Serializer) -> (r: Result<(), CborError>)
        ensures r is Ok, final(serializer).toks() == old(serializer).toks() + self.group() { unimplemented!() }
}
impl Ser for ProtocolVersion {
    open spec fn enc(&self) -> Seq<Tok> { seq![Tok::Arr(2)] + self.group() }
    #[verifier::external_body] fn serialize(&self, serializer: &mut Serializer) -> (r: Result<(), CborError>) { unimplemented!() }
}
