pub open spec fn opt_null<T: Ser>(o: Option<T>) -> Seq<Tok> { match o { Some(x) => x.enc(), None => seq![Tok::Special(CBORSpecial::Null)] } }
/// operational_cert = ( hot_vkey, sequence_number, kes_period, sigma )
pub open spec fn opcert_group(c: OperationalCert) -> Seq<Tok> { c.hot_vkey.enc() + c.sequence_number.enc() + c.kes_period.enc() + c.sigma.enc() }
/// shelley.cddl .. alonzo.cddl: header_body = [ block_number, slot, prev_hash / null, issuer_vkey, vrf_vkey, nonce_vrf, leader_vrf, block_body_size,
///   block_body_hash, operational_cert, protocol_version ]  with the last two GROUPS inlined: 15 items
/// babbage.cddl / conway.cddl: header_body = [ block_number, slot, prev_hash / null, issuer_vkey, vrf_vkey, vrf_result, block_body_size, block_body_hash,
///   operational_cert, protocol_version ]  with the last two as ARRAYS: 10 items
pub open spec fn header_body_enc(h: HeaderBody) -> Seq<Tok> {
    match h.leader_cert {
        HeaderLeaderCertEnum::NonceAndLeader(n, l) =>
            seq![Tok::Arr(15)] + h.block_number.enc() + h.slot.enc() + opt_null(h.prev_hash) + h.issuer_vkey.enc() + h.vrf_vkey.enc() + n.enc() + l.enc()
              + h.block_body_size.enc() + h.block_body_hash.enc() + opcert_group(h.operational_cert) + h.protocol_version.group(),
        HeaderLeaderCertEnum::VrfResult(v) =>
            seq![Tok::Arr(10)] + h.block_number.enc() + h.slot.enc() + opt_null(h.prev_hash) + h.issuer_vkey.enc() + h.vrf_vkey.enc() + v.enc()
              + h.block_body_size.enc() + h.block_body_hash.enc() + (seq![Tok::Arr(4)] + opcert_group(h.operational_cert)) + (seq![Tok::Arr(2)] + h.protocol_version.group()),
    }
}
pub open spec fn idx_enc(s: Seq<u32>) -> Seq<Tok> decreases s.len() { if s.len() == 0 { Seq::empty() } else { idx_enc(s.drop_last()) + s.last().enc() } }
pub proof fn lemma_idx_step(s: Seq<u32>, i: int) requires 0 <= i < s.len() ensures idx_enc(s.take(i + 1)) == idx_enc(s.take(i)) + s[i].enc()
{ assert(s.take(i + 1).drop_last() =~= s.take(i)); }
