ser_coll!(AssetName, BigNum, Int, ScriptHash, RewardAddress);
pub type PolicyID = ScriptHash;
pub type Coin = BigNum;
/// flat encoding of a sequence of map entries: key then value, in sequence order
pub open spec fn flat_kv<K: Ser, V: Ser>(s: Seq<(K, V)>) -> Seq<Tok> decreases s.len() {
    if s.len() == 0 { Seq::empty() } else { flat_kv(s.drop_last()) + s.last().0.enc() + s.last().1.enc() }
}
pub proof fn lemma_flat_kv_step<K: Ser, V: Ser>(s: Seq<(K, V)>, i: int)
    requires 0 <= i < s.len() ensures flat_kv(s.take(i + 1)) == flat_kv(s.take(i)) + s[i].0.enc() + s[i].1.enc()
{ assert(s.take(i + 1).drop_last() =~= s.take(i)); }
/// a CBOR map with a definite length equal to the number of entries, entries in the container's iteration order
pub open spec fn map_enc<K: Ser, V: Ser>(s: Seq<(K, V)>) -> Seq<Tok> { seq![Tok::Map(s.len() as u64)] + flat_kv(s) }
