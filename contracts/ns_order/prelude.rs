use core::cmp::Ordering;
// NativeScripts is ordered / compared through its script list only (the de-duplicating collections key their index sets with this order: two
// collections are the same element exactly when their lists are equal).  Element order: derived Ord of NativeScript (ASSUMED total, consistent with ==).
#[verifier::external_body] pub struct NativeScript { _p: core::marker::PhantomData<u8> }
impl PartialEq for NativeScript { #[verifier::external_body] fn eq(&self, o: &NativeScript) -> bool { unimplemented!() } }
impl Eq for NativeScript {}
impl PartialOrd for NativeScript { #[verifier::external_body] fn partial_cmp(&self, o: &NativeScript) -> Option<Ordering> { unimplemented!() } }
impl Ord for NativeScript { #[verifier::external_body] fn cmp(&self, o: &NativeScript) -> Ordering { unimplemented!() } }
opaque_types!(CborSetType);
/// lexicographic comparison of two lists under the element order (std: `impl Ord for Vec<T>`, ASSUMED): uninterpreted except that Equal means equal lists
pub uninterp spec fn lex(a: Seq<NativeScript>, b: Seq<NativeScript>) -> Ordering;
#[verifier::external_body] pub broadcast proof fn ax_lex_equal(a: Seq<NativeScript>, b: Seq<NativeScript>) ensures (#[trigger] lex(a, b)) is Equal <==> a == b { }
/// std's `impl Ord / PartialOrd / PartialEq for Vec<T>` on script lists (R-veccmp: the method call written as a call of these stand-ins)
#[verifier::external_body] pub fn vec_cmp_(a: &Vec<NativeScript>, b: &Vec<NativeScript>) -> (r: Ordering) ensures r == lex(a@, b@) { unimplemented!() }
#[verifier::external_body] pub fn vec_partial_cmp_(a: &Vec<NativeScript>, b: &Vec<NativeScript>) -> (r: Option<Ordering>) ensures r == Some(lex(a@, b@)) { unimplemented!() }
#[verifier::external_body] pub fn vec_eq_(a: &Vec<NativeScript>, b: &Vec<NativeScript>) -> (r: bool) ensures r == (a@ == b@) { unimplemented!() }
