use std::rc::Rc;
use std::collections::{HashSet, BTreeSet};
// element type: only equality / hashing / ordering / cloning of elements matter to the collection's invariant, so the
// element is an opaque token with the derived structural traits (ASSUMED: the real derives are structural)
#[derive(PartialEq, Eq, Hash, PartialOrd, Ord)]
pub struct Ed25519KeyHash(pub u64);
impl Clone for Ed25519KeyHash { #[verifier::external_body] fn clone(&self) -> (r: Ed25519KeyHash) ensures r == *self { unimplemented!() } }
#[derive(Clone)]
pub enum CborSetType { Tagged, Untagged }
// builder parts: opaque, each exposes the key hashes it needs signatures from (views; the per-source tables are not decided here)
#[verifier::external_body] pub struct TxInputsBuilder { _p: core::marker::PhantomData<u8> }
#[verifier::external_body] pub struct MintBuilder { _p: core::marker::PhantomData<u8> }
#[verifier::external_body] pub struct WithdrawalsBuilder { _p: core::marker::PhantomData<u8> }
#[verifier::external_body] pub struct CertificatesBuilder { _p: core::marker::PhantomData<u8> }
#[verifier::external_body] pub struct VotingBuilder { _p: core::marker::PhantomData<u8> }
#[verifier::external_body] pub struct VotingProposalBuilder { _p: core::marker::PhantomData<u8> }
#[verifier::external_body] pub struct NativeScripts { _p: core::marker::PhantomData<u8> }
pub struct TransactionBuilder {
    pub inputs: TxInputsBuilder,
    pub collateral: TxInputsBuilder,
    pub required_signers: Ed25519KeyHashes,
    pub mint: Option<MintBuilder>,
    pub withdrawals: Option<WithdrawalsBuilder>,
    pub certs: Option<CertificatesBuilder>,
    pub voting_procedures: Option<VotingBuilder>,
    pub voting_proposals: Option<VotingProposalBuilder>,
}
