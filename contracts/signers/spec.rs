// (appended to the dedup spec) ---- sources of required key hashes
impl TxInputsBuilder { pub uninterp spec fn signers(&self) -> Seq<Rc<Ed25519KeyHash>>; }
impl MintBuilder {
    /// the signers of every minting script, inline or supplied by reference input (per-source table: unit source_signers)
    pub uninterp spec fn signers(&self) -> Seq<Rc<Ed25519KeyHash>>;
    pub uninterp spec fn scripts(&self) -> NativeScripts;
    #[verifier::external_body] pub fn get_native_scripts(&self) -> (r: NativeScripts) ensures r == self.scripts() { unimplemented!() }
    #[verifier::external_body] pub fn get_required_signers(&self) -> (r: Ed25519KeyHashes) ensures r.wf(), r.keyhashes@ == self.signers() { unimplemented!() }
}
pub uninterp spec fn scripts_signers(s: NativeScripts) -> Seq<Rc<Ed25519KeyHash>>;
impl WithdrawalsBuilder {
    pub uninterp spec fn signers(&self) -> Seq<Rc<Ed25519KeyHash>>;
    #[verifier::external_body] pub fn get_required_signers(&self) -> (r: Ed25519KeyHashes) ensures r.wf(), r.keyhashes@ == self.signers() { unimplemented!() }
}
impl CertificatesBuilder {
    pub uninterp spec fn signers(&self) -> Seq<Rc<Ed25519KeyHash>>;
    #[verifier::external_body] pub fn get_required_signers(&self) -> (r: Ed25519KeyHashes) ensures r.wf(), r.keyhashes@ == self.signers() { unimplemented!() }
}
impl VotingBuilder {
    pub uninterp spec fn signers(&self) -> Seq<Rc<Ed25519KeyHash>>;
    #[verifier::external_body] pub fn get_required_signers(&self) -> (r: Ed25519KeyHashes) ensures r.wf(), r.keyhashes@ == self.signers() { unimplemented!() }
}
impl VotingProposalBuilder {
    pub uninterp spec fn signers(&self) -> Seq<Rc<Ed25519KeyHash>>;
    #[verifier::external_body] pub fn get_required_signers(&self) -> (r: Ed25519KeyHashes) ensures r.wf(), r.keyhashes@ == self.signers() { unimplemented!() }
}
impl<'a> From<&'a TxInputsBuilder> for Ed25519KeyHashes {
    #[verifier::external_body] fn from(b: &'a TxInputsBuilder) -> (r: Ed25519KeyHashes) ensures r.wf(), r.keyhashes@ == b.signers() { unimplemented!() }
}
impl<'a> From<&'a NativeScripts> for Ed25519KeyHashes {
    #[verifier::external_body] fn from(s: &'a NativeScripts) -> (r: Ed25519KeyHashes) ensures r.wf(), r.keyhashes@ == scripts_signers(*s) { unimplemented!() }
}
pub open spec fn opt_seq(o: Option<Seq<Rc<Ed25519KeyHash>>>) -> Seq<Rc<Ed25519KeyHash>> { match o { Some(s) => s, None => Seq::empty() } }
/// the set of distinct keys that must sign: union of the eight sources (inputs, collateral, explicit signers, mint, withdrawals, certificates, votes, proposals) (C18)
pub open spec fn needed_keys(b: TransactionBuilder) -> Set<Rc<Ed25519KeyHash>> {
    b.inputs.signers().to_set()
      + b.collateral.signers().to_set()
      + b.required_signers.keyhashes@.to_set()
      + (match b.mint { Some(m) => m.signers().to_set(), None => Set::empty() })
      + (match b.withdrawals { Some(w) => w.signers().to_set(), None => Set::empty() })
      + (match b.certs { Some(c) => c.signers().to_set(), None => Set::empty() })
      + (match b.voting_procedures { Some(v) => v.signers().to_set(), None => Set::empty() })
      + (match b.voting_proposals { Some(v) => v.signers().to_set(), None => Set::empty() })
}
pub proof fn lemma_empty_append<T>(a: Seq<T>)
    ensures dedup_append(a, Seq::<T>::empty()) == a
{ }
