opaque_types!(AuxiliaryData, PlutusData);
#[verifier::external_body] pub struct Redeemers { _p: core::marker::PhantomData<u8> }
#[verifier::external_body] pub struct Costmdls { _p: core::marker::PhantomData<u8> }
#[verifier::external_body] pub struct PlutusList { _p: core::marker::PhantomData<u8> }
pub struct ScriptDataHash(pub [u8; 32]);
pub struct AuxiliaryDataHash(pub [u8; 32]);
pub struct DataHash(pub [u8; 32]);
impl From<[u8; 32]> for ScriptDataHash { #[verifier::external_body] fn from(b: [u8; 32]) -> (r: Self) ensures r.0 == b { unimplemented!() } }
impl From<[u8; 32]> for AuxiliaryDataHash { #[verifier::external_body] fn from(b: [u8; 32]) -> (r: Self) ensures r.0 == b { unimplemented!() } }
impl From<[u8; 32]> for DataHash { #[verifier::external_body] fn from(b: [u8; 32]) -> (r: Self) ensures r.0 == b { unimplemented!() } }
/// Blake2b-256, uninterpreted
pub uninterp spec fn h256(b: Seq<u8>) -> [u8; 32];
#[verifier::external_body] pub fn blake2b256(data: &[u8]) -> (r: [u8; 32]) ensures r == h256(data@) { unimplemented!() }
impl Redeemers {
    pub uninterp spec fn count(&self) -> nat;
    pub uninterp spec fn bytes_of(&self) -> Seq<u8>;      // the redeemers exactly as serialized in the witness set
    #[verifier::external_body] pub fn len(&self) -> (r: usize) ensures r == self.count() { unimplemented!() }
    #[verifier::external_body] pub fn to_bytes(&self) -> (r: Vec<u8>) ensures r@ == self.bytes_of() { unimplemented!() }
}
impl PlutusList {
    pub uninterp spec fn set_bytes_of(&self) -> Seq<u8>;  // the datums serialized as the witness set's datum field (tagged set form)
    pub uninterp spec fn bytes_of(&self) -> Seq<u8>;
    #[verifier::external_body] pub fn to_set_bytes(&self) -> (r: Vec<u8>) ensures r@ == self.set_bytes_of() { unimplemented!() }
    #[verifier::external_body] pub fn to_bytes(&self) -> (r: Vec<u8>) ensures r@ == self.bytes_of() { unimplemented!() }
}
impl Costmdls {
    pub uninterp spec fn views_of(&self) -> Seq<u8>;      // language views encoding of the cost models in use
    pub uninterp spec fn bytes_of(&self) -> Seq<u8>;
    #[verifier::external_body] pub fn language_views_encoding(&self) -> (r: Vec<u8>) ensures r@ == self.views_of() { unimplemented!() }
    #[verifier::external_body] pub fn to_bytes(&self) -> (r: Vec<u8>) ensures r@ == self.bytes_of() { unimplemented!() }
}
/// the ledger's script-integrity preimage (Conway): [ redeemers | datums | language views ], or A0 | datums | A0 when there
/// are datums but no redeemers
pub open spec fn script_data_preimage(r: Redeemers, c: Costmdls, d: Option<PlutusList>) -> Seq<u8> {
    if r.count() == 0 && d is Some {
        seq![0xA0u8] + d->Some_0.set_bytes_of() + seq![0xA0u8]
    } else {
        r.bytes_of() + (match d { Some(x) => x.set_bytes_of(), None => Seq::<u8>::empty() }) + c.views_of()
    }
}
