pub open spec fn k(c: Credential) -> int { if c.0 is Script { 1 } else { 0 } }
/// CIP-19 header byte: type nibble (0000..0011 base by payment/stake kind, 010P pointer, 011P enterprise, 111P reward; P = 1 for a script
/// payment credential) * 16 + network id (low nibble)
pub open spec fn header_of(a: Address) -> int {
    match a.0 {
        AddrType::Base(b) => (k(b.payment) + 2 * k(b.stake)) * 16 + (b.network as int) % 16,
        AddrType::Ptr(p) => (4 + k(p.payment)) * 16 + (p.network as int) % 16,
        AddrType::Enterprise(e) => (6 + k(e.payment)) * 16 + (e.network as int) % 16,
        AddrType::Reward(r) => (14 + k(r.payment)) * 16 + (r.network as int) % 16,
        _ => 0,
    }
}
pub open spec fn body_of(a: Address) -> Seq<u8> {
    match a.0 {
        AddrType::Base(b) => cred_raw(b.payment) + cred_raw(b.stake),
        AddrType::Ptr(p) => cred_raw(p.payment) + varnat(p.stake.slot.0) + varnat(p.stake.tx_index.0) + varnat(p.stake.cert_index.0),
        AddrType::Enterprise(e) => cred_raw(e.payment),
        AddrType::Reward(r) => cred_raw(r.payment),
        _ => Seq::empty(),
    }
}
pub proof fn lemma_hdr(p: u8, s: u8, n: u8)
    requires p <= 1, s <= 1
    ensures ((p << 4) | (s << 5) | (n & 0xF)) == (p + 2 * s) * 16 + n % 16,
            (0b0100_0000u8 | (p << 4) | (n & 0xF)) == (4 + p) * 16 + n % 16,
            (0b0110_0000u8 | (p << 4) | (n & 0xF)) == (6 + p) * 16 + n % 16,
            (0b1110_0000u8 | (p << 4) | (n & 0xF)) == (14 + p) * 16 + n % 16,
{
    assert(((p << 4) | (s << 5) | (n & 0xF)) == (p + 2 * s) * 16 + n % 16) by(bit_vector) requires p <= 1, s <= 1;
    assert((0b0100_0000u8 | (p << 4) | (n & 0xF)) == (4 + p) * 16 + n % 16) by(bit_vector) requires p <= 1;
    assert((0b0110_0000u8 | (p << 4) | (n & 0xF)) == (6 + p) * 16 + n % 16) by(bit_vector) requires p <= 1;
    assert((0b1110_0000u8 | (p << 4) | (n & 0xF)) == (14 + p) * 16 + n % 16) by(bit_vector) requires p <= 1;
}

/// what the accessors report, as functions of the value (the postconditions of Address::kind / payment_cred / network_id)
pub open spec fn kind_spec(a: Address) -> AddressKind {
    match a.0 { AddrType::Base(_) => AddressKind::Base, AddrType::Ptr(_) => AddressKind::Pointer, AddrType::Enterprise(_) => AddressKind::Enterprise,
                AddrType::Reward(_) => AddressKind::Reward, AddrType::Byron(_) => AddressKind::Byron, AddrType::Malformed(_) => AddressKind::Malformed }
}
pub open spec fn shelley_net(a: Address) -> int {
    match a.0 { AddrType::Base(b) => b.network as int, AddrType::Ptr(p) => p.network as int, AddrType::Enterprise(e) => e.network as int,
                AddrType::Reward(r) => r.network as int, _ => 0 }
}
pub open spec fn shelley_pay(a: Address) -> Credential
    recommends a.0 is Base || a.0 is Ptr || a.0 is Enterprise || a.0 is Reward
{
    match a.0 { AddrType::Base(b) => b.payment, AddrType::Ptr(p) => p.payment, AddrType::Enterprise(e) => e.payment, AddrType::Reward(r) => r.payment,
                _ => arbitrary() }
}
/// CIP-19 reading of a header byte: the address kind from the type nibble
pub open spec fn kind_of_header(h: int) -> AddressKind {
    let t = h / 16;
    if t <= 3 { AddressKind::Base } else if t <= 5 { AddressKind::Pointer } else if t <= 7 { AddressKind::Enterprise } else { AddressKind::Reward }
}
/// C11, classification: the header byte that `to_bytes` writes (header_of) reads back, by the CIP-19 table, as exactly the kind, the network id and the
/// payment-credential kind that the accessors report - for every Shelley address whose network id is one a constructor can store (0..=15)
pub proof fn lemma_header_classifies(a: Address)
    requires a.0 is Base || a.0 is Ptr || a.0 is Enterprise || a.0 is Reward, shelley_net(a) <= 15
    ensures 0 <= header_of(a) <= 255,
            header_of(a) % 16 == shelley_net(a),
            kind_of_header(header_of(a)) == kind_spec(a),
            (header_of(a) / 16) % 2 == k(shelley_pay(a)),
            a.0 is Base ==> (header_of(a) / 32) % 2 == k(a.0->Base_0.stake),
{
}
