pub open spec fn k(c: Credential) -> int { if c.0 is Script { 1 } else { 0 } }
/// CIP-19 header byte: type nibble (0000..0011 base by payment/stake kind, 010P pointer, 011P enterprise, 111P reward; P = 1 for a script
/// payment credential) * 16 + network id (low nibble)
pub open spec fn header_of(a: Address) -> int {
    match a.0 {
        AddrType::Base(b) => (k(b.payment) + 2 * k(b.stake)) * 16 + (b.network as int) % 16,
        AddrType::Ptr(p) => (4 + k(p.payment)) * 16 + (p.network as int) % 16,
        AddrType::Enterprise(e) => (6 + k(e.payment)) * 16 + (e.network as int) % 16,
        AddrType::Reward(r) => (14 + k(r.payment)) * 16 + (r.network as int) % 16,
        _ => 0,
    }
}
pub open spec fn body_of(a: Address) -> Seq<u8> {
    match a.0 {
        AddrType::Base(b) => cred_raw(b.payment) + cred_raw(b.stake),
        AddrType::Ptr(p) => cred_raw(p.payment) + varnat(p.stake.slot.0) + varnat(p.stake.tx_index.0) + varnat(p.stake.cert_index.0),
        AddrType::Enterprise(e) => cred_raw(e.payment),
        AddrType::Reward(r) => cred_raw(r.payment),
        _ => Seq::empty(),
    }
}
pub proof fn lemma_hdr(p: u8, s: u8, n: u8)
    requires p <= 1, s <= 1
    ensures ((p << 4) | (s << 5) | (n & 0xF)) == (p + 2 * s) * 16 + n % 16,
            (0b0100_0000u8 | (p << 4) | (n & 0xF)) == (4 + p) * 16 + n % 16,
            (0b0110_0000u8 | (p << 4) | (n & 0xF)) == (6 + p) * 16 + n % 16,
            (0b1110_0000u8 | (p << 4) | (n & 0xF)) == (14 + p) * 16 + n % 16,
{
    assert(((p << 4) | (s << 5) | (n & 0xF)) == (p + 2 * s) * 16 + n % 16) by(bit_vector) requires p <= 1, s <= 1;
    assert((0b0100_0000u8 | (p << 4) | (n & 0xF)) == (4 + p) * 16 + n % 16) by(bit_vector) requires p <= 1;
    assert((0b0110_0000u8 | (p << 4) | (n & 0xF)) == (6 + p) * 16 + n % 16) by(bit_vector) requires p <= 1;
    assert((0b1110_0000u8 | (p << 4) | (n & 0xF)) == (14 + p) * 16 + n % 16) by(bit_vector) requires p <= 1;
}
