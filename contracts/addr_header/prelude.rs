opaque_types!(Ed25519KeyHash, ScriptHash, ByronAddress);
#[derive(Clone, Copy)]
pub struct BigNum(pub u64);
impl From<BigNum> for u64 { #[verifier::external_body] fn from(v: BigNum) -> (r: u64) ensures r == v.0 { unimplemented!() } }
impl vstd::std_specs::convert::FromSpecImpl<BigNum> for u64 { open spec fn obeys_from_spec() -> bool { true } open spec fn from_spec(v: BigNum) -> u64 { v.0 } }
/// raw bytes of a credential = the bytes of the hash it wraps (Credential::to_raw_bytes is proved on its real text below; the hash types' to_bytes: unit hash_types); the variable-length naturals of a pointer: opaque here (unit varnat)
pub open spec fn cred_raw(c: Credential) -> Seq<u8> { match c.0 { CredType::Key(h) => h.bytes_of(), CredType::Script(h) => h.bytes_of() } }
pub uninterp spec fn varnat(n: u64) -> Seq<u8>;
#[verifier::external_body] pub fn variable_nat_encode(num: u64) -> (r: Vec<u8>) ensures r@ == varnat(num) { unimplemented!() }
impl CredKind {
    /// `kind as u8` of the field-less enum CredKind { Key, Script }: 0 / 1 (implicit discriminants; R-enumcast)
    #[verifier::external_body] pub fn as_u8_(self) -> (r: u8) ensures r == (if self is Script { 1u8 } else { 0u8 }) { unimplemented!() }
}
impl Address {
    /// strict stand-alone parser (header dispatch and exact lengths: Kani address harnesses); here only: it never accepts the empty string
    #[verifier::external_body] pub fn from_bytes_impl_safe(data: &[u8]) -> (r: Result<Address, DeserializeError>) ensures r is Ok ==> data@.len() >= 1 { unimplemented!() }
    /// lenient parser used for embedded addresses: falls back to a malformed-address carrier, so it says nothing about the length
    #[verifier::external_body] pub fn from_bytes_impl_unsafe(data: &[u8]) -> (r: Address) { unimplemented!() }
}
impl Clone for Credential { #[verifier::external_body] fn clone(&self) -> (r: Self) ensures r == *self { unimplemented!() } }
impl Clone for Pointer { #[verifier::external_body] fn clone(&self) -> (r: Self) ensures r == *self { unimplemented!() } }
