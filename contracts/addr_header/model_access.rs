// derived `Clone` of the four Shelley address records (trusted: derive expansion = field-wise copy)
impl Clone for BaseAddress { #[verifier::external_body] fn clone(&self) -> (r: Self) ensures r == *self { unimplemented!() } }
impl Clone for EnterpriseAddress { #[verifier::external_body] fn clone(&self) -> (r: Self) ensures r == *self { unimplemented!() } }
impl Clone for RewardAddress { #[verifier::external_body] fn clone(&self) -> (r: Self) ensures r == *self { unimplemented!() } }
impl Clone for PointerAddress { #[verifier::external_body] fn clone(&self) -> (r: Self) ensures r == *self { unimplemented!() } }
impl ByronAddress {
    /// network id of a Byron address (protocol magic lookup in legacy_address: not under contract here)
    #[verifier::external_body] pub fn network_id(&self) -> (r: Result<u8, JsError>) { unimplemented!() }
}
