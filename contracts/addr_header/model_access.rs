// derived `Clone` of the four Shelley address records (trusted: derive expansion = field-wise copy)
impl Clone for BaseAddress { #[verifier::external_body] fn clone(&self) -> (r: Self) ensures r == *self { unimplemented!() } }
impl Clone for EnterpriseAddress { #[verifier::external_body] fn clone(&self) -> (r: Self) ensures r == *self { unimplemented!() } }
impl Clone for RewardAddress { #[verifier::external_body] fn clone(&self) -> (r: Self) ensures r == *self { unimplemented!() } }
impl Clone for PointerAddress { #[verifier::external_body] fn clone(&self) -> (r: Self) ensures r == *self { unimplemented!() } }
impl ByronAddress {
    /// network id of a Byron address (protocol magic lookup in legacy_address: not under contract here)
    #[verifier::external_body] pub fn network_id(&self) -> (r: Result<u8, JsError>) { unimplemented!() }
}
impl Clone for MalformedAddress { #[verifier::external_body] fn clone(&self) -> (r: Self) ensures r.0@ == self.0@ { unimplemented!() } }
impl BigNum {
    /// `TryFrom<BigNum> for u32` (contract PROVED on the real text in unit numeric, obligation u32::try_from<BigNum>; assumed here; R-opcall routes `.try_into()` to it)
    #[verifier::external_body] pub fn try_into_u32(value: BigNum) -> (r: Result<u32, JsError>)
        ensures value.0 <= 0xffff_ffff ==> (r is Ok && r->Ok_0 == value.0), value.0 > 0xffff_ffff ==> r is Err { unimplemented!() }
}
/// `From<u32> for BigNum` (contract PROVED in unit numeric, obligation BigNum::from<u32>; assumed here)
impl From<u32> for BigNum { #[verifier::external_body] fn from(v: u32) -> (r: BigNum) ensures r.0 == v { unimplemented!() } }
impl vstd::std_specs::convert::FromSpecImpl<u32> for BigNum { open spec fn obeys_from_spec() -> bool { true } open spec fn from_spec(v: u32) -> BigNum { BigNum(v as u64) } }
// the crate's aliases (rust/src/lib.rs, rust/src/protocol_types/*.rs): all `u32`
pub type Slot32 = u32;
pub type TransactionIndex = u32;
pub type CertificateIndex = u32;
// derived `Clone` of the two 28-byte hash newtypes (trusted: derive expansion)
impl Clone for Ed25519KeyHash { #[verifier::external_body] fn clone(&self) -> (r: Self) ensures r == *self { unimplemented!() } }
impl Clone for ScriptHash { #[verifier::external_body] fn clone(&self) -> (r: Self) ensures r == *self { unimplemented!() } }
impl Clone for ByronAddress { #[verifier::external_body] fn clone(&self) -> (r: Self) ensures r == *self { unimplemented!() } }
