pub type Coin = BigNum;
opaque_types!(AssetName, ScriptHash);
pub type PolicyID = ScriptHash;
/// quantity of (policy, asset name) in a multiasset, 0 if absent: `amount_or_zero` (nested fn of partial_cmp: Option combinators over
/// BTreeMap::get; ASSUMED to be this function of its arguments)
pub uninterp spec fn amt(ma: MultiAsset, pid: PolicyID, aname: AssetName) -> BigNum;
#[verifier::external_body] pub fn amount_or_zero(ma: &MultiAsset, pid: &PolicyID, aname: &AssetName) -> (r: Coin) ensures r == amt(*ma, *pid, *aname) { unimplemented!() }
// derived Ord of BigNum(u64) = integer order
impl vstd::std_specs::cmp::PartialOrdSpecImpl for BigNum {
    open spec fn obeys_partial_cmp_spec() -> bool { true }
    open spec fn partial_cmp_spec(&self, other: &BigNum) -> Option<core::cmp::Ordering> {
        if self.0 < other.0 { Some(core::cmp::Ordering::Less) } else if self.0 == other.0 { Some(core::cmp::Ordering::Equal) } else { Some(core::cmp::Ordering::Greater) }
    }
}
impl PartialOrd for BigNum { #[verifier::external_body] fn partial_cmp(&self, o: &BigNum) -> (r: Option<core::cmp::Ordering>) { unimplemented!() } }
impl vstd::std_specs::cmp::OrdSpecImpl for BigNum {
    open spec fn obeys_cmp_spec() -> bool { true }
    open spec fn cmp_spec(&self, other: &BigNum) -> core::cmp::Ordering {
        if self.0 < other.0 { core::cmp::Ordering::Less } else if self.0 == other.0 { core::cmp::Ordering::Equal } else { core::cmp::Ordering::Greater }
    }
}
impl Ord for BigNum { #[verifier::external_body] fn cmp(&self, o: &BigNum) -> (r: core::cmp::Ordering) { unimplemented!() } }

/// std::collections::BTreeMap as far as this code uses it: an entry sequence in ascending key order (R-btree); the read-only part of
/// its API is given (ASSUMED std semantics) so that an edit that starts using another reader still reaches the verifier
pub struct BTreeMap<K, V> { pub entries: Vec<(K, V)> }
impl<K, V> BTreeMap<K, V> {
    #[verifier::external_body] pub fn new() -> (r: Self) ensures r.entries@ == Seq::<(K, V)>::empty() { unimplemented!() }
    #[verifier::external_body] pub fn iter(&self) -> (r: core::slice::Iter<'_, (K, V)>)
        ensures r.remaining() == refs(self.entries@), r.obeys_prophetic_iter_laws(), r.decrease() is Some { unimplemented!() }
    #[verifier::external_body] pub fn len(&self) -> (r: usize) ensures r == self.entries@.len() { unimplemented!() }
    #[verifier::external_body] pub fn is_empty(&self) -> (r: bool) ensures r == (self.entries@.len() == 0) { unimplemented!() }
    #[verifier::external_body] pub fn contains_key(&self, k: &K) -> (r: bool)
        ensures r == (exists|i: int| 0 <= i < self.entries@.len() && self.entries@[i].0 == *k) { unimplemented!() }
    #[verifier::external_body] pub fn get(&self, k: &K) -> (r: Option<&V>)
        ensures r is Some ==> (exists|i: int| 0 <= i < self.entries@.len() && self.entries@[i].0 == *k && self.entries@[i].1 == *r->Some_0),
                r is None ==> !(exists|i: int| 0 <= i < self.entries@.len() && self.entries@[i].0 == *k) { unimplemented!() }
}
/// `amount_or_zero` on a bundle without entries: `get` finds nothing, so the quantity is the default 0 (ASSUMED with amount_or_zero)
#[verifier::external_body] pub proof fn lemma_amt_empty(ma: MultiAsset, pid: PolicyID, aname: AssetName)
    requires ma.0.entries@.len() == 0 ensures amt(ma, pid, aname).0 == 0 { }
/// quantity of an asset in the optional asset part of a Value (no asset part = 0)
pub open spec fn qty(o: Option<MultiAsset>, pid: PolicyID, aname: AssetName) -> int { match o { Some(m) => amt(m, pid, aname).0 as int, None => 0 } }
pub open spec fn ents(o: Option<MultiAsset>) -> Seq<(PolicyID, Assets)> { match o { Some(m) => m.0.entries@, None => Seq::empty() } }
/// every quantity on the left does not exceed the quantity of the same asset on the right
pub open spec fn oma_le(l: Option<MultiAsset>, r: Option<MultiAsset>) -> bool {
    forall|i: int, j: int| 0 <= i < ents(l).len() && 0 <= j < ents(l)[i].1.0.entries@.len() ==> ents(l)[i].1.0.entries@[j].1.0 <= qty(r, ents(l)[i].0, ents(l)[i].1.0.entries@[j].0)
}
pub open spec fn ord_of(le: bool, ge: bool) -> Option<core::cmp::Ordering> {
    if le && ge { Some(core::cmp::Ordering::Equal) } else if le { Some(core::cmp::Ordering::Less) } else if ge { Some(core::cmp::Ordering::Greater) } else { None }
}
impl Clone for MultiAsset { #[verifier::external_body] fn clone(&self) -> (r: Self) ensures r == *self { unimplemented!() } }
