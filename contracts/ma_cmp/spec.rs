/// entry (i, j) of the left bundle does not exceed the quantity of the same asset on the right (absent = 0)
pub open spec fn entry_le(l: Seq<(PolicyID, Assets)>, rhs: MultiAsset, i: int, j: int) -> bool {
    l[i].1.0.entries@[j].1.0 <= amt(rhs, l[i].0, l[i].1.0.entries@[j].0).0
}
pub open spec fn ma_le(l: Seq<(PolicyID, Assets)>, rhs: MultiAsset) -> bool {
    forall|i: int, j: int| 0 <= i < l.len() && 0 <= j < l[i].1.0.entries@.len() ==> entry_le(l, rhs, i, j)
}
