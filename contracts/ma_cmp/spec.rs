/// entry (i, j) of the left bundle does not exceed the quantity of the same asset on the right (absent = 0)
pub open spec fn entry_le(l: Seq<(PolicyID, Assets)>, rhs: MultiAsset, i: int, j: int) -> bool {
    l[i].1.0.entries@[j].1.0 <= amt(rhs, l[i].0, l[i].1.0.entries@[j].0).0
}
pub open spec fn ma_le(l: Seq<(PolicyID, Assets)>, rhs: MultiAsset) -> bool {
    forall|i: int, j: int| 0 <= i < l.len() && 0 <= j < l[i].1.0.entries@.len() ==> entry_le(l, rhs, i, j)
}
/// the bundle comparison of MultiAsset::partial_cmp (`ma_le`) is the optional-bundle comparison of Value::partial_cmp (`oma_le`),
/// an empty bundle standing for "no asset part"
pub proof fn lemma_cmp_bridge(l: MultiAsset, r: MultiAsset)
    ensures ma_le(l.0.entries@, r) == oma_le(Some(l), Some(r)),
            r.0.entries@.len() == 0 ==> ma_le(l.0.entries@, r) == oma_le(Some(l), None),
            l.0.entries@.len() == 0 ==> ma_le(l.0.entries@, r),
            oma_le(None, Some(r)), oma_le(None, None),
{
    let le = l.0.entries@;
    if ma_le(le, r) {
        assert forall|i: int, j: int| 0 <= i < le.len() && 0 <= j < le[i].1.0.entries@.len() implies le[i].1.0.entries@[j].1.0 <= qty(Some(r), le[i].0, le[i].1.0.entries@[j].0) by { assert(entry_le(le, r, i, j)); }
    }
    if oma_le(Some(l), Some(r)) {
        assert forall|i: int, j: int| 0 <= i < le.len() && 0 <= j < le[i].1.0.entries@.len() implies entry_le(le, r, i, j) by { assert(ents(Some(l)) == le); }
    }
    if r.0.entries@.len() == 0 {
        assert forall|i: int, j: int| 0 <= i < le.len() && 0 <= j < le[i].1.0.entries@.len() implies amt(r, le[i].0, le[i].1.0.entries@[j].0).0 == 0 by { lemma_amt_empty(r, le[i].0, le[i].1.0.entries@[j].0); }
        if ma_le(le, r) {
            assert forall|i: int, j: int| 0 <= i < le.len() && 0 <= j < le[i].1.0.entries@.len() implies le[i].1.0.entries@[j].1.0 <= qty(None, le[i].0, le[i].1.0.entries@[j].0) by { assert(entry_le(le, r, i, j)); }
        }
        if oma_le(Some(l), None) {
            assert forall|i: int, j: int| 0 <= i < le.len() && 0 <= j < le[i].1.0.entries@.len() implies entry_le(le, r, i, j) by { assert(ents(Some(l)) == le); }
        }
    }
}
