use core::cmp::Ordering;
// derived `Ord`/`PartialOrd` of the newtype `BigNum(u64)` is the order of the wrapped integer (trusted: derive expansion)
impl vstd::std_specs::cmp::PartialOrdSpecImpl for BigNum {
    open spec fn obeys_partial_cmp_spec() -> bool { true }
    open spec fn partial_cmp_spec(&self, other: &BigNum) -> Option<Ordering> {
        if self.0 < other.0 { Some(Ordering::Less) } else if self.0 == other.0 { Some(Ordering::Equal) } else { Some(Ordering::Greater) }
    }
}
impl vstd::std_specs::cmp::OrdSpecImpl for BigNum {
    open spec fn obeys_cmp_spec() -> bool { true }
    open spec fn cmp_spec(&self, other: &BigNum) -> Ordering {
        if self.0 < other.0 { Ordering::Less } else if self.0 == other.0 { Ordering::Equal } else { Ordering::Greater }
    }
}
impl PartialOrd for BigNum { #[verifier::external_body] fn partial_cmp(&self, o: &BigNum) -> (r: Option<Ordering>) { unimplemented!() } }
impl Ord for BigNum { #[verifier::external_body] fn cmp(&self, o: &BigNum) -> (r: Ordering) { unimplemented!() } }

// the Int range invariant of property C14
pub open spec fn int_wf(i: Int) -> bool { -0x1_0000_0000_0000_0000 <= i.0 <= 0xffff_ffff_ffff_ffff }
pub assume_specification [u64::max_value] () -> (r: u64) ensures r == u64::MAX;

impl vstd::std_specs::convert::FromSpecImpl<u64> for BigNum {
    open spec fn obeys_from_spec() -> bool { true }
    open spec fn from_spec(v: u64) -> BigNum { BigNum(v) }
}
impl vstd::std_specs::convert::FromSpecImpl<usize> for BigNum {
    open spec fn obeys_from_spec() -> bool { true }
    open spec fn from_spec(v: usize) -> BigNum { BigNum(v as u64) }
}

// decimal parsing of the std library (`str::parse::<i128>`): an uninterpreted partial function of the text (ASSUMED; R-parse)
#[verifier::external_body] pub struct ParseIntError { _p: core::marker::PhantomData<u8> }
pub uninterp spec fn dec_i128(s: Seq<char>) -> Option<i128>;
#[verifier::external_body] pub fn parse_i128(s: &str) -> (r: Result<i128, ParseIntError>)
    ensures r is Ok <==> dec_i128(s@) is Some, r is Ok ==> Some(r->Ok_0) == dec_i128(s@) { unimplemented!() }
// i128::abs (overflows only for i128::MIN, which panics under overflow checks: precondition)
pub assume_specification [i128::abs] (x: i128) -> (r: i128)
    requires x != i128::MIN
    ensures r == (if x < 0 { -x } else { x as int });
