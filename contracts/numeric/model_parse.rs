// decimal parsing of the std library (`str::parse::<u64>`): an uninterpreted partial function of the text (ASSUMED; R-parse), as for i128 in prelude.rs
pub uninterp spec fn dec_u64(s: Seq<char>) -> Option<u64>;
#[verifier::external_body] pub fn parse_u64(s: &str) -> (r: Result<u64, ParseIntError>)
    ensures r is Ok <==> dec_u64(s@) is Some, r is Ok ==> Some(r->Ok_0) == dec_u64(s@) { unimplemented!() }
