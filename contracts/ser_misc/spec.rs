impl Ser for DataOption {
    /// datum_option = [ 0, hash32 // 1, #6.24(bytes .cbor plutus_data) ]   (encoder not under contract here)
    uninterp spec fn enc(&self) -> Seq<Tok>;
    #[verifier::external_body] fn serialize(&self, serializer: &mut Serializer) -> (r: Result<(), CborError>) { unimplemented!() }
}
pub open spec fn inline_datum(o: TransactionOutput) -> bool { o.plutus_data is Some && o.plutus_data->Some_0 is Data }
pub open spec fn datum_hash_of(o: TransactionOutput) -> Option<DataHash> {
    match o.plutus_data { Some(DataOption::DataHash(h)) => Some(h), _ => None }
}
/// Conway CDDL transaction_output = legacy [address, amount, ? datum_hash] / post-alonzo { 0: address, 1: amount, ? 2: datum_option, ? 3: script_ref }.
/// The library writes the map form iff the output has an inline datum or a script reference.
pub open spec fn output_enc(o: TransactionOutput) -> Seq<Tok> {
    if inline_datum(o) || o.script_ref is Some {
        seq![Tok::Map((2 + cnt_o(o.plutus_data) + cnt_o(o.script_ref)) as u64), Tok::UInt(0)] + o.address.enc() + seq![Tok::UInt(1)] + o.amount.enc()
          + (match o.plutus_data { Some(d) => seq![Tok::UInt(2)] + d.enc(), None => Seq::empty() })
          + (match o.script_ref { Some(r) => seq![Tok::UInt(3)] + r.enc(), None => Seq::empty() })
    } else {
        seq![Tok::Arr((2 + cnt_o(datum_hash_of(o))) as u64)] + o.address.enc() + o.amount.enc()
          + (match datum_hash_of(o) { Some(h) => h.enc(), None => Seq::empty() })
    }
}
/// value = coin / [coin, multiasset<positive_coin>]: the array form only when there really are assets
pub open spec fn value_enc(v: Value) -> Seq<Tok> {
    if v.multiasset is Some && v.multiasset->Some_0.nonempty() { seq![Tok::Arr(2)] + v.coin.enc() + v.multiasset->Some_0.enc() } else { v.coin.enc() }
}
pub open spec fn flat_enc(s: Seq<TransactionOutput>) -> Seq<Tok> decreases s.len() {
    if s.len() == 0 { Seq::empty() } else { flat_enc(s.drop_last()) + output_enc(s.last()) }
}
pub proof fn lemma_flat_step(s: Seq<TransactionOutput>, i: int)
    requires 0 <= i < s.len() ensures flat_enc(s.take(i + 1)) == flat_enc(s.take(i)) + output_enc(s[i])
{ assert(s.take(i + 1).drop_last() =~= s.take(i)); }
