ser_coll!(TransactionBody, TransactionWitnessSet, AuxiliaryData, Address, ScriptRef, DataHash, PlutusData, BigNum);
pub type Coin = BigNum;
impl Clone for DataHash { #[verifier::external_body] fn clone(&self) -> (r: Self) ensures r == *self { unimplemented!() } }
/// the multi-asset part of a Value (encoder in unit ser_assets); `nonempty()` = has at least one policy with at least one asset
#[verifier::external_body] pub struct MultiAsset { _p: core::marker::PhantomData<u8> }
impl Ser for MultiAsset {
    uninterp spec fn enc(&self) -> Seq<Tok>;
    #[verifier::external_body] fn serialize(&self, serializer: &mut Serializer) -> (r: Result<(), CborError>) { unimplemented!() }
}
impl MultiAsset {
    pub uninterp spec fn nonempty(&self) -> bool;
    #[verifier::external_body] pub fn reduce_empty_to_none(&self) -> (r: Option<&MultiAsset>)
        ensures self.nonempty() ==> r == Some(self), !self.nonempty() ==> r is None { unimplemented!() }
}
