use std::collections::BTreeSet;
// element: an opaque token with the derived total order (ASSUMED: the derived Ord of PlutusData is a total order consistent with ==)
macro_rules! ord_token { ($($n:ident),* $(,)?) => { verus!{ $(
    #[verifier::external_body] pub struct $n { _p: core::marker::PhantomData<u8> }
    impl Clone for $n { #[verifier::external_body] fn clone(&self) -> (r: $n) ensures r == *self { unimplemented!() } }
    impl PartialEq for $n { #[verifier::external_body] fn eq(&self, o: &$n) -> bool { unimplemented!() } }
    impl Eq for $n {}
    impl PartialOrd for $n { #[verifier::external_body] fn partial_cmp(&self, o: &$n) -> Option<core::cmp::Ordering> { unimplemented!() } }
    impl Ord for $n { #[verifier::external_body] fn cmp(&self, o: &$n) -> core::cmp::Ordering { unimplemented!() } }
)* } } }
ord_token!(PlutusData, NativeScript, PlutusScript, Redeemer);
opaque_types!(RequiredSigners, PlutusScriptRef, TransactionInput);
pub enum CborContainerType { Array, Map }
/// per-language set tags of a PlutusScripts collection (a HashMap the de-duplication only clones)
#[verifier::external_body] pub struct LangSetTypes { _p: core::marker::PhantomData<u8> }
clone_eq!(LangSetTypes);
pub enum CborSetType { Tagged, Untagged }
clone_eq!(CborSetType);
/// first occurrences of the elements, in their original order
pub open spec fn dedup_seq<T>(s: Seq<T>) -> Seq<T> decreases s.len() {
    if s.len() == 0 { Seq::empty() } else { let p = dedup_seq(s.drop_last()); if p.contains(s.last()) { p } else { p.push(s.last()) } }
}
pub proof fn lemma_dedup_step<T>(s: Seq<T>, i: int)
    requires 0 <= i < s.len()
    ensures dedup_seq(s.take(i + 1)) == (if dedup_seq(s.take(i)).contains(s[i]) { dedup_seq(s.take(i)) } else { dedup_seq(s.take(i)).push(s[i]) })
{ assert(s.take(i + 1).drop_last() =~= s.take(i)); }
pub open spec fn set_ok() -> bool {
    vstd::laws_cmp::obeys_cmp_spec::<&PlutusData>() && vstd::laws_cmp::obeys_cmp_spec::<&NativeScript>() && vstd::laws_cmp::obeys_cmp_spec::<NativeScript>()
      && vstd::laws_cmp::obeys_cmp_spec::<PlutusScript>() && vstd::laws_cmp::obeys_cmp_spec::<Redeemer>()
}
pub proof fn lemma_push_contains<T>(p: Seq<T>, e: T)
    ensures forall|y: T| #[trigger] p.push(e).contains(y) <==> p.contains(y) || y == e
{
    assert forall|y: T| p.push(e).contains(y) implies p.contains(y) || y == e by {
        let i = choose|i: int| 0 <= i < p.push(e).len() && p.push(e)[i] == y; if i < p.len() { assert(p[i] == y); } }
    assert forall|y: T| p.contains(y) || y == e implies p.push(e).contains(y) by {
        if p.contains(y) { let i = choose|i: int| 0 <= i < p.len() && p[i] == y; assert(p.push(e)[i] == y); } else { assert(p.push(e)[p.len() as int] == y); } }
}
pub proof fn lemma_dedup_push<T>(a: Seq<T>, e: T)
    ensures dedup_seq(a.push(e)) == (if dedup_seq(a).contains(e) { dedup_seq(a) } else { dedup_seq(a).push(e) })
{ assert(a.push(e).drop_last() =~= a); }
pub proof fn lemma_dedup_empty<T>(s: Seq<T>) ensures (dedup_seq(s).len() == 0) == (s.len() == 0) decreases s.len()
{ if s.len() > 0 { lemma_dedup_empty(s.drop_last()); } }
// what PlutusWitnesses::collect gathers from a witness sequence, before de-duplication
pub open spec fn w_scripts(w: PlutusWitness) -> Seq<PlutusScript> { match w.script { PlutusScriptSourceEnum::Script(x, _) => seq![x], _ => Seq::empty() } }
pub open spec fn w_datums(w: PlutusWitness) -> Seq<PlutusData> { match w.datum { Some(DatumSourceEnum::Datum(x)) => seq![x], _ => Seq::empty() } }
pub open spec fn att_scripts(s: Seq<PlutusWitness>) -> Seq<PlutusScript> decreases s.len() { if s.len() == 0 { Seq::empty() } else { att_scripts(s.drop_last()) + w_scripts(s.last()) } }
pub open spec fn att_datums(s: Seq<PlutusWitness>) -> Seq<PlutusData> decreases s.len() { if s.len() == 0 { Seq::empty() } else { att_datums(s.drop_last()) + w_datums(s.last()) } }
pub open spec fn att_redeemers(s: Seq<PlutusWitness>) -> Seq<Redeemer> decreases s.len() { if s.len() == 0 { Seq::empty() } else { att_redeemers(s.drop_last()).push(s.last().redeemer) } }
pub proof fn lemma_att_step(s: Seq<PlutusWitness>, i: int)
    requires 0 <= i < s.len()
    ensures att_scripts(s.take(i + 1)) == att_scripts(s.take(i)) + w_scripts(s[i]), att_datums(s.take(i + 1)) == att_datums(s.take(i)) + w_datums(s[i]),
            att_redeemers(s.take(i + 1)) == att_redeemers(s.take(i)).push(s[i].redeemer)
{ assert(s.take(i + 1).drop_last() =~= s.take(i)); }
