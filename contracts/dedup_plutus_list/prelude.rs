use std::collections::BTreeSet;
// element: an opaque token with the derived total order (ASSUMED: the derived Ord of PlutusData is a total order consistent with ==)
#[verifier::external_body] pub struct PlutusData { _p: core::marker::PhantomData<u8> }
impl Clone for PlutusData { #[verifier::external_body] fn clone(&self) -> (r: PlutusData) ensures r == *self { unimplemented!() } }
impl PartialEq for PlutusData { #[verifier::external_body] fn eq(&self, o: &PlutusData) -> bool { unimplemented!() } }
impl Eq for PlutusData {}
impl PartialOrd for PlutusData { #[verifier::external_body] fn partial_cmp(&self, o: &PlutusData) -> Option<core::cmp::Ordering> { unimplemented!() } }
impl Ord for PlutusData { #[verifier::external_body] fn cmp(&self, o: &PlutusData) -> core::cmp::Ordering { unimplemented!() } }
pub enum CborSetType { Tagged, Untagged }
clone_eq!(CborSetType);
/// first occurrences of the elements, in their original order
pub open spec fn dedup_seq<T>(s: Seq<T>) -> Seq<T> decreases s.len() {
    if s.len() == 0 { Seq::empty() } else { let p = dedup_seq(s.drop_last()); if p.contains(s.last()) { p } else { p.push(s.last()) } }
}
pub proof fn lemma_dedup_step<T>(s: Seq<T>, i: int)
    requires 0 <= i < s.len()
    ensures dedup_seq(s.take(i + 1)) == (if dedup_seq(s.take(i)).contains(s[i]) { dedup_seq(s.take(i)) } else { dedup_seq(s.take(i)).push(s[i]) })
{ assert(s.take(i + 1).drop_last() =~= s.take(i)); }
pub open spec fn set_ok() -> bool { vstd::laws_cmp::obeys_cmp_spec::<&PlutusData>() }
pub proof fn lemma_push_contains<T>(p: Seq<T>, e: T)
    ensures forall|y: T| #[trigger] p.push(e).contains(y) <==> p.contains(y) || y == e
{
    assert forall|y: T| p.push(e).contains(y) implies p.contains(y) || y == e by {
        let i = choose|i: int| 0 <= i < p.push(e).len() && p.push(e)[i] == y; if i < p.len() { assert(p[i] == y); } }
    assert forall|y: T| p.contains(y) || y == e implies p.push(e).contains(y) by {
        if p.contains(y) { let i = choose|i: int| 0 <= i < p.len() && p[i] == y; assert(p.push(e)[i] == y); } else { assert(p.push(e)[p.len() as int] == y); } }
}
