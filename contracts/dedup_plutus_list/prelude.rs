use std::collections::BTreeSet;
// element: an opaque token with the derived total order (ASSUMED: the derived Ord of PlutusData is a total order consistent with ==)
macro_rules! ord_token { ($($n:ident),* $(,)?) => { verus!{ $(
    #[verifier::external_body] pub struct $n { _p: core::marker::PhantomData<u8> }
    impl Clone for $n { #[verifier::external_body] fn clone(&self) -> (r: $n) ensures r == *self { unimplemented!() } }
    impl PartialEq for $n { #[verifier::external_body] fn eq(&self, o: &$n) -> bool { unimplemented!() } }
    impl Eq for $n {}
    impl PartialOrd for $n { #[verifier::external_body] fn partial_cmp(&self, o: &$n) -> Option<core::cmp::Ordering> { unimplemented!() } }
    impl Ord for $n { #[verifier::external_body] fn cmp(&self, o: &$n) -> core::cmp::Ordering { unimplemented!() } }
)* } } }
ord_token!(PlutusData, NativeScript, PlutusScript, Redeemer);
opaque_types!(RequiredSigners, PlutusScriptRef, TransactionInput);
pub enum CborContainerType { Array, Map }
/// per-language set tags of a PlutusScripts collection (a HashMap the de-duplication only clones)
#[verifier::external_body] pub struct LangSetTypes { _p: core::marker::PhantomData<u8> }
clone_eq!(LangSetTypes);
pub enum CborSetType { Tagged, Untagged }
clone_eq!(CborSetType);
/// first occurrences of the elements, in their original order
pub open spec fn dedup_seq<T>(s: Seq<T>) -> Seq<T> decreases s.len() {
    if s.len() == 0 { Seq::empty() } else { let p = dedup_seq(s.drop_last()); if p.contains(s.last()) { p } else { p.push(s.last()) } }
}
pub proof fn lemma_dedup_step<T>(s: Seq<T>, i: int)
    requires 0 <= i < s.len()
    ensures dedup_seq(s.take(i + 1)) == (if dedup_seq(s.take(i)).contains(s[i]) { dedup_seq(s.take(i)) } else { dedup_seq(s.take(i)).push(s[i]) })
{ assert(s.take(i + 1).drop_last() =~= s.take(i)); }
pub open spec fn set_ok() -> bool {
    vstd::laws_cmp::obeys_cmp_spec::<&PlutusData>() && vstd::laws_cmp::obeys_cmp_spec::<&NativeScript>() && vstd::laws_cmp::obeys_cmp_spec::<NativeScript>()
      && vstd::laws_cmp::obeys_cmp_spec::<PlutusScript>() && vstd::laws_cmp::obeys_cmp_spec::<Redeemer>()
}
pub proof fn lemma_push_contains<T>(p: Seq<T>, e: T)
    ensures forall|y: T| #[trigger] p.push(e).contains(y) <==> p.contains(y) || y == e
{
    assert forall|y: T| p.push(e).contains(y) implies p.contains(y) || y == e by {
        let i = choose|i: int| 0 <= i < p.push(e).len() && p.push(e)[i] == y; if i < p.len() { assert(p[i] == y); } }
    assert forall|y: T| p.contains(y) || y == e implies p.push(e).contains(y) by {
        if p.contains(y) { let i = choose|i: int| 0 <= i < p.len() && p[i] == y; assert(p.push(e)[i] == y); } else { assert(p.push(e)[p.len() as int] == y); } }
}
pub proof fn lemma_dedup_push<T>(a: Seq<T>, e: T)
    ensures dedup_seq(a.push(e)) == (if dedup_seq(a).contains(e) { dedup_seq(a) } else { dedup_seq(a).push(e) })
{ assert(a.push(e).drop_last() =~= a); }
pub proof fn lemma_dedup_empty<T>(s: Seq<T>) ensures (dedup_seq(s).len() == 0) == (s.len() == 0) decreases s.len()
{ if s.len() > 0 { lemma_dedup_empty(s.drop_last()); } }
// what PlutusWitnesses::collect gathers from a witness sequence, before de-duplication
pub open spec fn w_scripts(w: PlutusWitness) -> Seq<PlutusScript> { match w.script { PlutusScriptSourceEnum::Script(x, _) => seq![x], _ => Seq::empty() } }
pub open spec fn w_datums(w: PlutusWitness) -> Seq<PlutusData> { match w.datum { Some(DatumSourceEnum::Datum(x)) => seq![x], _ => Seq::empty() } }
pub open spec fn att_scripts(s: Seq<PlutusWitness>) -> Seq<PlutusScript> decreases s.len() { if s.len() == 0 { Seq::empty() } else { att_scripts(s.drop_last()) + w_scripts(s.last()) } }
pub open spec fn att_datums(s: Seq<PlutusWitness>) -> Seq<PlutusData> decreases s.len() { if s.len() == 0 { Seq::empty() } else { att_datums(s.drop_last()) + w_datums(s.last()) } }
pub open spec fn att_redeemers(s: Seq<PlutusWitness>) -> Seq<Redeemer> decreases s.len() { if s.len() == 0 { Seq::empty() } else { att_redeemers(s.drop_last()).push(s.last().redeemer) } }
pub proof fn lemma_att_step(s: Seq<PlutusWitness>, i: int)
    requires 0 <= i < s.len()
    ensures att_scripts(s.take(i + 1)) == att_scripts(s.take(i)) + w_scripts(s[i]), att_datums(s.take(i + 1)) == att_datums(s.take(i)) + w_datums(s[i]),
            att_redeemers(s.take(i + 1)) == att_redeemers(s.take(i)).push(s[i].redeemer)
{ assert(s.take(i + 1).drop_last() =~= s.take(i)); }

// ---- datums are de-duplicated by the bytes they are written as (C16: the tag-258 datum set has no two equal elements ON THE WIRE; C09: hashed = emitted)
impl PlutusData {
    pub uninterp spec fn bytes_of(&self) -> Seq<u8>;
    #[verifier::external_body] pub fn to_bytes(&self) -> (r: Vec<u8>) ensures r@ == self.bytes_of() { unimplemented!() }
}
/// a BTreeSet<Vec<u8>> compares CONTENTS (std: Ord of Vec<u8> is lexicographic on the bytes): its members as a set of byte strings (ASSUMED)
pub uninterp spec fn bkeys(s: BTreeSet<Vec<u8>>) -> Set<Seq<u8>>;
#[verifier::external_body] pub fn bytes_set_new_() -> (r: BTreeSet<Vec<u8>>) ensures bkeys(r) == Set::<Seq<u8>>::empty() { unimplemented!() }
#[verifier::external_body] pub fn bytes_set_insert_(s: &mut BTreeSet<Vec<u8>>, v: Vec<u8>) -> (r: bool)
    ensures bkeys(*final(s)) == bkeys(*old(s)).insert(v@), r == !bkeys(*old(s)).contains(v@) { unimplemented!() }
pub open spec fn has_bytes(p: Seq<PlutusData>, b: Seq<u8>) -> bool { exists|j: int| 0 <= j < p.len() && (#[trigger] p[j]).bytes_of() == b }
/// first occurrences BY SERIALIZED BYTES, in their original order
pub open spec fn dedup_k(s: Seq<PlutusData>) -> Seq<PlutusData> decreases s.len() {
    if s.len() == 0 { Seq::empty() } else { let p = dedup_k(s.drop_last()); if has_bytes(p, s.last().bytes_of()) { p } else { p.push(s.last()) } }
}
pub proof fn lemma_dedup_k_step(s: Seq<PlutusData>, i: int)
    requires 0 <= i < s.len()
    ensures dedup_k(s.take(i + 1)) == (if has_bytes(dedup_k(s.take(i)), s[i].bytes_of()) { dedup_k(s.take(i)) } else { dedup_k(s.take(i)).push(s[i]) })
{ assert(s.take(i + 1).drop_last() =~= s.take(i)); }
pub proof fn lemma_has_bytes_push(p: Seq<PlutusData>, e: PlutusData)
    ensures forall|b: Seq<u8>| #[trigger] has_bytes(p.push(e), b) <==> has_bytes(p, b) || e.bytes_of() == b
{
    assert forall|b: Seq<u8>| #[trigger] has_bytes(p.push(e), b) <==> has_bytes(p, b) || e.bytes_of() == b by {
        if has_bytes(p.push(e), b) { let j = choose|j: int| 0 <= j < p.push(e).len() && (#[trigger] p.push(e)[j]).bytes_of() == b; if j < p.len() { assert(p[j].bytes_of() == b); } }
        if has_bytes(p, b) { let j = choose|j: int| 0 <= j < p.len() && (#[trigger] p[j]).bytes_of() == b; assert(p.push(e)[j].bytes_of() == b); }
        if e.bytes_of() == b { assert(p.push(e)[p.len() as int].bytes_of() == b); }
    }
}
/// the point of it (C16): no two elements of the de-duplicated sequence are written as the same bytes
pub proof fn lemma_dedup_k_distinct(s: Seq<PlutusData>)
    ensures forall|i: int, j: int| 0 <= i < j < dedup_k(s).len() ==> (#[trigger] dedup_k(s)[i]).bytes_of() != (#[trigger] dedup_k(s)[j]).bytes_of()
    decreases s.len()
{
    if s.len() > 0 {
        lemma_dedup_k_distinct(s.drop_last());
        let p = dedup_k(s.drop_last());
        if !has_bytes(p, s.last().bytes_of()) {
            let q = p.push(s.last());
            assert forall|i: int, j: int| 0 <= i < j < q.len() implies (#[trigger] q[i]).bytes_of() != (#[trigger] q[j]).bytes_of() by {
                if j == p.len() { assert(q[i] == p[i]); if q[i].bytes_of() == q[j].bytes_of() { assert(p[i].bytes_of() == s.last().bytes_of()); } } else { assert(q[i] == p[i] && q[j] == p[j]); }
            }
        }
    }
}

impl PlutusList {
    /// value-level membership (PartialEq of PlutusData compares the decoded value only)
    pub uninterp spec fn has_value(&self, x: PlutusData) -> bool;
    #[verifier::external_body] pub fn contains(&self, x: &PlutusData) -> (r: bool) ensures r == self.has_value(*x) { unimplemented!() }
}
