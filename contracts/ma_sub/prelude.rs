opaque_types!(AssetName, ScriptHash);
pub type PolicyID = ScriptHash;
pub type Coin = BigNum;
clone_eq!(MultiAsset);
