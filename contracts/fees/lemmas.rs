// floor / ceil of n/d for d > 0 as spec (Verus int division is Euclidean; for d > 0 it is floor)
pub open spec fn fl(n: int, d: int) -> int { if d > 0 { n / d } else { 0 } }
pub open spec fn ce(n: int, d: int) -> int { if d > 0 { -((-n) / d) } else { 0 } }

pub proof fn lemma_fl_unique(n: int, d: int, q: int)
    requires d > 0, q * d <= n < (q + 1) * d
    ensures q == fl(n, d)
{
    let e = n / d;
    assert(n == d * e + n % d && 0 <= n % d < d) by { vstd::arithmetic::div_mod::lemma_fundamental_div_mod(n, d); }
    assert(q == e) by(nonlinear_arith)
        requires d > 0, q * d <= n < (q + 1) * d, n == d * e + n % d, 0 <= n % d < d;
}
pub proof fn lemma_ce_unique(n: int, d: int, q: int)
    requires d > 0, (q - 1) * d < n <= q * d
    ensures q == ce(n, d)
{
    assert((-q) * d <= -n < (-q + 1) * d) by(nonlinear_arith) requires (q - 1) * d < n <= q * d;
    lemma_fl_unique(-n, d, -q);
}

pub open spec fn gsum(j: nat) -> int decreases j { if j == 0 { 0 } else { 10 * gsum((j - 1) as nat) + 10 * ipow(12, (j - 1) as nat) } }
pub open spec fn tier_go(accn: int, j: nat, n: nat, bn: int, bd: int) -> int decreases n {
    if n < 25600 { fl(accn + n * bn * ipow(12, j), bd * ipow(10, j)) }
    else { tier_go(10 * accn + 10 * 25600 * bn * ipow(12, j), j + 1, (n - 25600) as nat, bn, bd) }
}
pub open spec fn ledger_ref_fee(bn: int, bd: int, t: nat) -> int { tier_go(0, 0, t, bn, bd) }

pub proof fn lemma_pow_pos(b: int, e: nat) requires b > 0 ensures ipow(b, e) > 0 decreases e {
    if e > 0 { lemma_pow_pos(b, (e - 1) as nat); assert(b * ipow(b, (e - 1) as nat) > 0) by(nonlinear_arith) requires b > 0, ipow(b, (e - 1) as nat) > 0; }
}
pub proof fn lemma_pow_12_gt_10(e: nat) requires e >= 1 ensures ipow(12, e) > ipow(10, e) decreases e {
    lemma_pow_pos(10, (e - 1) as nat); lemma_pow_pos(12, (e - 1) as nat);
    if e > 1 { lemma_pow_12_gt_10((e - 1) as nat); }
}
pub proof fn lemma_gsum_closed(k: nat) ensures 2 * gsum(k) == 10 * (ipow(12, k) - ipow(10, k)) decreases k {
    if k > 0 { lemma_gsum_closed((k - 1) as nat); }
}
// unrolling: from (bn*S*gsum(j), j) with n left
pub proof fn lemma_tier_unroll(j: nat, n: nat, bn: int, bd: int)
    ensures tier_go(bn * 25600 * gsum(j), j, n, bn, bd)
        == fl(bn * 25600 * gsum(j + n / 25600) + (n % 25600) * bn * ipow(12, j + n / 25600), bd * ipow(10, j + n / 25600))
    decreases n
{
    if n >= 25600 {
        let m = (n - 25600) as nat;
        lemma_tier_unroll(j + 1, m, bn, bd);
        assert(m / 25600 == n / 25600 - 1 && m % 25600 == n % 25600);
        assert(10 * (bn * 25600 * gsum(j)) + 10 * 25600 * bn * ipow(12, j) == bn * 25600 * gsum(j + 1)) by(nonlinear_arith)
            requires gsum(j + 1) == 10 * gsum(j) + 10 * ipow(12, j);
        assert(j + 1 + m / 25600 == j + n / 25600);
    } else {
        assert(n / 25600 == 0 && n % 25600 == n);
    }
}
pub proof fn lemma_fl_scale(a: int, b: int, c: int)
    requires b > 0, c > 0
    ensures fl(a * c, b * c) == fl(a, b)
{
    let q = fl(a, b);
    assert(a == b * (a / b) + a % b && 0 <= a % b < b) by { vstd::arithmetic::div_mod::lemma_fundamental_div_mod(a, b); }
    assert(b * c > 0) by(nonlinear_arith) requires b > 0, c > 0;
    assert(q * (b * c) <= a * c < (q + 1) * (b * c)) by(nonlinear_arith)
        requires a == b * q + a % b, 0 <= a % b < b, c > 0;
    lemma_fl_unique(a * c, b * c, q);
}
// same rational => same floor
pub proof fn lemma_fl_same(a: int, b: int, c: int, d: int)
    requires b > 0, d > 0, a * d == c * b
    ensures fl(a, b) == fl(c, d)
{
    lemma_fl_scale(a, b, d);
    lemma_fl_scale(c, d, b);
    assert(b * d == d * b) by(nonlinear_arith);
}

// what acc is after the optional full-tier block
pub open spec fn acc_full(bn: int, bd: int, k: nat, p12: int, p10: int, an: int, ad: int) -> bool {
    if k == 0 { an == 0 && ad == 1 } else { an == (bn * 25600) * (-((p10 - p12) * 10)) && ad == bd * (-(p10 * (-2))) }
}
pub proof fn lemma_tier_final(bn: int, bd: int, k: nat, p: int, p12: int, p10: int, fnn: int, fdd: int, an: int, ad: int)
    requires
        bn >= 0, bd > 0, p >= 0, p12 == ipow(12, k), p10 == ipow(10, k), p12 > 0, p10 > 0, k >= 1 ==> p12 > p10,
        2 * gsum(k) == 10 * (p12 - p10), gsum(0) == 0,
        acc_full(bn, bd, k, p12, p10, fnn, fdd),
        p == 0 ==> (an == fnn && ad == fdd),
        p > 0 ==> ({ let pn = (bn * p12) * p; let pd = bd * p10;
            &&& (fnn == 0 ==> (an == pn && ad == pd))
            &&& (fnn != 0 && pn == 0 ==> (an == fnn && ad == fdd))
            &&& (fnn != 0 && pn != 0 ==> (an == nn(fnn * pd + pn * fdd, fdd * pd) && ad == nd(fnn * pd + pn * fdd, fdd * pd))) }),
    ensures
        ad > 0,
        fl(an, ad) == fl(bn * 25600 * gsum(k) + p * bn * p12, bd * p10),
{
    let g = bn * 25600 * gsum(k);
    let pp = p * bn * p12;
    let y = bd * p10;
    let pn = (bn * p12) * p; let pd = bd * p10;
    assert(y > 0) by(nonlinear_arith) requires bd > 0, p10 > 0, y == bd * p10;
    // A: fnn * y == g * fdd, fdd > 0
    assert(fdd > 0 && fnn * y == g * fdd && fnn >= 0) by {
        if k == 0 {
            assert(g == 0) by(nonlinear_arith) requires g == bn * 25600 * gsum(k), gsum(k) == 0;
            assert(fnn * y == 0 && g * fdd == 0) by(nonlinear_arith) requires fnn == 0, g == 0;
        } else {
            assert(fdd == bd * (2 * p10) && fnn == (bn * 25600) * (10 * (p12 - p10))) by(nonlinear_arith)
                requires fnn == (bn * 25600) * (-((p10 - p12) * 10)), fdd == bd * (-(p10 * (-2)));
            assert(fdd > 0 && fnn >= 0) by(nonlinear_arith) requires fdd == bd * (2 * p10), bd > 0, p10 > 0, fnn == (bn * 25600) * (10 * (p12 - p10)), bn >= 0, p12 > p10;
            assert(fnn * y == g * fdd) by(nonlinear_arith)
                requires fnn == (bn * 25600) * (10 * (p12 - p10)), fdd == bd * (2 * p10), y == bd * p10, g == bn * 25600 * gsum(k), 2 * gsum(k) == 10 * (p12 - p10);
        }
    }
    // B: pn * y == pp * pd
    assert(pn * y == pp * pd && pn >= 0) by(nonlinear_arith) requires pn == (bn * p12) * p, pp == p * bn * p12, y == bd * p10, pd == bd * p10, bn >= 0, p12 > 0, p >= 0;
    let x = g + pp;
    if p == 0 {
        assert(pp == 0) by(nonlinear_arith) requires pp == p * bn * p12, p == 0;
        assert(an * y == x * ad);
    } else if fnn == 0 {
        assert(g == 0) by(nonlinear_arith) requires fnn * y == g * fdd, fnn == 0, fdd > 0;
        assert(an * y == x * ad);
    } else if pn == 0 {
        assert(pp == 0) by(nonlinear_arith) requires pn * y == pp * pd, pn == 0, pd > 0, pd == y;
        assert(an * y == x * ad);
    } else {
        assert(fdd * pd > 0) by(nonlinear_arith) requires fdd > 0, pd == y, y > 0;
        assert(an == fnn * pd + pn * fdd && ad == fdd * pd);
        assert(an * y == x * ad) by(nonlinear_arith)
            requires an == fnn * pd + pn * fdd, ad == fdd * pd, fnn * y == g * fdd, pn * y == pp * pd, x == g + pp;
    }
    assert(ad > 0) by {
        if p > 0 && fnn != 0 && pn != 0 { assert(fdd * pd > 0) by(nonlinear_arith) requires fdd > 0, pd == y, y > 0; }
    }
    lemma_fl_same(an, ad, x, y);
}

// ---- script fee: ceil(mem*pm + steps*ps) with exact rationals pm = mn/md, ps = sn/sd
pub open spec fn ex_cost(m: int, s: int, mn: int, md: int, sn: int, sd: int) -> int {
    ce(m * mn * sd + s * sn * md, md * sd)
}
pub proof fn lemma_ce_scale(a: int, b: int, c: int)
    requires b > 0, c > 0
    ensures ce(a * c, b * c) == ce(a, b)
{
    lemma_fl_scale(-a, b, c);
    assert((-a) * c == -(a * c)) by(nonlinear_arith);
    assert(b * c > 0) by(nonlinear_arith) requires b > 0, c > 0;
}
pub proof fn lemma_ce_nonneg(n: int, d: int)
    requires n >= 0, d > 0
    ensures ce(n, d) >= 0
{
    let q = (-n) / d;
    assert(-n == d * q + (-n) % d && 0 <= (-n) % d < d) by { vstd::arithmetic::div_mod::lemma_fundamental_div_mod(-n, d); }
    assert(q <= 0) by(nonlinear_arith) requires -n == d * q + (-n) % d, 0 <= (-n) % d < d, n >= 0, d > 0;
}
// the three shapes `Rational::add` can return for  mn/md * m  +  sn/sd * s  all have the ceiling ex_cost
pub proof fn lemma_ex_cost(m: int, s: int, mn: int, md: int, sn: int, sd: int)
    requires m >= 0, s >= 0, mn >= 0, sn >= 0, md > 0, sd > 0
    ensures
        mn * m >= 0, sn * s >= 0, md * sd > 0,
        mn * m == 0 ==> ce(sn * s, sd) == ex_cost(m, s, mn, md, sn, sd),
        mn * m != 0 && sn * s == 0 ==> ce(mn * m, md) == ex_cost(m, s, mn, md, sn, sd),
        ce((mn * m) * sd + (sn * s) * md, md * sd) == ex_cost(m, s, mn, md, sn, sd),
        (mn * m) * sd + (sn * s) * md >= 0,
        ex_cost(m, s, mn, md, sn, sd) >= 0,
{
    assert(mn * m >= 0 && sn * s >= 0 && md * sd > 0) by(nonlinear_arith) requires m >= 0, s >= 0, mn >= 0, sn >= 0, md > 0, sd > 0;
    assert((mn * m) * sd + (sn * s) * md == m * mn * sd + s * sn * md) by(nonlinear_arith);
    assert((mn * m) * sd + (sn * s) * md >= 0) by(nonlinear_arith) requires mn * m >= 0, sn * s >= 0, md > 0, sd > 0;
    lemma_ce_nonneg((mn * m) * sd + (sn * s) * md, md * sd);
    if mn * m == 0 {
        assert(m * mn * sd + s * sn * md == (sn * s) * md) by(nonlinear_arith) requires mn * m == 0;
        assert(md * sd == sd * md) by(nonlinear_arith);
        lemma_ce_scale(sn * s, sd, md);
    } else if sn * s == 0 {
        assert(m * mn * sd + s * sn * md == (mn * m) * sd) by(nonlinear_arith) requires sn * s == 0;
        lemma_ce_scale(mn * m, md, sd);
    }
}
