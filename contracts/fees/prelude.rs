// ---------------------------------------------------------------------------------------------
// fees unit prelude.  BigInt (wrapper over num_bigint) is modelled as a mathematical integer: ASSUMED.
// ---------------------------------------------------------------------------------------------
#[verifier::external_body]
pub struct BigInt { _p: core::marker::PhantomData<u8> }

pub type Coin = BigNum;
pub open spec fn ipow(b: int, e: nat) -> int decreases e { if e == 0 { 1 } else { b * ipow(b, (e - 1) as nat) } }

impl vstd::std_specs::convert::FromSpecImpl<usize> for BigNum {
    open spec fn obeys_from_spec() -> bool { true }
    open spec fn from_spec(v: usize) -> BigNum { BigNum(v as u64) }
}
impl From<usize> for BigNum { #[verifier::external_body] fn from(x: usize) -> (r: BigNum) { unimplemented!() } }

impl BigInt {
    pub uninterp spec fn v(&self) -> int;
    #[verifier::external_body] pub fn one() -> (r: BigInt) ensures r.v() == 1 { unimplemented!() }
    #[verifier::external_body] pub fn zero() -> (r: BigInt) ensures r.v() == 0 { unimplemented!() }
    #[verifier::external_body] pub fn mul(&self, o: &BigInt) -> (r: BigInt) ensures r.v() == self.v() * o.v() { unimplemented!() }
    #[verifier::external_body] pub fn add(&self, o: &BigInt) -> (r: BigInt) ensures r.v() == self.v() + o.v() { unimplemented!() }
    #[verifier::external_body] pub fn sub(&self, o: &BigInt) -> (r: BigInt) ensures r.v() == self.v() - o.v() { unimplemented!() }
    #[verifier::external_body] pub fn increment(&self) -> (r: BigInt) ensures r.v() == self.v() + 1 { unimplemented!() }
    #[verifier::external_body] pub fn abs(&self) -> (r: BigInt) ensures r.v() == (if self.v() < 0 { -self.v() } else { self.v() }) { unimplemented!() }
    #[verifier::external_body] pub fn is_zero(&self) -> (r: bool) ensures r == (self.v() == 0) { unimplemented!() }
    #[verifier::external_body] pub fn is_negative(&self) -> (r: bool) ensures r == (self.v() < 0) { unimplemented!() }
    #[verifier::external_body] pub fn pow(&self, e: u32) -> (r: BigInt) ensures r.v() == ipow(self.v(), e as nat) { unimplemented!() }
    #[verifier::external_body] pub fn to_str(&self) -> String { unimplemented!() }
    #[verifier::external_body] pub fn div_floor(&self, o: &BigInt) -> (r: BigInt)
        requires o.v() != 0
        ensures o.v() > 0 ==> r.v() == fl(self.v(), o.v()),
    { unimplemented!() }
    #[verifier::external_body] pub fn div_ceil(&self, o: &BigInt) -> (r: BigInt)
        requires o.v() != 0
        ensures o.v() > 0 ==> r.v() == ce(self.v(), o.v()),
    { unimplemented!() }
    #[verifier::external_body] pub fn as_u64(&self) -> (r: Option<BigNum>)
        ensures (0 <= self.v() <= u64::MAX) ==> (r is Some && r->Some_0.0 == self.v()),
                !(0 <= self.v() <= u64::MAX) ==> r is None
    { unimplemented!() }
}
impl Clone for BigInt { #[verifier::external_body] fn clone(&self) -> (r: BigInt) ensures r.v() == self.v() { unimplemented!() } }
impl From<&BigNum> for BigInt { #[verifier::external_body] fn from(x: &BigNum) -> (r: BigInt) ensures r.v() == x.0 { unimplemented!() } }
impl From<BigNum> for BigInt { #[verifier::external_body] fn from(x: BigNum) -> (r: BigInt) ensures r.v() == x.0 { unimplemented!() } }
impl From<usize> for BigInt { #[verifier::external_body] fn from(x: usize) -> (r: BigInt) ensures r.v() == x { unimplemented!() } }
impl From<i32> for BigInt { #[verifier::external_body] fn from(x: i32) -> (r: BigInt) ensures r.v() == x { unimplemented!() } }

// sign normalisation done by Rational::new (only when both are negative)
pub open spec fn nn(n: int, d: int) -> int { if n < 0 && d < 0 { -n } else { n } }
pub open spec fn nd(n: int, d: int) -> int { if n < 0 && d < 0 { -d } else { d } }

// num_bigint::BigInt has a canonical representation: a value is determined by the integer it denotes (ASSUMED)
pub uninterp spec fn bigint_of(x: int) -> BigInt;
pub broadcast axiom fn ax_bigint_of(x: int) ensures #[trigger] bigint_of(x).v() == x;
pub broadcast axiom fn ax_bigint_canon(a: BigInt) ensures #[trigger] bigint_of(a.v()) == a;

// opaque stand-ins for types whose content no fee obligation looks at
#[verifier::external_body] pub struct TransactionBody { _p: core::marker::PhantomData<u8> }
#[verifier::external_body] pub struct AuxiliaryData { _p: core::marker::PhantomData<u8> }
#[verifier::external_body] pub struct Vkeywitnesses { _p: core::marker::PhantomData<u8> }
#[verifier::external_body] pub struct NativeScripts { _p: core::marker::PhantomData<u8> }
#[verifier::external_body] pub struct BootstrapWitnesses { _p: core::marker::PhantomData<u8> }
#[verifier::external_body] pub struct PlutusScripts { _p: core::marker::PhantomData<u8> }
#[verifier::external_body] pub struct PlutusList { _p: core::marker::PhantomData<u8> }
#[verifier::external_body] pub struct PlutusData { _p: core::marker::PhantomData<u8> }
#[verifier::external_body] pub struct RedeemerTag { _p: core::marker::PhantomData<u8> }
#[verifier::external_body] pub struct CborContainerType { _p: core::marker::PhantomData<u8> }
// serialized size of a transaction: uninterpreted (the linear fee is a function of it)
pub uninterp spec fn tx_size(tx: &Transaction) -> nat;
impl Transaction {
    #[verifier::external_body] pub fn to_bytes(&self) -> (r: Vec<u8>) ensures r.len() == tx_size(self) { unimplemented!() }
}
impl Clone for ExUnits { #[verifier::external_body] fn clone(&self) -> (r: Self) ensures r == *self { unimplemented!() } }
// sums of the execution units of a redeemer sequence
pub open spec fn sum_mem(s: Seq<Redeemer>) -> nat decreases s.len() { if s.len() == 0 { 0 } else { sum_mem(s.drop_last()) + s.last().ex_units.mem.0 as nat } }
pub open spec fn sum_steps(s: Seq<Redeemer>) -> nat decreases s.len() { if s.len() == 0 { 0 } else { sum_steps(s.drop_last()) + s.last().ex_units.steps.0 as nat } }
pub proof fn lemma_sum_mono(s: Seq<Redeemer>, i: int)
    requires 0 <= i <= s.len()
    ensures sum_mem(s.take(i)) <= sum_mem(s), sum_steps(s.take(i)) <= sum_steps(s)
    decreases s.len() - i
{
    if i < s.len() {
        lemma_sum_mono(s, i + 1);
        assert(s.take(i + 1).drop_last() =~= s.take(i));
    } else { assert(s.take(i) =~= s); }
}

// derived PartialEq / PartialOrd of the BigInt wrapper: comparison of the denoted integers (canonical representation)
impl vstd::std_specs::cmp::PartialEqSpecImpl for BigInt {
    open spec fn obeys_eq_spec() -> bool { true }
    open spec fn eq_spec(&self, other: &BigInt) -> bool { self.v() == other.v() }
}
impl PartialEq for BigInt { #[verifier::external_body] fn eq(&self, other: &BigInt) -> (r: bool) { unimplemented!() } }
impl vstd::std_specs::cmp::PartialOrdSpecImpl for BigInt {
    open spec fn obeys_partial_cmp_spec() -> bool { true }
    open spec fn partial_cmp_spec(&self, other: &BigInt) -> Option<core::cmp::Ordering> {
        if self.v() < other.v() { Some(core::cmp::Ordering::Less) } else if self.v() == other.v() { Some(core::cmp::Ordering::Equal) } else { Some(core::cmp::Ordering::Greater) }
    }
}
impl PartialOrd for BigInt { #[verifier::external_body] fn partial_cmp(&self, o: &BigInt) -> (r: Option<core::cmp::Ordering>) { unimplemented!() } }
impl Clone for Redeemer { #[verifier::external_body] fn clone(&self) -> (r: Self) ensures r == *self { unimplemented!() } }
