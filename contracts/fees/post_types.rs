impl Rational {
    pub open spec fn n(&self) -> int { self.numerator.v() }
    pub open spec fn d(&self) -> int { self.denominator.v() }
}
impl Clone for Rational {
    fn clone(&self) -> (r: Rational) ensures r.n() == self.n(), r.d() == self.d() {
        Rational { numerator: self.numerator.clone(), denominator: self.denominator.clone() }
    }
}
impl Clone for UnitInterval { #[verifier::external_body] fn clone(&self) -> (r: Self) ensures r == *self { unimplemented!() } }
// `x.into()` is specified by vstd through From::from_spec: give it the value the real `from` body is proved to return
impl<'a> vstd::std_specs::convert::FromSpecImpl<&'a UnitInterval> for Rational {
    open spec fn obeys_from_spec() -> bool { true }
    open spec fn from_spec(sc: &'a UnitInterval) -> Rational { Rational { numerator: bigint_of(sc.numerator.0 as int), denominator: bigint_of(sc.denominator.0 as int) } }
}
impl vstd::std_specs::convert::FromSpecImpl<UnitInterval> for Rational {
    open spec fn obeys_from_spec() -> bool { true }
    open spec fn from_spec(sc: UnitInterval) -> Rational { Rational { numerator: bigint_of(sc.numerator.0 as int), denominator: bigint_of(sc.denominator.0 as int) } }
}
