use cbor_event::Len;
/// CRC-32 of a byte string (legacy_address/crc32.rs: table-driven loop, not under contract)
pub uninterp spec fn crc32_spec(b: Seq<u8>) -> u32;
#[verifier::external_body] pub fn crc32(input: &Vec<u8>) -> (r: u32) ensures r == crc32_spec(input@) { unimplemented!() }
