pub open spec fn byron_type_code(t: ByronAddressType) -> u8 { match t { ByronAddressType::ATPubKey => 0, ByronAddressType::ATScript => 1, ByronAddressType::ATRedeem => 2 } }
