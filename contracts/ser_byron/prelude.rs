pub type HDAddressPayload = Vec<u8>;
/// `cbor!(x)`: the CBOR bytes of x (cbor_event's own encoder of a u32; a dependency: only that it is a function of x matters here)
pub uninterp spec fn cbor_u32(x: u32) -> Seq<u8>;
#[verifier::external_body] pub fn cbor_of_u32(x: &u32) -> (r: Result<Vec<u8>, CborError>) ensures r is Ok, r->Ok_0@ == cbor_u32(*x) { unimplemented!() }
