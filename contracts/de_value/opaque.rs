de_opaque!(MultiAsset);
// Coin = BigNum: one unsigned-integer token (BigNum::serialize is under contract in unit ser_lists, BigNum::deserialize in the Kani leaf
// harness bignum_cbor_roundtrip; here ASSUMED as this pair)
impl BigNum {
    pub uninterp spec fn val(&self) -> u64;
    pub uninterp spec fn of(v: u64) -> BigNum;
    #[verifier::external_body] pub proof fn lemma_bn(x: BigNum) ensures x.enc() == seq![Tok::UInt(x.val())], BigNum::of(x.val()) == x { }
}
impl De for BigNum {
    open spec fn dec(rem: Seq<Tok>) -> Option<(Self, int)> { if rem.len() > 0 && rem[0] is UInt { Some((BigNum::of(rem[0]->UInt_0), 1int)) } else { None } }
    #[verifier::external_body] fn deserialize(raw: &mut Deserializer) -> (r: Result<Self, DeserializeError>) { unimplemented!() }
    proof fn lemma_dec_head(rem: Seq<Tok>) { }
}
clone_eq!(BigNum);
