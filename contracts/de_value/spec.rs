/// value = coin / [ coin, multiasset<positive_coin> ]
pub open spec fn Value_dec(rem: Seq<Tok>) -> Option<(Value, int)> {
    if rem.len() > 0 && rem[0] is UInt { Some((Value { coin: BigNum::of(rem[0]->UInt_0), multiasset: None }, 1int)) }
    else if rem.len() > 0 && rem[0] == Tok::Arr(2) {
        match BigNum::dec(rem.skip(1)) { Some((c, n0)) => match MultiAsset::dec(rem.skip(1).skip(n0)) { Some((m, n1)) =>
            Some((Value { coin: c, multiasset: Some(m) }, 1 + n0 + n1)), None => None }, None => None }
    } else { None }
}
/// values the encoder maps to themselves: an asset part that is present holds at least one asset (an empty one is written as the bare coin)
pub open spec fn Value_normal(v: Value) -> bool { v.multiasset is Some ==> v.multiasset->Some_0.nonempty() }
pub proof fn lemma_Value_rt(x: Value, rest: Seq<Tok>)
    requires Value_normal(x)
    ensures Value_dec(x.enc() + rest) == Some((x, x.enc().len() as int))
{
    let rem = x.enc() + rest;
    BigNum::lemma_bn(x.coin);
    match x.multiasset {
        Some(m) => {
            let t1 = m.enc() + rest; let t0 = x.coin.enc() + t1;
            assert(rem[0] == Tok::Arr(2)); assert(rem.skip(1) =~= t0);
            assert(t0.skip(1) =~= t1);
            MultiAsset::lemma_rt(m, rest);
            assert(x == (Value { coin: x.coin, multiasset: Some(m) }));
        },
        None => { assert(rem[0] == Tok::UInt(x.coin.val())); assert(x == (Value { coin: x.coin, multiasset: None })); },
    }
}
