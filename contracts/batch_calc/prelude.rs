pub type Coin = BigNum;
impl vstd::std_specs::cmp::PartialOrdSpecImpl for BigNum {
    open spec fn obeys_partial_cmp_spec() -> bool { true }
    open spec fn partial_cmp_spec(&self, other: &BigNum) -> Option<core::cmp::Ordering> {
        if self.0 < other.0 { Some(core::cmp::Ordering::Less) } else if self.0 == other.0 { Some(core::cmp::Ordering::Equal) } else { Some(core::cmp::Ordering::Greater) }
    }
}
impl PartialOrd for BigNum { #[verifier::external_body] fn partial_cmp(&self, o: &BigNum) -> (r: Option<core::cmp::Ordering>) { unimplemented!() } }
impl vstd::std_specs::convert::FromSpecImpl<BigNum> for u64 {
    open spec fn obeys_from_spec() -> bool { true }
    open spec fn from_spec(v: BigNum) -> u64 { v.0 }
}
impl From<BigNum> for u64 { #[verifier::external_body] fn from(x: BigNum) -> (r: u64) { unimplemented!() } }
/// length of the shortest CBOR head for an unsigned argument (what cbor_event writes: Kani kani:cbor_calculator:struct_size_matches_real_cbor_head)
pub open spec fn uint_len(c: u64) -> nat {
    if c <= 23 { 1 } else if c < 0x100 { 2 } else if c < 0x10000 { 3 } else if c < 0x1_0000_0000 { 5 } else { 9 }
}
pub struct CborCalculator();
pub struct MinOutputAdaCalculator();
#[verifier::external_body] pub struct LinearFee { _p: core::marker::PhantomData<u8> }
impl LinearFee { pub uninterp spec fn a(&self) -> nat; pub uninterp spec fn b(&self) -> nat; }
/// by their contracts from units min_ada / fees
impl MinOutputAdaCalculator {
    #[verifier::external_body] pub fn calc_size_cost(data_cost: &DataCost, size: usize) -> (r: Result<Coin, JsError>)
        ensures r is Ok <==> (size + 160 <= u64::MAX && (size + 160) * data_cost.coins_per_byte.0 <= u64::MAX),
                r is Ok ==> r->Ok_0.0 == (size + 160) * data_cost.coins_per_byte.0 { unimplemented!() }
}
#[verifier::external_body] pub fn min_fee_for_size(size: usize, f: &LinearFee) -> (r: Result<Coin, JsError>)
    ensures r is Ok <==> size * f.a() + f.b() <= u64::MAX, r is Ok ==> r->Ok_0.0 == size * f.a() + f.b() { unimplemented!() }

use std::collections::{HashSet, BTreeSet};
opaque_types!(Address, ByronAddress);
clone_eq!(ByronAddress);
impl CborCalculator {
    /// size of the witness-set map head plus its keys, as a function of the set of fields present (its own loop over a HashSet is not
    /// under contract: ASSUMED to be a function of the set)
    pub uninterp spec fn wss_size(fields: Set<WitnessSetNames>) -> nat;
    #[verifier::external_body] pub fn get_witnesses_set_struct_size(witnesses_fields: &HashSet<WitnessSetNames>) -> (r: usize)
        ensures r == Self::wss_size(witnesses_fields@), r <= 64 { unimplemented!() }
    /// size of the (fake) bootstrap witness of a Byron address (builds a real witness: not under contract)
    pub uninterp spec fn bsize(a: ByronAddress) -> nat;
    #[verifier::external_body] pub fn get_boostrap_witness_size(address: &ByronAddress) -> (r: usize)
        ensures r == Self::bsize(*address), r <= 0xffff { unimplemented!() }
}
clone_eq!(AssetIndex);
// ---- address classification as far as WitnessesCalculator::add_address uses it (Address's own methods are under contract in the Kani address
// harnesses; here ASSUMED: an address is of exactly one kind, a credential is exactly one of key hash / script hash)
clone_eq!(Address);
impl PartialEq for Address { #[verifier::external_body] fn eq(&self, o: &Address) -> bool { unimplemented!() } }
impl Eq for Address {}
impl PartialOrd for Address { #[verifier::external_body] fn partial_cmp(&self, o: &Address) -> Option<core::cmp::Ordering> { unimplemented!() } }
impl Ord for Address { #[verifier::external_body] fn cmp(&self, o: &Address) -> core::cmp::Ordering { unimplemented!() } }
pub enum AKind { Base, Enterprise, Pointer, Byron, Other }
opaque_types!(BaseAddress, EnterpriseAddress, PointerAddress, Credential, KeyHash_, ScriptHash_);
impl Address {
    pub uninterp spec fn akind(&self) -> AKind;
    /// payment credential is a key hash (meaningful for base / enterprise / pointer addresses)
    pub uninterp spec fn pay_is_key(&self) -> bool;
    pub uninterp spec fn as_byron(&self) -> ByronAddress;
}
impl Credential {
    pub uninterp spec fn is_key(&self) -> bool;
    #[verifier::external_body] pub fn to_keyhash(&self) -> (r: Option<KeyHash_>) ensures r is Some <==> self.is_key() { unimplemented!() }
    #[verifier::external_body] pub fn to_scripthash(&self) -> (r: Option<ScriptHash_>) ensures r is Some <==> !self.is_key() { unimplemented!() }
}
macro_rules! addr_view { ($($t:ident, $k:ident);* $(;)?) => { verus!{ $(
    impl $t {
        pub uninterp spec fn of(&self) -> Address;
        #[verifier::external_body] pub fn from_address(addr: &Address) -> (r: Option<$t>) ensures r is Some <==> addr.akind() is $k, r is Some ==> r->Some_0.of() == *addr { unimplemented!() }
        #[verifier::external_body] pub fn payment_cred(&self) -> (r: Credential) ensures r.is_key() == self.of().pay_is_key() { unimplemented!() }
    }
)* } } }
addr_view!(BaseAddress, Base; EnterpriseAddress, Enterprise; PointerAddress, Pointer);
impl ByronAddress {
    #[verifier::external_body] pub fn from_address(addr: &Address) -> (r: Option<ByronAddress>) ensures r is Some <==> addr.akind() is Byron, r is Some ==> r->Some_0 == addr.as_byron() { unimplemented!() }
}
pub open spec fn shelley_payment(a: Address) -> bool { a.akind() is Base || a.akind() is Enterprise || a.akind() is Pointer }
impl Address { pub uninterp spec fn stake_is_key(&self) -> bool; }
impl BaseAddress {
    #[verifier::external_body] pub fn stake_cred(&self) -> (r: Credential) ensures r.is_key() == self.of().stake_is_key() { unimplemented!() }
}
