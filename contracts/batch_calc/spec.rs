/// what is left of the dependable amount after paying the fee (clamped at 0, raised to the minimum if there is one)
pub open spec fn dep_remain(d: u64, cost: u64, min_dep: Option<BigNum>) -> u64 {
    let r = if d >= cost { (d - cost) as u64 } else { 0u64 };
    match min_dep { Some(m) => if r < m.0 { m.0 } else { r }, None => r }
}
// ---- C13: size model of the witnesses the batch builder accounts for ------------------------------------------------------------
/// which witness-set keys are present: key witnesses iff at least one Shelley owner, bootstrap witnesses iff at least one Byron owner
pub open spec fn wc_fields(vkeys: u64, boots: u64) -> Set<WitnessSetNames> {
    (if vkeys > 0 { set![WitnessSetNames::Vkeys] } else { Set::empty() }) + (if boots > 0 { set![WitnessSetNames::Bootstraps] } else { Set::empty() })
}
pub open spec fn sum_bsize(s: Seq<ByronAddress>) -> nat decreases s.len() { if s.len() == 0 { 0 } else { sum_bsize(s.drop_last()) + CborCalculator::bsize(s.last()) } }
/// map head + keys, then per present field: tag 258 + array head (by count) + the witnesses themselves (101 bytes per key witness)
pub open spec fn wc_size(vkeys: u64, boots: Seq<ByronAddress>) -> int {
    (if vkeys > 0 || boots.len() > 0 { CborCalculator::wss_size(wc_fields(vkeys, boots.len() as u64)) } else { 0 })
    + (if vkeys > 0 { 3 + uint_len(vkeys) + 101 * vkeys } else { 0 })
    + (if boots.len() > 0 { 3 + uint_len(boots.len() as u64) + sum_bsize(boots) } else { 0 })
}
pub open spec fn wc_wf(w: WitnessesCalculator) -> bool {
    &&& w.used_fields@ == wc_fields(w.vkeys_count, w.boostrap_count)
    &&& w.bootsraps@.len() == w.boostrap_count
    &&& w.total_size == wc_size(w.vkeys_count, w.bootsraps@)
}
