/// what is left of the dependable amount after paying the fee (clamped at 0, raised to the minimum if there is one)
pub open spec fn dep_remain(d: u64, cost: u64, min_dep: Option<BigNum>) -> u64 {
    let r = if d >= cost { (d - cost) as u64 } else { 0u64 };
    match min_dep { Some(m) => if r < m.0 { m.0 } else { r }, None => r }
}
