de_opaque!(BigNum, Costmdls, DRepVotingThresholds, ExUnitPrices, ExUnits, Nonce, PoolVotingThresholds, ProtocolVersion, UnitInterval, u32);
