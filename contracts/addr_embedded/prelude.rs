// addr_embedded unit (C11): the two entries of the address parser - strict (stand-alone) and lenient (embedded) - over the internal header / length dispatch,
// which is decided by the Kani address harnesses (shelley_header_length_dispatch*: accepted lengths per header, never Malformed) and ASSUMED here as an
// uninterpreted parse function of (bytes, ignore_leftover_bytes).
opaque_types!(Ed25519KeyHash, ScriptHash, ExtendedAddr);
#[derive(Clone, Copy)]
pub struct BigNum(pub u64);
pub uninterp spec fn parse_spec(data: Seq<u8>, lenient: bool) -> Option<Address>;
impl Address {
    #[verifier::external_body] pub fn from_bytes_internal_impl(data: &[u8], ignore_leftover_bytes: bool) -> (r: Result<Address, DeserializeError>)
        ensures r is Ok <==> parse_spec(data@, ignore_leftover_bytes) is Some, r is Ok ==> parse_spec(data@, ignore_leftover_bytes) == Some(r->Ok_0),
                r is Ok ==> !(r->Ok_0.0 is Malformed) { unimplemented!() }
}
#[verifier::external_body] pub fn slice_to_vec_(s: &[u8]) -> (r: Vec<u8>) ensures r@ == s@ { unimplemented!() }
impl Address {
    /// the contract PROVED above as Address::from_bytes_impl_unsafe#as_is (same text), for the caller Address::deserialize
    #[verifier::external_body] pub fn from_bytes_impl_unsafe_(data: &[u8]) -> (r: Address)
        ensures r.0 is Malformed ==> r.0->Malformed_0.0@ == data@ && parse_spec(data@, true) is None,
                !(r.0 is Malformed) ==> parse_spec(data@, true) == Some(r) { unimplemented!() }
}

// ---- Byron: the stand-alone parsers over the CBOR decoder of the address structure (ExtendedAddr::deserialize: envelope + CRC in unit byron_envelope),
// here an uninterpreted partial function of the input bytes that also says HOW MANY bytes it consumed
pub uninterp spec fn byron_parse(data: Seq<u8>) -> Option<(ExtendedAddr, nat)>;
/// cbor_event::de::Deserializer over a std::io::Cursor (R-cursor): the input and the read position
pub struct CursorDe { pub data: Ghost<Seq<u8>>, pub pos: u64 }
impl CursorDe {
    #[verifier::external_body] pub fn new_(bytes: Vec<u8>) -> (r: CursorDe) ensures r.data@ == bytes@, r.pos == 0 { unimplemented!() }
    #[verifier::external_body] pub fn new_slice_(bytes: &[u8]) -> (r: CursorDe) ensures r.data@ == bytes@, r.pos == 0 { unimplemented!() }
    /// `raw.as_ref().position()`
    #[verifier::external_body] pub fn position_(&self) -> (r: u64) ensures r == self.pos { unimplemented!() }
}
impl ExtendedAddr {
    #[verifier::external_body] pub fn deserialize(raw: &mut CursorDe) -> (r: Result<ExtendedAddr, DeserializeError>)
        requires old(raw).pos == 0
        ensures final(raw).data == old(raw).data, r is Ok <==> byron_parse(old(raw).data@) is Some,
                r is Ok ==> r->Ok_0 == byron_parse(old(raw).data@)->Some_0.0 && final(raw).pos == byron_parse(old(raw).data@)->Some_0.1 && final(raw).pos <= old(raw).data@.len() { unimplemented!() }
}
impl From<DeserializeError> for JsError { #[verifier::external_body] fn from(e: DeserializeError) -> JsError { unimplemented!() } }

// ---- CBOR-in-CBOR (inline datum, script reference; utils::from_bytes): any decodable type as a partial function of the bytes that also says how many it consumed
pub trait Deserialize: Sized {
    spec fn parse(data: Seq<u8>) -> Option<(Self, nat)>;
    fn deserialize(raw: &mut CursorDe) -> (r: Result<Self, DeserializeError>)
        requires old(raw).pos == 0
        ensures final(raw).data == old(raw).data, r is Ok <==> Self::parse(old(raw).data@) is Some,
                r is Ok ==> r->Ok_0 == Self::parse(old(raw).data@)->Some_0.0 && final(raw).pos == Self::parse(old(raw).data@)->Some_0.1 && final(raw).pos <= old(raw).data@.len();
}
impl CursorDe {
    #[verifier::external_body] pub fn new_ref_(bytes: &Vec<u8>) -> (r: CursorDe) ensures r.data@ == bytes@, r.pos == 0 { unimplemented!() }
}
