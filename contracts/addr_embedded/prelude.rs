// addr_embedded unit (C11): the two entries of the address parser - strict (stand-alone) and lenient (embedded) - over the internal header / length dispatch,
// which is decided by the Kani address harnesses (shelley_header_length_dispatch*: accepted lengths per header, never Malformed) and ASSUMED here as an
// uninterpreted parse function of (bytes, ignore_leftover_bytes).
opaque_types!(Ed25519KeyHash, ScriptHash, ByronAddress);
#[derive(Clone, Copy)]
pub struct BigNum(pub u64);
pub uninterp spec fn parse_spec(data: Seq<u8>, lenient: bool) -> Option<Address>;
impl Address {
    #[verifier::external_body] pub fn from_bytes_internal_impl(data: &[u8], ignore_leftover_bytes: bool) -> (r: Result<Address, DeserializeError>)
        ensures r is Ok <==> parse_spec(data@, ignore_leftover_bytes) is Some, r is Ok ==> parse_spec(data@, ignore_leftover_bytes) == Some(r->Ok_0),
                r is Ok ==> !(r->Ok_0.0 is Malformed) { unimplemented!() }
}
#[verifier::external_body] pub fn slice_to_vec_(s: &[u8]) -> (r: Vec<u8>) ensures r@ == s@ { unimplemented!() }
impl Address {
    /// the contract PROVED above as Address::from_bytes_impl_unsafe#as_is (same text), for the caller Address::deserialize
    #[verifier::external_body] pub fn from_bytes_impl_unsafe_(data: &[u8]) -> (r: Address)
        ensures r.0 is Malformed ==> r.0->Malformed_0.0@ == data@ && parse_spec(data@, true) is None,
                !(r.0 is Malformed) ==> parse_spec(data@, true) == Some(r) { unimplemented!() }
}
