#[verifier::external_body] pub struct Language { _p: core::marker::PhantomData<u8> }
pub uninterp spec fn lang_v1() -> Language;
pub uninterp spec fn lang_v2() -> Language;
pub uninterp spec fn lang_v3() -> Language;
impl Language {
    #[verifier::external_body] pub fn new_plutus_v1() -> (r: Language) ensures r == lang_v1() { unimplemented!() }
    #[verifier::external_body] pub fn new_plutus_v2() -> (r: Language) ensures r == lang_v2() { unimplemented!() }
    #[verifier::external_body] pub fn new_plutus_v3() -> (r: Language) ensures r == lang_v3() { unimplemented!() }
}
ser_coll!(Vkeywitnesses, NativeScripts, BootstrapWitnesses, PlutusScripts, PlutusList, Redeemers);
impl NativeScripts {
    pub uninterp spec fn enc_set(&self, dedup: bool) -> Seq<Tok>;
    #[verifier::external_body] pub fn serialize_as_set(&self, need_deduplication: bool, serializer: &mut Serializer) -> (r: Result<(), CborError>)
        ensures r is Ok, final(serializer).toks() == old(serializer).toks() + self.enc_set(need_deduplication) { unimplemented!() }
}
impl PlutusList {
    pub uninterp spec fn enc_set(&self, dedup: bool) -> Seq<Tok>;
    #[verifier::external_body] pub fn serialize_as_set(&self, need_deduplication: bool, serializer: &mut Serializer) -> (r: Result<(), CborError>)
        ensures r is Ok, final(serializer).toks() == old(serializer).toks() + self.enc_set(need_deduplication) { unimplemented!() }
}
impl PlutusScripts {
    pub uninterp spec fn has(&self, l: Language) -> bool;
    pub uninterp spec fn enc_ver(&self, dedup: bool, l: Language) -> Seq<Tok>;
    #[verifier::external_body] pub fn has_version(&self, language: &Language) -> (r: bool) ensures r == self.has(*language) { unimplemented!() }
    #[verifier::external_body] pub fn serialize_as_set_by_version(&self, need_deduplication: bool, version: &Language, serializer: &mut Serializer) -> (r: Result<(), CborError>)
        ensures r is Ok, final(serializer).toks() == old(serializer).toks() + self.enc_ver(need_deduplication, *version) { unimplemented!() }
}
