impl FixedTxWitnessesSet {
    #[verifier::external_body] pub fn tx_witnesses_set_ref(&self) -> (r: &TransactionWitnessSet) ensures *r == self.tx_witnesses_set { unimplemented!() }
    #[verifier::external_body] pub fn raw_parts_ref(&self) -> (r: &TransactionWitnessSetRaw) ensures *r == self.raw_parts { unimplemented!() }
}
/// one optional witness-set entry: written iff present and (original bytes kept, or non-empty); original bytes go out verbatim
pub open spec fn part(k: u64, present: bool, is_empty: bool, raw: Option<Vec<u8>>, typed: Seq<Tok>) -> Seq<Tok> {
    if !present { Seq::empty() }
    else if raw is Some { seq![Tok::UInt(k), Tok::Raw(raw->Some_0@)] }
    else if !is_empty { seq![Tok::UInt(k)] + typed }
    else { Seq::empty() }
}
pub open spec fn cnt(present: bool, is_empty: bool, raw: Option<Vec<u8>>) -> int { if present && (raw is Some || !is_empty) { 1 } else { 0 } }
pub open spec fn ps_part(k: u64, ps: Option<PlutusScripts>, l: Language, raw: Option<Vec<u8>>) -> Seq<Tok> {
    if ps is Some && ps->Some_0.has(l) { if raw is Some { seq![Tok::UInt(k), Tok::Raw(raw->Some_0@)] } else { seq![Tok::UInt(k)] + ps->Some_0.enc_ver(false, l) } } else { Seq::empty() }
}
/// a Plutus script field is written iff the scripts are present and the version's list is kept as original bytes (even an empty array) or non-empty:
/// the same rule as for every other field (property C04: an untouched field is re-emitted byte for byte)
pub open spec fn ps_cnt(ps: Option<PlutusScripts>, l: Language, raw: Option<Vec<u8>>) -> int { if ps is Some && (raw is Some || ps->Some_0.has(l)) { 1 } else { 0 } }
pub open spec fn raw_of(r: Option<TransactionWitnessSetRaw>) -> TransactionWitnessSetRaw {
    match r { Some(x) => x, None => TransactionWitnessSetRaw { vkeys: None, native_scripts: None, bootstraps: None, plutus_scripts_v1: None, plutus_scripts_v2: None, plutus_scripts_v3: None, plutus_data: None, redeemers: None } }
}
pub open spec fn e_or<T: Ser>(o: Option<T>) -> Seq<Tok> { match o { Some(x) => x.enc(), None => Seq::empty() } }
pub open spec fn emp<T: NoneOrEmpty>(o: Option<T>) -> bool { o is Some && o->Some_0.empty() }
pub open spec fn ws_count(w: TransactionWitnessSet, r: TransactionWitnessSetRaw) -> int {
    cnt(w.vkeys is Some, emp(w.vkeys), r.vkeys) + cnt(w.native_scripts is Some, emp(w.native_scripts), r.native_scripts)
      + cnt(w.bootstraps is Some, emp(w.bootstraps), r.bootstraps) + cnt(w.plutus_data is Some, emp(w.plutus_data), r.plutus_data)
      + cnt(w.redeemers is Some, emp(w.redeemers), r.redeemers)
      + ps_cnt(w.plutus_scripts, lang_v1(), r.plutus_scripts_v1) + ps_cnt(w.plutus_scripts, lang_v2(), r.plutus_scripts_v2) + ps_cnt(w.plutus_scripts, lang_v3(), r.plutus_scripts_v3)
}
// "apply" form: what the tokens written so far (s) become after one optional entry.  Stating the encoder's effect as a
// composition of these avoids extensional sequence reasoning inside the big function.
pub open spec fn ap(s: Seq<Tok>, k: u64, present: bool, is_empty: bool, raw: Option<Vec<u8>>, typed: Seq<Tok>) -> Seq<Tok> {
    if !present { s }
    else if raw is Some { s.push(Tok::UInt(k)).push(Tok::Raw(raw->Some_0@)) }
    else if !is_empty { s.push(Tok::UInt(k)) + typed }
    else { s }
}
pub open spec fn ap_ps(s: Seq<Tok>, k: u64, ps: Option<PlutusScripts>, l: Language, raw: Option<Vec<u8>>) -> Seq<Tok> {
    if ps is Some && (raw is Some || ps->Some_0.has(l)) { if raw is Some { s.push(Tok::UInt(k)).push(Tok::Raw(raw->Some_0@)) } else { s.push(Tok::UInt(k)) + ps->Some_0.enc_ver(false, l) } } else { s }
}
#[verifier::opaque]
pub open spec fn a0(s: Seq<Tok>, w: TransactionWitnessSet, r: TransactionWitnessSetRaw) -> Seq<Tok> { ap(s, 0, w.vkeys is Some, emp(w.vkeys), r.vkeys, e_or(w.vkeys)) }
#[verifier::opaque]
pub open spec fn a1(s: Seq<Tok>, w: TransactionWitnessSet, r: TransactionWitnessSetRaw) -> Seq<Tok> { ap(s, 1, w.native_scripts is Some, emp(w.native_scripts), r.native_scripts, match w.native_scripts { Some(x) => x.enc_set(false), None => Seq::empty() }) }
#[verifier::opaque]
pub open spec fn a2(s: Seq<Tok>, w: TransactionWitnessSet, r: TransactionWitnessSetRaw) -> Seq<Tok> { ap(s, 2, w.bootstraps is Some, emp(w.bootstraps), r.bootstraps, e_or(w.bootstraps)) }
#[verifier::opaque]
pub open spec fn a367(s: Seq<Tok>, w: TransactionWitnessSet, r: TransactionWitnessSetRaw) -> Seq<Tok> {
    ap_ps(ap_ps(ap_ps(s, 3, w.plutus_scripts, lang_v1(), r.plutus_scripts_v1), 6, w.plutus_scripts, lang_v2(), r.plutus_scripts_v2), 7, w.plutus_scripts, lang_v3(), r.plutus_scripts_v3)
}
#[verifier::opaque]
pub open spec fn a4(s: Seq<Tok>, w: TransactionWitnessSet, r: TransactionWitnessSetRaw) -> Seq<Tok> { ap(s, 4, w.plutus_data is Some, emp(w.plutus_data), r.plutus_data, match w.plutus_data { Some(x) => x.enc_set(false), None => Seq::empty() }) }
#[verifier::opaque]
pub open spec fn a5(s: Seq<Tok>, w: TransactionWitnessSet, r: TransactionWitnessSetRaw) -> Seq<Tok> { ap(s, 5, w.redeemers is Some, emp(w.redeemers), r.redeemers, e_or(w.redeemers)) }
/// Conway CDDL transaction_witness_set: { ? 0 vkeys, ? 1 native scripts, ? 2 bootstraps, ? 3 plutus v1, ? 4 datums, ? 5 redeemers,
/// ? 6 plutus v2, ? 7 plutus v3 }: a definite map whose declared length is the number of entries written; entries kept as
/// original bytes are emitted verbatim under their key.  ws_apply(s, ..) = s followed by that encoding.
pub open spec fn ws_apply(s: Seq<Tok>, w: TransactionWitnessSet, r: TransactionWitnessSetRaw) -> Seq<Tok> {
    a5(a4(a367(a2(a1(a0(s.push(Tok::Map(ws_count(w, r) as u64)), w, r), w, r), w, r), w, r), w, r), w, r)
}
pub proof fn lemma_ap(s: Seq<Tok>, k: u64, present: bool, is_empty: bool, raw: Option<Vec<u8>>, typed: Seq<Tok>)
    ensures ap(s, k, present, is_empty, raw, typed) =~= s + ap(Seq::empty(), k, present, is_empty, raw, typed)
{ }
pub proof fn lemma_ap_ps(s: Seq<Tok>, k: u64, ps: Option<PlutusScripts>, l: Language, raw: Option<Vec<u8>>)
    ensures ap_ps(s, k, ps, l, raw) =~= s + ap_ps(Seq::empty(), k, ps, l, raw)
{ }
pub proof fn lemma_a0(s: Seq<Tok>, x: Seq<Tok>, y: Seq<Tok>, w: TransactionWitnessSet, r: TransactionWitnessSetRaw)
    requires x == s + y ensures a0(x, w, r) == s + a0(y, w, r)
{
    reveal(a0);
    lemma_ap(x, 0, w.vkeys is Some, emp(w.vkeys), r.vkeys, e_or(w.vkeys)); lemma_ap(y, 0, w.vkeys is Some, emp(w.vkeys), r.vkeys, e_or(w.vkeys));
    lemma_shift(s, x, y, a0(x, w, r), a0(y, w, r), ap(Seq::empty(), 0, w.vkeys is Some, emp(w.vkeys), r.vkeys, e_or(w.vkeys)));
}
pub proof fn lemma_a1(s: Seq<Tok>, x: Seq<Tok>, y: Seq<Tok>, w: TransactionWitnessSet, r: TransactionWitnessSetRaw)
    requires x == s + y ensures a1(x, w, r) == s + a1(y, w, r)
{
    reveal(a1);
    let t = match w.native_scripts { Some(z) => z.enc_set(false), None => Seq::empty() };
    lemma_ap(x, 1, w.native_scripts is Some, emp(w.native_scripts), r.native_scripts, t); lemma_ap(y, 1, w.native_scripts is Some, emp(w.native_scripts), r.native_scripts, t);
    lemma_shift(s, x, y, a1(x, w, r), a1(y, w, r), ap(Seq::empty(), 1, w.native_scripts is Some, emp(w.native_scripts), r.native_scripts, t));
}
pub proof fn lemma_a2(s: Seq<Tok>, x: Seq<Tok>, y: Seq<Tok>, w: TransactionWitnessSet, r: TransactionWitnessSetRaw)
    requires x == s + y ensures a2(x, w, r) == s + a2(y, w, r)
{
    reveal(a2);
    lemma_ap(x, 2, w.bootstraps is Some, emp(w.bootstraps), r.bootstraps, e_or(w.bootstraps)); lemma_ap(y, 2, w.bootstraps is Some, emp(w.bootstraps), r.bootstraps, e_or(w.bootstraps));
    lemma_shift(s, x, y, a2(x, w, r), a2(y, w, r), ap(Seq::empty(), 2, w.bootstraps is Some, emp(w.bootstraps), r.bootstraps, e_or(w.bootstraps)));
}
pub proof fn lemma_ps(s: Seq<Tok>, x: Seq<Tok>, y: Seq<Tok>, k: u64, ps: Option<PlutusScripts>, l: Language, raw: Option<Vec<u8>>)
    requires x == s + y ensures ap_ps(x, k, ps, l, raw) == s + ap_ps(y, k, ps, l, raw)
{
    lemma_ap_ps(x, k, ps, l, raw); lemma_ap_ps(y, k, ps, l, raw);
    lemma_shift(s, x, y, ap_ps(x, k, ps, l, raw), ap_ps(y, k, ps, l, raw), ap_ps(Seq::empty(), k, ps, l, raw));
}
pub proof fn lemma_a367(s: Seq<Tok>, x: Seq<Tok>, y: Seq<Tok>, w: TransactionWitnessSet, r: TransactionWitnessSetRaw)
    requires x == s + y ensures a367(x, w, r) == s + a367(y, w, r)
{
    reveal(a367);
    lemma_ps(s, x, y, 3, w.plutus_scripts, lang_v1(), r.plutus_scripts_v1);
    let x1 = ap_ps(x, 3, w.plutus_scripts, lang_v1(), r.plutus_scripts_v1); let y1 = ap_ps(y, 3, w.plutus_scripts, lang_v1(), r.plutus_scripts_v1);
    lemma_ps(s, x1, y1, 6, w.plutus_scripts, lang_v2(), r.plutus_scripts_v2);
    let x2 = ap_ps(x1, 6, w.plutus_scripts, lang_v2(), r.plutus_scripts_v2); let y2 = ap_ps(y1, 6, w.plutus_scripts, lang_v2(), r.plutus_scripts_v2);
    lemma_ps(s, x2, y2, 7, w.plutus_scripts, lang_v3(), r.plutus_scripts_v3);
}
pub proof fn lemma_a4(s: Seq<Tok>, x: Seq<Tok>, y: Seq<Tok>, w: TransactionWitnessSet, r: TransactionWitnessSetRaw)
    requires x == s + y ensures a4(x, w, r) == s + a4(y, w, r)
{
    reveal(a4);
    let t = match w.plutus_data { Some(z) => z.enc_set(false), None => Seq::empty() };
    lemma_ap(x, 4, w.plutus_data is Some, emp(w.plutus_data), r.plutus_data, t); lemma_ap(y, 4, w.plutus_data is Some, emp(w.plutus_data), r.plutus_data, t);
    lemma_shift(s, x, y, a4(x, w, r), a4(y, w, r), ap(Seq::empty(), 4, w.plutus_data is Some, emp(w.plutus_data), r.plutus_data, t));
}
pub proof fn lemma_a5(s: Seq<Tok>, x: Seq<Tok>, y: Seq<Tok>, w: TransactionWitnessSet, r: TransactionWitnessSetRaw)
    requires x == s + y ensures a5(x, w, r) == s + a5(y, w, r)
{
    reveal(a5);
    lemma_ap(x, 5, w.redeemers is Some, emp(w.redeemers), r.redeemers, e_or(w.redeemers)); lemma_ap(y, 5, w.redeemers is Some, emp(w.redeemers), r.redeemers, e_or(w.redeemers));
    lemma_shift(s, x, y, a5(x, w, r), a5(y, w, r), ap(Seq::empty(), 5, w.redeemers is Some, emp(w.redeemers), r.redeemers, e_or(w.redeemers)));
}
/// the apply form is "s followed by the encoding": ws_apply(s, w, r) == s + ws_apply(empty, w, r)
pub proof fn lemma_ws_apply(s: Seq<Tok>, w: TransactionWitnessSet, r: TransactionWitnessSetRaw)
    ensures ws_apply(s, w, r) == s + ws_apply(Seq::empty(), w, r)
{
    let e = Seq::<Tok>::empty();
    let m = Tok::Map(ws_count(w, r) as u64);
    let x0 = s.push(m); let y0 = e.push(m);
    assert(x0 =~= s + y0);
    lemma_a0(s, x0, y0, w, r);
    let x1 = a0(x0, w, r); let y1 = a0(y0, w, r);
    lemma_a1(s, x1, y1, w, r);
    let x2 = a1(x1, w, r); let y2 = a1(y1, w, r);
    lemma_a2(s, x2, y2, w, r);
    let x3 = a2(x2, w, r); let y3 = a2(y2, w, r);
    lemma_a367(s, x3, y3, w, r);
    let x4 = a367(x3, w, r); let y4 = a367(y3, w, r);
    lemma_a4(s, x4, y4, w, r);
    let x5 = a4(x4, w, r); let y5 = a4(y4, w, r);
    lemma_a5(s, x5, y5, w, r);
}
pub open spec fn raw_none() -> TransactionWitnessSetRaw { raw_of(None) }
