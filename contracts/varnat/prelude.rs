#[derive(Clone, Copy)]
pub struct BigNum(pub u64);
pub type SlotBigNum = BigNum;
impl From<u64> for BigNum { #[verifier::external_body] fn from(v: u64) -> (r: BigNum) ensures r == BigNum(v) { unimplemented!() } }
impl vstd::std_specs::convert::FromSpecImpl<u64> for BigNum { open spec fn obeys_from_spec() -> bool { true } open spec fn from_spec(v: u64) -> BigNum { BigNum(v) } }
/// `&data[offset..]` (R-slicefrom): the rest of the slice; indexing past the end panics, hence the precondition
#[verifier::external_body] pub fn slice_from_(data: &[u8], offset: usize) -> (r: &[u8]) requires offset <= data@.len() ensures r@ == data@.skip(offset as int) { unimplemented!() }
opaque_types!(Address);
/// `Vec::reverse` (R-vecreverse; std, ASSUMED): the same elements in the opposite order
#[verifier::external_body] pub fn vec_reverse_(v: &mut Vec<u8>) ensures final(v)@ == old(v)@.reverse() { unimplemented!() }
