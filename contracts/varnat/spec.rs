// varnat unit (C11, C02): the variable-length natural of pointer addresses (base 128, big endian, high bit = "more follows").
/// value of the first n bytes read as base-128 digits (the low 7 bits of each)
pub open spec fn vn_val(s: Seq<u8>, n: int) -> nat decreases n { if n <= 0 { 0 } else { vn_val(s, n - 1) * 128 + (s[n - 1] % 128) as nat } }
/// the first n bytes all carry the continuation bit
pub open spec fn vn_cont(s: Seq<u8>, n: int) -> bool { forall|i: int| 0 <= i < n ==> #[trigger] s[i] >= 128 }
/// n bytes form a complete encoding: n-1 continuation bytes, then a final one
pub open spec fn vn_ends(s: Seq<u8>, n: int) -> bool { 1 <= n <= s.len() && vn_cont(s, n - 1) && s[n - 1] < 128 }
pub proof fn lemma_low7(b: u8) ensures (b & 0x7F) == b % 128, ((b & 0x80) == 0) == (b < 128) { assert((b & 0x7F) == b % 128) by (bit_vector); assert(((b & 0x80) == 0) == (b < 128)) by (bit_vector); }
pub proof fn lemma_shift7(o: u128, lo: u128) requires o <= 0xffff_ffff_ffff_ffff, lo < 128 ensures ((o << 7) | lo) == o * 128 + lo { assert(((o << 7) | lo) == o * 128 + lo) by (bit_vector) requires o <= 0xffff_ffff_ffff_ffff, lo < 128; }
/// the value only grows with more digits: once the prefix value exceeds u64, every longer prefix does
pub proof fn lemma_val_mono(s: Seq<u8>, a: int, b: int) requires 0 <= a <= b ensures vn_val(s, a) <= vn_val(s, b) decreases b - a
{ if a < b { lemma_val_mono(s, a, b - 1); assert(vn_val(s, b) == vn_val(s, b - 1) * 128 + (s[b - 1] % 128) as nat); assert(vn_val(s, b - 1) * 128 >= vn_val(s, b - 1)) by (nonlinear_arith); } }
/// the decoder as one function of the bytes: the unique complete prefix, if its value fits 64 bits
pub open spec fn vn_len(s: Seq<u8>) -> int { choose|n: int| vn_ends(s, n) }
pub open spec fn vn_dec(s: Seq<u8>) -> Option<(u64, usize)> {
    if (exists|n: int| vn_ends(s, n)) && vn_val(s, vn_len(s)) <= u64::MAX { Some((vn_val(s, vn_len(s)) as u64, vn_len(s) as usize)) } else { None }
}
pub proof fn lemma_ends_unique(s: Seq<u8>, a: int, b: int) requires vn_ends(s, a), vn_ends(s, b) ensures a == b
{ if a < b { assert(s[a - 1] >= 128); } else if b < a { assert(s[b - 1] >= 128); } }
/// what variable_nat_decode's three postconditions add up to
pub proof fn lemma_vn_dec(s: Seq<u8>, r: Option<(u64, usize)>)
    requires s.len() <= usize::MAX,
        r is Some ==> vn_ends(s, r->Some_0.1 as int) && vn_val(s, r->Some_0.1 as int) == r->Some_0.0,
        r is None ==> vn_cont(s, s.len() as int) || exists|n: int| 1 <= n <= s.len() && vn_cont(s, n - 1) && vn_val(s, n) > u64::MAX,
    ensures r == vn_dec(s)
{
    if r is Some { let n = r->Some_0.1 as int; lemma_ends_unique(s, n, vn_len(s)); }
    else if exists|n: int| vn_ends(s, n) {
        let m = vn_len(s);
        if vn_cont(s, s.len() as int) { assert(s[m - 1] >= 128); }
        else { let n = choose|n: int| 1 <= n <= s.len() && vn_cont(s, n - 1) && vn_val(s, n) > u64::MAX; if m < n { assert(s[m - 1] >= 128); } else { lemma_val_mono(s, n, m); } }
    }
}
