// varnat unit (C11, C02): the variable-length natural of pointer addresses (base 128, big endian, high bit = "more follows").
/// value of the first n bytes read as base-128 digits (the low 7 bits of each)
pub open spec fn vn_val(s: Seq<u8>, n: int) -> nat decreases n { if n <= 0 { 0 } else { vn_val(s, n - 1) * 128 + (s[n - 1] % 128) as nat } }
/// the first n bytes all carry the continuation bit
pub open spec fn vn_cont(s: Seq<u8>, n: int) -> bool { forall|i: int| 0 <= i < n ==> #[trigger] s[i] >= 128 }
/// n bytes form a complete encoding: n-1 continuation bytes, then a final one
pub open spec fn vn_ends(s: Seq<u8>, n: int) -> bool { 1 <= n <= s.len() && vn_cont(s, n - 1) && s[n - 1] < 128 }
pub proof fn lemma_low7(b: u8) ensures (b & 0x7F) == b % 128, ((b & 0x80) == 0) == (b < 128) { assert((b & 0x7F) == b % 128) by (bit_vector); assert(((b & 0x80) == 0) == (b < 128)) by (bit_vector); }
pub proof fn lemma_shift7(o: u128, lo: u128) requires o <= 0xffff_ffff_ffff_ffff, lo < 128 ensures ((o << 7) | lo) == o * 128 + lo { assert(((o << 7) | lo) == o * 128 + lo) by (bit_vector) requires o <= 0xffff_ffff_ffff_ffff, lo < 128; }
/// the value only grows with more digits: once the prefix value exceeds u64, every longer prefix does
pub proof fn lemma_val_mono(s: Seq<u8>, a: int, b: int) requires 0 <= a <= b ensures vn_val(s, a) <= vn_val(s, b) decreases b - a
{ if a < b { lemma_val_mono(s, a, b - 1); assert(vn_val(s, b) == vn_val(s, b - 1) * 128 + (s[b - 1] % 128) as nat); assert(vn_val(s, b - 1) * 128 >= vn_val(s, b - 1)) by (nonlinear_arith); } }
