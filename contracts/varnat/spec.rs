// varnat unit (C11, C02): the variable-length natural of pointer addresses (base 128, big endian, high bit = "more follows").
/// value of the first n bytes read as base-128 digits (the low 7 bits of each)
pub open spec fn vn_val(s: Seq<u8>, n: int) -> nat decreases n { if n <= 0 { 0 } else { vn_val(s, n - 1) * 128 + (s[n - 1] % 128) as nat } }
/// the first n bytes all carry the continuation bit
pub open spec fn vn_cont(s: Seq<u8>, n: int) -> bool { forall|i: int| 0 <= i < n ==> #[trigger] s[i] >= 128 }
/// n bytes form a complete encoding: n-1 continuation bytes, then a final one
pub open spec fn vn_ends(s: Seq<u8>, n: int) -> bool { 1 <= n <= s.len() && vn_cont(s, n - 1) && s[n - 1] < 128 }
pub proof fn lemma_low7(b: u8) ensures (b & 0x7F) == b % 128, ((b & 0x80) == 0) == (b < 128) { assert((b & 0x7F) == b % 128) by (bit_vector); assert(((b & 0x80) == 0) == (b < 128)) by (bit_vector); }
pub proof fn lemma_shift7(o: u128, lo: u128) requires o <= 0xffff_ffff_ffff_ffff, lo < 128 ensures ((o << 7) | lo) == o * 128 + lo { assert(((o << 7) | lo) == o * 128 + lo) by (bit_vector) requires o <= 0xffff_ffff_ffff_ffff, lo < 128; }
/// the value only grows with more digits: once the prefix value exceeds u64, every longer prefix does
pub proof fn lemma_val_mono(s: Seq<u8>, a: int, b: int) requires 0 <= a <= b ensures vn_val(s, a) <= vn_val(s, b) decreases b - a
{ if a < b { lemma_val_mono(s, a, b - 1); assert(vn_val(s, b) == vn_val(s, b - 1) * 128 + (s[b - 1] % 128) as nat); assert(vn_val(s, b - 1) * 128 >= vn_val(s, b - 1)) by (nonlinear_arith); } }
/// the decoder as one function of the bytes: the unique complete prefix, if its value fits 64 bits
pub open spec fn vn_len(s: Seq<u8>) -> int { choose|n: int| vn_ends(s, n) }
pub open spec fn vn_dec(s: Seq<u8>) -> Option<(u64, usize)> {
    if (exists|n: int| vn_ends(s, n)) && vn_val(s, vn_len(s)) <= u64::MAX { Some((vn_val(s, vn_len(s)) as u64, vn_len(s) as usize)) } else { None }
}
pub proof fn lemma_ends_unique(s: Seq<u8>, a: int, b: int) requires vn_ends(s, a), vn_ends(s, b) ensures a == b
{ if a < b { assert(s[a - 1] >= 128); } else if b < a { assert(s[b - 1] >= 128); } }
/// what variable_nat_decode's three postconditions add up to
pub proof fn lemma_vn_dec(s: Seq<u8>, r: Option<(u64, usize)>)
    requires s.len() <= usize::MAX,
        r is Some ==> vn_ends(s, r->Some_0.1 as int) && vn_val(s, r->Some_0.1 as int) == r->Some_0.0,
        r is None ==> vn_cont(s, s.len() as int) || exists|n: int| 1 <= n <= s.len() && vn_cont(s, n - 1) && vn_val(s, n) > u64::MAX,
    ensures r == vn_dec(s)
{
    if r is Some { let n = r->Some_0.1 as int; lemma_ends_unique(s, n, vn_len(s)); }
    else if exists|n: int| vn_ends(s, n) {
        let m = vn_len(s);
        if vn_cont(s, s.len() as int) { assert(s[m - 1] >= 128); }
        else { let n = choose|n: int| 1 <= n <= s.len() && vn_cont(s, n - 1) && vn_val(s, n) > u64::MAX; if m < n { assert(s[m - 1] >= 128); } else { lemma_val_mono(s, n, m); } }
    }
}

// ---- encoder: digits are produced least significant first and the vector reversed at the end
pub open spec fn pow128(n: nat) -> nat decreases n { if n == 0 { 1 } else { 128 * pow128((n - 1) as nat) } }
/// value of the first n bytes of a LEAST-significant-first digit vector
pub open spec fn le_val(s: Seq<u8>, n: int) -> nat decreases n { if n <= 0 { 0 } else { le_val(s, n - 1) + (s[n - 1] % 128) as nat * pow128((n - 1) as nat) } }
/// reading the reversed vector most-significant-first gives the same number: vn_val(rev, j) is the value of the top j digits
pub proof fn lemma_rev_val(s: Seq<u8>, j: int)
    requires 0 <= j <= s.len()
    ensures vn_val(s.reverse(), j) * pow128((s.len() - j) as nat) + le_val(s, s.len() - j) == le_val(s, s.len() as int)
    decreases j
{
    let L = s.len() as int;
    if j > 0 {
        lemma_rev_val(s, j - 1);
        assert(s.reverse()[j - 1] == s[L - j]);
        assert(le_val(s, L - j + 1) == le_val(s, L - j) + (s[L - j] % 128) as nat * pow128((L - j) as nat));
        assert(pow128((L - j + 1) as nat) == 128 * pow128((L - j) as nat));
        let a = vn_val(s.reverse(), j - 1); let d = (s[L - j] % 128) as nat; let p = pow128((L - j) as nat);
        assert(vn_val(s.reverse(), j) == a * 128 + d);
        assert((a * 128 + d) * p == a * (128 * p) + d * p) by (nonlinear_arith);
        assert(vn_val(s.reverse(), j - 1) * pow128((L - (j - 1)) as nat) + le_val(s, L - (j - 1)) == le_val(s, L));
        assert(pow128((L - (j - 1)) as nat) == 128 * p);
        assert(a * pow128((L - (j - 1)) as nat) == a * (128 * p));
        assert(le_val(s, L - (j - 1)) == le_val(s, L - j) + d * p);
    } else {
        assert(vn_val(s.reverse(), 0) == 0);
    }
}
pub proof fn lemma_le_prefix(s: Seq<u8>, d: u8, n: int)
    requires 0 <= n <= s.len()
    ensures le_val(s.push(d), n) == le_val(s, n)
    decreases n
{ if n > 0 { lemma_le_prefix(s, d, n - 1); assert(s.push(d)[n - 1] == s[n - 1]); } }
/// one more digit at the top
pub proof fn lemma_le_push(s: Seq<u8>, d: u8, num: u64, num0: u64)
    requires num0 == le_val(s, s.len() as int) + num * pow128(s.len()), d % 128 == num % 128
    ensures num0 == le_val(s.push(d), s.len() as int + 1) + (num / 128) * pow128(s.len() + 1)
{
    lemma_le_prefix(s, d, s.len() as int);
    let p = pow128(s.len()); let q = (num / 128) as nat; let r = (num % 128) as nat;
    assert(s.push(d)[s.len() as int] == d);
    assert(pow128(s.len() + 1) == 128 * p);
    assert(num == q * 128 + r);
    assert((q * 128 + r) * p == r * p + q * (128 * p)) by (nonlinear_arith);
}
pub proof fn lemma_enc_bits(num: u64)
    ensures ((num as u8) & 0x7F) < 128, ((num as u8) & 0x7F) as u64 == num % 128,
            (((num & 0x7F) as u8) | 0x80) >= 128, ((((num & 0x7F) as u8) | 0x80) % 128) as u64 == num % 128
{
    assert(((num as u8) & 0x7F) < 128) by (bit_vector);
    assert(((num as u8) & 0x7F) as u64 == num % 128) by (bit_vector);
    assert((((num & 0x7F) as u8) | 0x80) >= 128) by (bit_vector);
    assert(((((num & 0x7F) as u8) | 0x80) % 128) as u64 == num % 128) by (bit_vector);
}
