use std::rc::Rc;
use std::collections::{HashSet, BTreeSet};
// element type: only equality / hashing / ordering / cloning of elements matter to the collection's invariant, so the
// element is an opaque token with the derived structural traits (ASSUMED: the real derives are structural)
#[derive(PartialEq, Eq, Hash, PartialOrd, Ord)]
pub struct Certificate(pub u64);
impl Clone for Certificate { #[verifier::external_body] fn clone(&self) -> (r: Certificate) ensures r == *self { unimplemented!() } }
#[derive(Clone)]
pub enum CborSetType { Tagged, Untagged }
