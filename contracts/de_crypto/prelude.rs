#[verifier::external_body] pub struct TryFromSliceError { _p: core::marker::PhantomData<u8> }
/// `v[..N].try_into()` to an array (R-arrayfrom): slicing panics unless the vector has at least N bytes (that is the precondition); the
/// conversion of an N-byte slice to [u8; N] itself always succeeds (std: ASSUMED)
#[verifier::external_body] pub fn try_array_from_prefix<const N: usize>(bytes: &Vec<u8>) -> (r: Result<[u8; N], TryFromSliceError>)
    requires bytes@.len() >= N
    ensures r is Ok, r->Ok_0@ == bytes@.take(N as int)
{ unimplemented!() }
#[verifier::external_body] pub fn array_from_prefix<const N: usize>(bytes: &Vec<u8>) -> (r: [u8; N])
    requires bytes@.len() >= N
    ensures r@ == bytes@.take(N as int)
{ unimplemented!() }
