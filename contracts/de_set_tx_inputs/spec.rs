/// k items decoded one after the other: (the items, tokens consumed)
pub open spec fn dec_items<T: De>(rem: Seq<Tok>, k: nat) -> Option<(Seq<T>, int)> decreases k {
    if k == 0 { Some((Seq::empty(), 0)) } else {
        match T::dec(rem) {
            Some((x, n)) => if 0 <= n <= rem.len() { match dec_items::<T>(rem.skip(n), (k - 1) as nat) { Some((xs, m)) => Some((seq![x] + xs, n + m)), None => None } } else { None },
            None => None,
        }
    }
}
pub open spec fn arr_decs<T: De>(rem: Seq<Tok>) -> Option<(Seq<T>, int)> {
    if rem.len() > 0 && rem[0] is Arr { match dec_items::<T>(rem.skip(1), rem[0]->Arr_0 as nat) { Some((xs, m)) => Some((xs, 1 + m)), None => None } } else { None }
}
/// the array behind an optional set tag 258
pub open spec fn body_of(rem: Seq<Tok>) -> Seq<Tok> { if rem.len() > 0 && rem[0] == Tok::Tag(258) { rem.skip(1) } else { rem } }
/// set<a> = #6.258([* a]) / [* a]  (definite lengths: what the encoders write)
pub open spec fn set_decs<T: De>(rem: Seq<Tok>) -> Option<(Seq<T>, int)> {
    if rem.len() > 0 && rem[0] == Tok::Tag(258) { match arr_decs::<T>(rem.skip(1)) { Some((xs, m)) => Some((xs, 1 + m)), None => None } }
    else if rem.len() > 0 && rem[0] is Arr { arr_decs::<T>(rem) } else { None }
}
