impl Ser for TransactionInput {
    uninterp spec fn enc(&self) -> Seq<Tok>;
    #[verifier::external_body] fn serialize(&self, serializer: &mut Serializer) -> (r: Result<(), CborError>) { unimplemented!() }
}
de_opaque!(TransactionInput);
