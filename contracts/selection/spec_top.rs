// ---- add_inputs_from: what success means (property C08)
pub open spec fn upto(n: nat) -> Set<usize> { Seq::new(n, |k: int| k as usize).to_set() }
pub proof fn lemma_upto(n: nat)
    requires n <= usize::MAX
    ensures forall|x: usize| #[trigger] upto(n).contains(x) <==> x < n
{
    let s = Seq::new(n, |k: int| k as usize);
    assert forall|x: usize| #[trigger] upto(n).contains(x) <==> x < n by {
        if x < n { assert(s[x as int] == x); assert(s.contains(x)); }
        if s.contains(x) { let k = choose|k: int| 0 <= k < s.len() && s[k] == x; }
    }
}
/// the fee the routine starts from: min_fee() of the builder as it was handed in (its contract in unit builder)
pub open spec fn min_fee0(b: TransactionBuilder) -> nat {
    policy_fee(b.fee_request, BigNum(min_fee_spec(TransactionBuilder { fee: Some(policy_fee(b.fee_request, BigNum(0x1_0000_0000))), ..b }) as u64)).0 as nat
}
/// `pu` = the inputs selection added, in order: members of the offer, pairwise distinct outpoints, none of them an input before; the builder is the
/// old one with exactly these inputs added; its ACTUAL inputs (as the input map holds them, plus implicit inputs) cover outputs + deposits + donation +
/// the fee target (initial min fee + the marginal fee of every added input) in lovelace; for largest-first multi-asset also in every asset
pub open spec fn sel_ok_w(b0: TransactionBuilder, b1: TransactionBuilder, offered: Seq<TransactionUnspentOutput>, lfma: bool, pu: Seq<TransactionUnspentOutput>) -> bool {
    &&& forall|k: int| 0 <= k < pu.len() ==> offered.contains(#[trigger] pu[k]) && !b0.inputs.amap().dom().contains(pu[k].input)
    &&& forall|j: int, k: int| 0 <= j < k < pu.len() ==> (#[trigger] pu[j]).input != (#[trigger] pu[k]).input
    &&& b1 == after(b0, pu)
    &&& in_coin(b1) >= out_coin(b1) + min_fee0(b0) + fees_sum(b0, pu)
    &&& lfma ==> forall|a: AssetId| in_qty(b1, a) >= out_qty(b1, a)
}
pub open spec fn sel_ok(b0: TransactionBuilder, b1: TransactionBuilder, offered: Seq<TransactionUnspentOutput>, lfma: bool) -> bool {
    exists|pu: Seq<TransactionUnspentOutput>| sel_ok_w(b0, b1, offered, lfma, pu)
}
pub proof fn lemma_summ_mono(b0: TransactionBuilder, b1: TransactionBuilder, av: Seq<&TransactionUnspentOutput>, idx0: Set<usize>, idx1: Set<usize>,
    it0: Value, it1: Value, ot0: Value, ot1: Value, picked: Seq<usize>)
    requires summ(b0, b1, av, idx0, idx1, it0, it1, ot0, ot1, picked)
    ensures forall|a: AssetId| qty(it1, a) >= qty(it0, a), it1.coin.0 >= it0.coin.0, ot1.multiasset == ot0.multiasset, forall|a: AssetId| qty(ot1, a) == qty(ot0, a)
{ reveal(summ); }
pub proof fn lemma_summ_pool(b0: TransactionBuilder, b1: TransactionBuilder, av: Seq<&TransactionUnspentOutput>, idx0: Set<usize>, idx1: Set<usize>, idx1b: Set<usize>,
    it0: Value, it1: Value, ot0: Value, ot1: Value, picked: Seq<usize>)
    requires summ(b0, b1, av, idx0, idx1, it0, it1, ot0, ot1, picked), idx1b =~= idx1
    ensures summ(b0, b1, av, idx0, idx1b, it0, it1, ot0, ot1, picked)
{ }
pub proof fn lemma_summ_idx0(b0: TransactionBuilder, b1: TransactionBuilder, av: Seq<&TransactionUnspentOutput>, idx0: Set<usize>, idx0b: Set<usize>, idx1: Set<usize>,
    it0: Value, it1: Value, ot0: Value, ot1: Value, picked: Seq<usize>)
    requires summ(b0, b1, av, idx0, idx1, it0, it1, ot0, ot1, picked), idx0b =~= idx0
    ensures summ(b0, b1, av, idx0b, idx1, it0, it1, ot0, ot1, picked)
{ }
pub proof fn lemma_cover_coin(v: Value) ensures cover(coin_q(), v) == v.coin.0, q_stable(coin_q()), coin_q()(v) is Some { }
pub proof fn lemma_cover_asset(p: PolicyID, n: AssetName, v: Value) ensures cover(asset_q(p, n), v) == qty(v, aid(p, n)), q_stable(asset_q(p, n))
{ broadcast use ax_ma_qty; }

/// per-asset passes of the largest-first multi-asset strategy: the assets visited so far are covered
pub open spec fn cov_upto(it: Value, ot: Value, pols: Seq<(PolicyID, Assets)>, ti: int, tj: int) -> bool {
    forall|i: int, j: int| 0 <= i < pols.len() && 0 <= j < pols[i].1.entries().len() && (i < ti || (i == ti && j < tj)) ==> qty(it, #[trigger] aid_at(pols, i, j)) >= qty(ot, aid_at(pols, i, j))
}
pub proof fn lemma_cov_all(it: Value, ot: Value, ma: MultiAsset)
    requires ot.multiasset == Some(ma), cov_upto(it, ot, ma.policies(), ma.policies().len() as int, 0)
    ensures forall|a: AssetId| qty(it, a) >= qty(ot, a)
{
    assert forall|a: AssetId| qty(it, a) >= qty(ot, a) by {
        if qty(ot, a) > 0 { ax_ma_iter(ma); let (i, j) = choose|i: int, j: int| 0 <= i < ma.policies().len() && 0 <= j < ma.policies()[i].1.entries().len() && #[trigger] aid_at(ma.policies(), i, j) == a; }
    }
}

pub proof fn lemma_sel_final(b0: TransactionBuilder, bb: TransactionBuilder, b1: TransactionBuilder, av: Seq<&TransactionUnspentOutput>, idx_a: Set<usize>, pool: Set<usize>,
    itb: Value, it: Value, otb: Value, ot: Value, gp: Seq<usize>, firsts: Seq<TransactionUnspentOutput>, offered: Seq<TransactionUnspentOutput>, lfma: bool)
    requires
        bb == after(b0, firsts), firsts.len() <= 1,
        forall|k: int| 0 <= k < firsts.len() ==> offered.contains(#[trigger] firsts[k]) && !b0.inputs.amap().dom().contains(firsts[k].input),
        forall|k: int, j: int| 0 <= k < firsts.len() && 0 <= j < av.len() ==> (#[trigger] firsts[k]).input != (#[trigger] av[j]).input,
        forall|k: int| 0 <= k < av.len() ==> offered.contains(*(#[trigger] av[k])) && !b0.inputs.amap().dom().contains(av[k].input),
        fresh(bb, av, idx_a),
        in_step(bb, itb), otb.coin.0 == out_coin(b0) + min_fee0(b0) + fees_sum(b0, firsts), forall|a: AssetId| qty(otb, a) == out_qty(b0, a),
        summ(bb, b1, av, idx_a, pool, itb, it, otb, ot, gp),
        it.coin.0 >= ot.coin.0, lfma ==> forall|a: AssetId| qty(it, a) >= qty(ot, a),
    ensures sel_ok(b0, b1, offered, lfma)
{
    let pg = picked_utxos(av, gp); let pu = firsts + pg;
    lemma_summ_actual(bb, b1, av, idx_a, pool, itb, it, otb, ot, gp);
    lemma_summ_mono(bb, b1, av, idx_a, pool, itb, it, otb, ot, gp);
    reveal(summ);
    lemma_after_frame(b0, firsts);
    lemma_after_concat(b0, firsts, pg); lemma_fees_concat(b0, firsts, pg);
    assert(out_coin(b1) == out_coin(b0));
    assert forall|a: AssetId| out_qty(b1, a) == out_qty(b0, a) by { }
    assert forall|k: int| 0 <= k < pu.len() implies offered.contains(#[trigger] pu[k]) && !b0.inputs.amap().dom().contains(pu[k].input) by {
        if k < firsts.len() { assert(pu[k] == firsts[k]); } else { assert(pu[k] == pg[k - firsts.len()]); assert(pg[k - firsts.len()] == *av[gp[k - firsts.len()] as int]); assert(idx_a.contains(gp[k - firsts.len()])); }
    }
    assert forall|j: int, k: int| 0 <= j < k < pu.len() implies (#[trigger] pu[j]).input != (#[trigger] pu[k]).input by {
        if j < firsts.len() { assert(pu[j] == firsts[j]); assert(pu[k] == pg[k - firsts.len()]); assert(pg[k - firsts.len()] == *av[gp[k - firsts.len()] as int]); assert(idx_a.contains(gp[k - firsts.len()])); }
        else { let a = j - firsts.len(); let b = k - firsts.len(); assert(pu[j] == pg[a]); assert(pu[k] == pg[b]); assert(gp[a] != gp[b]); assert(idx_a.contains(gp[a])); assert(idx_a.contains(gp[b])); }
    }
    assert(sel_ok_w(b0, b1, offered, lfma, pu));
}

// ---- glue between the strategy contracts and the running summary
pub proof fn lemma_offer_from_fresh(b: TransactionBuilder, av: Seq<&TransactionUnspentOutput>, idxs: Seq<usize>)
    requires fresh(b, av, idxs.to_set()), idxs.no_duplicates()
    ensures offer_ok(b, av, idxs)
{
    assert forall|k: int| 0 <= k < idxs.len() implies (#[trigger] idxs[k]) < av.len() && !b.inputs.amap().dom().contains(av[idxs[k] as int].input) by { assert(idxs.to_set().contains(idxs[k])); }
}
pub proof fn lemma_pre_call(bb: TransactionBuilder, b: TransactionBuilder, av: Seq<&TransactionUnspentOutput>, idx_a: Set<usize>, pool: Set<usize>, itb: Value, it: Value, otb: Value, ot: Value, gp: Seq<usize>)
    requires summ(bb, b, av, idx_a, pool, itb, it, otb, ot, gp), fresh(bb, av, idx_a), in_step(bb, itb)
    ensures fresh(b, av, pool), forall|x: usize| pool.contains(x) ==> x < av.len(), ot.multiasset == otb.multiasset, b.outputs == bb.outputs
{
    lemma_summ_actual(bb, b, av, idx_a, pool, itb, it, otb, ot, gp);
    lemma_summ_mono(bb, b, av, idx_a, pool, itb, it, otb, ot, gp);
}
pub proof fn lemma_lf_call(q: spec_fn(Value) -> Option<BigNum>, bb: TransactionBuilder, b_bf: TransactionBuilder, b_af: TransactionBuilder, av: Seq<&TransactionUnspentOutput>, idx_a: Set<usize>,
    ix_bf: Seq<usize>, ix_af: Seq<usize>, itb: Value, it_bf: Value, it_af: Value, otb: Value, ot_bf: Value, ot_af: Value, gp: Seq<usize>) -> (pk: Seq<usize>)
    requires summ(bb, b_bf, av, idx_a, ix_bf.to_set(), itb, it_bf, otb, ot_bf, gp), lf_ok(q, b_bf, b_af, av, ix_bf, ix_af, it_bf, it_af, ot_bf, ot_af)
    ensures summ(bb, b_af, av, idx_a, ix_af.to_set(), itb, it_af, otb, ot_af, gp + pk), cover(q, it_af) >= cover(q, ot_af),
            forall|a: AssetId| qty(it_af, a) >= qty(it_bf, a), ot_af.multiasset == ot_bf.multiasset
{
    let (pk, is_, os_) = choose|pk: Seq<usize>, is_: Seq<Value>, os_: Seq<Value>|
        sel_trace(b_bf, b_af, av, ix_bf.to_set(), ix_af.to_set(), it_bf, it_af, ot_bf, ot_af, pk, is_, os_) && lf_post(q, av, ix_bf, it_af, ot_af, pk, is_, os_);
    lemma_trace_summ(b_bf, b_af, av, ix_bf.to_set(), ix_af.to_set(), it_bf, it_af, ot_bf, ot_af, pk, is_, os_);
    lemma_summ_mono(b_bf, b_af, av, ix_bf.to_set(), ix_af.to_set(), it_bf, it_af, ot_bf, ot_af, pk);
    lemma_summ_compose(bb, b_bf, b_af, av, idx_a, ix_bf.to_set(), ix_af.to_set(), itb, it_bf, it_af, otb, ot_bf, ot_af, gp, pk);
    pk
}
pub proof fn lemma_ri_call(bb: TransactionBuilder, b_bf: TransactionBuilder, b_af: TransactionBuilder, av: Seq<&TransactionUnspentOutput>, idx_a: Set<usize>,
    pool_bf: Set<usize>, pool_af: Set<usize>, itb: Value, it_bf: Value, it_af: Value, otb: Value, ot_bf: Value, ot_af: Value, gp: Seq<usize>) -> (pk: Seq<usize>)
    requires summ(bb, b_bf, av, idx_a, pool_bf, itb, it_bf, otb, ot_bf, gp), ri_ok(b_bf, b_af, av, pool_bf, pool_af, it_bf, it_af, ot_bf, ot_af)
    ensures summ(bb, b_af, av, idx_a, pool_af, itb, it_af, otb, ot_af, gp + pk),
            forall|a: AssetId| qty(it_af, a) >= qty(it_bf, a), ot_af.multiasset == ot_bf.multiasset
{
    let (pk, is_, os_) = choose|pk: Seq<usize>, is_: Seq<Value>, os_: Seq<Value>| sel_trace(b_bf, b_af, av, pool_bf, pool_af, it_bf, it_af, ot_bf, ot_af, pk, is_, os_);
    lemma_trace_summ(b_bf, b_af, av, pool_bf, pool_af, it_bf, it_af, ot_bf, ot_af, pk, is_, os_);
    lemma_summ_mono(b_bf, b_af, av, pool_bf, pool_af, it_bf, it_af, ot_bf, ot_af, pk);
    lemma_summ_compose(bb, b_bf, b_af, av, idx_a, pool_bf, pool_af, itb, it_bf, it_af, otb, ot_bf, ot_af, gp, pk);
    pk
}
/// a newly covered asset joins the covered ones; what was covered stays covered when the input total only grows and the target's assets stay
pub proof fn lemma_cov_step(it_bf: Value, it_af: Value, ot_bf: Value, ot_af: Value, pols: Seq<(PolicyID, Assets)>, ti: int, tj: int)
    requires cov_upto(it_bf, ot_bf, pols, ti, tj), forall|a: AssetId| qty(it_af, a) >= qty(it_bf, a), ot_af.multiasset == ot_bf.multiasset,
             0 <= ti < pols.len(), 0 <= tj < pols[ti].1.entries().len(), qty(it_af, aid_at(pols, ti, tj)) >= qty(ot_af, aid_at(pols, ti, tj))
    ensures cov_upto(it_af, ot_af, pols, ti, tj + 1)
{
    assert forall|i: int, j: int| 0 <= i < pols.len() && 0 <= j < pols[i].1.entries().len() && (i < ti || (i == ti && j < tj + 1)) implies qty(it_af, #[trigger] aid_at(pols, i, j)) >= qty(ot_af, aid_at(pols, i, j)) by {
        if i == ti && j == tj { } else { assert(qty(it_bf, aid_at(pols, i, j)) >= qty(ot_bf, aid_at(pols, i, j))); }
    }
}
pub proof fn lemma_cov_next(it: Value, ot: Value, pols: Seq<(PolicyID, Assets)>, ti: int)
    requires 0 <= ti < pols.len(), cov_upto(it, ot, pols, ti, pols[ti].1.entries().len() as int)
    ensures cov_upto(it, ot, pols, ti + 1, 0)
{ }
pub proof fn lemma_cov_mono(it_bf: Value, it_af: Value, ot_bf: Value, ot_af: Value)
    requires forall|a: AssetId| qty(it_bf, a) >= qty(ot_bf, a), forall|a: AssetId| qty(it_af, a) >= qty(it_bf, a), ot_af.multiasset == ot_bf.multiasset
    ensures forall|a: AssetId| qty(it_af, a) >= qty(ot_af, a)
{ assert forall|a: AssetId| qty(it_af, a) >= qty(ot_af, a) by { assert(qty(it_bf, a) >= qty(ot_bf, a)); } }
pub proof fn lemma_range_set(s: Seq<usize>, n: nat)
    requires s.len() == n, n <= usize::MAX, forall|k: int| 0 <= k < n ==> s[k] == k
    ensures s.no_duplicates(), s.to_set() =~= upto(n)
{
    lemma_upto(n);
    assert forall|x: usize| s.to_set().contains(x) <==> upto(n).contains(x) by {
        if x < n { assert(s[x as int] == x); assert(s.contains(x)); }
        if s.contains(x) { let k = choose|k: int| 0 <= k < s.len() && s[k] == x; }
    }
}
pub proof fn lemma_after_one(b: TransactionBuilder, u: TransactionUnspentOutput)
    ensures after(b, seq![u]) == step(b, u), fees_sum(b, seq![u]) == fee_in_spec(b, u)
{
    let s = seq![u];
    assert(s.drop_last() =~= Seq::<TransactionUnspentOutput>::empty());
    assert(s.last() == u);
    assert(after(b, s.drop_last()) == b);
    assert(fees_sum(b, s.drop_last()) == 0);
}
