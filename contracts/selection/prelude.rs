// ---------------------------------------------------------------------------------------------------------
// selection unit (C08): what the input-selection routines call, and the vocabulary of their contracts.
// ASSUMED here (each is a declaration about code outside this unit):
//   * TxInputsBuilder::add_regular_utxo stores the input (`with_regular`; what that stores is proved in unit tx_inputs as a map insert
//     keyed by the outpoint: `ax_with_regular`), or fails and changes nothing;
//   * `ax_fresh_total`: the builder's explicit input total (sum over the stored inputs, unit builder) grows by exactly the amount of an
//     input stored under a NEW outpoint (mathematical fact about sums over a finite map: not proved here);
//   * std: `sort_by_key` leaves a permutation sorted by the key (`sort_by_cached_keys_`), `Iterator::position` for an equality closure
//     (`vec_position_eq_`), rand's `gen_range(0..n)` returns SOME index below n (`RngModel`: every outcome is covered);
//   * Value::checked_add: exact-or-Err per component (value_model) and, for a lovelace-only right-hand side, the asset part is kept as is.
// ---------------------------------------------------------------------------------------------------------
impl Clone for TransactionUnspentOutput { #[verifier::external_body] fn clone(&self) -> (r: Self) ensures r == *self { unimplemented!() } }
impl TxInputsBuilder {
    /// outpoint -> amount the caller supplied (one entry per outpoint: a second insert under the same outpoint overwrites)
    pub uninterp spec fn amap(&self) -> Map<TransactionInput, Value>;
    #[verifier::external_body] pub fn add_regular_utxo(&mut self, utxo: &TransactionUnspentOutput) -> (r: Result<(), JsError>)
        ensures r is Ok ==> *final(self) == old(self).with_regular(utxo.output.address, utxo.input, utxo.output.amount),
                r is Err ==> *final(self) == *old(self) { unimplemented!() }
    #[verifier::external_body] pub fn has_inputs(&self) -> (r: bool) ensures r == (self.items().len() > 0) { unimplemented!() }
    #[verifier::external_body] pub fn has_input(&self, input: &TransactionInput) -> (r: bool) ensures r == self.amap().dom().contains(*input) { unimplemented!() }
}
pub broadcast axiom fn ax_with_regular(b: TxInputsBuilder, addr: Address, inp: TransactionInput, amt: Value)
    ensures #[trigger] b.with_regular(addr, inp, amt).amap() == b.amap().insert(inp, amt);
pub axiom fn ax_fresh_total(b: TxInputsBuilder, b2: TxInputsBuilder, k: TransactionInput, v: Value)
    requires b2.amap() == b.amap().insert(k, v), !b.amap().dom().contains(k)
    ensures sum_coin(in_amounts(b2.items())) == sum_coin(in_amounts(b.items())) + v.coin.0,
            forall|a: AssetId| sum_qty(in_amounts(b2.items()), a) == sum_qty(in_amounts(b.items()), a) + qty(v, a);

/// std's sort_by_key (stable; here only: the result is a permutation of the old content, non-decreasing in the key).  `keys[j]` is the key the
/// real closure computed for `v[j]`, `kf` the same key as a spec function of the element.
#[verifier::external_body]
pub fn sort_by_cached_keys_<T>(v: &mut Vec<T>, keys: &Vec<BigNum>, Ghost(kf): Ghost<spec_fn(T) -> u64>)
    requires keys@.len() == old(v)@.len(), forall|j: int| 0 <= j < old(v)@.len() ==> (#[trigger] keys@[j]).0 == kf(old(v)@[j]),
    ensures final(v)@.len() == old(v)@.len(),
            final(v)@.to_multiset() == old(v)@.to_multiset(),
            forall|x: T| final(v)@.contains(x) <==> old(v)@.contains(x),
            old(v)@.no_duplicates() ==> final(v)@.no_duplicates(),
            forall|a: int, b: int| 0 <= a <= b < final(v)@.len() ==> kf(final(v)@[a]) <= kf(final(v)@[b]),
{ unimplemented!() }
/// `v.iter().position(|j| x == j)`
#[verifier::external_body]
pub fn vec_position_eq_(v: &Vec<usize>, x: &usize) -> (r: Option<usize>)
    ensures r is Some ==> r->Some_0 < v@.len() && v@[r->Some_0 as int] == *x && forall|k: int| 0 <= k < r->Some_0 ==> v@[k] != *x,
            r is None ==> !v@.contains(*x),
{ unimplemented!() }

// ---- random-improve: std / rand pieces (ASSUMED: definitions of the library functions)
pub mod rand { pub mod rngs {
    use super::super::*;
    /// the thread RNG: `gen_range(lo..hi)` returns SOME value in the range - nothing else is assumed, so a contract proved against it holds for
    /// every sequence of random choices
    #[verifier::external_body] pub struct ThreadRng { _p: core::marker::PhantomData<u8> }
    impl ThreadRng {
        #[verifier::external_body] pub fn gen_range_(&mut self, lo: usize, hi: usize) -> (r: usize) requires lo < hi ensures lo <= r < hi { unimplemented!() }
    }
    #[verifier::external_body] pub fn thread_rng_() -> ThreadRng { unimplemented!() }
} }
/// `&mut v[k]` as iter_mut / get_mut hand it out
#[verifier::external_body]
pub fn vec_index_mut_<T>(v: &mut Vec<T>, k: usize) -> (r: &mut T)
    requires k < old(v)@.len()
    ensures *r == old(v)@[k as int], final(v)@ == old(v)@.update(k as int, *final(r))
{ unimplemented!() }
#[verifier::external_body]
pub fn vec_get_mut_<T>(v: &mut Vec<T>, k: usize) -> (r: Option<&mut T>)
    ensures k < old(v)@.len() ==> r is Some && *(r->Some_0) == old(v)@[k as int] && final(v)@ == old(v)@.update(k as int, *final(r->Some_0)),
            k >= old(v)@.len() ==> r is None && final(v)@ == old(v)@
{ unimplemented!() }
/// `m.entry(k).or_default().push(i)` on a map of vectors
#[verifier::external_body]
pub fn omap_push_<K>(m: &mut OMap<K, Vec<usize>>, k: K, i: usize)
    ensures final(m)@.dom() == old(m)@.dom().insert(k),
            final(m)@[k]@ == (if old(m)@.contains_key(k) { old(m)@[k]@ } else { Seq::<usize>::empty() }).push(i),
            forall|k2: K| k2 != k && old(m)@.contains_key(k2) ==> final(m)@[k2] == old(m)@[k2],
{ unimplemented!() }
impl<K, V> OMap<K, V> {
    #[verifier::external_body] pub fn values(&self) -> (r: core::slice::Iter<'_, V>)
        ensures r.remaining() == refs(self.order().map_values(|e: (K, V)| e.1)), r.obeys_prophetic_iter_laws(), r.decrease() is Some { unimplemented!() }
}
/// the elements of a BTreeSet in iteration (ascending) order
#[verifier::external_body]
pub fn btree_set_vec_(s: &BTreeSet<usize>) -> (r: Vec<usize>)
    ensures r@.no_duplicates(), forall|x: usize| r@.contains(x) <==> s@.contains(x)
{ unimplemented!() }
/// `s.iter().nth(k)`
#[verifier::external_body]
pub fn btree_set_nth_(s: &BTreeSet<usize>, k: usize) -> (r: Option<&usize>)
    ensures k < s@.len() ==> r is Some && s@.contains(*r->Some_0), k >= s@.len() ==> r is None
{ unimplemented!() }
pub assume_specification [i128::abs] (x: i128) -> (r: i128)
    requires x != i128::MIN
    ensures r as int == (if x < 0 { -(x as int) } else { x as int });
impl<'a> vstd::std_specs::convert::FromSpecImpl<&'a BigNum> for u64 {
    open spec fn obeys_from_spec() -> bool { true }
    open spec fn from_spec(v: &'a BigNum) -> u64 { v.0 }
}
impl<'a> From<&'a BigNum> for u64 { #[verifier::external_body] fn from(v: &'a BigNum) -> (r: u64) { unimplemented!() } }

// ---- add_inputs_from: std pieces and the structure of a MultiAsset as far as the per-asset passes need it (ASSUMED)
/// `(0..n).collect()` into a Vec / a BTreeSet
#[verifier::external_body] pub fn range_vec_(n: usize) -> (r: Vec<usize>) ensures r@.len() == n, forall|k: int| 0 <= k < n ==> r@[k] == k { unimplemented!() }
#[verifier::external_body] pub fn range_set_(n: usize) -> (r: BTreeSet<usize>) ensures r@.finite(), forall|x: usize| r@.contains(x) <==> x < n { unimplemented!() }
/// `v.iter().any(|o| o.amount.multiasset.is_some())`
#[verifier::external_body] pub fn any_output_with_assets_(v: &Vec<TransactionOutput>) -> (r: bool)
    ensures r == exists|k: int| 0 <= k < v@.len() && (#[trigger] v@[k]).amount.multiasset is Some { unimplemented!() }
opaque_types!(PolicyID, AssetName, Assets);
clone_eq!(PolicyID, AssetName, Assets);
/// the abstract asset id (value_model) of a (policy, asset name) pair
pub uninterp spec fn aid(p: PolicyID, n: AssetName) -> AssetId;
pub uninterp spec fn ma_get(ma: MultiAsset, p: PolicyID) -> Option<Assets>;
pub uninterp spec fn as_get(a: Assets, n: AssetName) -> Option<BigNum>;
impl MultiAsset {
    /// the (policy, assets) entries in iteration order
    pub uninterp spec fn policies(&self) -> Seq<(PolicyID, Assets)>;
    #[verifier::external_body] pub fn get(&self, p: &PolicyID) -> (r: Option<Assets>) ensures r == ma_get(*self, *p) { unimplemented!() }
    #[verifier::external_body] pub fn policies_(&self) -> (r: Vec<(PolicyID, Assets)>) ensures r@ == self.policies() { unimplemented!() }
}
impl Assets {
    pub uninterp spec fn entries(&self) -> Seq<(AssetName, BigNum)>;
    #[verifier::external_body] pub fn get(&self, n: &AssetName) -> (r: Option<BigNum>) ensures r == as_get(*self, *n) { unimplemented!() }
    #[verifier::external_body] pub fn entries_(&self) -> (r: Vec<(AssetName, BigNum)>) ensures r@ == self.entries() { unimplemented!() }
}
pub open spec fn aid_at(pols: Seq<(PolicyID, Assets)>, i: int, j: int) -> AssetId { aid(pols[i].0, pols[i].1.entries()[j].0) }
/// quantity of an asset = what the two lookups find (absent = 0); iteration yields exactly the entries the lookups find; every asset held
/// in a positive quantity is reached by the double iteration
pub broadcast axiom fn ax_ma_qty(ma: MultiAsset, p: PolicyID, n: AssetName)
    ensures #[trigger] ma_qty(ma, aid(p, n)) == (match ma_get(ma, p) { Some(a) => match as_get(a, n) { Some(x) => x.0 as nat, None => 0nat }, None => 0nat });
pub axiom fn ax_ma_iter(ma: MultiAsset)
    ensures forall|i: int| 0 <= i < ma.policies().len() ==> ma_get(ma, (#[trigger] ma.policies()[i]).0) == Some(ma.policies()[i].1),
            forall|a: Assets, j: int| 0 <= j < a.entries().len() ==> as_get(a, (#[trigger] a.entries()[j]).0) == Some(a.entries()[j].1),
            forall|x: AssetId| ma_qty(ma, x) > 0 ==> exists|i: int, j: int| 0 <= i < ma.policies().len() && 0 <= j < ma.policies()[i].1.entries().len() && #[trigger] aid_at(ma.policies(), i, j) == x;
/// the two selectors add_inputs_from uses
pub open spec fn coin_q() -> spec_fn(Value) -> Option<BigNum> { |v: Value| Some(v.coin) }
pub open spec fn asset_q(p: PolicyID, n: AssetName) -> spec_fn(Value) -> Option<BigNum> {
    |v: Value| match v.multiasset { Some(ma) => match ma_get(ma, p) { Some(a) => as_get(a, n), None => None }, None => None }
}
pub open spec fn sel_cmp_ok() -> bool { vstd::laws_cmp::obeys_cmp::<usize>() && vstd::laws_cmp::obeys_cmp::<&TransactionInput>() }
// derived comparison traits of TransactionInput (ASSUMED lawful: `sel_cmp_ok`)
impl PartialEq for TransactionInput { #[verifier::external_body] fn eq(&self, o: &TransactionInput) -> bool { unimplemented!() } }
impl Eq for TransactionInput {}
impl PartialOrd for TransactionInput { #[verifier::external_body] fn partial_cmp(&self, o: &TransactionInput) -> Option<core::cmp::Ordering> { unimplemented!() } }
impl Ord for TransactionInput { #[verifier::external_body] fn cmp(&self, o: &TransactionInput) -> core::cmp::Ordering { unimplemented!() } }
