// ---------------------------------------------------------------------------------------------------------
// selection unit (C08): what the input-selection routines call, and the vocabulary of their contracts.
// ASSUMED here (each is a declaration about code outside this unit):
//   * TxInputsBuilder::add_regular_utxo stores the input (`with_regular`; what that stores is proved in unit tx_inputs as a map insert
//     keyed by the outpoint: `ax_with_regular`), or fails and changes nothing;
//   * `ax_fresh_total`: the builder's explicit input total (sum over the stored inputs, unit builder) grows by exactly the amount of an
//     input stored under a NEW outpoint (mathematical fact about sums over a finite map: not proved here);
//   * std: `sort_by_key` leaves a permutation sorted by the key (`sort_by_cached_keys_`), `Iterator::position` for an equality closure
//     (`vec_position_eq_`), rand's `gen_range(0..n)` returns SOME index below n (`RngModel`: every outcome is covered);
//   * Value::checked_add: exact-or-Err per component (value_model) and, for a lovelace-only right-hand side, the asset part is kept as is.
// ---------------------------------------------------------------------------------------------------------
impl Clone for TransactionUnspentOutput { #[verifier::external_body] fn clone(&self) -> (r: Self) ensures r == *self { unimplemented!() } }
impl TxInputsBuilder {
    /// outpoint -> amount the caller supplied (one entry per outpoint: a second insert under the same outpoint overwrites)
    pub uninterp spec fn amap(&self) -> Map<TransactionInput, Value>;
    #[verifier::external_body] pub fn add_regular_utxo(&mut self, utxo: &TransactionUnspentOutput) -> (r: Result<(), JsError>)
        ensures r is Ok ==> *final(self) == old(self).with_regular(utxo.output.address, utxo.input, utxo.output.amount),
                r is Err ==> *final(self) == *old(self) { unimplemented!() }
    #[verifier::external_body] pub fn has_inputs(&self) -> (r: bool) ensures r == (self.items().len() > 0) { unimplemented!() }
    #[verifier::external_body] pub fn has_input(&self, input: &TransactionInput) -> (r: bool) ensures r == self.amap().dom().contains(*input) { unimplemented!() }
}
pub broadcast axiom fn ax_with_regular(b: TxInputsBuilder, addr: Address, inp: TransactionInput, amt: Value)
    ensures #[trigger] b.with_regular(addr, inp, amt).amap() == b.amap().insert(inp, amt);
pub axiom fn ax_fresh_total(b: TxInputsBuilder, b2: TxInputsBuilder, k: TransactionInput, v: Value)
    requires b2.amap() == b.amap().insert(k, v), !b.amap().dom().contains(k)
    ensures sum_coin(in_amounts(b2.items())) == sum_coin(in_amounts(b.items())) + v.coin.0,
            forall|a: AssetId| sum_qty(in_amounts(b2.items()), a) == sum_qty(in_amounts(b.items()), a) + qty(v, a);

/// std's sort_by_key (stable; here only: the result is a permutation of the old content, non-decreasing in the key).  `keys[j]` is the key the
/// real closure computed for `v[j]`, `kf` the same key as a spec function of the element.
#[verifier::external_body]
pub fn sort_by_cached_keys_<T>(v: &mut Vec<T>, keys: &Vec<BigNum>, Ghost(kf): Ghost<spec_fn(T) -> u64>)
    requires keys@.len() == old(v)@.len(), forall|j: int| 0 <= j < old(v)@.len() ==> (#[trigger] keys@[j]).0 == kf(old(v)@[j]),
    ensures final(v)@.len() == old(v)@.len(),
            final(v)@.to_multiset() == old(v)@.to_multiset(),
            forall|x: T| final(v)@.contains(x) <==> old(v)@.contains(x),
            old(v)@.no_duplicates() ==> final(v)@.no_duplicates(),
            forall|a: int, b: int| 0 <= a <= b < final(v)@.len() ==> kf(final(v)@[a]) <= kf(final(v)@[b]),
{ unimplemented!() }
/// `v.iter().position(|j| x == j)`
#[verifier::external_body]
pub fn vec_position_eq_(v: &Vec<usize>, x: &usize) -> (r: Option<usize>)
    ensures r is Some ==> r->Some_0 < v@.len() && v@[r->Some_0 as int] == *x && forall|k: int| 0 <= k < r->Some_0 ==> v@[k] != *x,
            r is None ==> !v@.contains(*x),
{ unimplemented!() }
