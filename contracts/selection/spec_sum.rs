// ---- summary of a run of picks (composable across the calls add_inputs_from makes)
pub open spec fn amounts(us: Seq<TransactionUnspentOutput>) -> Seq<Value> { us.map_values(|u: TransactionUnspentOutput| u.output.amount) }
/// sum of the marginal fees fee_for_input answers for the inputs `us`, each in the state in which it is added
pub open spec fn fees_sum(b: TransactionBuilder, us: Seq<TransactionUnspentOutput>) -> int decreases us.len() {
    if us.len() == 0 { 0 } else { fees_sum(b, us.drop_last()) + fee_in_spec(after(b, us.drop_last()), us.last()) }
}
#[verifier::opaque]
pub open spec fn summ(b0: TransactionBuilder, b1: TransactionBuilder, av: Seq<&TransactionUnspentOutput>, idx0: Set<usize>, idx1: Set<usize>,
    it0: Value, it1: Value, ot0: Value, ot1: Value, picked: Seq<usize>) -> bool {
    let pu = picked_utxos(av, picked);
    &&& picked.no_duplicates()
    &&& forall|k: int| 0 <= k < picked.len() ==> idx0.contains(#[trigger] picked[k])
    &&& pool_is(idx1, idx0, picked)
    &&& b1 == after(b0, pu)
    &&& it1.coin.0 == it0.coin.0 + sum_coin(amounts(pu))
    &&& forall|a: AssetId| qty(it1, a) == qty(it0, a) + sum_qty(amounts(pu), a)
    &&& ot1.coin.0 == ot0.coin.0 + fees_sum(b0, pu)
    &&& ot1.multiasset == ot0.multiasset
}
pub proof fn lemma_summ_refl(b: TransactionBuilder, av: Seq<&TransactionUnspentOutput>, idx: Set<usize>, it: Value, ot: Value)
    ensures summ(b, b, av, idx, idx, it, it, ot, ot, Seq::empty())
{
    reveal(summ);
    assert(picked_utxos(av, Seq::<usize>::empty()) =~= Seq::empty());
    assert(amounts(Seq::<TransactionUnspentOutput>::empty()) =~= Seq::empty());
}
pub proof fn lemma_after_concat(b: TransactionBuilder, u1: Seq<TransactionUnspentOutput>, u2: Seq<TransactionUnspentOutput>)
    ensures after(b, u1 + u2) == after(after(b, u1), u2)
    decreases u2.len()
{
    if u2.len() == 0 { assert(u1 + u2 =~= u1); }
    else {
        lemma_after_concat(b, u1, u2.drop_last());
        assert((u1 + u2).drop_last() =~= u1 + u2.drop_last());
        assert((u1 + u2).last() == u2.last());
    }
}
pub proof fn lemma_fees_concat(b: TransactionBuilder, u1: Seq<TransactionUnspentOutput>, u2: Seq<TransactionUnspentOutput>)
    ensures fees_sum(b, u1 + u2) == fees_sum(b, u1) + fees_sum(after(b, u1), u2)
    decreases u2.len()
{
    if u2.len() == 0 { assert(u1 + u2 =~= u1); }
    else {
        lemma_fees_concat(b, u1, u2.drop_last());
        lemma_after_concat(b, u1, u2.drop_last());
        assert((u1 + u2).drop_last() =~= u1 + u2.drop_last());
        assert((u1 + u2).last() == u2.last());
    }
}
pub proof fn lemma_sum_concat(s1: Seq<Value>, s2: Seq<Value>)
    ensures sum_coin(s1 + s2) == sum_coin(s1) + sum_coin(s2), forall|a: AssetId| sum_qty(s1 + s2, a) == sum_qty(s1, a) + sum_qty(s2, a)
    decreases s2.len()
{
    if s2.len() == 0 { assert(s1 + s2 =~= s1); }
    else {
        lemma_sum_concat(s1, s2.drop_last());
        let t = s1 + s2.drop_last();
        assert((s1 + s2).drop_last() =~= t);
        assert((s1 + s2).last() == s2.last());
        assert forall|a: AssetId| sum_qty(s1 + s2, a) == sum_qty(s1, a) + sum_qty(s2, a) by {
            assert(sum_qty(s1 + s2, a) == sum_qty(t, a) + qty(s2.last(), a));
            assert(sum_qty(t, a) == sum_qty(s1, a) + sum_qty(s2.drop_last(), a));
        }
    }
}
pub proof fn lemma_summ_compose(b0: TransactionBuilder, b1: TransactionBuilder, b2: TransactionBuilder, av: Seq<&TransactionUnspentOutput>, idx0: Set<usize>, idx1: Set<usize>, idx2: Set<usize>,
    it0: Value, it1: Value, it2: Value, ot0: Value, ot1: Value, ot2: Value, p1: Seq<usize>, p2: Seq<usize>)
    requires summ(b0, b1, av, idx0, idx1, it0, it1, ot0, ot1, p1), summ(b1, b2, av, idx1, idx2, it1, it2, ot1, ot2, p2)
    ensures summ(b0, b2, av, idx0, idx2, it0, it2, ot0, ot2, p1 + p2)
{
    reveal(summ);
    let pu1 = picked_utxos(av, p1); let pu2 = picked_utxos(av, p2); let p = p1 + p2;
    assert(picked_utxos(av, p) =~= pu1 + pu2);
    lemma_after_concat(b0, pu1, pu2); lemma_fees_concat(b0, pu1, pu2);
    assert(amounts(pu1 + pu2) =~= amounts(pu1) + amounts(pu2));
    lemma_sum_concat(amounts(pu1), amounts(pu2));
    assert forall|a: int, b: int| 0 <= a < b < p.len() implies p[a] != p[b] by {
        if b < p1.len() { } else if a >= p1.len() { assert(p[a] == p2[a - p1.len()]); assert(p[b] == p2[b - p1.len()]); }
        else { assert(p[a] == p1[a]); assert(p[b] == p2[b - p1.len()]); assert(idx1.contains(p2[b - p1.len()])); assert(p1.contains(p1[a])); }
    }
    assert forall|k: int| 0 <= k < p.len() implies idx0.contains(#[trigger] p[k]) by {
        if k < p1.len() { assert(p[k] == p1[k]); } else { assert(p[k] == p2[k - p1.len()]); assert(idx1.contains(p2[k - p1.len()])); }
    }
    assert forall|x: usize| #[trigger] idx2.contains(x) <==> idx0.contains(x) && !p.contains(x) by {
        if p.contains(x) { let k = choose|k: int| 0 <= k < p.len() && p[k] == x; if k < p1.len() { assert(p1[k] == x); assert(p1.contains(x)); } else { assert(p2[k - p1.len()] == x); assert(p2.contains(x)); } }
        if p1.contains(x) { let k = choose|k: int| 0 <= k < p1.len() && p1[k] == x; assert(p[k] == x); }
        if p2.contains(x) { let k = choose|k: int| 0 <= k < p2.len() && p2[k] == x; assert(p[k + p1.len()] == x); }
    }
}
/// the per-step trace of a strategy call gives its summary
pub proof fn lemma_trace_prefix(b0: TransactionBuilder, b1: TransactionBuilder, av: Seq<&TransactionUnspentOutput>, idx0: Set<usize>, idx1: Set<usize>,
    it0: Value, it1: Value, ot0: Value, ot1: Value, picked: Seq<usize>, its: Seq<Value>, ots: Seq<Value>, n: int)
    requires sel_trace(b0, b1, av, idx0, idx1, it0, it1, ot0, ot1, picked, its, ots), 0 <= n <= picked.len()
    ensures ({ let pu = picked_utxos(av, picked);
        its[n].coin.0 == it0.coin.0 + sum_coin(amounts(pu.take(n))) && (forall|a: AssetId| qty(its[n], a) == qty(it0, a) + sum_qty(amounts(pu.take(n)), a))
        && ots[n].coin.0 == ot0.coin.0 + fees_sum(b0, pu.take(n)) && ots[n].multiasset == ot0.multiasset })
    decreases n
{
    reveal(sel_trace);
    let pu = picked_utxos(av, picked);
    if n == 0 { assert(pu.take(0) =~= Seq::empty()); assert(amounts(pu.take(0)) =~= Seq::empty()); }
    else {
        lemma_trace_prefix(b0, b1, av, idx0, idx1, it0, it1, ot0, ot1, picked, its, ots, n - 1);
        assert(pu.take(n).drop_last() =~= pu.take(n - 1));
        assert(amounts(pu.take(n)).drop_last() =~= amounts(pu.take(n - 1)));
        assert(amounts(pu.take(n)).last() == pu[n - 1].output.amount);
        assert(add_rel(its[n - 1], av[picked[n - 1] as int].output.amount, its[n - 1 + 1]));
        assert(ots[n - 1 + 1].coin.0 == ots[n - 1].coin.0 + fee_in_spec(after(b0, pu.take(n - 1)), pu[n - 1]));
    }
}
pub proof fn lemma_trace_summ(b0: TransactionBuilder, b1: TransactionBuilder, av: Seq<&TransactionUnspentOutput>, idx0: Set<usize>, idx1: Set<usize>,
    it0: Value, it1: Value, ot0: Value, ot1: Value, picked: Seq<usize>, its: Seq<Value>, ots: Seq<Value>)
    requires sel_trace(b0, b1, av, idx0, idx1, it0, it1, ot0, ot1, picked, its, ots)
    ensures summ(b0, b1, av, idx0, idx1, it0, it1, ot0, ot1, picked)
{
    lemma_trace_prefix(b0, b1, av, idx0, idx1, it0, it1, ot0, ot1, picked, its, ots, picked.len() as int);
    reveal(sel_trace); reveal(summ);
    let pu = picked_utxos(av, picked);
    assert(pu.take(picked.len() as int) =~= pu);
}
/// one more pick (the fee top-up loop)
pub proof fn lemma_summ_push(b0: TransactionBuilder, b_old: TransactionBuilder, b_new: TransactionBuilder, av: Seq<&TransactionUnspentOutput>, idx0: Set<usize>, idx1: Set<usize>,
    it0: Value, it_old: Value, it_new: Value, ot0: Value, ot_old: Value, ot_new: Value, picked: Seq<usize>, i: usize)
    requires summ(b0, b_old, av, idx0, idx1, it0, it_old, ot0, ot_old, picked), idx1.contains(i), i < av.len(),
        b_new == step(b_old, *av[i as int]), add_rel(it_old, av[i as int].output.amount, it_new),
        ot_new.coin.0 == ot_old.coin.0 + fee_in_spec(b_old, *av[i as int]), ot_new.multiasset == ot_old.multiasset,
    ensures summ(b0, b_new, av, idx0, idx1.remove(i), it0, it_new, ot0, ot_new, picked.push(i))
{
    reveal(summ);
    let pu = picked_utxos(av, picked); let p2 = picked.push(i); let pu2 = picked_utxos(av, p2);
    lemma_pu_push(av, picked, i); lemma_after_push(b0, pu, *av[i as int]);
    assert(pu2 =~= pu.push(*av[i as int]));
    assert(pu2.drop_last() =~= pu);
    assert(amounts(pu2).drop_last() =~= amounts(pu));
    lemma_pool_step(idx1, idx0, picked, i);
    assert(!picked.contains(i));
    assert(p2.no_duplicates()) by { assert forall|a: int, b: int| 0 <= a < b < p2.len() implies p2[a] != p2[b] by { if b == picked.len() { assert(p2[a] == picked[a]); assert(picked.contains(picked[a])); } } }
    assert forall|k: int| 0 <= k < p2.len() implies idx0.contains(#[trigger] p2[k]) by { if k < picked.len() { assert(p2[k] == picked[k]); } }
}

// ---- the running input total is the builder's ACTUAL total input (explicit inputs as the input map holds them + implicit + minted)
pub open spec fn in_coin(b: TransactionBuilder) -> nat { sum_coin(in_amounts(b.inputs.items())) + implicit_in(b) }
pub open spec fn in_qty(b: TransactionBuilder, a: AssetId) -> int { sum_qty(in_amounts(b.inputs.items()), a) + (if mint_delta(b, a) > 0 { mint_delta(b, a) } else { 0 }) }
pub open spec fn out_coin(b: TransactionBuilder) -> nat { sum_coin(out_amounts(b.outputs.0@)) + deposits(b) + donation_of(b) }
pub open spec fn out_qty(b: TransactionBuilder, a: AssetId) -> int { sum_qty(out_amounts(b.outputs.0@), a) + (if mint_delta(b, a) < 0 { -mint_delta(b, a) } else { 0 }) }
pub open spec fn in_step(b: TransactionBuilder, it: Value) -> bool { it.coin.0 == in_coin(b) && forall|a: AssetId| qty(it, a) == in_qty(b, a) }
/// offered UTxOs: distinct outpoints, none of the selectable ones is an input of the builder yet
pub open spec fn fresh(b: TransactionBuilder, av: Seq<&TransactionUnspentOutput>, idx: Set<usize>) -> bool {
    &&& forall|i: int, j: int| 0 <= i < av.len() && 0 <= j < av.len() && i != j ==> (#[trigger] av[i]).input != (#[trigger] av[j]).input
    &&& forall|x: usize| idx.contains(x) ==> x < av.len() && !b.inputs.amap().dom().contains(av[x as int].input)
}
pub proof fn lemma_after_frame(b: TransactionBuilder, us: Seq<TransactionUnspentOutput>)
    ensures after(b, us) == (TransactionBuilder { inputs: after(b, us).inputs, ..b })
    decreases us.len()
{ if us.len() > 0 { lemma_after_frame(b, us.drop_last()); } }
pub open spec fn has_in(us: Seq<TransactionUnspentOutput>, x: TransactionInput) -> bool { exists|k: int| 0 <= k < us.len() && (#[trigger] us[k]).input == x }
pub proof fn lemma_after_dom(b: TransactionBuilder, us: Seq<TransactionUnspentOutput>)
    ensures forall|x: TransactionInput| #[trigger] after(b, us).inputs.amap().dom().contains(x) <==> b.inputs.amap().dom().contains(x) || has_in(us, x)
    decreases us.len()
{
    broadcast use ax_with_regular;
    if us.len() > 0 {
        let ul = us.drop_last();
        lemma_after_dom(b, ul);
        let prev = after(b, ul);
        assert(after(b, us).inputs.amap() == prev.inputs.amap().insert(us.last().input, us.last().output.amount));
        assert forall|x: TransactionInput| #[trigger] after(b, us).inputs.amap().dom().contains(x) <==> b.inputs.amap().dom().contains(x) || has_in(us, x) by {
            if has_in(us, x) {
                let k = choose|k: int| 0 <= k < us.len() && (#[trigger] us[k]).input == x;
                if k < us.len() - 1 { assert(ul[k].input == x); assert(has_in(ul, x)); } else { assert(us.last().input == x); }
            }
            if has_in(ul, x) {
                let k = choose|k: int| 0 <= k < ul.len() && (#[trigger] ul[k]).input == x;
                assert(us[k].input == x);
            }
            if x == us.last().input { assert(us[us.len() - 1].input == x); }
        }
    }
}
/// adding n picked offered UTxOs (distinct, fresh outpoints) raises the actual totals by exactly their amounts
pub proof fn lemma_after_totals(b0: TransactionBuilder, av: Seq<&TransactionUnspentOutput>, idx0: Set<usize>, picked: Seq<usize>)
    requires fresh(b0, av, idx0), picked.no_duplicates(), forall|k: int| 0 <= k < picked.len() ==> idx0.contains(#[trigger] picked[k])
    ensures ({ let pu = picked_utxos(av, picked); let b1 = after(b0, pu);
        sum_coin(in_amounts(b1.inputs.items())) == sum_coin(in_amounts(b0.inputs.items())) + sum_coin(amounts(pu))
        && forall|a: AssetId| sum_qty(in_amounts(b1.inputs.items()), a) == sum_qty(in_amounts(b0.inputs.items()), a) + sum_qty(amounts(pu), a) })
    decreases picked.len()
{
    broadcast use ax_with_regular;
    let pu = picked_utxos(av, picked);
    if picked.len() == 0 { assert(pu =~= Seq::empty()); assert(amounts(pu) =~= Seq::empty()); }
    else {
        let pp = picked.drop_last(); let ppu = picked_utxos(av, pp); let i = picked.last(); let u = *av[i as int];
        assert forall|k: int| 0 <= k < pp.len() implies idx0.contains(#[trigger] pp[k]) by { assert(pp[k] == picked[k]); }
        lemma_after_totals(b0, av, idx0, pp);
        assert(pu.drop_last() =~= ppu); assert(pu.last() == u);
        assert(amounts(pu).drop_last() =~= amounts(ppu)); assert(amounts(pu).last() == u.output.amount);
        let prev = after(b0, ppu);
        lemma_after_dom(b0, ppu);
        assert(idx0.contains(picked[picked.len() - 1]));
        assert(!prev.inputs.amap().dom().contains(u.input)) by {
            if has_in(ppu, u.input) {
                let k = choose|k: int| 0 <= k < ppu.len() && (#[trigger] ppu[k]).input == u.input;
                assert(ppu[k] == *av[pp[k] as int]); assert(pp[k] == picked[k]); assert(picked[k] != picked[picked.len() - 1]);
                assert(idx0.contains(picked[k]));
                assert(av[picked[k] as int].input != av[i as int].input);
            }
        }
        ax_fresh_total(prev.inputs, after(b0, pu).inputs, u.input, u.output.amount);
    }
}
pub proof fn lemma_summ_actual(b0: TransactionBuilder, b1: TransactionBuilder, av: Seq<&TransactionUnspentOutput>, idx0: Set<usize>, idx1: Set<usize>,
    it0: Value, it1: Value, ot0: Value, ot1: Value, picked: Seq<usize>)
    requires summ(b0, b1, av, idx0, idx1, it0, it1, ot0, ot1, picked), fresh(b0, av, idx0), in_step(b0, it0)
    ensures in_step(b1, it1), fresh(b1, av, idx1), b1 == (TransactionBuilder { inputs: b1.inputs, ..b0 })
{
    reveal(summ);
    let pu = picked_utxos(av, picked);
    lemma_after_totals(b0, av, idx0, picked);
    lemma_after_frame(b0, pu);
    lemma_after_dom(b0, pu);
    assert forall|x: usize| idx1.contains(x) implies x < av.len() && !b1.inputs.amap().dom().contains(av[x as int].input) by {
        assert(idx0.contains(x) && !picked.contains(x));
        if has_in(pu, av[x as int].input) {
            let k = choose|k: int| 0 <= k < pu.len() && (#[trigger] pu[k]).input == av[x as int].input;
            assert(pu[k] == *av[picked[k] as int]); assert(picked.contains(picked[k])); assert(idx0.contains(picked[k]));
            assert(av[picked[k] as int].input != av[x as int].input);
        }
    }
}
