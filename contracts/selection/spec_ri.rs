/// the pool of still selectable indices: the offered ones minus the picks
pub open spec fn pool_is(pool: Set<usize>, idx0: Set<usize>, picked: Seq<usize>) -> bool {
    forall|x: usize| #[trigger] pool.contains(x) <==> idx0.contains(x) && !picked.contains(x)
}
pub proof fn lemma_pool_step(pool: Set<usize>, idx0: Set<usize>, picked: Seq<usize>, i: usize)
    requires pool_is(pool, idx0, picked)
    ensures pool_is(pool.remove(i), idx0, picked.push(i))
{
    lemma_push_contains(picked, i);
    assert forall|x: usize| #[trigger] pool.remove(i).contains(x) <==> idx0.contains(x) && !picked.push(i).contains(x) by {
        if picked.push(i).contains(x) && x != i { let k = choose|k: int| 0 <= k < picked.push(i).len() && picked.push(i)[k] == x; assert(picked[k] == x); }
    }
}

// ---- random-improve: index bookkeeping (which offered UTxOs are associated with an output, which are still available)
pub type AMap = Map<TransactionOutput, Seq<usize>>;
pub open spec fn mview(m: Map<TransactionOutput, Vec<usize>>) -> AMap { m.map_values(|v: Vec<usize>| v@) }
pub open spec fn valid(m: AMap, k: TransactionOutput, p: int) -> bool { m.contains_key(k) && 0 <= p < m[k].len() }
pub open spec fn sel_at(m: AMap, k: TransactionOutput, p: int) -> usize { m[k][p] }

/// relevant = still selectable candidates carrying the quantity; m = the indices associated with each output so far.
/// Every offered index is in exactly one place: available, or associated (at exactly one position of one vector).
#[verifier::opaque]
pub open spec fn ri_inv(q: spec_fn(Value) -> Option<BigNum>, av: Seq<&TransactionUnspentOutput>, idx0: Set<usize>, avail: Set<usize>, rel: Seq<usize>, m: AMap) -> bool {
    &&& rel.no_duplicates()
    &&& forall|k: int| 0 <= k < rel.len() ==> avail.contains(#[trigger] rel[k]) && q(av[rel[k] as int].output.amount) is Some
    &&& forall|x: usize| avail.contains(x) ==> idx0.contains(x)
    &&& forall|x: usize| idx0.contains(x) ==> x < av.len()
    &&& forall|k: TransactionOutput, p: int| valid(m, k, p) ==> idx0.contains(#[trigger] sel_at(m, k, p)) && !avail.contains(sel_at(m, k, p)) && q(av[sel_at(m, k, p) as int].output.amount) is Some
    &&& forall|k1: TransactionOutput, p1: int, k2: TransactionOutput, p2: int| valid(m, k1, p1) && valid(m, k2, p2) && (k1 != k2 || p1 != p2) ==> #[trigger] sel_at(m, k1, p1) != #[trigger] sel_at(m, k2, p2)
    &&& forall|x: usize| idx0.contains(x) && !avail.contains(x) ==> exists|k: TransactionOutput, p: int| valid(m, k, p) && #[trigger] sel_at(m, k, p) == x
}
pub proof fn lemma_ri_init(q: spec_fn(Value) -> Option<BigNum>, av: Seq<&TransactionUnspentOutput>, idx0: Set<usize>, rel: Seq<usize>)
    requires rel.no_duplicates(), forall|k: int| 0 <= k < rel.len() ==> idx0.contains(#[trigger] rel[k]) && q(av[rel[k] as int].output.amount) is Some,
             forall|x: usize| idx0.contains(x) ==> x < av.len()
    ensures ri_inv(q, av, idx0, idx0, rel, Map::empty())
{ reveal(ri_inv); }
/// facts the code needs at a candidate / at an associated index
pub proof fn lemma_ri_rel(q: spec_fn(Value) -> Option<BigNum>, av: Seq<&TransactionUnspentOutput>, idx0: Set<usize>, avail: Set<usize>, rel: Seq<usize>, m: AMap, r: int)
    requires ri_inv(q, av, idx0, avail, rel, m), 0 <= r < rel.len()
    ensures rel[r] < av.len(), q(av[rel[r] as int].output.amount) is Some, avail.contains(rel[r]), idx0.contains(rel[r])
{ reveal(ri_inv); }
pub proof fn lemma_ri_sel(q: spec_fn(Value) -> Option<BigNum>, av: Seq<&TransactionUnspentOutput>, idx0: Set<usize>, avail: Set<usize>, rel: Seq<usize>, m: AMap, k: TransactionOutput, p: int)
    requires ri_inv(q, av, idx0, avail, rel, m), valid(m, k, p)
    ensures m[k][p] < av.len(), q(av[m[k][p] as int].output.amount) is Some, idx0.contains(m[k][p]), !avail.contains(m[k][p])
{ reveal(ri_inv); assert(sel_at(m, k, p) == m[k][p]); }
/// Phase 1: the candidate at position r leaves the pool and is associated with output `key`
pub proof fn lemma_ri_select(q: spec_fn(Value) -> Option<BigNum>, av: Seq<&TransactionUnspentOutput>, idx0: Set<usize>, avail: Set<usize>, rel: Seq<usize>, m: AMap,
    r: int, rel2: Seq<usize>, avail2: Set<usize>, key: TransactionOutput, m2: AMap)
    requires ri_inv(q, av, idx0, avail, rel, m), 0 <= r < rel.len(), rel2 =~= rel.update(r, rel.last()).drop_last(), avail2 =~= avail.remove(rel[r]),
             m2.dom() =~= m.dom().insert(key), m2[key] =~= (if m.contains_key(key) { m[key] } else { Seq::<usize>::empty() }).push(rel[r]),
             forall|k2: TransactionOutput| k2 != key && m.contains_key(k2) ==> m2[k2] == m[k2],
    ensures ri_inv(q, av, idx0, avail2, rel2, m2)
{
    reveal(ri_inv);
    let i = rel[r];
    let oldv = if m.contains_key(key) { m[key] } else { Seq::<usize>::empty() };
    // rel2: duplicate-free, inside avail2
    assert forall|a: int, b: int| 0 <= a < b < rel2.len() implies rel2[a] != rel2[b] by {
        let a0 = if a == r { rel.len() - 1 } else { a }; let b0 = if b == r { rel.len() - 1 } else { b };
        assert(rel2[a] == rel[a0]); assert(rel2[b] == rel[b0]);
    }
    assert forall|k: int| 0 <= k < rel2.len() implies avail2.contains(#[trigger] rel2[k]) && q(av[rel2[k] as int].output.amount) is Some by {
        let k0 = if k == r { rel.len() - 1 } else { k }; assert(rel2[k] == rel[k0]); assert(k0 != r); assert(rel[k0] != rel[r]);
    }
    // every position of m2 is a position of m or the new last position of key
    assert forall|k: TransactionOutput, p: int| valid(m2, k, p) implies
        idx0.contains(#[trigger] sel_at(m2, k, p)) && !avail2.contains(sel_at(m2, k, p)) && q(av[sel_at(m2, k, p) as int].output.amount) is Some by {
        if k == key && p == oldv.len() { assert(sel_at(m2, k, p) == i); }
        else if k == key { assert(valid(m, k, p)); assert(sel_at(m2, k, p) == sel_at(m, k, p)); }
        else { assert(valid(m, k, p)); assert(sel_at(m2, k, p) == sel_at(m, k, p)); }
    }
    assert forall|k1: TransactionOutput, p1: int, k2: TransactionOutput, p2: int| valid(m2, k1, p1) && valid(m2, k2, p2) && (k1 != k2 || p1 != p2)
        implies #[trigger] sel_at(m2, k1, p1) != #[trigger] sel_at(m2, k2, p2) by {
        let n1 = k1 == key && p1 == oldv.len(); let n2 = k2 == key && p2 == oldv.len();
        if n1 { assert(sel_at(m2, k1, p1) == i); assert(valid(m, k2, p2)); assert(sel_at(m2, k2, p2) == sel_at(m, k2, p2)); assert(!avail.contains(sel_at(m, k2, p2))); }
        else if n2 { assert(sel_at(m2, k2, p2) == i); assert(valid(m, k1, p1)); assert(sel_at(m2, k1, p1) == sel_at(m, k1, p1)); assert(!avail.contains(sel_at(m, k1, p1))); }
        else { assert(valid(m, k1, p1)); assert(valid(m, k2, p2)); assert(sel_at(m2, k1, p1) == sel_at(m, k1, p1)); assert(sel_at(m2, k2, p2) == sel_at(m, k2, p2)); }
    }
    assert forall|x: usize| idx0.contains(x) && !avail2.contains(x) implies exists|k: TransactionOutput, p: int| valid(m2, k, p) && #[trigger] sel_at(m2, k, p) == x by {
        if x == i { assert(valid(m2, key, oldv.len() as int)); assert(sel_at(m2, key, oldv.len() as int) == x); }
        else {
            let (k, p) = choose|k: TransactionOutput, p: int| valid(m, k, p) && #[trigger] sel_at(m, k, p) == x;
            assert(valid(m2, k, p)); assert(sel_at(m2, k, p) == x);
        }
    }
}
/// Phase 2: the associated index at (key, p) and the candidate at position r change places
pub proof fn lemma_ri_swap(q: spec_fn(Value) -> Option<BigNum>, av: Seq<&TransactionUnspentOutput>, idx0: Set<usize>, avail: Set<usize>, rel: Seq<usize>, m: AMap,
    key: TransactionOutput, p: int, r: int, rel2: Seq<usize>, avail2: Set<usize>, m2: AMap)
    requires ri_inv(q, av, idx0, avail, rel, m), valid(m, key, p), 0 <= r < rel.len(),
             rel2 =~= rel.update(r, m[key][p]), avail2 =~= avail.remove(rel[r]).insert(m[key][p]),
             m2 =~= m.insert(key, m[key].update(p, rel[r])),
    ensures ri_inv(q, av, idx0, avail2, rel2, m2)
{
    reveal(ri_inv);
    let io = m[key][p]; let jo = rel[r];
    assert(sel_at(m, key, p) == io);
    assert(avail.contains(jo)); assert(!avail.contains(io)); assert(io != jo);
    assert forall|a: int, b: int| 0 <= a < b < rel2.len() implies rel2[a] != rel2[b] by {
        if a == r { assert(rel2[b] == rel[b]); assert(avail.contains(rel[b])); } else if b == r { assert(rel2[a] == rel[a]); assert(avail.contains(rel[a])); } else { }
    }
    assert forall|k: int| 0 <= k < rel2.len() implies avail2.contains(#[trigger] rel2[k]) && q(av[rel2[k] as int].output.amount) is Some by {
        if k == r { } else { assert(rel2[k] == rel[k]); assert(rel[k] != rel[r]); }
    }
    assert forall|k: TransactionOutput, pp: int| valid(m2, k, pp) implies
        idx0.contains(#[trigger] sel_at(m2, k, pp)) && !avail2.contains(sel_at(m2, k, pp)) && q(av[sel_at(m2, k, pp) as int].output.amount) is Some by {
        assert(valid(m, k, pp));
        if k == key && pp == p { assert(sel_at(m2, k, pp) == jo); }
        else { assert(sel_at(m2, k, pp) == sel_at(m, k, pp)); assert(sel_at(m, k, pp) != io); }
    }
    assert forall|k1: TransactionOutput, p1: int, k2: TransactionOutput, p2: int| valid(m2, k1, p1) && valid(m2, k2, p2) && (k1 != k2 || p1 != p2)
        implies #[trigger] sel_at(m2, k1, p1) != #[trigger] sel_at(m2, k2, p2) by {
        assert(valid(m, k1, p1)); assert(valid(m, k2, p2));
        let n1 = k1 == key && p1 == p; let n2 = k2 == key && p2 == p;
        if n1 { assert(sel_at(m2, k1, p1) == jo); assert(sel_at(m2, k2, p2) == sel_at(m, k2, p2)); assert(!avail.contains(sel_at(m, k2, p2))); }
        else if n2 { assert(sel_at(m2, k2, p2) == jo); assert(sel_at(m2, k1, p1) == sel_at(m, k1, p1)); assert(!avail.contains(sel_at(m, k1, p1))); }
        else { assert(sel_at(m2, k1, p1) == sel_at(m, k1, p1)); assert(sel_at(m2, k2, p2) == sel_at(m, k2, p2)); }
    }
    assert forall|x: usize| idx0.contains(x) && !avail2.contains(x) implies exists|k: TransactionOutput, pp: int| valid(m2, k, pp) && #[trigger] sel_at(m2, k, pp) == x by {
        if x == jo { assert(valid(m2, key, p)); assert(sel_at(m2, key, p) == x); }
        else {
            assert(x != io);
            let (k, pp) = choose|k: TransactionOutput, pp: int| valid(m, k, pp) && #[trigger] sel_at(m, k, pp) == x;
            assert(valid(m2, k, pp)); assert(!(k == key && pp == p)); assert(sel_at(m2, k, pp) == x);
        }
    }
}

/// final phase: `picked` holds exactly the associated indices of the entries before position (t, p) of the map's iteration order
pub open spec fn picked_is(picked: Seq<usize>, ord: Seq<(TransactionOutput, Vec<usize>)>, t: int, p: int) -> bool {
    forall|x: usize| picked.contains(x) <==> exists|s: int, pp: int| 0 <= s < ord.len() && 0 <= pp < ord[s].1@.len() && (s < t || (s == t && pp < p)) && #[trigger] ord[s].1@[pp] == x
}
pub open spec fn ord_ok(m: Map<TransactionOutput, Vec<usize>>, ord: Seq<(TransactionOutput, Vec<usize>)>) -> bool {
    &&& forall|i: int, j: int| 0 <= i < j < ord.len() ==> ord[i].0 != ord[j].0
    &&& forall|i: int| 0 <= i < ord.len() ==> m.contains_key(#[trigger] ord[i].0) && m[ord[i].0] == ord[i].1
    &&& forall|k: TransactionOutput| m.contains_key(k) ==> exists|i: int| 0 <= i < ord.len() && #[trigger] ord[i].0 == k
}
pub proof fn lemma_ri_pick(q: spec_fn(Value) -> Option<BigNum>, av: Seq<&TransactionUnspentOutput>, idx0: Set<usize>, avail: Set<usize>, rel: Seq<usize>,
    m: Map<TransactionOutput, Vec<usize>>, ord: Seq<(TransactionOutput, Vec<usize>)>, picked: Seq<usize>, t: int, p: int)
    requires ri_inv(q, av, idx0, avail, rel, mview(m)), ord_ok(m, ord), picked_is(picked, ord, t, p), 0 <= t < ord.len(), 0 <= p < ord[t].1@.len()
    ensures !picked.contains(ord[t].1@[p]), idx0.contains(ord[t].1@[p]), ord[t].1@[p] < av.len(), picked_is(picked.push(ord[t].1@[p]), ord, t, p + 1)
{
    reveal(ri_inv);
    let mv = mview(m); let i = ord[t].1@[p];
    assert(valid(mv, ord[t].0, p)); assert(sel_at(mv, ord[t].0, p) == i);
    if picked.contains(i) {
        let (s, pp) = choose|s: int, pp: int| 0 <= s < ord.len() && 0 <= pp < ord[s].1@.len() && (s < t || (s == t && pp < p)) && #[trigger] ord[s].1@[pp] == i;
        assert(valid(mv, ord[s].0, pp)); assert(sel_at(mv, ord[s].0, pp) == i);
        assert(ord[s].0 != ord[t].0 || pp != p);
    }
    let p2 = picked.push(i);
    lemma_push_contains(picked, i);
    assert forall|x: usize| p2.contains(x) <==> exists|s: int, pp: int| 0 <= s < ord.len() && 0 <= pp < ord[s].1@.len() && (s < t || (s == t && pp < p + 1)) && #[trigger] ord[s].1@[pp] == x by {
        if p2.contains(x) {
            let k = choose|k: int| 0 <= k < p2.len() && p2[k] == x;
            if k < picked.len() { assert(picked[k] == x); assert(picked.contains(x));
                let (s, pp) = choose|s: int, pp: int| 0 <= s < ord.len() && 0 <= pp < ord[s].1@.len() && (s < t || (s == t && pp < p)) && #[trigger] ord[s].1@[pp] == x;
                assert(ord[s].1@[pp] == x);
            } else { assert(ord[t].1@[p] == x); }
        }
        if exists|s: int, pp: int| 0 <= s < ord.len() && 0 <= pp < ord[s].1@.len() && (s < t || (s == t && pp < p + 1)) && #[trigger] ord[s].1@[pp] == x {
            let (s, pp) = choose|s: int, pp: int| 0 <= s < ord.len() && 0 <= pp < ord[s].1@.len() && (s < t || (s == t && pp < p + 1)) && #[trigger] ord[s].1@[pp] == x;
            if s == t && pp == p { } else { assert(ord[s].1@[pp] == x); assert(picked.contains(x)); }
        }
    }
}
pub proof fn lemma_ri_next(picked: Seq<usize>, ord: Seq<(TransactionOutput, Vec<usize>)>, t: int)
    requires 0 <= t < ord.len(), picked_is(picked, ord, t, ord[t].1@.len() as int)
    ensures picked_is(picked, ord, t + 1, 0)
{
    assert forall|x: usize| picked.contains(x) <==> exists|s: int, pp: int| 0 <= s < ord.len() && 0 <= pp < ord[s].1@.len() && (s < t + 1 || (s == t + 1 && pp < 0)) && #[trigger] ord[s].1@[pp] == x by {
        if picked.contains(x) {
            let (s, pp) = choose|s: int, pp: int| 0 <= s < ord.len() && 0 <= pp < ord[s].1@.len() && (s < t || (s == t && pp < ord[t].1@.len())) && #[trigger] ord[s].1@[pp] == x;
            assert(ord[s].1@[pp] == x);
        }
        if exists|s: int, pp: int| 0 <= s < ord.len() && 0 <= pp < ord[s].1@.len() && (s < t + 1 || (s == t + 1 && pp < 0)) && #[trigger] ord[s].1@[pp] == x {
            let (s, pp) = choose|s: int, pp: int| 0 <= s < ord.len() && 0 <= pp < ord[s].1@.len() && (s < t + 1 || (s == t + 1 && pp < 0)) && #[trigger] ord[s].1@[pp] == x;
            assert(ord[s].1@[pp] == x);
        }
    }
}
pub proof fn lemma_ri_done(q: spec_fn(Value) -> Option<BigNum>, av: Seq<&TransactionUnspentOutput>, idx0: Set<usize>, avail: Set<usize>, rel: Seq<usize>,
    m: Map<TransactionOutput, Vec<usize>>, ord: Seq<(TransactionOutput, Vec<usize>)>, picked: Seq<usize>)
    requires ri_inv(q, av, idx0, avail, rel, mview(m)), ord_ok(m, ord), picked_is(picked, ord, ord.len() as int, 0)
    ensures pool_is(avail, idx0, picked)
{
    reveal(ri_inv);
    let mv = mview(m);
    assert forall|x: usize| #[trigger] avail.contains(x) <==> idx0.contains(x) && !picked.contains(x) by {
        if picked.contains(x) {
            let (s, pp) = choose|s: int, pp: int| 0 <= s < ord.len() && 0 <= pp < ord[s].1@.len() && (s < ord.len() || (s == ord.len() && pp < 0)) && #[trigger] ord[s].1@[pp] == x;
            assert(valid(mv, ord[s].0, pp)); assert(sel_at(mv, ord[s].0, pp) == x);
        }
        if idx0.contains(x) && !avail.contains(x) {
            let (k, p) = choose|k: TransactionOutput, p: int| valid(mv, k, p) && #[trigger] sel_at(mv, k, p) == x;
            let s = choose|s: int| 0 <= s < ord.len() && #[trigger] ord[s].0 == k;
            assert(ord[s].1@[p] == x);
        }
    }
}
pub proof fn lemma_picked_empty(ord: Seq<(TransactionOutput, Vec<usize>)>)
    ensures picked_is(Seq::<usize>::empty(), ord, 0, 0)
{ }
/// random-improve, first sentence of C08: there is a sequence of picks - distinct members of the offered pool, removed from it, added to the builder and
/// to the running totals one by one, nothing else touched
pub open spec fn ri_ok(b0: TransactionBuilder, b1: TransactionBuilder, av: Seq<&TransactionUnspentOutput>, idx0: Set<usize>, idx1: Set<usize>, it0: Value, it1: Value, ot0: Value, ot1: Value) -> bool {
    exists|picked: Seq<usize>, its: Seq<Value>, ots: Seq<Value>| sel_trace(b0, b1, av, idx0, idx1, it0, it1, ot0, ot1, picked, its, ots)
}
pub proof fn lemma_ri_intro(b0: TransactionBuilder, b1: TransactionBuilder, av: Seq<&TransactionUnspentOutput>, idx0: Set<usize>, idx1: Set<usize>, it0: Value, it1: Value, ot0: Value, ot1: Value,
    picked: Seq<usize>, its: Seq<Value>, ots: Seq<Value>)
    requires sel_trace(b0, b1, av, idx0, idx1, it0, it1, ot0, ot1, picked, its, ots)
    ensures ri_ok(b0, b1, av, idx0, idx1, it0, it1, ot0, ot1)
{ }
/// the trace does not depend on how the pool is represented: only on its members
pub proof fn lemma_trace_pool(b0: TransactionBuilder, b1: TransactionBuilder, av: Seq<&TransactionUnspentOutput>, idx0: Set<usize>, idx1: Set<usize>, idx1b: Set<usize>, it0: Value, it1: Value, ot0: Value, ot1: Value,
    picked: Seq<usize>, its: Seq<Value>, ots: Seq<Value>)
    requires sel_trace(b0, b1, av, idx0, idx1, it0, it1, ot0, ot1, picked, its, ots), pool_is(idx1b, idx0, picked)
    ensures sel_trace(b0, b1, av, idx0, idx1b, it0, it1, ot0, ot1, picked, its, ots)
{ reveal(sel_trace); }

