// ---- vocabulary of the selection contracts
/// the selector closure computes exactly the spec function q and can be called on every value
pub open spec fn by_ok<F: Fn(&Value) -> Option<BigNum>>(by: F, q: spec_fn(Value) -> Option<BigNum>) -> bool {
    &&& forall|x: &Value| #[trigger] by.requires((x,))
    &&& forall|x: &Value, r: Option<BigNum>| #[trigger] by.ensures((x,), r) ==> r == q(*x)
}
/// whether the selector answers at all depends on the asset part only (true of `coin` and of `quantity of one asset`)
pub open spec fn q_stable(q: spec_fn(Value) -> Option<BigNum>) -> bool {
    forall|v: Value, w: Value| v.multiasset == w.multiasset ==> (#[trigger] q(v) is Some <==> #[trigger] q(w) is Some)
}
/// the quantity being covered, absent = 0
pub open spec fn cover(q: spec_fn(Value) -> Option<BigNum>, v: Value) -> u64 { match q(v) { Some(x) => x.0, None => 0 } }
pub open spec fn qv(q: spec_fn(Value) -> Option<BigNum>, avail: Seq<&TransactionUnspentOutput>, i: usize) -> u64 { cover(q, avail[i as int].output.amount) }

/// the builder after one more regular input / after a sequence of them
pub open spec fn step(b: TransactionBuilder, u: TransactionUnspentOutput) -> TransactionBuilder {
    TransactionBuilder { inputs: b.inputs.with_regular(u.output.address, u.input, u.output.amount), ..b }
}
pub open spec fn after(b: TransactionBuilder, us: Seq<TransactionUnspentOutput>) -> TransactionBuilder decreases us.len() {
    if us.len() == 0 { b } else { step(after(b, us.drop_last()), us.last()) }
}
/// what fee_for_input answers (its contract in unit builder, as a function of the builder and the candidate)
pub open spec fn fee_in_spec(b: TransactionBuilder, u: TransactionUnspentOutput) -> int {
    let b0 = TransactionBuilder { fee: Some(policy_fee(b.fee_request, BigNum(0))), ..b };
    let b1 = TransactionBuilder { inputs: b.inputs.with_regular(u.output.address, u.input, u.output.amount), ..b0 };
    policy_fee(b.fee_request, BigNum(min_fee_spec(b1) as u64)).0 - policy_fee(b.fee_request, BigNum(min_fee_spec(b0) as u64)).0
}
pub open spec fn picked_utxos(avail: Seq<&TransactionUnspentOutput>, picked: Seq<usize>) -> Seq<TransactionUnspentOutput> {
    Seq::new(picked.len(), |k: int| *avail[picked[k] as int])
}
/// c = a + b in lovelace and in every asset
pub open spec fn add_rel(a: Value, b: Value, c: Value) -> bool { c.coin.0 == a.coin.0 + b.coin.0 && forall|x: AssetId| qty(c, x) == qty(a, x) + qty(b, x) }

/// the offered UTxOs are distinct outpoints, the selectable ones are not yet inputs of the builder
pub open spec fn offer_ok(b: TransactionBuilder, avail: Seq<&TransactionUnspentOutput>, idx: Seq<usize>) -> bool {
    &&& forall|i: int, j: int| 0 <= i < avail.len() && 0 <= j < avail.len() && i != j ==> (#[trigger] avail[i]).input != (#[trigger] avail[j]).input
    &&& forall|k: int| 0 <= k < idx.len() ==> (#[trigger] idx[k]) < avail.len()
    &&& idx.no_duplicates()
    &&& forall|k: int| 0 <= k < idx.len() ==> !b.inputs.amap().dom().contains(avail[(#[trigger] idx[k]) as int].input)
}

/// bookkeeping shared by both strategies: `picked` (indices into the offer, in the order they were added) are distinct selectable members of the
/// offer; they left the pool and nothing else did; the builder is the old one with exactly these inputs added (nothing else touched); the
/// running totals moved in step: its[k+1] = its[k] + amount of the k-th pick, ots[k+1] = ots[k] + the marginal fee of the k-th pick
#[verifier::opaque]
pub open spec fn sel_trace(b0: TransactionBuilder, b1: TransactionBuilder, avail: Seq<&TransactionUnspentOutput>, idx0: Set<usize>, idx1: Set<usize>,
    it0: Value, it1: Value, ot0: Value, ot1: Value, picked: Seq<usize>, its: Seq<Value>, ots: Seq<Value>) -> bool {
    let pu = picked_utxos(avail, picked);
    &&& picked.no_duplicates()
    &&& forall|k: int| 0 <= k < picked.len() ==> idx0.contains(#[trigger] picked[k])
    &&& forall|x: usize| #[trigger] idx1.contains(x) <==> idx0.contains(x) && !picked.contains(x)
    &&& b1 == after(b0, pu)
    &&& its.len() == picked.len() + 1 && ots.len() == picked.len() + 1
    &&& its[0] == it0 && ots[0] == ot0 && its.last() == it1 && ots.last() == ot1
    &&& forall|k: int| 0 <= k < picked.len() ==> add_rel(#[trigger] its[k], avail[picked[k] as int].output.amount, its[k + 1])
    &&& forall|k: int| 0 <= k < picked.len() ==> (#[trigger] ots[k + 1]).coin.0 == ots[k].coin.0 + fee_in_spec(after(b0, pu.take(k)), pu[k]) && ots[k + 1].multiasset == ots[k].multiasset
}

/// largest-first (property C08, second sentence): picks are in non-increasing order of the quantity being covered, each pick happens only while the
/// target is not yet covered, every selectable UTxO that was not picked is no larger than any pick, and on success the target is covered
pub open spec fn lf_post(q: spec_fn(Value) -> Option<BigNum>, avail: Seq<&TransactionUnspentOutput>, idx0: Seq<usize>, it1: Value, ot1: Value,
    picked: Seq<usize>, its: Seq<Value>, ots: Seq<Value>) -> bool {
    &&& forall|k: int| 0 <= k < picked.len() ==> q(avail[(#[trigger] picked[k]) as int].output.amount) is Some
    &&& forall|j: int, k: int| 0 <= j <= k < picked.len() ==> qv(q, avail, picked[j]) >= qv(q, avail, picked[k])
    &&& forall|k: int| 0 <= k < picked.len() ==> cover(q, #[trigger] its[k]) < cover(q, ots[k])
    &&& forall|k: int, x: usize| 0 <= k < picked.len() && idx0.contains(x) && q(avail[x as int].output.amount) is Some && !picked.contains(x)
            ==> #[trigger] qv(q, avail, x) <= qv(q, avail, #[trigger] picked[k])
    &&& cover(q, it1) >= cover(q, ot1)
}
pub open spec fn lf_ok(q: spec_fn(Value) -> Option<BigNum>, b0: TransactionBuilder, b1: TransactionBuilder, avail: Seq<&TransactionUnspentOutput>, idx0: Seq<usize>, idx1: Seq<usize>,
    it0: Value, it1: Value, ot0: Value, ot1: Value) -> bool {
    exists|picked: Seq<usize>, its: Seq<Value>, ots: Seq<Value>|
        sel_trace(b0, b1, avail, idx0.to_set(), idx1.to_set(), it0, it1, ot0, ot1, picked, its, ots) && lf_post(q, avail, idx0, it1, ot1, picked, its, ots)
}
pub proof fn lemma_lf_intro(q: spec_fn(Value) -> Option<BigNum>, b0: TransactionBuilder, b1: TransactionBuilder, avail: Seq<&TransactionUnspentOutput>, idx0: Seq<usize>, idx1: Seq<usize>,
    it0: Value, it1: Value, ot0: Value, ot1: Value, picked: Seq<usize>, its: Seq<Value>, ots: Seq<Value>)
    requires sel_trace(b0, b1, avail, idx0.to_set(), idx1.to_set(), it0, it1, ot0, ot1, picked, its, ots), lf_post(q, avail, idx0, it1, ot1, picked, its, ots)
    ensures lf_ok(q, b0, b1, avail, idx0, idx1, it0, it1, ot0, ot1)
{ }

pub proof fn lemma_after_push(b: TransactionBuilder, us: Seq<TransactionUnspentOutput>, u: TransactionUnspentOutput)
    ensures after(b, us.push(u)) == step(after(b, us), u)
{ assert(us.push(u).drop_last() =~= us); }
pub proof fn lemma_pu_push(avail: Seq<&TransactionUnspentOutput>, picked: Seq<usize>, i: usize)
    ensures picked_utxos(avail, picked.push(i)) =~= picked_utxos(avail, picked).push(*avail[i as int])
{ }
/// Vec::swap_remove on a duplicate-free vector removes exactly the element at the position
pub proof fn lemma_swap_remove(s: Seq<usize>, p: int, t: Seq<usize>)
    requires s.no_duplicates(), 0 <= p < s.len(), t =~= s.update(p, s.last()).drop_last()
    ensures t.no_duplicates(), forall|x: usize| t.contains(x) <==> s.contains(x) && x != s[p]
{
    assert forall|x: usize| t.contains(x) implies s.contains(x) && x != s[p] by {
        let k = choose|k: int| 0 <= k < t.len() && t[k] == x;
        if k == p { assert(t[k] == s.last()); assert(s[s.len() - 1] == x); } else { assert(t[k] == s[k]); }
    }
    assert forall|x: usize| s.contains(x) && x != s[p] implies t.contains(x) by {
        let k = choose|k: int| 0 <= k < s.len() && s[k] == x;
        if k == s.len() - 1 { assert(t[p] == x); } else { assert(t[k] == x); }
    }
}

// ---- largest-first: loop bookkeeping
/// the candidates: exactly the selectable offered UTxOs that carry the quantity, each once, in non-decreasing order of it
pub open spec fn rel_ok(q: spec_fn(Value) -> Option<BigNum>, av: Seq<&TransactionUnspentOutput>, idx0: Seq<usize>, rel: Seq<usize>) -> bool {
    &&& rel.no_duplicates()
    &&& forall|k: int| 0 <= k < rel.len() ==> idx0.contains(#[trigger] rel[k]) && rel[k] < av.len() && q(av[rel[k] as int].output.amount) is Some
    &&& forall|a: int, b: int| 0 <= a <= b < rel.len() ==> qv(q, av, rel[a]) <= qv(q, av, rel[b])
    &&& forall|x: usize| idx0.contains(x) && q(av[x as int].output.amount) is Some ==> rel.contains(x)
}
/// the picks so far are the candidates taken from the large end, each taken while the target was not yet covered
pub open spec fn lf_inv(q: spec_fn(Value) -> Option<BigNum>, rel: Seq<usize>, picked: Seq<usize>, its: Seq<Value>, ots: Seq<Value>) -> bool {
    &&& picked.len() <= rel.len() && its.len() == picked.len() + 1 && ots.len() == picked.len() + 1
    &&& forall|k: int| 0 <= k < picked.len() ==> (#[trigger] picked[k]) == rel[rel.len() - 1 - k]
    &&& forall|k: int| 0 <= k < picked.len() ==> cover(q, #[trigger] its[k]) < cover(q, ots[k])
}
pub proof fn lemma_lf_step(q: spec_fn(Value) -> Option<BigNum>, rel: Seq<usize>, picked: Seq<usize>, its: Seq<Value>, ots: Seq<Value>, i: usize, it_new: Value, ot_new: Value)
    requires lf_inv(q, rel, picked, its, ots), rel.no_duplicates(), picked.len() < rel.len(), i == rel[rel.len() - 1 - picked.len()], cover(q, its.last()) < cover(q, ots.last())
    ensures lf_inv(q, rel, picked.push(i), its.push(it_new), ots.push(ot_new)), !picked.contains(i)
{
    if picked.contains(i) { let k = choose|k: int| 0 <= k < picked.len() && picked[k] == i; assert(picked[k] == rel[rel.len() - 1 - k]); }
    let p2 = picked.push(i); let i2 = its.push(it_new); let o2 = ots.push(ot_new);
    assert forall|k: int| 0 <= k < p2.len() implies (#[trigger] p2[k]) == rel[rel.len() - 1 - k] by { if k < picked.len() { assert(p2[k] == picked[k]); } }
    assert forall|k: int| 0 <= k < p2.len() implies cover(q, #[trigger] i2[k]) < cover(q, o2[k]) by { if k < picked.len() { assert(i2[k] == its[k]); assert(o2[k] == ots[k]); } else { assert(i2[k] == its.last()); assert(o2[k] == ots.last()); } }
}
pub proof fn lemma_lf_all(q: spec_fn(Value) -> Option<BigNum>, rel: Seq<usize>, picked: Seq<usize>, its: Seq<Value>, ots: Seq<Value>)
    requires lf_inv(q, rel, picked, its, ots), picked.len() == rel.len()
    ensures forall|x: usize| rel.contains(x) ==> picked.contains(x)
{
    assert forall|x: usize| rel.contains(x) implies picked.contains(x) by {
        let a = choose|a: int| 0 <= a < rel.len() && rel[a] == x;
        assert(picked[rel.len() - 1 - a] == x);
    }
}
pub proof fn lemma_lf_final(q: spec_fn(Value) -> Option<BigNum>, av: Seq<&TransactionUnspentOutput>, idx0: Seq<usize>, rel: Seq<usize>, picked: Seq<usize>, its: Seq<Value>, ots: Seq<Value>)
    requires lf_inv(q, rel, picked, its, ots), rel_ok(q, av, idx0, rel), cover(q, its.last()) >= cover(q, ots.last())
    ensures lf_post(q, av, idx0, its.last(), ots.last(), picked, its, ots)
{
    assert forall|k: int| 0 <= k < picked.len() implies q(av[(#[trigger] picked[k]) as int].output.amount) is Some by { assert(picked[k] == rel[rel.len() - 1 - k]); }
    assert forall|j: int, k: int| 0 <= j <= k < picked.len() implies qv(q, av, picked[j]) >= qv(q, av, picked[k]) by {
        assert(picked[j] == rel[rel.len() - 1 - j]); assert(picked[k] == rel[rel.len() - 1 - k]);
    }
    assert forall|k: int, x: usize| 0 <= k < picked.len() && idx0.contains(x) && q(av[x as int].output.amount) is Some && !picked.contains(x)
        implies #[trigger] qv(q, av, x) <= qv(q, av, #[trigger] picked[k]) by {
        assert(rel.contains(x));
        let a = choose|a: int| 0 <= a < rel.len() && rel[a] == x;
        if a >= rel.len() - picked.len() { assert(picked[rel.len() - 1 - a] == x); }
        assert(picked[k] == rel[rel.len() - 1 - k]);
    }
}
/// one more pick keeps the shared bookkeeping
pub proof fn lemma_trace_step(b0: TransactionBuilder, b_old: TransactionBuilder, b_new: TransactionBuilder, av: Seq<&TransactionUnspentOutput>, idx0: Set<usize>, idx1_old: Set<usize>, idx1_new: Set<usize>,
    it0: Value, it_old: Value, it_new: Value, ot0: Value, ot_old: Value, ot_new: Value, picked: Seq<usize>, its: Seq<Value>, ots: Seq<Value>, i: usize)
    requires sel_trace(b0, b_old, av, idx0, idx1_old, it0, it_old, ot0, ot_old, picked, its, ots),
        idx0.contains(i), !picked.contains(i), i < av.len(),
        b_new == step(b_old, *av[i as int]), add_rel(it_old, av[i as int].output.amount, it_new),
        ot_new.coin.0 == ot_old.coin.0 + fee_in_spec(b_old, *av[i as int]), ot_new.multiasset == ot_old.multiasset,
        forall|x: usize| idx1_new.contains(x) <==> idx1_old.contains(x) && x != i,
    ensures sel_trace(b0, b_new, av, idx0, idx1_new, it0, it_new, ot0, ot_new, picked.push(i), its.push(it_new), ots.push(ot_new))
{
    reveal(sel_trace);
    let pu = picked_utxos(av, picked); let p2 = picked.push(i); let i2 = its.push(it_new); let o2 = ots.push(ot_new); let pu2 = picked_utxos(av, p2);
    lemma_pu_push(av, picked, i); lemma_after_push(b0, pu, *av[i as int]);
    assert(pu2 =~= pu.push(*av[i as int]));
    assert(p2.no_duplicates()) by { assert forall|a: int, b: int| 0 <= a < b < p2.len() implies p2[a] != p2[b] by { if b == picked.len() { assert(p2[a] == picked[a]); assert(picked.contains(picked[a])); } } }
    assert forall|k: int| 0 <= k < p2.len() implies idx0.contains(#[trigger] p2[k]) by { if k < picked.len() { assert(p2[k] == picked[k]); } }
    assert forall|x: usize| #[trigger] idx1_new.contains(x) <==> idx0.contains(x) && !p2.contains(x) by {
        if p2.contains(x) { let k = choose|k: int| 0 <= k < p2.len() && p2[k] == x; if k < picked.len() { assert(picked[k] == x); assert(picked.contains(x)); } }
        if picked.contains(x) { let k = choose|k: int| 0 <= k < picked.len() && picked[k] == x; assert(p2[k] == x); }
        assert(p2[picked.len() as int] == i);
    }
    assert forall|k: int| 0 <= k < p2.len() implies add_rel(#[trigger] i2[k], av[p2[k] as int].output.amount, i2[k + 1]) by {
        if k < picked.len() { assert(i2[k] == its[k]); assert(i2[k + 1] == its[k + 1]); assert(p2[k] == picked[k]); } else { assert(i2[k] == its.last()); }
    }
    assert forall|k: int| 0 <= k < p2.len() implies (#[trigger] o2[k + 1]).coin.0 == o2[k].coin.0 + fee_in_spec(after(b0, pu2.take(k)), pu2[k]) && o2[k + 1].multiasset == o2[k].multiasset by {
        if k < picked.len() { assert(o2[k] == ots[k]); assert(o2[k + 1] == ots[k + 1]); assert(pu2.take(k) =~= pu.take(k)); assert(pu2[k] == pu[k]); }
        else { assert(o2[k] == ots.last()); assert(pu2.take(k) =~= pu); }
    }
}
pub proof fn lemma_trace_init(b0: TransactionBuilder, av: Seq<&TransactionUnspentOutput>, idx0: Set<usize>, it0: Value, ot0: Value)
    ensures sel_trace(b0, b0, av, idx0, idx0, it0, it0, ot0, ot0, Seq::empty(), seq![it0], seq![ot0])
{
    reveal(sel_trace);
    assert(picked_utxos(av, Seq::<usize>::empty()) =~= Seq::empty());
}
pub proof fn lemma_push_contains<T>(s: Seq<T>, x: T)
    ensures s.push(x).contains(x), forall|y: T| s.contains(y) ==> s.push(x).contains(y)
{
    assert(s.push(x)[s.len() as int] == x);
    assert forall|y: T| s.contains(y) implies s.push(x).contains(y) by { let k = choose|k: int| 0 <= k < s.len() && s[k] == y; assert(s.push(x)[k] == y); }
}

pub proof fn lemma_trace_avail(b0: TransactionBuilder, b1: TransactionBuilder, av: Seq<&TransactionUnspentOutput>, idx0: Set<usize>, idx1: Set<usize>,
    it0: Value, it1: Value, ot0: Value, ot1: Value, picked: Seq<usize>, its: Seq<Value>, ots: Seq<Value>, x: usize)
    requires sel_trace(b0, b1, av, idx0, idx1, it0, it1, ot0, ot1, picked, its, ots)
    ensures idx1.contains(x) <==> idx0.contains(x) && !picked.contains(x)
{ reveal(sel_trace); }
