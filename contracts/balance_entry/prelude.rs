// ---------------------------------------------------------------------------------------------------------
// balance_entry unit (C05): the public balancing entry points on their real text, over the contracts of the two routines they call.
//   add_change_if_needed_with_optional_script_and_datum : contract PROVED in unit change (variant asset_change, same text: change_bal)
//   add_inputs_from                                      : proved in unit selection; nothing about its effect is needed here (no ensures taken)
// The fallback loop's bookkeeping (which offered inputs are unused, their order) is behind stand-ins WITHOUT postconditions: the claim does not depend on it.
// ---------------------------------------------------------------------------------------------------------
impl Clone for OutputDatum { #[verifier::external_body] fn clone(&self) -> (r: Self) ensures r == *self { unimplemented!() } }
impl Clone for TransactionUnspentOutput { #[verifier::external_body] fn clone(&self) -> (r: Self) ensures r == *self { unimplemented!() } }
clone_eq!(DataOption);
/// what a successful add_change_if_needed leaves behind on every path (unit change): a fee is set, the ledger's preservation-of-value equation holds with
/// it in lovelace and in every asset, and nothing but the fee and the output list was touched
pub open spec fn change_bal(old_b: TransactionBuilder, new_b: TransactionBuilder) -> bool {
    &&& new_b.fee is Some && balanced(new_b, new_b.fee->Some_0.0 as nat)
    &&& new_b == (TransactionBuilder { fee: new_b.fee, outputs: new_b.outputs, ..old_b })
}
impl TransactionBuilder {
    #[verifier::external_body] pub fn add_change_if_needed_with_optional_script_and_datum(&mut self, address: &Address, plutus_data: Option<DataOption>, script_ref: Option<ScriptRef>) -> (r: Result<bool, JsError>)
        ensures r is Ok ==> change_bal(*old(self), *final(self)) { unimplemented!() }
    #[verifier::external_body] pub fn add_inputs_from(&mut self, inputs: &TransactionUnspentOutputs, strategy: CoinSelectionStrategyCIP2) -> (r: Result<(), JsError>)
        { unimplemented!() }
}
impl TxInputsBuilder {
    #[verifier::external_body] pub fn add_regular_utxo(&mut self, utxo: &TransactionUnspentOutput) -> (r: Result<(), JsError>) { unimplemented!() }
    #[verifier::external_body] pub fn has_input(&self, input: &TransactionInput) -> (r: bool) { unimplemented!() }
}
impl TransactionUnspentOutputs {
    #[verifier::external_body] pub fn new() -> (r: Self) ensures r.0@.len() == 0 { unimplemented!() }
    #[verifier::external_body] pub fn add(&mut self, elem: &TransactionUnspentOutput) ensures final(self).0@ == old(self).0@.push(*elem) { unimplemented!() }
}
#[verifier::external_body] pub fn sort_unused_by_asset_count_(v: &mut Vec<TransactionUnspentOutput>) ensures final(v)@.len() == old(v)@.len() { unimplemented!() }
#[verifier::external_body] pub fn vec_reverse_(v: &mut Vec<TransactionUnspentOutput>) ensures final(v)@.len() == old(v)@.len() { unimplemented!() }
