use std::rc::Rc;
use std::collections::{HashSet, BTreeSet};
// element type: only equality / hashing / ordering / cloning of elements matter to the collection's invariant, so the
// element is an opaque token with the derived structural traits (ASSUMED: the real derives are structural)
#[derive(PartialEq, Eq, Hash, PartialOrd, Ord)]
pub struct BootstrapWitness(pub u64);
impl Clone for BootstrapWitness { #[verifier::external_body] fn clone(&self) -> (r: BootstrapWitness) ensures r == *self { unimplemented!() } }
#[derive(Clone)]
pub enum CborSetType { Tagged, Untagged }
