opaque_types!(ScriptHash, AssetName);
pub type PolicyID = ScriptHash;
pub open spec fn int_wf(i: Int) -> bool { -0x1_0000_0000_0000_0000 <= i.0 <= 0xffff_ffff_ffff_ffff }
/// BTreeMap<AssetName, Int> of one policy as far as `as_multiasset` uses it: its entries in key order (R-btree)
pub struct QtyMap { pub entries: Vec<(AssetName, Int)> }
impl QtyMap {
    #[verifier::external_body] pub fn iter(&self) -> (r: core::slice::Iter<'_, (AssetName, Int)>)
        ensures r.remaining() == refs(self.entries@), r.obeys_prophetic_iter_laws(), r.decrease() is Some { unimplemented!() }
    #[verifier::external_body] pub fn new_() -> (r: QtyMap) ensures r.entries@.len() == 0 { unimplemented!() }
    /// BTreeMap::insert (what it stores is not part of the claim on MintAssets::insert: only which values are accepted)
    #[verifier::external_body] pub fn insert(&mut self, k: AssetName, v: Int) -> (r: Option<Int>) { unimplemented!() }
}
clone_eq!(AssetName);
impl Clone for Int { #[verifier::external_body] fn clone(&self) -> (r: Self) ensures r == *self { unimplemented!() } }
/// the results: only the sequence of inserts matters here (Assets / MultiAsset are BTreeMap wrappers, their own methods not under contract here)
#[verifier::external_body] pub struct Assets { _p: core::marker::PhantomData<u8> }
#[verifier::external_body] pub struct MultiAsset { _p: core::marker::PhantomData<u8> }
impl Assets {
    pub uninterp spec fn ins(&self) -> Seq<(AssetName, BigNum)>;
    #[verifier::external_body] pub fn new() -> (r: Assets) ensures r.ins().len() == 0 { unimplemented!() }
    #[verifier::external_body] pub fn insert(&mut self, key: &AssetName, value: &BigNum) -> (r: Option<BigNum>) ensures final(self).ins() == old(self).ins().push((*key, *value)) { unimplemented!() }
    #[verifier::external_body] pub fn is_empty_(&self) -> (r: bool) ensures r == (self.ins().len() == 0) { unimplemented!() }
}
impl MultiAsset {
    pub uninterp spec fn ins(&self) -> Seq<(PolicyID, Assets)>;
    #[verifier::external_body] pub fn new() -> (r: MultiAsset) ensures r.ins().len() == 0 { unimplemented!() }
    #[verifier::external_body] pub fn insert(&mut self, policy_id: &PolicyID, assets: &Assets) -> (r: Option<Assets>) ensures final(self).ins() == old(self).ins().push((*policy_id, *assets)) { unimplemented!() }
}

// ---- what the split computes (functional part): the SEQUENCE OF INSERTS it performs
/// magnitude of a quantity on its side
pub open spec fn mag(i: Int, pos: bool) -> u64 { if pos { i.0 as u64 } else { (-i.0) as u64 } }
/// the (asset name, magnitude) inserts for one policy: every quantity whose sign is the side asked for, in key order
pub open spec fn side_assets(ents: Seq<(AssetName, Int)>, pos: bool, n: int) -> Seq<(AssetName, BigNum)> decreases n {
    if n <= 0 { Seq::empty() } else {
        let p = side_assets(ents, pos, n - 1);
        if (ents[n - 1].1.0 >= 0) == pos { p.push((ents[n - 1].0, BigNum(mag(ents[n - 1].1, pos)))) } else { p }
    }
}
/// the (policy, inserts) pairs: every policy entry that has at least one quantity on the side, in the mint's order
pub open spec fn side_pols(m: Seq<(PolicyID, MintAssets)>, pos: bool, n: int) -> Seq<(PolicyID, Seq<(AssetName, BigNum)>)> decreases n {
    if n <= 0 { Seq::empty() } else {
        let p = side_pols(m, pos, n - 1);
        let a = side_assets(m[n - 1].1.0.entries@, pos, m[n - 1].1.0.entries@.len() as int);
        if a.len() > 0 { p.push((m[n - 1].0, a)) } else { p }
    }
}
pub open spec fn ma_is(r: MultiAsset, sp: Seq<(PolicyID, Seq<(AssetName, BigNum)>)>) -> bool {
    r.ins().len() == sp.len() && forall|k: int| 0 <= k < sp.len() ==> (#[trigger] r.ins()[k]).0 == sp[k].0 && r.ins()[k].1.ins() == sp[k].1
}
