opaque_types!(ScriptHash, AssetName);
pub type PolicyID = ScriptHash;
pub open spec fn int_wf(i: Int) -> bool { -0x1_0000_0000_0000_0000 <= i.0 <= 0xffff_ffff_ffff_ffff }
/// BTreeMap<AssetName, Int> of one policy as far as `as_multiasset` uses it: its entries in key order (R-btree)
pub struct QtyMap { pub entries: Vec<(AssetName, Int)> }
impl QtyMap {
    #[verifier::external_body] pub fn iter(&self) -> (r: core::slice::Iter<'_, (AssetName, Int)>)
        ensures r.remaining() == refs(self.entries@), r.obeys_prophetic_iter_laws(), r.decrease() is Some { unimplemented!() }
}
/// the results: only the sequence of inserts matters here (Assets / MultiAsset are BTreeMap wrappers, their own methods not under contract here)
#[verifier::external_body] pub struct Assets { _p: core::marker::PhantomData<u8> }
#[verifier::external_body] pub struct MultiAsset { _p: core::marker::PhantomData<u8> }
impl Assets {
    pub uninterp spec fn ins(&self) -> Seq<(AssetName, BigNum)>;
    #[verifier::external_body] pub fn new() -> (r: Assets) ensures r.ins().len() == 0 { unimplemented!() }
    #[verifier::external_body] pub fn insert(&mut self, key: &AssetName, value: &BigNum) -> (r: Option<BigNum>) ensures final(self).ins() == old(self).ins().push((*key, *value)) { unimplemented!() }
    #[verifier::external_body] pub fn is_empty_(&self) -> (r: bool) ensures r == (self.ins().len() == 0) { unimplemented!() }
}
impl MultiAsset {
    pub uninterp spec fn ins(&self) -> Seq<(PolicyID, Assets)>;
    #[verifier::external_body] pub fn new() -> (r: MultiAsset) ensures r.ins().len() == 0 { unimplemented!() }
    #[verifier::external_body] pub fn insert(&mut self, policy_id: &PolicyID, assets: &Assets) -> (r: Option<Assets>) ensures final(self).ins() == old(self).ins().push((*policy_id, *assets)) { unimplemented!() }
}
