ser_opaque!(FixedTxWitnessesSet);
#[verifier::external_body] pub struct TransactionBody { _p: core::marker::PhantomData<u8> }
#[verifier::external_body] pub struct AuxiliaryData { _p: core::marker::PhantomData<u8> }
#[verifier::external_body] pub struct TransactionHash { _p: core::marker::PhantomData<u8> }
