impl FixedTransaction {
    #[verifier::external_body] pub fn body_bytes_ref(&self) -> (r: &Vec<u8>) ensures *r == self.body_bytes { unimplemented!() }
    #[verifier::external_body] pub fn witnesses_set_ref(&self) -> (r: &FixedTxWitnessesSet) ensures *r == self.witness_set { unimplemented!() }
    #[verifier::external_body] pub fn auxiliary_bytes_ref(&self) -> (r: Option<&Vec<u8>>)
        ensures r is Some <==> self.auxiliary_bytes is Some, r is Some ==> *r->Some_0 == self.auxiliary_bytes->Some_0 { unimplemented!() }
    #[verifier::external_body] pub fn is_valid(&self) -> (r: bool) ensures r == self.is_valid { unimplemented!() }
}
