/// number of map entries the CDDL requires for this value: the required keys plus every optional key that is present
/// (set- and map-valued optional fields count only when non-empty: an empty one is written as absent)
pub open spec fn ser_body_count(b: TransactionBody) -> int { 3 + cnt_o(b.ttl) + cnt_ne(b.certs) + cnt_ne(b.withdrawals) + cnt_o(b.update) + cnt_o(b.auxiliary_data_hash) + cnt_o(b.validity_start_interval) + cnt_ne(b.mint) + cnt_o(b.script_data_hash) + cnt_ne(b.collateral) + cnt_ne(b.required_signers) + cnt_o(b.network_id) + cnt_o(b.collateral_return) + cnt_o(b.total_collateral) + cnt_ne(b.reference_inputs) + cnt_ne(b.voting_procedures) + cnt_ne(b.voting_proposals) + cnt_o(b.current_treasury_value) + cnt_o(b.donation) }
#[verifier::opaque]
pub open spec fn ser_body_k0(s: Seq<Tok>, b: TransactionBody) -> Seq<Tok> { ap_req(s, 0, b.inputs) }
pub proof fn lemma_ser_body_k0(s: Seq<Tok>, x: Seq<Tok>, y: Seq<Tok>, b: TransactionBody) requires x == s + y ensures ser_body_k0(x, b) == s + ser_body_k0(y, b)
{ reveal(ser_body_k0); lemma_ap_req(x, 0, b.inputs); lemma_ap_req(y, 0, b.inputs); lemma_shift(s, x, y, ser_body_k0(x, b), ser_body_k0(y, b), ap_req(Seq::empty(), 0, b.inputs)); }
#[verifier::opaque]
pub open spec fn ser_body_k1(s: Seq<Tok>, b: TransactionBody) -> Seq<Tok> { ap_req(s, 1, b.outputs) }
pub proof fn lemma_ser_body_k1(s: Seq<Tok>, x: Seq<Tok>, y: Seq<Tok>, b: TransactionBody) requires x == s + y ensures ser_body_k1(x, b) == s + ser_body_k1(y, b)
{ reveal(ser_body_k1); lemma_ap_req(x, 1, b.outputs); lemma_ap_req(y, 1, b.outputs); lemma_shift(s, x, y, ser_body_k1(x, b), ser_body_k1(y, b), ap_req(Seq::empty(), 1, b.outputs)); }
#[verifier::opaque]
pub open spec fn ser_body_k2(s: Seq<Tok>, b: TransactionBody) -> Seq<Tok> { ap_req(s, 2, b.fee) }
pub proof fn lemma_ser_body_k2(s: Seq<Tok>, x: Seq<Tok>, y: Seq<Tok>, b: TransactionBody) requires x == s + y ensures ser_body_k2(x, b) == s + ser_body_k2(y, b)
{ reveal(ser_body_k2); lemma_ap_req(x, 2, b.fee); lemma_ap_req(y, 2, b.fee); lemma_shift(s, x, y, ser_body_k2(x, b), ser_body_k2(y, b), ap_req(Seq::empty(), 2, b.fee)); }
#[verifier::opaque]
pub open spec fn ser_body_k3(s: Seq<Tok>, b: TransactionBody) -> Seq<Tok> { ap_o(s, 3, b.ttl) }
pub proof fn lemma_ser_body_k3(s: Seq<Tok>, x: Seq<Tok>, y: Seq<Tok>, b: TransactionBody) requires x == s + y ensures ser_body_k3(x, b) == s + ser_body_k3(y, b)
{ reveal(ser_body_k3); lemma_ap_o(x, 3, b.ttl); lemma_ap_o(y, 3, b.ttl); lemma_shift(s, x, y, ser_body_k3(x, b), ser_body_k3(y, b), ap_o(Seq::empty(), 3, b.ttl)); }
#[verifier::opaque]
pub open spec fn ser_body_k4(s: Seq<Tok>, b: TransactionBody) -> Seq<Tok> { ap_ne(s, 4, b.certs) }
pub proof fn lemma_ser_body_k4(s: Seq<Tok>, x: Seq<Tok>, y: Seq<Tok>, b: TransactionBody) requires x == s + y ensures ser_body_k4(x, b) == s + ser_body_k4(y, b)
{ reveal(ser_body_k4); lemma_ap_ne(x, 4, b.certs); lemma_ap_ne(y, 4, b.certs); lemma_shift(s, x, y, ser_body_k4(x, b), ser_body_k4(y, b), ap_ne(Seq::empty(), 4, b.certs)); }
#[verifier::opaque]
pub open spec fn ser_body_k5(s: Seq<Tok>, b: TransactionBody) -> Seq<Tok> { ap_ne(s, 5, b.withdrawals) }
pub proof fn lemma_ser_body_k5(s: Seq<Tok>, x: Seq<Tok>, y: Seq<Tok>, b: TransactionBody) requires x == s + y ensures ser_body_k5(x, b) == s + ser_body_k5(y, b)
{ reveal(ser_body_k5); lemma_ap_ne(x, 5, b.withdrawals); lemma_ap_ne(y, 5, b.withdrawals); lemma_shift(s, x, y, ser_body_k5(x, b), ser_body_k5(y, b), ap_ne(Seq::empty(), 5, b.withdrawals)); }
#[verifier::opaque]
pub open spec fn ser_body_k6(s: Seq<Tok>, b: TransactionBody) -> Seq<Tok> { ap_o(s, 6, b.update) }
pub proof fn lemma_ser_body_k6(s: Seq<Tok>, x: Seq<Tok>, y: Seq<Tok>, b: TransactionBody) requires x == s + y ensures ser_body_k6(x, b) == s + ser_body_k6(y, b)
{ reveal(ser_body_k6); lemma_ap_o(x, 6, b.update); lemma_ap_o(y, 6, b.update); lemma_shift(s, x, y, ser_body_k6(x, b), ser_body_k6(y, b), ap_o(Seq::empty(), 6, b.update)); }
#[verifier::opaque]
pub open spec fn ser_body_k7(s: Seq<Tok>, b: TransactionBody) -> Seq<Tok> { ap_o(s, 7, b.auxiliary_data_hash) }
pub proof fn lemma_ser_body_k7(s: Seq<Tok>, x: Seq<Tok>, y: Seq<Tok>, b: TransactionBody) requires x == s + y ensures ser_body_k7(x, b) == s + ser_body_k7(y, b)
{ reveal(ser_body_k7); lemma_ap_o(x, 7, b.auxiliary_data_hash); lemma_ap_o(y, 7, b.auxiliary_data_hash); lemma_shift(s, x, y, ser_body_k7(x, b), ser_body_k7(y, b), ap_o(Seq::empty(), 7, b.auxiliary_data_hash)); }
#[verifier::opaque]
pub open spec fn ser_body_k8(s: Seq<Tok>, b: TransactionBody) -> Seq<Tok> { ap_o(s, 8, b.validity_start_interval) }
pub proof fn lemma_ser_body_k8(s: Seq<Tok>, x: Seq<Tok>, y: Seq<Tok>, b: TransactionBody) requires x == s + y ensures ser_body_k8(x, b) == s + ser_body_k8(y, b)
{ reveal(ser_body_k8); lemma_ap_o(x, 8, b.validity_start_interval); lemma_ap_o(y, 8, b.validity_start_interval); lemma_shift(s, x, y, ser_body_k8(x, b), ser_body_k8(y, b), ap_o(Seq::empty(), 8, b.validity_start_interval)); }
#[verifier::opaque]
pub open spec fn ser_body_k9(s: Seq<Tok>, b: TransactionBody) -> Seq<Tok> { ap_ne(s, 9, b.mint) }
pub proof fn lemma_ser_body_k9(s: Seq<Tok>, x: Seq<Tok>, y: Seq<Tok>, b: TransactionBody) requires x == s + y ensures ser_body_k9(x, b) == s + ser_body_k9(y, b)
{ reveal(ser_body_k9); lemma_ap_ne(x, 9, b.mint); lemma_ap_ne(y, 9, b.mint); lemma_shift(s, x, y, ser_body_k9(x, b), ser_body_k9(y, b), ap_ne(Seq::empty(), 9, b.mint)); }
#[verifier::opaque]
pub open spec fn ser_body_k11(s: Seq<Tok>, b: TransactionBody) -> Seq<Tok> { ap_o(s, 11, b.script_data_hash) }
pub proof fn lemma_ser_body_k11(s: Seq<Tok>, x: Seq<Tok>, y: Seq<Tok>, b: TransactionBody) requires x == s + y ensures ser_body_k11(x, b) == s + ser_body_k11(y, b)
{ reveal(ser_body_k11); lemma_ap_o(x, 11, b.script_data_hash); lemma_ap_o(y, 11, b.script_data_hash); lemma_shift(s, x, y, ser_body_k11(x, b), ser_body_k11(y, b), ap_o(Seq::empty(), 11, b.script_data_hash)); }
#[verifier::opaque]
pub open spec fn ser_body_k13(s: Seq<Tok>, b: TransactionBody) -> Seq<Tok> { ap_ne(s, 13, b.collateral) }
pub proof fn lemma_ser_body_k13(s: Seq<Tok>, x: Seq<Tok>, y: Seq<Tok>, b: TransactionBody) requires x == s + y ensures ser_body_k13(x, b) == s + ser_body_k13(y, b)
{ reveal(ser_body_k13); lemma_ap_ne(x, 13, b.collateral); lemma_ap_ne(y, 13, b.collateral); lemma_shift(s, x, y, ser_body_k13(x, b), ser_body_k13(y, b), ap_ne(Seq::empty(), 13, b.collateral)); }
#[verifier::opaque]
pub open spec fn ser_body_k14(s: Seq<Tok>, b: TransactionBody) -> Seq<Tok> { ap_ne(s, 14, b.required_signers) }
pub proof fn lemma_ser_body_k14(s: Seq<Tok>, x: Seq<Tok>, y: Seq<Tok>, b: TransactionBody) requires x == s + y ensures ser_body_k14(x, b) == s + ser_body_k14(y, b)
{ reveal(ser_body_k14); lemma_ap_ne(x, 14, b.required_signers); lemma_ap_ne(y, 14, b.required_signers); lemma_shift(s, x, y, ser_body_k14(x, b), ser_body_k14(y, b), ap_ne(Seq::empty(), 14, b.required_signers)); }
#[verifier::opaque]
pub open spec fn ser_body_k15(s: Seq<Tok>, b: TransactionBody) -> Seq<Tok> { ap_o(s, 15, b.network_id) }
pub proof fn lemma_ser_body_k15(s: Seq<Tok>, x: Seq<Tok>, y: Seq<Tok>, b: TransactionBody) requires x == s + y ensures ser_body_k15(x, b) == s + ser_body_k15(y, b)
{ reveal(ser_body_k15); lemma_ap_o(x, 15, b.network_id); lemma_ap_o(y, 15, b.network_id); lemma_shift(s, x, y, ser_body_k15(x, b), ser_body_k15(y, b), ap_o(Seq::empty(), 15, b.network_id)); }
#[verifier::opaque]
pub open spec fn ser_body_k16(s: Seq<Tok>, b: TransactionBody) -> Seq<Tok> { ap_o(s, 16, b.collateral_return) }
pub proof fn lemma_ser_body_k16(s: Seq<Tok>, x: Seq<Tok>, y: Seq<Tok>, b: TransactionBody) requires x == s + y ensures ser_body_k16(x, b) == s + ser_body_k16(y, b)
{ reveal(ser_body_k16); lemma_ap_o(x, 16, b.collateral_return); lemma_ap_o(y, 16, b.collateral_return); lemma_shift(s, x, y, ser_body_k16(x, b), ser_body_k16(y, b), ap_o(Seq::empty(), 16, b.collateral_return)); }
#[verifier::opaque]
pub open spec fn ser_body_k17(s: Seq<Tok>, b: TransactionBody) -> Seq<Tok> { ap_o(s, 17, b.total_collateral) }
pub proof fn lemma_ser_body_k17(s: Seq<Tok>, x: Seq<Tok>, y: Seq<Tok>, b: TransactionBody) requires x == s + y ensures ser_body_k17(x, b) == s + ser_body_k17(y, b)
{ reveal(ser_body_k17); lemma_ap_o(x, 17, b.total_collateral); lemma_ap_o(y, 17, b.total_collateral); lemma_shift(s, x, y, ser_body_k17(x, b), ser_body_k17(y, b), ap_o(Seq::empty(), 17, b.total_collateral)); }
#[verifier::opaque]
pub open spec fn ser_body_k18(s: Seq<Tok>, b: TransactionBody) -> Seq<Tok> { ap_ne(s, 18, b.reference_inputs) }
pub proof fn lemma_ser_body_k18(s: Seq<Tok>, x: Seq<Tok>, y: Seq<Tok>, b: TransactionBody) requires x == s + y ensures ser_body_k18(x, b) == s + ser_body_k18(y, b)
{ reveal(ser_body_k18); lemma_ap_ne(x, 18, b.reference_inputs); lemma_ap_ne(y, 18, b.reference_inputs); lemma_shift(s, x, y, ser_body_k18(x, b), ser_body_k18(y, b), ap_ne(Seq::empty(), 18, b.reference_inputs)); }
#[verifier::opaque]
pub open spec fn ser_body_k19(s: Seq<Tok>, b: TransactionBody) -> Seq<Tok> { ap_ne(s, 19, b.voting_procedures) }
pub proof fn lemma_ser_body_k19(s: Seq<Tok>, x: Seq<Tok>, y: Seq<Tok>, b: TransactionBody) requires x == s + y ensures ser_body_k19(x, b) == s + ser_body_k19(y, b)
{ reveal(ser_body_k19); lemma_ap_ne(x, 19, b.voting_procedures); lemma_ap_ne(y, 19, b.voting_procedures); lemma_shift(s, x, y, ser_body_k19(x, b), ser_body_k19(y, b), ap_ne(Seq::empty(), 19, b.voting_procedures)); }
#[verifier::opaque]
pub open spec fn ser_body_k20(s: Seq<Tok>, b: TransactionBody) -> Seq<Tok> { ap_ne(s, 20, b.voting_proposals) }
pub proof fn lemma_ser_body_k20(s: Seq<Tok>, x: Seq<Tok>, y: Seq<Tok>, b: TransactionBody) requires x == s + y ensures ser_body_k20(x, b) == s + ser_body_k20(y, b)
{ reveal(ser_body_k20); lemma_ap_ne(x, 20, b.voting_proposals); lemma_ap_ne(y, 20, b.voting_proposals); lemma_shift(s, x, y, ser_body_k20(x, b), ser_body_k20(y, b), ap_ne(Seq::empty(), 20, b.voting_proposals)); }
#[verifier::opaque]
pub open spec fn ser_body_k21(s: Seq<Tok>, b: TransactionBody) -> Seq<Tok> { ap_o(s, 21, b.current_treasury_value) }
pub proof fn lemma_ser_body_k21(s: Seq<Tok>, x: Seq<Tok>, y: Seq<Tok>, b: TransactionBody) requires x == s + y ensures ser_body_k21(x, b) == s + ser_body_k21(y, b)
{ reveal(ser_body_k21); lemma_ap_o(x, 21, b.current_treasury_value); lemma_ap_o(y, 21, b.current_treasury_value); lemma_shift(s, x, y, ser_body_k21(x, b), ser_body_k21(y, b), ap_o(Seq::empty(), 21, b.current_treasury_value)); }
#[verifier::opaque]
pub open spec fn ser_body_k22(s: Seq<Tok>, b: TransactionBody) -> Seq<Tok> { ap_o(s, 22, b.donation) }
pub proof fn lemma_ser_body_k22(s: Seq<Tok>, x: Seq<Tok>, y: Seq<Tok>, b: TransactionBody) requires x == s + y ensures ser_body_k22(x, b) == s + ser_body_k22(y, b)
{ reveal(ser_body_k22); lemma_ap_o(x, 22, b.donation); lemma_ap_o(y, 22, b.donation); lemma_shift(s, x, y, ser_body_k22(x, b), ser_body_k22(y, b), ap_o(Seq::empty(), 22, b.donation)); }
/// apply form of the CDDL encoding: tokens so far `s` followed by Map(n) and the entries in key-table order
pub open spec fn ser_body_apply(s: Seq<Tok>, b: TransactionBody) -> Seq<Tok> { ser_body_k22(ser_body_k21(ser_body_k20(ser_body_k19(ser_body_k18(ser_body_k17(ser_body_k16(ser_body_k15(ser_body_k14(ser_body_k13(ser_body_k11(ser_body_k9(ser_body_k8(ser_body_k7(ser_body_k6(ser_body_k5(ser_body_k4(ser_body_k3(ser_body_k2(ser_body_k1(ser_body_k0(s.push(Tok::Map(ser_body_count(b) as u64)), b), b), b), b), b), b), b), b), b), b), b), b), b), b), b), b), b), b), b), b), b) }
pub proof fn lemma_ser_body_apply(s: Seq<Tok>, b: TransactionBody) ensures ser_body_apply(s, b) == s + ser_body_apply(Seq::empty(), b)
{
    let e = Seq::<Tok>::empty(); let m = Tok::Map(ser_body_count(b) as u64);
    let x0 = s.push(m); let y0 = e.push(m); assert(x0 =~= s + y0);
    lemma_ser_body_k0(s, x0, y0, b); let x1 = ser_body_k0(x0, b); let y1 = ser_body_k0(y0, b);
    lemma_ser_body_k1(s, x1, y1, b); let x2 = ser_body_k1(x1, b); let y2 = ser_body_k1(y1, b);
    lemma_ser_body_k2(s, x2, y2, b); let x3 = ser_body_k2(x2, b); let y3 = ser_body_k2(y2, b);
    lemma_ser_body_k3(s, x3, y3, b); let x4 = ser_body_k3(x3, b); let y4 = ser_body_k3(y3, b);
    lemma_ser_body_k4(s, x4, y4, b); let x5 = ser_body_k4(x4, b); let y5 = ser_body_k4(y4, b);
    lemma_ser_body_k5(s, x5, y5, b); let x6 = ser_body_k5(x5, b); let y6 = ser_body_k5(y5, b);
    lemma_ser_body_k6(s, x6, y6, b); let x7 = ser_body_k6(x6, b); let y7 = ser_body_k6(y6, b);
    lemma_ser_body_k7(s, x7, y7, b); let x8 = ser_body_k7(x7, b); let y8 = ser_body_k7(y7, b);
    lemma_ser_body_k8(s, x8, y8, b); let x9 = ser_body_k8(x8, b); let y9 = ser_body_k8(y8, b);
    lemma_ser_body_k9(s, x9, y9, b); let x10 = ser_body_k9(x9, b); let y10 = ser_body_k9(y9, b);
    lemma_ser_body_k11(s, x10, y10, b); let x11 = ser_body_k11(x10, b); let y11 = ser_body_k11(y10, b);
    lemma_ser_body_k13(s, x11, y11, b); let x12 = ser_body_k13(x11, b); let y12 = ser_body_k13(y11, b);
    lemma_ser_body_k14(s, x12, y12, b); let x13 = ser_body_k14(x12, b); let y13 = ser_body_k14(y12, b);
    lemma_ser_body_k15(s, x13, y13, b); let x14 = ser_body_k15(x13, b); let y14 = ser_body_k15(y13, b);
    lemma_ser_body_k16(s, x14, y14, b); let x15 = ser_body_k16(x14, b); let y15 = ser_body_k16(y14, b);
    lemma_ser_body_k17(s, x15, y15, b); let x16 = ser_body_k17(x15, b); let y16 = ser_body_k17(y15, b);
    lemma_ser_body_k18(s, x16, y16, b); let x17 = ser_body_k18(x16, b); let y17 = ser_body_k18(y16, b);
    lemma_ser_body_k19(s, x17, y17, b); let x18 = ser_body_k19(x17, b); let y18 = ser_body_k19(y17, b);
    lemma_ser_body_k20(s, x18, y18, b); let x19 = ser_body_k20(x18, b); let y19 = ser_body_k20(y18, b);
    lemma_ser_body_k21(s, x19, y19, b); let x20 = ser_body_k21(x19, b); let y20 = ser_body_k21(y19, b);
    lemma_ser_body_k22(s, x20, y20, b); let x21 = ser_body_k22(x20, b); let y21 = ser_body_k22(y20, b);
}
