ser_coll!(AuxiliaryDataHash, BigNum, Certificates, Ed25519KeyHashes, Mint, NetworkId, ScriptDataHash, TransactionInputs, TransactionOutput, TransactionOutputs, Update, VotingProcedures, VotingProposals, Withdrawals);
pub type Coin = BigNum;
pub type SlotBigNum = BigNum;
impl BigNum {
    /// the number is 0 (BigNum is opaque in this unit; the numeric unit proves is_zero on the real text)
    pub uninterp spec fn zero_(&self) -> bool;
    #[verifier::external_body] pub fn is_zero(&self) -> (r: bool) ensures r == self.zero_() { unimplemented!() }
}
impl Clone for BigNum { #[verifier::external_body] fn clone(&self) -> (r: Self) ensures r == *self { unimplemented!() } }
