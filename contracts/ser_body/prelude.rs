ser_coll!(AuxiliaryDataHash, BigNum, Certificates, Ed25519KeyHashes, Mint, NetworkId, ScriptDataHash, TransactionInputs, TransactionOutput, TransactionOutputs, Update, VotingProcedures, VotingProposals, Withdrawals);
pub type Coin = BigNum;
pub type SlotBigNum = BigNum;
