use std::rc::Rc;
use std::collections::{HashSet, BTreeSet};
#[derive(PartialEq, Eq, Hash, PartialOrd, Ord)]
pub struct Ed25519KeyHash(pub u64);
impl Clone for Ed25519KeyHash { #[verifier::external_body] fn clone(&self) -> (r: Ed25519KeyHash) ensures r == *self { unimplemented!() } }
#[derive(Clone)]
pub enum CborSetType { Tagged, Untagged }
opaque_types!(ScriptHash, TransactionInput, ScriptsTable, RewardAddress, MalformedAddress, Pointer, ByronAddress);
clone_eq!(TransactionInput, ByronAddress);
// Value: lovelace + abstract per-asset quantities; checked_add exact-or-Err (ASSUMED here as in the builder units: Entry-API code)
pub struct Value { pub coin: u64, pub assets: AssetsView }
#[verifier::external_body] pub struct AssetsView { _p: core::marker::PhantomData<u8> }
pub type AssetId = int;
impl AssetsView { pub uninterp spec fn q(&self, a: AssetId) -> nat; }
impl Clone for Value { #[verifier::external_body] fn clone(&self) -> (r: Self) ensures r == *self { unimplemented!() } }
impl Value {
    #[verifier::external_body] pub fn zero() -> (r: Value) ensures r.coin == 0, forall|a: AssetId| r.assets.q(a) == 0 { unimplemented!() }
    #[verifier::external_body] pub fn checked_add(&self, rhs: &Value) -> (r: Result<Value, JsError>)
        ensures r is Ok ==> r->Ok_0.coin == self.coin + rhs.coin && forall|a: AssetId| r->Ok_0.assets.q(a) == self.assets.q(a) + rhs.assets.q(a) { unimplemented!() }
}
pub open spec fn sum_coin(s: Seq<(TxBuilderInput, Option<ScriptHash>)>) -> nat decreases s.len() { if s.len() == 0 { 0 } else { sum_coin(s.drop_last()) + s.last().0.amount.coin as nat } }
pub open spec fn sum_q(s: Seq<(TxBuilderInput, Option<ScriptHash>)>, a: AssetId) -> nat decreases s.len() { if s.len() == 0 { 0 } else { sum_q(s.drop_last(), a) + s.last().0.amount.assets.q(a) } }
pub proof fn lemma_sum_step(s: Seq<(TxBuilderInput, Option<ScriptHash>)>, i: int)
    requires 0 <= i < s.len()
    ensures sum_coin(s.take(i + 1)) == sum_coin(s.take(i)) + s[i].0.amount.coin, forall|a: AssetId| sum_q(s.take(i + 1), a) == sum_q(s.take(i), a) + s[i].0.amount.assets.q(a)
{ assert(s.take(i + 1).drop_last() =~= s.take(i)); }
/// the ordered input map as a mathematical map (BTreeMap::insert: ASSUMED std semantics - the new value replaces an old one under the key)
#[verifier::external_body] pub struct InputsMap { _p: core::marker::PhantomData<u8> }
impl InputsMap {
    /// the entries in ascending outpoint order (BTreeMap::values: ASSUMED std semantics)
    pub uninterp spec fn vals(&self) -> Seq<(TxBuilderInput, Option<ScriptHash>)>;
    #[verifier::external_body] pub fn values(&self) -> (r: core::slice::Iter<'_, (TxBuilderInput, Option<ScriptHash>)>)
        ensures r.remaining() == refs(self.vals()), r.obeys_prophetic_iter_laws(), r.decrease() is Some { unimplemented!() }
    pub uninterp spec fn m(&self) -> Map<TransactionInput, (TxBuilderInput, Option<ScriptHash>)>;
    #[verifier::external_body] pub fn insert(&mut self, k: TransactionInput, v: (TxBuilderInput, Option<ScriptHash>)) -> (r: Option<(TxBuilderInput, Option<ScriptHash>)>)
        ensures final(self).m() == old(self).m().insert(k, v) { unimplemented!() }
    /// BTreeMap::len / is_empty / contains_key (std, ASSUMED): over the map view
    #[verifier::external_body] pub fn len(&self) -> (r: usize) ensures self.m().dom().finite(), r == self.m().dom().len() { unimplemented!() }
    #[verifier::external_body] pub fn is_empty(&self) -> (r: bool) ensures self.m().dom().finite(), r == (self.m().dom().len() == 0) { unimplemented!() }
    #[verifier::external_body] pub fn contains_key(&self, k: &TransactionInput) -> (r: bool) ensures r == self.m().contains_key(*k) { unimplemented!() }
}
#[verifier::external_body] pub struct BootstrapSet { _p: core::marker::PhantomData<u8> }
impl BootstrapSet {
    pub uninterp spec fn s(&self) -> Set<Seq<u8>>;
    #[verifier::external_body] pub fn insert(&mut self, v: Vec<u8>) -> (r: bool) ensures final(self).s() == old(self).s().insert(v@) { unimplemented!() }
}
pub struct BuilderError { }
impl BuilderError {
    pub const RegularInputIsScript: BuilderError = BuilderError { };
    pub const RegularInputIsFromRewardAddress: BuilderError = BuilderError { };
    pub const MalformedAddress: BuilderError = BuilderError { };
    #[verifier::external_body] pub fn as_str(&self) -> &'static str { unimplemented!() }
}
/// who must sign for a regular (non-script) input at this address: the payment key of a Shelley address, the Byron address itself;
/// nobody for script-locked, reward and malformed addresses (those are not regular inputs)
pub enum Payer { Key(Ed25519KeyHash), Byron(ByronAddress) }
pub open spec fn payer(a: Address) -> Option<Payer> {
    match a.0 {
        AddrType::Base(x) => match x.payment.0 { CredType::Key(k) => Some(Payer::Key(k)), CredType::Script(_) => None },
        AddrType::Enterprise(x) => match x.payment.0 { CredType::Key(k) => Some(Payer::Key(k)), CredType::Script(_) => None },
        AddrType::Ptr(x) => match x.payment.0 { CredType::Key(k) => Some(Payer::Key(k)), CredType::Script(_) => None },
        AddrType::Byron(b) => Some(Payer::Byron(b)),
        AddrType::Reward(_) => None,
        AddrType::Malformed(_) => None,
    }
}
pub broadcast proof fn lemma_push_set_b<T>(s: Seq<T>, x: T)
    ensures #[trigger] s.push(x).to_set() =~= s.to_set().insert(x)
{
    assert forall|y: T| s.push(x).to_set().contains(y) <==> s.to_set().insert(x).contains(y) by {
        if s.push(x).contains(y) { let i = choose|i: int| 0 <= i < s.push(x).len() && s.push(x)[i] == y; if i < s.len() { assert(s[i] == y); } }
        if s.contains(y) { let i = choose|i: int| 0 <= i < s.len() && s[i] == y; assert(s.push(x)[i] == y); }
        assert(s.push(x)[s.len() as int] == x);
    }
}
// ---- script inputs: the witness table `required_witnesses.scripts` (script hash -> input -> witness, None = "still missing")
opaque_types!(NativeScriptSourceEnum, PlutusScriptSourceEnum, PlutusWitnessRest);
clone_eq!(NativeScriptSourceEnum, PlutusScriptSourceEnum, PlutusWitnessRest, ScriptHash);
pub struct NativeScriptSource(pub NativeScriptSourceEnum);
pub struct PlutusWitness { pub script: PlutusScriptSourceEnum, pub rest: PlutusWitnessRest }
impl Clone for PlutusWitness { #[verifier::external_body] fn clone(&self) -> (r: Self) ensures r == *self { unimplemented!() } }
impl Clone for ScriptWitnessType { #[verifier::external_body] fn clone(&self) -> (r: Self) ensures r == *self { unimplemented!() } }
impl NativeScriptSource {
    pub uninterp spec fn hash_of(&self) -> ScriptHash;
    #[verifier::external_body] pub fn script_hash(&self) -> (r: ScriptHash) ensures r == self.hash_of() { unimplemented!() }
}
impl PlutusScriptSourceEnum {
    pub uninterp spec fn hash_of(&self) -> ScriptHash;
    #[verifier::external_body] pub fn script_hash(&self) -> (r: ScriptHash) ensures r == self.hash_of() { unimplemented!() }
}
pub type WitMap = Map<TransactionInput, Option<ScriptWitnessType>>;
impl ScriptsTable {
    pub uninterp spec fn tbl(&self) -> Map<ScriptHash, WitMap>;
    /// the witness registered for `input` under `h` (None: no entry or still missing)
    pub open spec fn wit(&self, h: ScriptHash, input: TransactionInput) -> Option<ScriptWitnessType> {
        if self.tbl().contains_key(h) && self.tbl()[h].contains_key(input) { self.tbl()[h][input] } else { None }
    }
}
/// `entry(h).or_insert(empty).insert(input, w)` as a map update
pub open spec fn tbl_put(t: Map<ScriptHash, WitMap>, h: ScriptHash, input: TransactionInput, w: Option<ScriptWitnessType>) -> Map<ScriptHash, WitMap> {
    t.insert(h, (if t.contains_key(h) { t[h] } else { Map::empty() }).insert(input, w))
}
// ---- UTxO entry points: the output of the UTxO supplies address, amount and the size of its reference script
opaque_types!(DataOption, CborContainerType, ScriptRef);
impl ScriptRef {
    pub uninterp spec fn unwrapped(&self) -> Seq<u8>;
    #[verifier::external_body] pub fn to_unwrapped_bytes(&self) -> (r: Vec<u8>) ensures r@ == self.unwrapped() { unimplemented!() }
}
impl RewardAddress {
    pub uninterp spec fn pay(&self) -> Credential;
    #[verifier::external_body] pub fn payment_cred(&self) -> (r: Credential) ensures r == self.pay() { unimplemented!() }
}
impl Clone for Credential { #[verifier::external_body] fn clone(&self) -> (r: Self) ensures r == *self { unimplemented!() } }
impl BuilderError {
    pub const ScriptAddressTypeMismatch: BuilderError = BuilderError { };
    pub const ScriptAddressCredentialMismatch: BuilderError = BuilderError { };
    pub const RegularAddressTypeMismatch: BuilderError = BuilderError { };
}
/// size of the reference script an output carries, if any
pub open spec fn ref_size(o: TransactionOutput) -> Option<usize> { match o.script_ref { Some(s) => Some(s.unwrapped().len() as usize), None => None } }
/// a script-locked output: a Shelley payment address (base / enterprise / pointer) whose payment credential is a script hash
pub open spec fn script_locked(a: Address) -> bool {
    match a.0 {
        AddrType::Base(x) => x.payment.0 is Script, AddrType::Enterprise(x) => x.payment.0 is Script, AddrType::Ptr(x) => x.payment.0 is Script,
        _ => false,
    }
}

/// representation invariant the pointer rules need (C10: no two script uses share a pointer, no redeemer points at an input that is not
/// script-locked): an input has a witness-table entry only under the script hash it is registered with
pub open spec fn wt_ok(b: TxInputsBuilder) -> bool {
    forall|h: ScriptHash, i: TransactionInput| b.required_witnesses.scripts.tbl().contains_key(h) && #[trigger] b.required_witnesses.scripts.tbl()[h].contains_key(i)
        ==> b.inputs.m().contains_key(i) && b.inputs.m()[i].1 == Some(h)
}
