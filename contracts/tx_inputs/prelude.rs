use std::rc::Rc;
use std::collections::{HashSet, BTreeSet};
#[derive(PartialEq, Eq, Hash, PartialOrd, Ord)]
pub struct Ed25519KeyHash(pub u64);
impl Clone for Ed25519KeyHash { #[verifier::external_body] fn clone(&self) -> (r: Ed25519KeyHash) ensures r == *self { unimplemented!() } }
#[derive(Clone)]
pub enum CborSetType { Tagged, Untagged }
opaque_types!(ScriptHash, TransactionInput, Value, ScriptsTable, RewardAddress, MalformedAddress, Pointer, ByronAddress);
clone_eq!(TransactionInput, Value, ByronAddress);
/// the ordered input map as a mathematical map (BTreeMap::insert: ASSUMED std semantics - the new value replaces an old one under the key)
#[verifier::external_body] pub struct InputsMap { _p: core::marker::PhantomData<u8> }
impl InputsMap {
    pub uninterp spec fn m(&self) -> Map<TransactionInput, (TxBuilderInput, Option<ScriptHash>)>;
    #[verifier::external_body] pub fn insert(&mut self, k: TransactionInput, v: (TxBuilderInput, Option<ScriptHash>)) -> (r: Option<(TxBuilderInput, Option<ScriptHash>)>)
        ensures final(self).m() == old(self).m().insert(k, v) { unimplemented!() }
}
#[verifier::external_body] pub struct BootstrapSet { _p: core::marker::PhantomData<u8> }
impl BootstrapSet {
    pub uninterp spec fn s(&self) -> Set<Seq<u8>>;
    #[verifier::external_body] pub fn insert(&mut self, v: Vec<u8>) -> (r: bool) ensures final(self).s() == old(self).s().insert(v@) { unimplemented!() }
}
pub struct BuilderError { }
impl BuilderError {
    pub const RegularInputIsScript: BuilderError = BuilderError { };
    pub const RegularInputIsFromRewardAddress: BuilderError = BuilderError { };
    pub const MalformedAddress: BuilderError = BuilderError { };
    #[verifier::external_body] pub fn as_str(&self) -> &'static str { unimplemented!() }
}
/// who must sign for a regular (non-script) input at this address: the payment key of a Shelley address, the Byron address itself;
/// nobody for script-locked, reward and malformed addresses (those are not regular inputs)
pub enum Payer { Key(Ed25519KeyHash), Byron(ByronAddress) }
pub open spec fn payer(a: Address) -> Option<Payer> {
    match a.0 {
        AddrType::Base(x) => match x.payment.0 { CredType::Key(k) => Some(Payer::Key(k)), CredType::Script(_) => None },
        AddrType::Enterprise(x) => match x.payment.0 { CredType::Key(k) => Some(Payer::Key(k)), CredType::Script(_) => None },
        AddrType::Ptr(x) => match x.payment.0 { CredType::Key(k) => Some(Payer::Key(k)), CredType::Script(_) => None },
        AddrType::Byron(b) => Some(Payer::Byron(b)),
        AddrType::Reward(_) => None,
        AddrType::Malformed(_) => None,
    }
}
pub broadcast proof fn lemma_push_set_b<T>(s: Seq<T>, x: T)
    ensures #[trigger] s.push(x).to_set() =~= s.to_set().insert(x)
{
    assert forall|y: T| s.push(x).to_set().contains(y) <==> s.to_set().insert(x).contains(y) by {
        if s.push(x).contains(y) { let i = choose|i: int| 0 <= i < s.push(x).len() && s.push(x)[i] == y; if i < s.len() { assert(s[i] == y); } }
        if s.contains(y) { let i = choose|i: int| 0 <= i < s.len() && s[i] == y; assert(s.push(x)[i] == y); }
        assert(s.push(x)[s.len() as int] == x);
    }
}
