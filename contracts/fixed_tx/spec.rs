impl Clone for TransactionWitnessSet { #[verifier::external_body] fn clone(&self) -> (r: Self) ensures r == *self { unimplemented!() } }
impl TransactionWitnessSet {
    #[verifier::external_body] pub fn new() -> (r: Self)
        ensures r.vkeys is None, r.native_scripts is None, r.bootstraps is None, r.plutus_scripts is None, r.plutus_data is None, r.redeemers is None { unimplemented!() }
}
pub uninterp spec fn dec_fixed_ws(b: Seq<u8>) -> Option<FixedTxWitnessesSet>;
impl FixedTxWitnessesSet {
    #[verifier::external_body] pub fn from_bytes(b: Vec<u8>) -> (r: Result<FixedTxWitnessesSet, DeserializeError>)
        ensures r is Ok ==> dec_fixed_ws(b@) == Some(r->Ok_0) { unimplemented!() }
}
impl FixedTransaction {
    /// C04 representation invariant: the reported hash is Blake2b-256 of the stored body bytes, the typed body is what those
    /// bytes decode to, and auxiliary bytes/typed auxiliary data go together
    pub open spec fn wf(&self) -> bool {
        &&& self.tx_hash.0 == h256(self.body_bytes@)
        &&& dec_body(self.body_bytes@) == Some(self.body)
        &&& (self.auxiliary_bytes is Some <==> self.auxiliary_data is Some)
        &&& (self.auxiliary_bytes is Some ==> dec_aux(self.auxiliary_bytes->Some_0@) == self.auxiliary_data)
    }
}
/// untouched witness-set parts: everything except vkeys (resp. bootstraps) is exactly as before, raw bytes included
pub open spec fn ws_same_except_vkeys(a: FixedTxWitnessesSet, b: FixedTxWitnessesSet) -> bool {
    &&& a.transaction_has_set_tags == b.transaction_has_set_tags
    &&& a.raw_parts == (TransactionWitnessSetRaw { vkeys: a.raw_parts.vkeys, ..b.raw_parts })
    &&& a.tx_witnesses_set == (TransactionWitnessSet { vkeys: a.tx_witnesses_set.vkeys, ..b.tx_witnesses_set })
}
pub open spec fn ws_same_except_bootstraps(a: FixedTxWitnessesSet, b: FixedTxWitnessesSet) -> bool {
    &&& a.transaction_has_set_tags == b.transaction_has_set_tags
    &&& a.raw_parts == (TransactionWitnessSetRaw { bootstraps: a.raw_parts.bootstraps, ..b.raw_parts })
    &&& a.tx_witnesses_set == (TransactionWitnessSet { bootstraps: a.tx_witnesses_set.bootstraps, ..b.tx_witnesses_set })
}
pub open spec fn vk_items(w: FixedTxWitnessesSet) -> Seq<Vkeywitness> { match w.tx_witnesses_set.vkeys { Some(v) => v.items(), None => Seq::empty() } }
pub open spec fn bs_items(w: FixedTxWitnessesSet) -> Seq<BootstrapWitness> { match w.tx_witnesses_set.bootstraps { Some(v) => v.items(), None => Seq::empty() } }
pub open spec fn added<T>(old: Seq<T>, new: Seq<T>, x: T) -> bool { if old.contains(x) { new =~= old } else { new =~= old.push(x) } }
