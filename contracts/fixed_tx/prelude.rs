pub assume_specification<T: Clone> [<[T]>::to_vec](s: &[T]) -> (r: Vec<T>) ensures r@ == s@;
#[verifier::external_body] pub struct DeserializeError { _p: core::marker::PhantomData<u8> }
impl From<DeserializeError> for JsError { #[verifier::external_body] fn from(e: DeserializeError) -> JsError { unimplemented!() } }
opaque_types!(TransactionBody, AuxiliaryData, Vkeywitness, BootstrapWitness, PrivateKey, Bip32PrivateKey, LegacyDaedalusPrivateKey, ByronAddress,
    NativeScripts, PlutusScripts, PlutusList, Redeemers);
pub struct TransactionHash(pub [u8; 32]);
impl Clone for TransactionHash { #[verifier::external_body] fn clone(&self) -> (r: Self) ensures r == *self { unimplemented!() } }
impl From<[u8; 32]> for TransactionHash { #[verifier::external_body] fn from(b: [u8; 32]) -> (r: Self) ensures r.0 == b { unimplemented!() } }
/// Blake2b-256: uninterpreted (only "the hash is the hash of THESE bytes" matters)
pub uninterp spec fn h256(b: Seq<u8>) -> [u8; 32];
#[verifier::external_body] pub fn blake2b256(data: &[u8]) -> (r: [u8; 32]) ensures r == h256(data@) { unimplemented!() }
/// the decoders, as relations between bytes and decoded value
pub uninterp spec fn dec_body(b: Seq<u8>) -> Option<TransactionBody>;
pub uninterp spec fn dec_aux(b: Seq<u8>) -> Option<AuxiliaryData>;
impl TransactionBody {
    #[verifier::external_body] pub fn from_bytes(b: Vec<u8>) -> (r: Result<TransactionBody, DeserializeError>)
        ensures r is Ok ==> dec_body(b@) == Some(r->Ok_0) { unimplemented!() }
}
impl AuxiliaryData {
    #[verifier::external_body] pub fn from_bytes(b: Vec<u8>) -> (r: Result<AuxiliaryData, DeserializeError>)
        ensures r is Ok ==> dec_aux(b@) == Some(r->Ok_0) { unimplemented!() }
}
impl Clone for TransactionBody { #[verifier::external_body] fn clone(&self) -> (r: Self) ensures r == *self { unimplemented!() } }
impl Clone for AuxiliaryData { #[verifier::external_body] fn clone(&self) -> (r: Self) ensures r == *self { unimplemented!() } }
pub enum TransactionSetsState { AllSetsHaveTag, AllSetsHaveNoTag, MixedSets }
pub enum CborSetType { Tagged, Untagged }
#[verifier::external_body] pub fn has_transaction_set_tag_internal(body: &TransactionBody, w: Option<&TransactionWitnessSet>) -> Result<TransactionSetsState, JsError> { unimplemented!() }
// signing: uninterpreted, deterministic in (hash, key[, address])
pub uninterp spec fn spec_vkw(h: TransactionHash, sk: PrivateKey) -> Vkeywitness;
pub uninterp spec fn spec_icarus(h: TransactionHash, a: ByronAddress, k: Bip32PrivateKey) -> BootstrapWitness;
pub uninterp spec fn spec_daedalus(h: TransactionHash, a: ByronAddress, k: LegacyDaedalusPrivateKey) -> BootstrapWitness;
#[verifier::external_body] pub fn make_vkey_witness(h: &TransactionHash, sk: &PrivateKey) -> (r: Vkeywitness) ensures r == spec_vkw(*h, *sk) { unimplemented!() }
#[verifier::external_body] pub fn make_icarus_bootstrap_witness(h: &TransactionHash, a: &ByronAddress, k: &Bip32PrivateKey) -> (r: BootstrapWitness) ensures r == spec_icarus(*h, *a, *k) { unimplemented!() }
#[verifier::external_body] pub fn make_daedalus_bootstrap_witness(h: &TransactionHash, a: &ByronAddress, k: &LegacyDaedalusPrivateKey) -> (r: BootstrapWitness) ensures r == spec_daedalus(*h, *a, *k) { unimplemented!() }

// the two witness collections touched by FixedTxWitnessesSet: element sequence + encoding flags (the `add` contracts are proved in unit dedup_sets)
#[verifier::external_body] pub struct Vkeywitnesses { _p: core::marker::PhantomData<u8> }
#[verifier::external_body] pub struct BootstrapWitnesses { _p: core::marker::PhantomData<u8> }
impl Vkeywitnesses {
    pub uninterp spec fn items(&self) -> Seq<Vkeywitness>;
    pub uninterp spec fn force_orig(&self) -> bool;
    pub uninterp spec fn set_type(&self) -> CborSetType;
    #[verifier::external_body] pub fn new() -> (r: Self) ensures r.items() == Seq::<_>::empty() { unimplemented!() }
    #[verifier::external_body] pub fn add(&mut self, w: &Vkeywitness) -> (r: bool)
        ensures r == !old(self).items().contains(*w), final(self).force_orig() == old(self).force_orig(), final(self).set_type() == old(self).set_type(),
                old(self).items().contains(*w) ==> final(self).items() == old(self).items(),
                !old(self).items().contains(*w) ==> final(self).items() == old(self).items().push(*w) { unimplemented!() }
    #[verifier::external_body] pub fn set_force_original_cbor_set_type(&mut self, f: bool)
        ensures final(self).items() == old(self).items(), final(self).force_orig() == f, final(self).set_type() == old(self).set_type() { unimplemented!() }
    #[verifier::external_body] pub fn set_set_type(&mut self, t: CborSetType)
        ensures final(self).items() == old(self).items(), final(self).force_orig() == old(self).force_orig(), final(self).set_type() == t { unimplemented!() }
}
impl BootstrapWitnesses {
    pub uninterp spec fn items(&self) -> Seq<BootstrapWitness>;
    pub uninterp spec fn force_orig(&self) -> bool;
    pub uninterp spec fn set_type(&self) -> CborSetType;
    #[verifier::external_body] pub fn new() -> (r: Self) ensures r.items() == Seq::<_>::empty() { unimplemented!() }
    #[verifier::external_body] pub fn add(&mut self, w: &BootstrapWitness) -> (r: bool)
        ensures r == !old(self).items().contains(*w), final(self).force_orig() == old(self).force_orig(), final(self).set_type() == old(self).set_type(),
                old(self).items().contains(*w) ==> final(self).items() == old(self).items(),
                !old(self).items().contains(*w) ==> final(self).items() == old(self).items().push(*w) { unimplemented!() }
    #[verifier::external_body] pub fn set_force_original_cbor_set_type(&mut self, f: bool)
        ensures final(self).items() == old(self).items(), final(self).force_orig() == f, final(self).set_type() == old(self).set_type() { unimplemented!() }
    #[verifier::external_body] pub fn set_set_type(&mut self, t: CborSetType)
        ensures final(self).items() == old(self).items(), final(self).force_orig() == old(self).force_orig(), final(self).set_type() == t { unimplemented!() }
}
