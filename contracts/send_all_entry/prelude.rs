// send_all_entry unit (C13): the entry point of the send-all batcher.  The batch tools index the UTxO list BY POSITION; the entry point hands them a list with
// pairwise distinct outpoints (KF-58: a UTxO listed twice was paid out twice).  TxBatchBuilder itself (HashMap-heavy) is not under contract here.
opaque_types!(TransactionInput, TransactionOutput, Address, TransactionBuilderConfig, TransactionBatch);
clone_eq!(TransactionInput, TransactionOutput);
impl PartialEq for TransactionInput { #[verifier::external_body] fn eq(&self, o: &TransactionInput) -> bool { unimplemented!() } }
impl Eq for TransactionInput {}
impl PartialOrd for TransactionInput { #[verifier::external_body] fn partial_cmp(&self, o: &TransactionInput) -> Option<core::cmp::Ordering> { unimplemented!() } }
impl Ord for TransactionInput { #[verifier::external_body] fn cmp(&self, o: &TransactionInput) -> core::cmp::Ordering { unimplemented!() } }
/// derived Ord of TransactionInput (ASSUMED lawful)
pub open spec fn cmp_ok() -> bool { vstd::laws_cmp::obeys_cmp::<TransactionInput>() }
impl Clone for TransactionUnspentOutput { #[verifier::external_body] fn clone(&self) -> (r: Self) ensures r == *self { unimplemented!() } }
pub struct TransactionBatchList(pub Vec<TransactionBatch>);
pub struct TxBatchBuilder { _p: core::marker::PhantomData<u8> }
/// what the batch tools are handed: a list of UTxOs with pairwise distinct outpoints
pub open spec fn distinct_outpoints(s: Seq<TransactionUnspentOutput>) -> bool { forall|i: int, j: int| 0 <= i < j < s.len() ==> s[i].input != s[j].input }
impl TxBatchBuilder {
    #[verifier::external_body] pub fn new(utxos: &TransactionUnspentOutputs, address: &Address, config: &TransactionBuilderConfig) -> (r: Result<TxBatchBuilder, JsError>)
        requires distinct_outpoints(utxos.0@) { unimplemented!() }
    #[verifier::external_body] pub fn build(&mut self, utxos: &TransactionUnspentOutputs) -> (r: Result<TransactionBatch, JsError>)
        requires distinct_outpoints(utxos.0@) { unimplemented!() }
}
