impl Clone for Ed25519KeyHashes { #[verifier::external_body] fn clone(&self) -> (r: Self) ensures r == *self { unimplemented!() } }
pub proof fn lemma_push_set<T>(o: Seq<T>, x: T)
    ensures o.push(x).to_set() =~= o.to_set().insert(x)
{
    let n = o.push(x);
    assert forall|y: T| n.to_set().contains(y) <==> o.to_set().insert(x).contains(y) by {
        if n.contains(y) { let i = choose|i: int| 0 <= i < n.len() && n[i] == y; if i < o.len() { assert(o[i] == y); assert(o.contains(y)); } }
        if o.contains(y) { let i = choose|i: int| 0 <= i < o.len() && o[i] == y; assert(n[i] == y); }
        if y == x { assert(n[o.len() as int] == x); }
    }
}
pub proof fn lemma_push_nodup<T>(o: Seq<T>, x: T)
    requires o.no_duplicates(), !o.contains(x)
    ensures o.push(x).no_duplicates()
{
    let n = o.push(x);
    assert forall|i: int, j: int| 0 <= i < n.len() && 0 <= j < n.len() && i != j implies n[i] != n[j] by {
        if i < o.len() && j < o.len() { assert(o[i] != o[j]); }
        else if i < o.len() { assert(o.contains(o[i])); }
        else if j < o.len() { assert(o.contains(o[j])); }
    }
}
pub proof fn lemma_insert_same<T>(s: Set<T>, x: T) requires s.contains(x) ensures s.insert(x) == s { assert(s.insert(x) =~= s); }
/// all three facts needed around one `if dedup.insert(x) { vec.push(x) }` step
pub proof fn lemma_step<T>(v: Seq<T>, s: Set<T>, x: T)
    requires v.no_duplicates(), s == v.to_set()
    ensures s.contains(x) <==> v.contains(x),
            s.contains(x) ==> s.insert(x) == s,
            !v.contains(x) ==> v.push(x).no_duplicates() && s.insert(x) == v.push(x).to_set(),
{
    if s.contains(x) { lemma_insert_same(s, x); }
    lemma_push_set(v, x);
    if !v.contains(x) { lemma_push_nodup(v, x); }
}
/// first-insertion order: appending b's elements to a one by one, skipping those already present
pub open spec fn dedup_append<T>(a: Seq<T>, b: Seq<T>) -> Seq<T> decreases b.len() {
    if b.len() == 0 { a } else { let p = dedup_append(a, b.drop_last()); if p.contains(b.last()) { p } else { p.push(b.last()) } }
}
pub proof fn lemma_dedup_append_step<T>(a: Seq<T>, b: Seq<T>, i: int)
    requires 0 <= i < b.len()
    ensures dedup_append(a, b.take(i + 1)) == (if dedup_append(a, b.take(i)).contains(b[i]) { dedup_append(a, b.take(i)) } else { dedup_append(a, b.take(i)).push(b[i]) })
{ assert(b.take(i + 1).drop_last() =~= b.take(i)); }
pub proof fn lemma_dedup_append_set<T>(a: Seq<T>, b: Seq<T>)
    requires a.no_duplicates()
    ensures dedup_append(a, b).no_duplicates(), dedup_append(a, b).to_set() =~= a.to_set() + b.to_set()
    decreases b.len()
{
    if b.len() > 0 {
        let p = dedup_append(a, b.drop_last());
        lemma_dedup_append_set(a, b.drop_last());
        lemma_push_set(p, b.last());
        if !p.contains(b.last()) { lemma_push_nodup(p, b.last()); }
        lemma_push_set(b.drop_last(), b.last());
        assert(b.drop_last().push(b.last()) =~= b);
    }
}
impl Ed25519KeyHashes {
    /// C16 representation invariant: the vector holds no element twice and the index set is exactly its element set
    pub open spec fn wf(&self) -> bool {
        &&& self.keyhashes@.no_duplicates()
        &&& self.dedup@ == self.keyhashes@.to_set()
    }
}
pub open spec fn key_model_ok() -> bool { vstd::std_specs::hash::obeys_key_model::<Rc<Ed25519KeyHash>>() }
pub open spec fn rcs(s: Seq<Ed25519KeyHash>) -> Seq<Rc<Ed25519KeyHash>> { s.map_values(|x: Ed25519KeyHash| Rc::new(x)) }
