/// k items decoded one after the other: (the items, tokens consumed)
pub open spec fn dec_items<T: De>(rem: Seq<Tok>, k: nat) -> Option<(Seq<T>, int)> decreases k {
    if k == 0 { Some((Seq::empty(), 0)) } else {
        match T::dec(rem) {
            Some((x, n)) => if 0 <= n <= rem.len() { match dec_items::<T>(rem.skip(n), (k - 1) as nat) { Some((xs, m)) => Some((seq![x] + xs, n + m)), None => None } } else { None },
            None => None,
        }
    }
}
/// definite-length array of T (what the encoders write)
pub open spec fn arr_decs<T: De>(rem: Seq<Tok>) -> Option<(Seq<T>, int)> {
    if rem.len() > 0 && rem[0] is Arr { match dec_items::<T>(rem.skip(1), rem[0]->Arr_0 as nat) { Some((xs, m)) => Some((xs, 1 + m)), None => None } } else { None }
}
pub open spec fn flat<T: Ser>(s: Seq<T>) -> Seq<Tok> decreases s.len() { if s.len() == 0 { Seq::empty() } else { flat(s.drop_last()) + s.last().enc() } }
pub proof fn lemma_flat_front<T: Ser>(s: Seq<T>)
    requires s.len() > 0
    ensures flat(s) =~= s[0].enc() + flat(s.skip(1))
    decreases s.len()
{
    if s.len() == 1 {
        assert(s.drop_last() =~= Seq::<T>::empty());
        assert(s.skip(1) =~= Seq::<T>::empty());
        assert(flat(s.drop_last()) =~= Seq::<Tok>::empty());
    } else {
        lemma_flat_front(s.drop_last());
        assert(s.drop_last().skip(1) =~= s.skip(1).drop_last());
        assert(s.drop_last()[0] == s[0]);
        assert(s.skip(1).last() == s.last());
    }
}
pub proof fn lemma_items_rt<T: RoundTrip>(s: Seq<T>, rest: Seq<Tok>)
    ensures dec_items::<T>(flat(s) + rest, s.len()) == Some((s, flat(s).len() as int))
    decreases s.len()
{
    if s.len() == 0 {
        assert(flat(s) =~= Seq::<Tok>::empty());
    } else {
        lemma_flat_front(s);
        let tail = flat(s.skip(1)) + rest;
        T::lemma_rt(s[0], tail);
        assert(s[0].enc() + tail =~= flat(s) + rest);
        assert((flat(s) + rest).skip(s[0].enc().len() as int) =~= tail);
        lemma_items_rt::<T>(s.skip(1), rest);
        assert(seq![s[0]] + s.skip(1) =~= s);
        assert(flat(s).len() == s[0].enc().len() + flat(s.skip(1)).len());
    }
}
pub open spec fn Relays_enc(x: Relays) -> Seq<Tok> { seq![Tok::Arr(x.0@.len() as u64)] + flat(x.0@) }
/// C01 for Relays: what the encoder writes decodes to the same elements, whatever follows
pub proof fn lemma_Relays_rt(x: Relays, rest: Seq<Tok>)
    requires x.0@.len() <= u64::MAX
    ensures arr_decs::<Relay>(x.enc() + rest) == Some((x.0@, x.enc().len() as int))
{
    assert(x.enc() =~= Relays_enc(x));
    let rem = x.enc() + rest;
    assert(rem[0] == Tok::Arr(x.0@.len() as u64));
    assert(rem.skip(1) =~= flat(x.0@) + rest);
    lemma_items_rt::<Relay>(x.0@, rest);
}
pub open spec fn RewardAddresses_enc(x: RewardAddresses) -> Seq<Tok> { seq![Tok::Arr(x.0@.len() as u64)] + flat(x.0@) }
/// C01 for RewardAddresses: what the encoder writes decodes to the same elements, whatever follows
pub proof fn lemma_RewardAddresses_rt(x: RewardAddresses, rest: Seq<Tok>)
    requires x.0@.len() <= u64::MAX
    ensures arr_decs::<RewardAddress>(x.enc() + rest) == Some((x.0@, x.enc().len() as int))
{
    assert(x.enc() =~= RewardAddresses_enc(x));
    let rem = x.enc() + rest;
    assert(rem[0] == Tok::Arr(x.0@.len() as u64));
    assert(rem.skip(1) =~= flat(x.0@) + rest);
    lemma_items_rt::<RewardAddress>(x.0@, rest);
}
pub open spec fn GenesisHashes_enc(x: GenesisHashes) -> Seq<Tok> { seq![Tok::Arr(x.0@.len() as u64)] + flat(x.0@) }
/// C01 for GenesisHashes: what the encoder writes decodes to the same elements, whatever follows
pub proof fn lemma_GenesisHashes_rt(x: GenesisHashes, rest: Seq<Tok>)
    requires x.0@.len() <= u64::MAX
    ensures arr_decs::<GenesisHash>(x.enc() + rest) == Some((x.0@, x.enc().len() as int))
{
    assert(x.enc() =~= GenesisHashes_enc(x));
    let rem = x.enc() + rest;
    assert(rem[0] == Tok::Arr(x.0@.len() as u64));
    assert(rem.skip(1) =~= flat(x.0@) + rest);
    lemma_items_rt::<GenesisHash>(x.0@, rest);
}
pub open spec fn ScriptHashes_enc(x: ScriptHashes) -> Seq<Tok> { seq![Tok::Arr(x.0@.len() as u64)] + flat(x.0@) }
/// C01 for ScriptHashes: what the encoder writes decodes to the same elements, whatever follows
pub proof fn lemma_ScriptHashes_rt(x: ScriptHashes, rest: Seq<Tok>)
    requires x.0@.len() <= u64::MAX
    ensures arr_decs::<ScriptHash>(x.enc() + rest) == Some((x.0@, x.enc().len() as int))
{
    assert(x.enc() =~= ScriptHashes_enc(x));
    let rem = x.enc() + rest;
    assert(rem[0] == Tok::Arr(x.0@.len() as u64));
    assert(rem.skip(1) =~= flat(x.0@) + rest);
    lemma_items_rt::<ScriptHash>(x.0@, rest);
}
pub open spec fn AssetNames_enc(x: AssetNames) -> Seq<Tok> { seq![Tok::Arr(x.0@.len() as u64)] + flat(x.0@) }
/// C01 for AssetNames: what the encoder writes decodes to the same elements, whatever follows
pub proof fn lemma_AssetNames_rt(x: AssetNames, rest: Seq<Tok>)
    requires x.0@.len() <= u64::MAX
    ensures arr_decs::<AssetName>(x.enc() + rest) == Some((x.0@, x.enc().len() as int))
{
    assert(x.enc() =~= AssetNames_enc(x));
    let rem = x.enc() + rest;
    assert(rem[0] == Tok::Arr(x.0@.len() as u64));
    assert(rem.skip(1) =~= flat(x.0@) + rest);
    lemma_items_rt::<AssetName>(x.0@, rest);
}
pub open spec fn TransactionMetadatumLabels_enc(x: TransactionMetadatumLabels) -> Seq<Tok> { seq![Tok::Arr(x.0@.len() as u64)] + flat(x.0@) }
/// C01 for TransactionMetadatumLabels: what the encoder writes decodes to the same elements, whatever follows
pub proof fn lemma_TransactionMetadatumLabels_rt(x: TransactionMetadatumLabels, rest: Seq<Tok>)
    requires x.0@.len() <= u64::MAX
    ensures arr_decs::<TransactionMetadatumLabel>(x.enc() + rest) == Some((x.0@, x.enc().len() as int))
{
    assert(x.enc() =~= TransactionMetadatumLabels_enc(x));
    let rem = x.enc() + rest;
    assert(rem[0] == Tok::Arr(x.0@.len() as u64));
    assert(rem.skip(1) =~= flat(x.0@) + rest);
    lemma_items_rt::<TransactionMetadatumLabel>(x.0@, rest);
}
