// GENERATED: element types (own codecs not under contract here; round trip ASSUMED per type)
ser_opaque!(AssetName, GenesisHash, Relay, RewardAddress, ScriptHash, TransactionMetadatumLabel);
de_opaque!(AssetName, GenesisHash, Relay, RewardAddress, ScriptHash, TransactionMetadatumLabel);
