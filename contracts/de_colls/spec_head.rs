/// k items decoded one after the other: (the items, tokens consumed)
pub open spec fn dec_items<T: De>(rem: Seq<Tok>, k: nat) -> Option<(Seq<T>, int)> decreases k {
    if k == 0 { Some((Seq::empty(), 0)) } else {
        match T::dec(rem) {
            Some((x, n)) => if 0 <= n <= rem.len() { match dec_items::<T>(rem.skip(n), (k - 1) as nat) { Some((xs, m)) => Some((seq![x] + xs, n + m)), None => None } } else { None },
            None => None,
        }
    }
}
/// definite-length array of T (what the encoders write)
pub open spec fn arr_decs<T: De>(rem: Seq<Tok>) -> Option<(Seq<T>, int)> {
    if rem.len() > 0 && rem[0] is Arr { match dec_items::<T>(rem.skip(1), rem[0]->Arr_0 as nat) { Some((xs, m)) => Some((xs, 1 + m)), None => None } } else { None }
}
pub open spec fn flat<T: Ser>(s: Seq<T>) -> Seq<Tok> decreases s.len() { if s.len() == 0 { Seq::empty() } else { flat(s.drop_last()) + s.last().enc() } }
pub proof fn lemma_flat_front<T: Ser>(s: Seq<T>)
    requires s.len() > 0
    ensures flat(s) =~= s[0].enc() + flat(s.skip(1))
    decreases s.len()
{
    if s.len() == 1 {
        assert(s.drop_last() =~= Seq::<T>::empty());
        assert(s.skip(1) =~= Seq::<T>::empty());
        assert(flat(s.drop_last()) =~= Seq::<Tok>::empty());
    } else {
        lemma_flat_front(s.drop_last());
        assert(s.drop_last().skip(1) =~= s.skip(1).drop_last());
        assert(s.drop_last()[0] == s[0]);
        assert(s.skip(1).last() == s.last());
    }
}
pub proof fn lemma_items_rt<T: RoundTrip>(s: Seq<T>, rest: Seq<Tok>)
    ensures dec_items::<T>(flat(s) + rest, s.len()) == Some((s, flat(s).len() as int))
    decreases s.len()
{
    if s.len() == 0 {
        assert(flat(s) =~= Seq::<Tok>::empty());
    } else {
        lemma_flat_front(s);
        let tail = flat(s.skip(1)) + rest;
        T::lemma_rt(s[0], tail);
        assert(s[0].enc() + tail =~= flat(s) + rest);
        assert((flat(s) + rest).skip(s[0].enc().len() as int) =~= tail);
        lemma_items_rt::<T>(s.skip(1), rest);
        assert(seq![s[0]] + s.skip(1) =~= s);
        assert(flat(s).len() == s[0].enc().len() + flat(s.skip(1)).len());
    }
}
