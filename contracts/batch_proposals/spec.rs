/// ada promised to the first n outputs of a proposal
pub open spec fn outputs_ada(o: Seq<TxOutputProposal>, n: int) -> int decreases n { if n <= 0 { 0 } else { outputs_ada(o, n - 1) + o[n - 1].total_ada.0 } }
pub proof fn lemma_outputs_ada_nonneg(o: Seq<TxOutputProposal>, n: int) ensures outputs_ada(o, n) >= 0 decreases n { if n > 0 { lemma_outputs_ada_nonneg(o, n - 1); } }
/// replacing the last output changes the total by the difference of its ada
pub proof fn lemma_outputs_ada_update_last(o: Seq<TxOutputProposal>, p: Seq<TxOutputProposal>, n: int)
    requires o.len() == p.len(), 0 <= n <= o.len(), forall|i: int| 0 <= i < o.len() - 1 ==> o[i] == p[i]
    ensures n < o.len() ==> outputs_ada(o, n) == outputs_ada(p, n),
            n == o.len() && n > 0 ==> outputs_ada(p, n) == outputs_ada(o, n) - o[n - 1].total_ada.0 + p[n - 1].total_ada.0
    decreases n
{ if n > 0 { lemma_outputs_ada_update_last(o, p, n - 1); } }
pub proof fn lemma_outputs_ada_mono(o: Seq<TxOutputProposal>, n: int, m: int) requires 0 <= n <= m ensures outputs_ada(o, n) <= outputs_ada(o, m) decreases m
{ if n < m { lemma_outputs_ada_mono(o, n, m - 1); } }
