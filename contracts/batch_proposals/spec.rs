/// ada promised to the first n outputs of a proposal
pub open spec fn outputs_ada(o: Seq<TxOutputProposal>, n: int) -> int decreases n { if n <= 0 { 0 } else { outputs_ada(o, n - 1) + o[n - 1].total_ada.0 } }
pub proof fn lemma_outputs_ada_nonneg(o: Seq<TxOutputProposal>, n: int) ensures outputs_ada(o, n) >= 0 decreases n { if n > 0 { lemma_outputs_ada_nonneg(o, n - 1); } }
/// replacing the last output changes the total by the difference of its ada
pub proof fn lemma_outputs_ada_update_last(o: Seq<TxOutputProposal>, p: Seq<TxOutputProposal>, n: int)
    requires o.len() == p.len(), 0 <= n <= o.len(), forall|i: int| 0 <= i < o.len() - 1 ==> o[i] == p[i]
    ensures n < o.len() ==> outputs_ada(o, n) == outputs_ada(p, n),
            n == o.len() && n > 0 ==> outputs_ada(p, n) == outputs_ada(o, n) - o[n - 1].total_ada.0 + p[n - 1].total_ada.0
    decreases n
{ if n > 0 { lemma_outputs_ada_update_last(o, p, n - 1); } }
pub proof fn lemma_outputs_ada_mono(o: Seq<TxOutputProposal>, n: int, m: int) requires 0 <= n <= m ensures outputs_ada(o, n) <= outputs_ada(o, m) decreases m
{ if n < m { lemma_outputs_ada_mono(o, n, m - 1); } }
pub open spec fn outs_size(o: Seq<TxOutputProposal>, n: int) -> int decreases n { if n <= 0 { 0 } else { outs_size(o, n - 1) + o[n - 1].size } }
pub open spec fn ins_size(sizes: Seq<usize>, u: Seq<UtxoIndex>, n: int) -> int decreases n { if n <= 0 { 0 } else { ins_size(sizes, u, n - 1) + sizes[u[n - 1].0 as int] } }
pub open spec fn tx_size_spec(c: AssetCategorizer, p: TxProposal, with_fee: bool) -> int {
    3 + CborCalculator::body_size(p.used_body_fields) + p.witnesses_calculator.full()
      + (if p.tx_output_proposals@.len() > 0 { uint_len(p.tx_output_proposals@.len() as u64) + outs_size(p.tx_output_proposals@, p.tx_output_proposals@.len() as int) } else { 0 })
      + (if with_fee { uint_len(p.fee.0) as int } else { 0 })
      + uint_len(p.used_utoxs.order().len() as u64) + ins_size(c.inputs_sizes@, p.used_utoxs.order(), p.used_utoxs.order().len() as int)
}
pub proof fn lemma_outs_mono(o: Seq<TxOutputProposal>, n: int, m: int) requires 0 <= n <= m ensures 0 <= outs_size(o, n) <= outs_size(o, m) decreases m
{ if m > 0 { if n < m { lemma_outs_mono(o, n, m - 1); } else { lemma_outs_mono(o, n - 1, m - 1); } } }
pub proof fn lemma_ins_mono(sizes: Seq<usize>, u: Seq<UtxoIndex>, n: int, m: int) requires 0 <= n <= m ensures 0 <= ins_size(sizes, u, n) <= ins_size(sizes, u, m) decreases m
{ if m > 0 { if n < m { lemma_ins_mono(sizes, u, n, m - 1); } else { lemma_ins_mono(sizes, u, n - 1, m - 1); } } }

/// C13 (KF-57): what the LAST output of a proposal will hold once add_last_ada_to_last_output has swept the rest into it and the fee f is paid:
/// everything the inputs bring, minus the other outputs, minus the fee - never below the output's own minimum.  Written from the property (balanced,
/// minimum fee for the REAL size), not from the code.
pub open spec fn others_ada(p: TxProposal) -> int { outputs_ada(p.tx_output_proposals@, p.tx_output_proposals@.len() as int) - p.tx_output_proposals@.last().total_ada.0 }
pub open spec fn last_coin_after_fee(p: TxProposal, f: u64) -> int {
    let avail = if p.total_ada.0 >= others_ada(p) { p.total_ada.0 - others_ada(p) } else { 0 };
    let d = if avail >= p.tx_output_proposals@.last().total_ada.0 { avail } else { p.tx_output_proposals@.last().total_ada.0 as int };
    let r = if d >= f { d - f } else { 0 };
    if r < p.tx_output_proposals@.last().min_ada.0 { p.tx_output_proposals@.last().min_ada.0 as int } else { r }
}
