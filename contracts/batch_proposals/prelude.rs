pub type Coin = BigNum;
clone_eq!(AssetIndex, PolicyIndex, UtxoIndex);
opaque_types!(Address);
clone_eq!(Address);
/// the witness-size calculator of a proposal (WitnessesCalculator::add_address is under contract in unit batch_calc); here only that it is called
#[verifier::external_body] pub struct WitnessesCalculator { _p: core::marker::PhantomData<u8> }
impl WitnessesCalculator {
    pub uninterp spec fn added(&self) -> Seq<Address>;
    #[verifier::external_body] pub fn new() -> (r: Self) ensures r.added().len() == 0 { unimplemented!() }
    #[verifier::external_body] pub fn add_address(&mut self, address: &Address) -> (r: Result<(), JsError>)
        ensures r is Ok ==> final(self).added() == old(self).added().push(*address), r is Err ==> final(self).added() == old(self).added() { unimplemented!() }
}
// ---- what TxProposal::create_tx assembles: only which inputs / outputs / fee go into the body matters here
opaque_types!(TransactionInput, TransactionWitnessSet, AssetCategorizer, Value);
clone_eq!(TransactionInput);
#[verifier::external_body] pub struct TransactionOutput { _p: core::marker::PhantomData<u8> }
pub struct TransactionUnspentOutput { pub input: TransactionInput, pub output: TransactionOutput }
pub struct TransactionUnspentOutputs(pub Vec<TransactionUnspentOutput>);
pub struct TransactionOutputs(pub Vec<TransactionOutput>);
#[verifier::external_body] pub struct TransactionInputs { _p: core::marker::PhantomData<u8> }
impl TransactionInputs {
    pub uninterp spec fn items(&self) -> Seq<TransactionInput>;
    /// (from_vec drops repeated inputs: unit dedup_tx_inputs; here the inputs are distinct UTxO indexes)
    #[verifier::external_body] pub fn from_vec(v: Vec<TransactionInput>) -> (r: Self) ensures r.items() == v@ { unimplemented!() }
}
pub struct TransactionBody { pub inputs: TransactionInputs, pub outputs: TransactionOutputs, pub fee: Coin, pub ttl: Option<u32> }
impl TransactionBody {
    #[verifier::external_body] pub fn new(inputs: &TransactionInputs, outputs: &TransactionOutputs, fee: &Coin, ttl: Option<u32>) -> (r: Self)
        ensures r.inputs.items() == inputs.items(), r.outputs.0@ == outputs.0@, r.fee == *fee, r.ttl == ttl { unimplemented!() }
}
#[verifier::external_body] pub struct AuxiliaryData { _p: core::marker::PhantomData<u8> }
pub struct Transaction { pub body: TransactionBody, pub witness_set: TransactionWitnessSet, pub aux_present: bool }
impl Transaction {
    #[verifier::external_body] pub fn new(body: &TransactionBody, witness_set: &TransactionWitnessSet, auxiliary_data: Option<AuxiliaryData>) -> (r: Self)
        ensures r.body.inputs.items() == body.inputs.items(), r.body.outputs.0@ == body.outputs.0@, r.body.fee == body.fee, r.body.ttl == body.ttl, r.aux_present == (auxiliary_data is Some) { unimplemented!() }
}
impl WitnessesCalculator {
    #[verifier::external_body] pub fn create_mock_witnesses_set(&self) -> (r: TransactionWitnessSet) { unimplemented!() }
}
impl TxOutputProposal {
    /// the real output of a proposal (address + AssetCategorizer::build_value): not under contract here
    pub uninterp spec fn output_of(&self, asset_groups: AssetCategorizer, used: Set<UtxoIndex>) -> TransactionOutput;
    #[verifier::external_body] pub fn create_output(&self, asset_groups: &AssetCategorizer, used_utxos: &HashSet<UtxoIndex>) -> (r: Result<TransactionOutput, JsError>)
        ensures r is Ok ==> r->Ok_0 == self.output_of(*asset_groups, used_utxos@) { unimplemented!() }
}
