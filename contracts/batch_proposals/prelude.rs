pub type Coin = BigNum;
clone_eq!(AssetIndex, PolicyIndex, UtxoIndex);
opaque_types!(Address);
clone_eq!(Address);
/// the witness-size calculator of a proposal (WitnessesCalculator::add_address is under contract in unit batch_calc); here only that it is called
#[verifier::external_body] pub struct WitnessesCalculator { _p: core::marker::PhantomData<u8> }
impl WitnessesCalculator {
    pub uninterp spec fn added(&self) -> Seq<Address>;
    #[verifier::external_body] pub fn new() -> (r: Self) ensures r.added().len() == 0 { unimplemented!() }
    #[verifier::external_body] pub fn add_address(&mut self, address: &Address) -> (r: Result<(), JsError>)
        ensures r is Ok ==> final(self).added() == old(self).added().push(*address), r is Err ==> final(self).added() == old(self).added() { unimplemented!() }
}
// ---- what TxProposal::create_tx assembles: only which inputs / outputs / fee go into the body matters here
opaque_types!(TransactionInput, TransactionWitnessSet, Value);
clone_eq!(TransactionInput);
#[verifier::external_body] pub struct TransactionOutput { _p: core::marker::PhantomData<u8> }
pub struct TransactionUnspentOutput { pub input: TransactionInput, pub output: TransactionOutput }
pub struct TransactionUnspentOutputs(pub Vec<TransactionUnspentOutput>);
pub struct TransactionOutputs(pub Vec<TransactionOutput>);
#[verifier::external_body] pub struct TransactionInputs { _p: core::marker::PhantomData<u8> }
impl TransactionInputs {
    pub uninterp spec fn items(&self) -> Seq<TransactionInput>;
    /// (from_vec drops repeated inputs: unit dedup_tx_inputs; here the inputs are distinct UTxO indexes)
    #[verifier::external_body] pub fn from_vec(v: Vec<TransactionInput>) -> (r: Self) ensures r.items() == v@ { unimplemented!() }
}
pub struct TransactionBody { pub inputs: TransactionInputs, pub outputs: TransactionOutputs, pub fee: Coin, pub ttl: Option<u32> }
impl TransactionBody {
    #[verifier::external_body] pub fn new(inputs: &TransactionInputs, outputs: &TransactionOutputs, fee: &Coin, ttl: Option<u32>) -> (r: Self)
        ensures r.inputs.items() == inputs.items(), r.outputs.0@ == outputs.0@, r.fee == *fee, r.ttl == ttl { unimplemented!() }
}
#[verifier::external_body] pub struct AuxiliaryData { _p: core::marker::PhantomData<u8> }
pub struct Transaction { pub body: TransactionBody, pub witness_set: TransactionWitnessSet, pub aux_present: bool }
impl Transaction {
    #[verifier::external_body] pub fn new(body: &TransactionBody, witness_set: &TransactionWitnessSet, auxiliary_data: Option<AuxiliaryData>) -> (r: Self)
        ensures r.body.inputs.items() == body.inputs.items(), r.body.outputs.0@ == body.outputs.0@, r.body.fee == body.fee, r.body.ttl == body.ttl, r.aux_present == (auxiliary_data is Some) { unimplemented!() }
}
impl WitnessesCalculator {
    #[verifier::external_body] pub fn create_mock_witnesses_set(&self) -> (r: TransactionWitnessSet) { unimplemented!() }
}
impl TxOutputProposal {
    /// the real output of a proposal (address + AssetCategorizer::build_value): not under contract here
    pub uninterp spec fn output_of(&self, asset_groups: AssetCategorizer, used: Set<UtxoIndex>) -> TransactionOutput;
    #[verifier::external_body] pub fn create_output(&self, asset_groups: &AssetCategorizer, used_utxos: &HashSet<UtxoIndex>) -> (r: Result<TransactionOutput, JsError>)
        ensures r is Ok ==> r->Ok_0 == self.output_of(*asset_groups, used_utxos@) { unimplemented!() }
}
// ---- the categorizer as far as try_append_pure_ada_utxo / get_tx_proposal_size look at it
opaque_types!(AssetsCalculatorO, PlaneAssetId, PolicyID, LinearFeeO, DataCostO, ExUnitPricesO, UnitIntervalO, AmountsO, FreeMapsO);
clone_eq!(TxProposal);

/// the protocol parameters the batcher reads
pub struct TransactionBuilderConfig { pub max_tx_size: u32, pub max_value_size: u32, pub fee_algo: LinearFee, pub rest: LinearFeeO }
#[verifier::external_body] pub struct LinearFee { _p: core::marker::PhantomData<u8> }
impl LinearFee { pub uninterp spec fn a(&self) -> nat; pub uninterp spec fn b(&self) -> nat; }
/// what is left for the last output once the fee is paid, never below its minimum (unit batch_calc: dep_remain)
pub open spec fn dep_remain(d: u64, cost: u64, min_dep: Option<BigNum>) -> u64 {
    let r = if d >= cost { (d - cost) as u64 } else { 0u64 };
    match min_dep { Some(m) => if r < m.0 { m.0 } else { r }, None => r }
}
pub struct CborCalculator();
pub open spec fn uint_len(c: u64) -> nat { if c <= 23 { 1 } else if c < 0x100 { 2 } else if c < 0x10000 { 3 } else if c < 0x1_0000_0000 { 5 } else { 9 } }
impl CborCalculator {
    /// (unit batch_sizes / batch_calc: proved there with these contracts)
    pub uninterp spec fn body_size(f: HashSet<TxBodyNames>) -> nat;
    #[verifier::external_body] pub fn get_bare_tx_size(has_auxiliary: bool) -> (r: usize) ensures r == 2 + (if has_auxiliary { 0int } else { 1 }) { unimplemented!() }
    #[verifier::external_body] pub fn get_bare_tx_body_size(body_fields: &HashSet<TxBodyNames>) -> (r: usize) ensures r == Self::body_size(*body_fields), r <= 0xffff { unimplemented!() }
    #[verifier::external_body] pub fn get_struct_size(items_count: u64) -> (r: usize) ensures r == uint_len(items_count) { unimplemented!() }
    #[verifier::external_body] pub fn get_coin_size(coin: &Coin) -> (r: usize) ensures r == uint_len(coin.0) { unimplemented!() }
    /// the fee fixed point (PROVED in unit batch_calc with exactly this contract)
    #[verifier::external_body] pub fn estimate_fee(tx_size_without_fee: usize, min_dependable_amount: Option<Coin>, dependable_amount: Option<Coin>, fee_algo: &LinearFee) -> (r: Result<(Coin, usize), JsError>)
        requires tx_size_without_fee <= u32::MAX
        ensures r is Ok ==> ({ let f = r->Ok_0.0.0; let sz = r->Ok_0.1;
            &&& f == sz * fee_algo.a() + fee_algo.b()
            &&& sz >= tx_size_without_fee + uint_len(f) + (match dependable_amount { Some(d) => uint_len(dep_remain(d.0, f, min_dependable_amount)), None => 0 }) }) { unimplemented!() }
}
impl WitnessesCalculator {
    pub uninterp spec fn full(&self) -> nat;
    #[verifier::external_body] pub fn get_full_size(&self) -> (r: usize) ensures r == self.full() { unimplemented!() }
}
impl AssetCategorizer {
    /// asset_categorizer.rs set_min_ada_for_tx (recalculate_outputs through iter_mut + estimate_fee: not under contract): it leaves the proposal's inputs
    /// alone and returns the size of the proposal AS IT LEAVES IT (`sized`: uninterpreted, the size model get_tx_proposal_size computes)
    pub uninterp spec fn sized(&self, p: TxProposal) -> nat;
    #[verifier::external_body] pub fn set_min_ada_for_tx(&self, tx_proposal: &mut TxProposal) -> (r: Result<usize, JsError>)
        ensures r is Ok ==> r->Ok_0 == self.sized(*final(tx_proposal)), final(tx_proposal).used_utoxs == old(tx_proposal).used_utoxs,
                final(tx_proposal).tx_output_proposals@.len() == old(tx_proposal).tx_output_proposals@.len(), final(tx_proposal).total_ada == old(tx_proposal).total_ada { unimplemented!() }
    /// picks unused pure-ada UTxOs (from the free list: indexes of real UTxOs) until the amount is covered
    #[verifier::external_body] pub fn get_next_pure_ada_utxo_by_amount(&self, need_ada: &Coin, ignore_list: &HashSet<UtxoIndex>) -> (r: Result<Vec<(UtxoIndex, Coin)>, JsError>)
        ensures r is Ok ==> forall|i: int| 0 <= i < r->Ok_0@.len() ==> (#[trigger] r->Ok_0@[i]).0.0 < self.addresses@.len() { unimplemented!() }
}
/// `set.into_iter().collect()` (R-collect): the elements, each once
#[verifier::external_body] pub fn hashset_into_vec_(s: HashSet<UtxoIndex>) -> (r: Vec<UtxoIndex>) ensures r@.to_set() == s@, r@.no_duplicates() { unimplemented!() }
// derived Ord of BigNum(u64) = integer order
impl vstd::std_specs::cmp::PartialOrdSpecImpl for BigNum {
    open spec fn obeys_partial_cmp_spec() -> bool { true }
    open spec fn partial_cmp_spec(&self, other: &BigNum) -> Option<core::cmp::Ordering> {
        if self.0 < other.0 { Some(core::cmp::Ordering::Less) } else if self.0 == other.0 { Some(core::cmp::Ordering::Equal) } else { Some(core::cmp::Ordering::Greater) }
    }
}
impl PartialOrd for BigNum { #[verifier::external_body] fn partial_cmp(&self, o: &BigNum) -> (r: Option<core::cmp::Ordering>) { unimplemented!() } }

/// std::cmp::max on BigNum (derived Ord of a u64 newtype: the numeric order; R-max)
#[verifier::external_body] pub fn bn_max_(a: BigNum, b: BigNum) -> (r: BigNum) ensures r.0 == (if a.0 >= b.0 { a.0 } else { b.0 }) { unimplemented!() }
