// ---------------------------------------------------------------------------------------------------------
// value_add unit: Value::checked_add on its real text.  MultiAsset / Assets are the real tuple structs over the OMap model of BTreeMap
// (finite map, iteration order = every entry once, get_mut hands out a mutable borrow of the stored value: ASSUMED std semantics).
// The Entry API is rewritten to contains_key / get_mut / insert by its definition (R-entry).
// ---------------------------------------------------------------------------------------------------------
opaque_types!(AssetName, ScriptHash);
pub type PolicyID = ScriptHash;
pub type Coin = BigNum;
clone_eq!(AssetName, ScriptHash);
impl Clone for Assets { #[verifier::external_body] fn clone(&self) -> (r: Self) ensures r == *self { unimplemented!() } }
impl Clone for MultiAsset { #[verifier::external_body] fn clone(&self) -> (r: Self) ensures r == *self { unimplemented!() } }
