// ---------------------------------------------------------------------------------------------------------
// value_add unit: Value::checked_add on its real text.  MultiAsset / Assets are the real tuple structs over the OMap model of BTreeMap
// (finite map, iteration order = every entry once, get_mut hands out a mutable borrow of the stored value: ASSUMED std semantics).
// The Entry API is rewritten to contains_key / get_mut / insert by its definition (R-entry).
// ---------------------------------------------------------------------------------------------------------
opaque_types!(AssetName, ScriptHash);
pub type PolicyID = ScriptHash;
pub type Coin = BigNum;
clone_eq!(AssetName, ScriptHash);
impl Clone for Assets { #[verifier::external_body] fn clone(&self) -> (r: Self) ensures r == *self { unimplemented!() } }
impl Clone for MultiAsset { #[verifier::external_body] fn clone(&self) -> (r: Self) ensures r == *self { unimplemented!() } }

/// `m.entry(k).or_default()` on the policy map (R-entryordefault): the bundle stored under k - an EMPTY one is put there first when k is new - handed out as a
/// mutable borrow; the map afterwards holds whatever the borrow was left at
#[verifier::external_body] pub fn omap_or_default_assets_(m: &mut OMap<PolicyID, Assets>, k: PolicyID) -> (r: &mut Assets)
    ensures r.0@ == (if old(m)@.contains_key(k) { old(m)@[k].0@ } else { Map::<AssetName, BigNum>::empty() }),
            final(m)@ == old(m)@.insert(k, *final(r)) { unimplemented!() }
