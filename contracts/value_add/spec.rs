pub type PM = Map<PolicyID, Assets>;
/// quantity of (policy, asset name), 0 if absent
pub open spec fn q2(m: PM, p: PolicyID, a: AssetName) -> nat { if m.contains_key(p) && m[p].0@.contains_key(a) { m[p].0@[a].0 as nat } else { 0 } }
pub open spec fn vq(v: Value, p: PolicyID, a: AssetName) -> nat { match v.multiasset { Some(ma) => q2(ma.0@, p, a), None => 0 } }
/// k is among the first n keys of an entry sequence
pub open spec fn has_key<K, V>(s: Seq<(K, V)>, k: K, n: int) -> bool decreases n { n > 0 && (s[n - 1].0 == k || has_key(s, k, n - 1)) }
pub proof fn lemma_has_key_fresh<K, V>(s: Seq<(K, V)>, i: int, n: int)
    requires 0 <= n <= i < s.len(), forall|x: int, y: int| 0 <= x < y < s.len() ==> s[x].0 != s[y].0
    ensures !has_key(s, s[i].0, n) decreases n
{ if n > 0 { lemma_has_key_fresh(s, i, n - 1); } }
pub proof fn lemma_has_key_all<K, V>(s: Seq<(K, V)>, k: K, n: int)
    requires 0 <= n <= s.len()
    ensures has_key(s, k, n) <==> exists|i: int| 0 <= i < n && (#[trigger] s[i]).0 == k decreases n
{ if n > 0 { lemma_has_key_all(s, k, n - 1); if has_key(s, k, n) { if s[n - 1].0 == k { assert(s[n - 1].0 == k); } else { let i = choose|i: int| 0 <= i < n - 1 && (#[trigger] s[i]).0 == k; assert(s[i].0 == k); } } } }
/// while one operand (src, entries ps) is folded into the accumulator: policies before index i are in, of policy i the assets before index j
pub open spec fn add_inv(cur: PM, base: PM, src: PM, ps: Seq<(PolicyID, Assets)>, i: int, asq: Seq<(AssetName, BigNum)>, j: int) -> bool {
    forall|p: PolicyID, a: AssetName| #[trigger] q2(cur, p, a) ==
        q2(base, p, a) + (if has_key(ps, p, i) || (i < ps.len() && p == ps[i].0 && has_key(asq, a, j)) { q2(src, p, a) } else { 0 })
}
/// some asset does not fit
pub open spec fn asset_overflow(x: Value, y: Value) -> bool { exists|p: PolicyID, a: AssetName| vq(x, p, a) + vq(y, p, a) > u64::MAX }
pub proof fn lemma_overflow_intro(x: Value, y: Value, p: PolicyID, a: AssetName)
    requires vq(x, p, a) + vq(y, p, a) > u64::MAX ensures asset_overflow(x, y) { }
