/// every (reference input, declared script size) pair the builder knows of, in the order the function visits the sources
pub open spec fn mint_rs(b: TransactionBuilder) -> RS { match b.mint { Some(x) => x.ref_sizes(), None => Seq::empty() } }
pub open spec fn wdr_rs(b: TransactionBuilder) -> RS { match b.withdrawals { Some(x) => x.ref_sizes(), None => Seq::empty() } }
pub open spec fn cert_rs(b: TransactionBuilder) -> RS { match b.certs { Some(x) => x.ref_sizes(), None => Seq::empty() } }
pub open spec fn vote_rs(b: TransactionBuilder) -> RS { match b.voting_procedures { Some(x) => x.ref_sizes(), None => Seq::empty() } }
pub open spec fn prop_rs(b: TransactionBuilder) -> RS { match b.voting_proposals { Some(x) => x.ref_sizes(), None => Seq::empty() } }
pub open spec fn all_srcs(b: TransactionBuilder) -> RS {
    b.inputs.inline_ref_sizes() + b.inputs.witness_ref_sizes() + b.reference_inputs.entries() + mint_rs(b) + wdr_rs(b) + cert_rs(b) + vote_rs(b) + prop_rs(b)
}
/// each distinct reference input counted once, with the size of its first declaration
pub open spec fn first_sum(s: RS, n: int) -> nat decreases n {
    if n <= 0 { 0 } else { first_sum(s, n - 1) + (if exists|j: int| 0 <= j < n - 1 && (#[trigger] s[j]).0 == s[n - 1].0 { 0nat } else { s[n - 1].1 as nat }) }
}
pub open spec fn conflict(s: RS) -> bool { exists|j: int, k: int| 0 <= j < k < s.len() && (#[trigger] s[j]).0 == (#[trigger] s[k]).0 && s[j].1 != s[k].1 }
/// the size map after the first n declarations were entered
pub open spec fn sz_inv(m: Map<&TransactionInput, usize>, s: RS, n: int) -> bool {
    &&& 0 <= n <= s.len()
    &&& forall|k: int| 0 <= k < n ==> m.contains_key(&(#[trigger] s[k]).0) && m[&s[k].0] == s[k].1
    &&& forall|x: &TransactionInput| m.contains_key(x) ==> exists|j: int| 0 <= j < n && (#[trigger] s[j]).0 == *x
    &&& map_total(m) == first_sum(s, n)
}
pub proof fn lemma_sz_step(m: Map<&TransactionInput, usize>, m2: Map<&TransactionInput, usize>, s: RS, n: int)
    requires sz_inv(m, s, n), n < s.len(),
             m2 == (if m.contains_key(&s[n].0) { m } else { m.insert(&s[n].0, s[n].1) }), m.contains_key(&s[n].0) ==> m[&s[n].0] == s[n].1
    ensures sz_inv(m2, s, n + 1)
{
    broadcast use ax_total_insert;
    let key = &s[n].0;
    if m.contains_key(key) {
        let j = choose|j: int| 0 <= j < n && (#[trigger] s[j]).0 == *key;
        assert(s[j].0 == s[n].0);
    } else {
        if exists|j: int| 0 <= j < n && (#[trigger] s[j]).0 == s[n].0 { let j = choose|j: int| 0 <= j < n && (#[trigger] s[j]).0 == s[n].0; assert(m.contains_key(&s[j].0)); }
    }
    assert forall|x: &TransactionInput| m2.contains_key(x) implies exists|j: int| 0 <= j < n + 1 && (#[trigger] s[j]).0 == *x by {
        if m.contains_key(x) { let j = choose|j: int| 0 <= j < n && (#[trigger] s[j]).0 == *x; assert(s[j].0 == *x); } else { assert(s[n].0 == *x); }
    }
}
pub proof fn lemma_sz_conflict(m: Map<&TransactionInput, usize>, s: RS, n: int)
    requires sz_inv(m, s, n), n < s.len(), m.contains_key(&s[n].0), m[&s[n].0] != s[n].1
    ensures conflict(s)
{
    let j = choose|j: int| 0 <= j < n && (#[trigger] s[j]).0 == s[n].0;
    assert(m[&s[j].0] == s[j].1);
    assert(s[j].0 == s[n].0 && s[j].1 != s[n].1);
}
pub open spec fn is_prefix(a: RS, s: RS) -> bool { a.len() <= s.len() && forall|i: int| 0 <= i < a.len() ==> #[trigger] s[i] == a[i] }
pub proof fn lemma_first_sum_prefix(p: RS, x: (TransactionInput, usize), n: int)
    requires 0 <= n <= p.len()
    ensures first_sum(p.push(x), n) == first_sum(p, n)
    decreases n
{
    if n > 0 {
        lemma_first_sum_prefix(p, x, n - 1);
        let q = p.push(x);
        assert(q[n - 1] == p[n - 1]);
        assert((exists|j: int| 0 <= j < n - 1 && (#[trigger] q[j]).0 == q[n - 1].0) <==> (exists|j: int| 0 <= j < n - 1 && (#[trigger] p[j]).0 == p[n - 1].0)) by {
            if exists|j: int| 0 <= j < n - 1 && (#[trigger] q[j]).0 == q[n - 1].0 { let j = choose|j: int| 0 <= j < n - 1 && (#[trigger] q[j]).0 == q[n - 1].0; assert(p[j] == q[j]); }
            if exists|j: int| 0 <= j < n - 1 && (#[trigger] p[j]).0 == p[n - 1].0 { let j = choose|j: int| 0 <= j < n - 1 && (#[trigger] p[j]).0 == p[n - 1].0; assert(p[j] == q[j]); }
        }
    }
}
pub proof fn lemma_sz_push(m: Map<&TransactionInput, usize>, m2: Map<&TransactionInput, usize>, p: RS, x: (TransactionInput, usize))
    requires sz_inv(m, p, p.len() as int),
             m2 == (if m.contains_key(&x.0) { m } else { m.insert(&x.0, x.1) }), m.contains_key(&x.0) ==> m[&x.0] == x.1
    ensures sz_inv(m2, p.push(x), p.len() as int + 1)
{
    let q = p.push(x); let n = p.len() as int;
    lemma_first_sum_prefix(p, x, n);
    assert forall|k: int| 0 <= k < n implies m.contains_key(&(#[trigger] q[k]).0) && m[&q[k].0] == q[k].1 by { assert(q[k] == p[k]); }
    assert forall|y: &TransactionInput| m.contains_key(y) implies exists|j: int| 0 <= j < n && (#[trigger] q[j]).0 == *y by {
        let j = choose|j: int| 0 <= j < n && (#[trigger] p[j]).0 == *y; assert(q[j] == p[j]);
    }
    assert(sz_inv(m, q, n));
    assert(q[n] == x);
    lemma_sz_step(m, m2, q, n);
}
pub proof fn lemma_conflict_now(m: Map<&TransactionInput, usize>, p: RS, x: (TransactionInput, usize), s: RS)
    requires sz_inv(m, p, p.len() as int), is_prefix(p.push(x), s)
    ensures m.contains_key(&x.0) && m[&x.0] != x.1 ==> conflict(s)
{
    if m.contains_key(&x.0) && m[&x.0] != x.1 {
        let j = choose|j: int| 0 <= j < p.len() && (#[trigger] p[j]).0 == x.0;
        assert(m[&p[j].0] == p[j].1);
        let q = p.push(x);
        assert(s[j] == q[j] && s[p.len() as int] == q[p.len() as int]);
        assert(q[j] == p[j] && q[p.len() as int] == x);
        assert(s[j].0 == s[p.len() as int].0 && s[j].1 != s[p.len() as int].1);
    }
}
pub proof fn lemma_no_conflict(m: Map<&TransactionInput, usize>, s: RS)
    requires sz_inv(m, s, s.len() as int)
    ensures !conflict(s)
{
    if conflict(s) {
        let (j, k) = choose|j: int, k: int| 0 <= j < k < s.len() && (#[trigger] s[j]).0 == (#[trigger] s[k]).0 && s[j].1 != s[k].1;
        assert(m[&s[j].0] == s[j].1); assert(m[&s[k].0] == s[k].1);
    }
}
pub proof fn lemma_sz_empty(s: RS) ensures sz_inv(Map::<&TransactionInput, usize>::empty(), Seq::<(TransactionInput, usize)>::empty(), 0)
{ broadcast use ax_total_empty; }
