// ---------------------------------------------------------------------------------------------------------
// ref_size unit (C06): get_total_ref_scripts_size on its real text - every reference script the transaction declares is counted, each once.
// ASSUMED: the per-source lists (views `ref_sizes()` of the opaque sub-builders; the ones within reach are checked in their own units),
// HashMap semantics (hash_model) with `entry(k).or_insert(v)` = insert-if-absent, and the sum over a finite map as an uninterpreted
// `map_total` characterised by its two defining equations (ax_total_empty / ax_total_insert: a mathematical fact, not proved).
// ---------------------------------------------------------------------------------------------------------
pub type RS = Seq<(TransactionInput, usize)>;
pub open spec fn rs_refs<'a>(s: RS) -> Seq<(&'a TransactionInput, usize)> { s.map_values(|e: (TransactionInput, usize)| (&e.0, e.1)) }
impl TxInputsBuilder {
    /// inputs whose own output carries a reference script, with its size
    pub uninterp spec fn inline_ref_sizes(&self) -> RS;
    /// reference inputs named by the script witnesses of the inputs, with the declared script size
    pub uninterp spec fn witness_ref_sizes(&self) -> RS;
    pub uninterp spec fn has(&self, i: TransactionInput) -> bool;
    #[verifier::external_body] pub fn has_input(&self, input: &TransactionInput) -> (r: bool) ensures r == self.has(*input) { unimplemented!() }
    #[verifier::external_body] pub fn get_inputs_with_ref_script_size(&self) -> (r: Vec<(&TransactionInput, usize)>) ensures r@ == rs_refs(self.inline_ref_sizes()) { unimplemented!() }
    #[verifier::external_body] pub fn get_script_ref_inputs_with_size(&self) -> (r: Vec<(&TransactionInput, usize)>) ensures r@ == rs_refs(self.witness_ref_sizes()) { unimplemented!() }
}
macro_rules! ref_size_source { ($($n:ident),* $(,)?) => { verus!{ $(
    impl $n {
        pub uninterp spec fn ref_sizes(&self) -> RS;
        #[verifier::external_body] pub fn get_script_ref_inputs_with_size(&self) -> (r: Vec<(&TransactionInput, usize)>) ensures r@ == rs_refs(self.ref_sizes()) { unimplemented!() }
    }
)* } } }
ref_size_source!(MintBuilder, WithdrawalsBuilder, CertificatesBuilder, VotingBuilder, VotingProposalBuilder);
impl ReferenceInputsMap {
    /// the explicitly declared reference inputs with the script size declared for them (0: none)
    pub uninterp spec fn entries(&self) -> RS;
    #[verifier::external_body] pub fn entries_(&self) -> (r: Vec<(TransactionInput, usize)>) ensures r@ == self.entries() { unimplemented!() }
}
pub uninterp spec fn map_total(m: Map<&TransactionInput, usize>) -> nat;
pub broadcast axiom fn ax_total_empty() ensures #[trigger] map_total(Map::<&TransactionInput, usize>::empty()) == 0;
pub broadcast axiom fn ax_total_insert(m: Map<&TransactionInput, usize>, k: &TransactionInput, v: usize)
    requires !m.contains_key(k) ensures #[trigger] map_total(m.insert(k, v)) == map_total(m) + v;
/// `m.entry(k).or_insert(v)`: inserts when absent, hands back the stored value
#[verifier::external_body]
pub fn hash_or_insert_<'a, 'b>(m: &'b mut HashMap<&'a TransactionInput, usize>, k: &'a TransactionInput, v: usize) -> (r: &'b usize)
    ensures final(m)@ == (if old(m)@.contains_key(k) { old(m)@ } else { old(m)@.insert(k, v) }), *r == final(m)@[k]
{ unimplemented!() }
/// `m.values().sum()`
#[verifier::external_body]
pub fn hash_values_sum_<'a>(m: &HashMap<&'a TransactionInput, usize>) -> (r: usize) ensures r == map_total(m@) { unimplemented!() }

// ---- the two setters of the explicit reference inputs (C06: the reference-script fee is charged on the sizes declared here)
impl ReferenceInputsMap {
    /// the script size declared for an explicit reference input (None: not a declared reference input); the BTreeMap behind `entries()`
    pub uninterp spec fn declared(&self, k: TransactionInput) -> Option<usize>;
    /// `self.reference_inputs.entry(k).or_insert(0)` (R-entryorinsert)
    #[verifier::external_body] pub fn or_insert_zero_(&mut self, k: TransactionInput)
        ensures final(self).declared(k) == (if old(self).declared(k) is Some { old(self).declared(k) } else { Some(0usize) }),
                forall|j: TransactionInput| j != k ==> final(self).declared(j) == old(self).declared(j) { unimplemented!() }
    /// `self.reference_inputs.insert(k, size)`
    #[verifier::external_body] pub fn insert_(&mut self, k: TransactionInput, size: usize)
        ensures final(self).declared(k) == Some(size), forall|j: TransactionInput| j != k ==> final(self).declared(j) == old(self).declared(j) { unimplemented!() }
}
