// big_int = int / big_uint / big_nint ;  big_uint = #6.2(bounded_bytes) ;  big_nint = #6.3(bounded_bytes): a value that fits a CBOR uint / nint
// (-2^64 ..= 2^64-1) is written as that, everything else as the tagged big-endian bytes of v (tag 2) or of -1-v (tag 3)
pub open spec fn BigInt_enc(v: int) -> Seq<Tok> {
    if 0 <= v < B64() { seq![Tok::UInt(v as u64)] }
    else if v == -0x8000_0000_0000_0000 { seq![Tok::Raw(seq![0x3bu8, 0x7f, 0xff, 0xff, 0xff, 0xff, 0xff, 0xff, 0xff])] }   // = nint -2^63, written byte by byte
    else if -B64() <= v < 0 { seq![Tok::NInt(v)] }
    else if v >= B64() { seq![Tok::Tag(2)] + bounded_bytes_enc(be_bytes(v as nat)) }
    else { seq![Tok::Tag(3)] + bounded_bytes_enc(be_bytes((-1 - v) as nat)) }
}
pub proof fn lemma_digits(n: nat)
    ensures digits64(n).len() == 0 <==> n == 0, digits64(n).len() == 1 <==> 0 < n < B64(), digits64(n).len() == 1 ==> digits64(n)[0] == n,
            n >= B64() ==> digits64(n).len() >= 2 && digits64(n)[0] == n % 0x1_0000_0000_0000_0000 && (digits64(n).len() == 2 ==> digits64(n)[1] == n / 0x1_0000_0000_0000_0000),
            digits64(n) == seq![0u64, 1u64] <==> n == B64(),
{
    reveal_with_fuel(digits64, 4);
    let q = n / 0x1_0000_0000_0000_0000;
    if n > 0 {
        assert(digits64(n) == seq![(n % 0x1_0000_0000_0000_0000) as u64] + digits64(q));
        if q > 0 { let q2 = q / 0x1_0000_0000_0000_0000; assert(digits64(q) == seq![(q % 0x1_0000_0000_0000_0000) as u64] + digits64(q2));
            if q2 > 0 { assert(digits64(q2).len() >= 1); } }
        if digits64(n) == seq![0u64, 1u64] { assert(digits64(n)[0] == 0 && digits64(n)[1] == 1); assert(digits64(n).len() == 2); assert(q > 0); let q2 = q / 0x1_0000_0000_0000_0000; assert(digits64(q2).len() == 0); assert(q2 == 0); assert(digits64(q)[0] == 1); }
        if n == B64() { assert(q == 1); assert(digits64(1) =~= seq![1u64]); assert(digits64(n) =~= seq![0u64, 1u64]); }
    }
}
pub open spec fn int_wf(i: Int) -> bool { -0x1_0000_0000_0000_0000 <= i.0 <= 0xffff_ffff_ffff_ffff }
// ---- decoder side
pub open spec fn BigInt_dec(rem: Seq<Tok>) -> Option<(int, int)> {
    if rem.len() == 0 { None }
    else if rem[0] is UInt { Some((rem[0]->UInt_0 as int, 1int)) }
    else if rem[0] is NInt && -B64() <= rem[0]->NInt_0 <= -1 { Some((rem[0]->NInt_0, 1int)) }
    else if rem[0] is Tag && (rem[0]->Tag_0 == 2 || rem[0]->Tag_0 == 3) && bb_accepts(rem.skip(1)) {
        let d = bb_decode(rem.skip(1));
        Some((if rem[0]->Tag_0 == 2 { be_val(d.0) as int } else { -1 - be_val(d.0) }, 1 + d.1))
    } else { None }
}
pub proof fn lemma_chunks_bound(rem: Seq<Tok>, i: int) requires chunks_ok(rem, i) ensures i < chunks_dec(rem, i).1 <= rem.len() decreases rem.len() - i
{ if 0 <= i < rem.len() && rem[i] != Tok::Special(CBORSpecial::Break) { lemma_chunks_bound(rem, i + 1); } }
pub proof fn lemma_bb_bound(rem: Seq<Tok>) requires bb_accepts(rem) ensures 1 <= bb_decode(rem).1 <= rem.len()
{ if !(rem[0] is Bytes) { lemma_chunks_bound(rem, 1); } }
/// decode . encode = id for every big integer (the one value written byte by byte, -2^63, is outside the token model's reach: its raw bytes ARE the
/// nint token; Kani checks that literal in kani:lib_level)
pub proof fn lemma_BigInt_rt(v: int, rest: Seq<Tok>)
    requires v != -0x8000_0000_0000_0000
    ensures BigInt_dec(BigInt_enc(v) + rest) is Some, BigInt_dec(BigInt_enc(v) + rest)->Some_0.0 == v,
            (BigInt_enc(v) + rest).skip(BigInt_dec(BigInt_enc(v) + rest)->Some_0.1) == rest
{
    broadcast use ax_be;
    let rem = BigInt_enc(v) + rest;
    if 0 <= v < B64() { assert(rem[0] == Tok::UInt(v as u64)); assert(rem.skip(1) =~= rest); }
    else if -B64() <= v < 0 { assert(rem[0] == Tok::NInt(v)); assert(rem.skip(1) =~= rest); }
    else {
        let b = if v >= B64() { be_bytes(v as nat) } else { be_bytes((-1 - v) as nat) };
        assert(rem[0] is Tag);
        assert(rem.skip(1) =~= bounded_bytes_enc(b) + rest);
        lemma_bb_roundtrip(b, rest);
        let d = bb_decode(rem.skip(1));
        lemma_bb_bound(rem.skip(1));
        assert(rem.skip(1 + d.1) =~= rem.skip(1).skip(d.1));
    }
}
