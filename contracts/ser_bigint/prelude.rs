// ---- num_bigint (a DEPENDENCY: contracts ASSUMED): an arbitrary-precision integer is its mathematical value; its digit / byte views are the base-2^64
// little-endian digits and the big-endian bytes of the magnitude, without leading zeros
pub open spec fn B64() -> int { 0x1_0000_0000_0000_0000 }
pub open spec fn digits64(n: nat) -> Seq<u64> decreases n { if n == 0 { Seq::empty() } else { seq![(n % 0x1_0000_0000_0000_0000) as u64] + digits64(n / 0x1_0000_0000_0000_0000) } }
/// big-endian bytes of a magnitude (uninterpreted: only that they are a function of the value, and injective, matters here)
pub uninterp spec fn be_bytes(n: nat) -> Seq<u8>;
pub uninterp spec fn be_val(b: Seq<u8>) -> nat;
#[verifier::external_body] pub broadcast proof fn ax_be(n: nat) ensures #[trigger] be_val(be_bytes(n)) == n { }
pub open spec fn mag(v: int) -> nat { if v < 0 { (-v) as nat } else { v as nat } }

#[derive(PartialEq, Eq, Structural, Clone, Copy)]
pub enum Sign { Minus, NoSign, Plus }
pub open spec fn sign_of(v: int) -> Sign { if v < 0 { Sign::Minus } else if v == 0 { Sign::NoSign } else { Sign::Plus } }
#[verifier::external_body] pub struct NBigInt { _p: core::marker::PhantomData<u8> }
#[verifier::external_body] pub struct NBigUint { _p: core::marker::PhantomData<u8> }
impl NBigUint {
    pub uninterp spec fn v(&self) -> nat;
    #[verifier::external_body] pub fn to_bytes_be(&self) -> (r: Vec<u8>) ensures r@ == be_bytes(self.v()) { unimplemented!() }
}
impl NBigInt {
    pub uninterp spec fn v(&self) -> int;
    #[verifier::external_body] pub fn to_u64_digits(&self) -> (r: (Sign, Vec<u64>)) ensures r.0 == sign_of(self.v()), r.1@ == digits64(mag(self.v())) { unimplemented!() }
    #[verifier::external_body] pub fn to_bytes_be(&self) -> (r: (Sign, Vec<u8>)) ensures r.0 == sign_of(self.v()), r.1@ == be_bytes(mag(self.v())) { unimplemented!() }
    #[verifier::external_body] pub fn from_bytes_be(sign: Sign, bytes: &[u8]) -> (r: NBigInt)
        ensures r.v() == (if sign is Minus { -(be_val(bytes@) as int) } else if sign is NoSign { 0 } else { be_val(bytes@) as int }) { unimplemented!() }
    #[verifier::external_body] pub fn sign(&self) -> (r: Sign) ensures r == sign_of(self.v()) { unimplemented!() }
    #[verifier::external_body] pub fn neg(self) -> (r: NBigInt) ensures r.v() == -self.v() { unimplemented!() }
    #[verifier::external_body] pub fn checked_sub(&self, o: &NBigInt) -> (r: Option<NBigInt>) ensures r is Some, r->Some_0.v() == self.v() - o.v() { unimplemented!() }
    #[verifier::external_body] pub fn checked_add(&self, o: &NBigInt) -> (r: Option<NBigInt>) ensures r is Some, r->Some_0.v() == self.v() + o.v() { unimplemented!() }
    #[verifier::external_body] pub fn to_biguint(&self) -> (r: Option<NBigUint>) ensures r is Some <==> self.v() >= 0, r is Some ==> r->Some_0.v() == self.v() { unimplemented!() }
}
impl Clone for NBigInt { #[verifier::external_body] fn clone(&self) -> (r: NBigInt) ensures r.v() == self.v() { unimplemented!() } }
impl From<u32> for NBigInt { #[verifier::external_body] fn from(x: u32) -> (r: NBigInt) ensures r.v() == x { unimplemented!() } }
impl From<u64> for NBigInt { #[verifier::external_body] fn from(x: u64) -> (r: NBigInt) ensures r.v() == x { unimplemented!() } }
impl From<i128> for NBigInt { #[verifier::external_body] fn from(x: i128) -> (r: NBigInt) ensures r.v() == x { unimplemented!() } }

pub mod num_bigint { pub use super::NBigInt as BigInt; pub use super::NBigUint as BigUint; pub use super::Sign; }

/// `a == b` on digit vectors (std, ASSUMED): equal sequences
#[verifier::external_body] pub fn vec_eq_u64_(a: &Vec<u64>, b: &[u64]) -> (r: bool) ensures r == (a@ == b@) { unimplemented!() }
impl From<i64> for NBigInt { #[verifier::external_body] fn from(x: i64) -> (r: NBigInt) ensures r.v() == x { unimplemented!() } }
#[verifier::external_body] pub broadcast proof fn ax_be_inj(b: Seq<u8>) ensures #[trigger] be_val(b) >= 0 { }
