// ---- num_bigint arithmetic (a DEPENDENCY: contracts ASSUMED): the operators of an arbitrary-precision integer are the mathematical ones.
// Operator sugar on references (`&a + &b`) is routed to these methods by the per-function R-opcall substitutions of unit.toml.
impl NBigInt {
    #[verifier::external_body] pub fn add_ref_(&self, o: &NBigInt) -> (r: NBigInt) ensures r.v() == self.v() + o.v() { unimplemented!() }
    #[verifier::external_body] pub fn sub_ref_(&self, o: &NBigInt) -> (r: NBigInt) ensures r.v() == self.v() - o.v() { unimplemented!() }
    #[verifier::external_body] pub fn mul_ref_(&self, o: &NBigInt) -> (r: NBigInt) ensures r.v() == self.v() * o.v() { unimplemented!() }
    #[verifier::external_body] pub fn abs(&self) -> (r: NBigInt) ensures r.v() == mag(self.v()) { unimplemented!() }
    #[verifier::external_body] pub fn is_negative(&self) -> (r: bool) ensures r == (self.v() < 0) { unimplemented!() }
    #[verifier::external_body] pub fn pow(&self, exp: u32) -> (r: NBigInt) ensures r.v() == vstd::arithmetic::power::pow(self.v(), exp as nat) { unimplemented!() }
}
impl From<i32> for NBigInt { #[verifier::external_body] fn from(x: i32) -> (r: NBigInt) ensures r.v() == x { unimplemented!() } }
