pub type Coin = BigNum;
opaque_types!(PlutusScriptSourceEnum, DatumSourceEnum, PlutusData, ExUnits, NativeScriptSourceEnum, Certificate, ScriptHash, VotesOfVoter, AssetName, Int);
#[verifier::external_body] pub struct Ed25519KeyHash { _p: core::marker::PhantomData<u8> }
impl Ed25519KeyHash { pub uninterp spec fn raw(&self) -> Seq<u8>; #[verifier::external_body] pub fn to_bytes(&self) -> (r: RawHash) ensures r@ == self.raw() { unimplemented!() } }
pub type PolicyID = ScriptHash;
clone_eq!(PlutusScriptSourceEnum, DatumSourceEnum, PlutusData, ExUnits, RedeemerTag);
impl vstd::std_specs::convert::FromSpecImpl<usize> for BigNum {
    open spec fn obeys_from_spec() -> bool { true }
    open spec fn from_spec(v: usize) -> BigNum { BigNum(v as u64) }
}
impl From<usize> for BigNum { #[verifier::external_body] fn from(x: usize) -> (r: BigNum) { unimplemented!() } }

/// credential of a reward account as far as the ledger order looks at it: kind and raw hash bytes (its own methods: ASSUMED contracts)
#[verifier::external_body] pub struct Credential { _p: core::marker::PhantomData<u8> }
#[verifier::external_body] pub struct RawHash { _p: core::marker::PhantomData<u8> }
impl RawHash { pub uninterp spec fn view(&self) -> Seq<u8>; }
impl Credential {
    pub uninterp spec fn is_script(&self) -> bool;
    pub uninterp spec fn raw(&self) -> Seq<u8>;
    #[verifier::external_body] pub fn has_script_hash(&self) -> (r: bool) ensures r == self.is_script() { unimplemented!() }
    #[verifier::external_body] pub fn to_raw_bytes(&self) -> (r: RawHash) ensures r@ == self.raw() { unimplemented!() }
}
// Vec<u8>'s `<` is std's lexicographic order (ASSUMED for std)
impl vstd::std_specs::cmp::PartialEqSpecImpl for RawHash {
    open spec fn obeys_eq_spec() -> bool { true }
    open spec fn eq_spec(&self, other: &RawHash) -> bool { self@ == other@ }
}
impl PartialEq for RawHash { #[verifier::external_body] fn eq(&self, o: &RawHash) -> (r: bool) { unimplemented!() } }
impl vstd::std_specs::cmp::PartialOrdSpecImpl for RawHash {
    open spec fn obeys_partial_cmp_spec() -> bool { true }
    open spec fn partial_cmp_spec(&self, other: &RawHash) -> Option<core::cmp::Ordering> {
        if lex_lt(self@, other@) { Some(core::cmp::Ordering::Less) } else if self@ == other@ { Some(core::cmp::Ordering::Equal) } else { Some(core::cmp::Ordering::Greater) }
    }
}
impl PartialOrd for RawHash { #[verifier::external_body] fn partial_cmp(&self, o: &RawHash) -> (r: Option<core::cmp::Ordering>) { unimplemented!() } }

// ---- C10 / C16: the built mint lists the policies in the builder's (BTreeMap = ascending policy id) order, the order the mint redeemer indices count in
clone_eq!(ScriptHash);
/// BTreeMap<AssetName, Int> of one policy's mints as far as `build` uses it: entries in ascending asset-name order (R-btree)
pub struct AssetMintMap { pub entries: Vec<(AssetName, Int)> }
/// MintAssets (a BTreeMap<AssetName, Int> with a non-zero check on insert; its own methods are not under contract here): the sequence of
/// successful inserts it was built by
#[verifier::external_body] pub struct MintAssets { _p: core::marker::PhantomData<u8> }
clone_eq!(MintAssets);
impl MintAssets {
    pub uninterp spec fn ins(&self) -> Seq<(AssetName, Int)>;
    #[verifier::external_body] pub fn new() -> (r: MintAssets) ensures r.ins().len() == 0 { unimplemented!() }
    #[verifier::external_body] pub fn insert(&mut self, key: &AssetName, value: &Int) -> (r: Result<Option<Int>, JsError>)
        ensures r is Ok ==> final(self).ins() == old(self).ins().push((*key, *value)) { unimplemented!() }
}

// ---- spending pointers: the input builder's ordered input map and its witness table
use std::collections::BTreeMap;
opaque_types!(TransactionInput, Value, VkeyReq, BootstrapReq);
clone_eq!(TransactionInput);
impl PartialEq for TransactionInput { #[verifier::external_body] fn eq(&self, o: &TransactionInput) -> bool { unimplemented!() } }
impl Eq for TransactionInput {}
impl PartialOrd for TransactionInput { #[verifier::external_body] fn partial_cmp(&self, o: &TransactionInput) -> Option<core::cmp::Ordering> { unimplemented!() } }
impl Ord for TransactionInput { #[verifier::external_body] fn cmp(&self, o: &TransactionInput) -> core::cmp::Ordering { unimplemented!() } }
pub type InEntry = (TxBuilderInput, Option<ScriptHash>);
/// BTreeMap<TransactionInput, (TxBuilderInput, Option<ScriptHash>)> as its entries in ascending outpoint order (R-btree); `values()` yields the values in
/// that order (std, ASSUMED).  Every value is stored under its own outpoint (push_input: unit tx_inputs) and outpoints are distinct: `wf`.
pub struct InputsMap { pub entries: Vec<(TransactionInput, InEntry)> }
impl InputsMap {
    pub open spec fn vals(&self) -> Seq<InEntry> { self.entries@.map_values(|e: (TransactionInput, InEntry)| e.1) }
    pub open spec fn wf(&self) -> bool {
        (forall|i: int| 0 <= i < self.entries@.len() ==> (#[trigger] self.entries@[i]).1.0.input == self.entries@[i].0)
          && (forall|i: int, j: int| 0 <= i < j < self.entries@.len() ==> self.entries@[i].0 != self.entries@[j].0)
    }
    #[verifier::external_body] pub fn values(&self) -> (r: core::slice::Iter<'_, InEntry>)
        ensures r.remaining() == refs(self.vals()), r.obeys_prophetic_iter_laws(), r.decrease() is Some { unimplemented!() }
}
pub type WitEntries = Vec<(TransactionInput, Option<ScriptWitnessType>)>;
impl vstd::std_specs::convert::FromSpecImpl<u64> for BigNum {
    open spec fn obeys_from_spec() -> bool { true }
    open spec fn from_spec(v: u64) -> BigNum { BigNum(v) }
}
impl From<u64> for BigNum { #[verifier::external_body] fn from(x: u64) -> (r: BigNum) { unimplemented!() } }

// ---- proposals: a voting proposal as far as the proposal builder looks at it - whether its governance action carries a policy (guardrails script) hash
opaque_types!(VotingProposalRest);
/// a voting proposal as far as the proposal builder looks at it: its deposit, and whether its governance action carries a policy hash
pub struct VotingProposal { pub deposit: Coin, pub rest: VotingProposalRest }
impl Clone for VotingProposal { #[verifier::external_body] fn clone(&self) -> (r: Self) ensures r == *self { unimplemented!() } }
impl VotingProposal {
    pub uninterp spec fn scripted(&self) -> bool;
    #[verifier::external_body] pub fn has_script_hash(&self) -> (r: bool) ensures r == self.scripted() { unimplemented!() }
}

// ---- WithdrawalsBuilder::build: what is written into the body (C10: the reward redeemer ranks are ranks among EXACTLY these accounts)
impl Clone for RewardAddress { #[verifier::external_body] fn clone(&self) -> (r: Self) ensures r == *self { unimplemented!() } }
/// the body's withdrawals (a LinkedHashMap<RewardAddress, Coin>) as the sequence of (account, coin) pairs it was collected from
pub struct Withdrawals(pub WdMap);
#[verifier::external_body] pub struct WdMap { _p: core::marker::PhantomData<u8> }
impl WdMap { pub uninterp spec fn pairs(&self) -> Seq<(RewardAddress, Coin)>; }
/// `self.withdrawals.iter().map(|(k, (v, _))| (k, v)).collect()` (R-projcollect): references to the account and the coin of every entry, in order
#[verifier::external_body] pub fn wd_key_coin_refs_(w: &Vec<(RewardAddress, (Coin, Option<ScriptWitnessType>))>) -> (r: Vec<(&RewardAddress, &Coin)>)
    ensures r@.len() == w@.len(), forall|i: int| 0 <= i < w@.len() ==> *(#[trigger] r@[i]).0 == w@[i].0 && *r@[i].1 == w@[i].1.0 { unimplemented!() }
/// `entries.into_iter().map(|(k, v)| (k.clone(), v.clone())).collect()` into the map (R-projcollect): the cloned pairs, in order
#[verifier::external_body] pub fn wd_collect_(e: Vec<(&RewardAddress, &Coin)>) -> (r: WdMap)
    ensures r.pairs().len() == e@.len(), forall|i: int| 0 <= i < e@.len() ==> (#[trigger] r.pairs()[i]) == (*e@[i].0, *e@[i].1) { unimplemented!() }
/// `Vec::sort_by` with a comparator closure (std: a stable sort; ASSUMED): the result is a permutation of the input - nothing is added or lost
#[verifier::external_body] pub fn vec_sort_by_<T, F: Fn(&T, &T) -> core::cmp::Ordering>(v: &mut Vec<T>, cmp: F)
    requires forall|a: &T, b: &T| call_requires(cmp, (a, b))
    ensures final(v)@.to_multiset() == old(v)@.to_multiset() { unimplemented!() }

// ---- WithdrawalsBuilder::add*: which kind of entry an account may get (C10: "no redeemer points at an item that is not script-locked")
impl Clone for Credential { #[verifier::external_body] fn clone(&self) -> (r: Self) ensures r == *self { unimplemented!() } }
/// LinkedHashMap::insert on the entry-sequence model (R-lhm): an existing key keeps its position and gets the new value, a new key goes to the end
pub open spec fn wd_upsert(s: Seq<(RewardAddress, (Coin, Option<ScriptWitnessType>))>, k: RewardAddress, v: (Coin, Option<ScriptWitnessType>)) -> Seq<(RewardAddress, (Coin, Option<ScriptWitnessType>))> {
    if exists|i: int| 0 <= i < s.len() && s[i].0 == k { let i = choose|i: int| 0 <= i < s.len() && s[i].0 == k; s.update(i, (k, v)) } else { s.push((k, v)) }
}
#[verifier::external_body] pub fn lhm_insert_wd_(m: &mut Vec<(RewardAddress, (Coin, Option<ScriptWitnessType>))>, k: RewardAddress, v: (Coin, Option<ScriptWitnessType>))
    ensures final(m)@ == wd_upsert(old(m)@, k, v) { unimplemented!() }
pub struct NativeScriptSource(pub NativeScriptSourceEnum);
clone_eq!(NativeScriptSourceEnum);

// ---- CertificatesBuilder::add*: a certificate enters the sequence once, at the end, with the kind of witness its credential calls for
clone_eq!(Certificate);
impl Certificate {
    /// the certificate is authorised by a script credential (has_required_script_witness: its own table is not under contract here)
    pub uninterp spec fn needs_script(&self) -> bool;
    #[verifier::external_body] pub fn has_required_script_witness(&self) -> (r: bool) ensures r == self.needs_script() { unimplemented!() }
}
pub open spec fn has_cert(s: Seq<(Certificate, Option<ScriptWitnessType>)>, c: Certificate) -> bool { exists|i: int| 0 <= i < s.len() && (#[trigger] s[i]).0 == c }
/// LinkedHashMap::contains_key / insert of a NEW key on the entry-sequence model (R-lhm)
#[verifier::external_body] pub fn lhm_contains_cert_(m: &Vec<(Certificate, Option<ScriptWitnessType>)>, k: &Certificate) -> (r: bool) ensures r == has_cert(m@, *k) { unimplemented!() }
#[verifier::external_body] pub fn lhm_insert_cert_(m: &mut Vec<(Certificate, Option<ScriptWitnessType>)>, k: Certificate, v: Option<ScriptWitnessType>)
    requires !has_cert(old(m)@, k) ensures final(m)@ == old(m)@.push((k, v)) { unimplemented!() }

// ---- VotingBuilder::add*: which kind of entry a voter may get
opaque_types!(GovernanceActionId, VotingProcedure);
clone_eq!(GovernanceActionId, VotingProcedure);
impl Clone for Voter { #[verifier::external_body] fn clone(&self) -> (r: Self) ensures r == *self { unimplemented!() } }
impl VotesOfVoter {
    /// BTreeMap::new / insert of the votes of one voter (what is voted on is not part of the claim here)
    #[verifier::external_body] pub fn new_() -> (r: VotesOfVoter) { unimplemented!() }
    #[verifier::external_body] pub fn insert(&mut self, k: GovernanceActionId, v: VotingProcedure) -> (r: Option<VotingProcedure>) { unimplemented!() }
}
pub open spec fn has_voter(s: Seq<(Voter, VoterVotes)>, k: Voter) -> bool { exists|i: int| 0 <= i < s.len() && (#[trigger] s[i]).0 == k }
/// `self.votes.entry(k).or_insert(d)` on the entry-sequence model of the BTreeMap (R-entryorinsert): the entry of k - the existing one, or d put at k's place in the order -
/// handed out as a mutable borrow; every other entry stays
#[verifier::external_body] pub fn votes_or_insert_(m: &mut Vec<(Voter, VoterVotes)>, k: Voter, d: VoterVotes) -> (r: &mut VoterVotes)
    ensures has_voter(old(m)@, k) ==> exists|i: int| 0 <= i < old(m)@.len() && old(m)@[i].0 == k && *r == old(m)@[i].1 && final(m)@ == old(m)@.update(i, (k, *final(r))),
            !has_voter(old(m)@, k) ==> *r == d && exists|p: int| 0 <= p <= old(m)@.len() && final(m)@ == old(m)@.insert(p, (k, *final(r))) { unimplemented!() }

// ---- VotingProposalBuilder::build: the proposals written into the body, in the builder's order (the order the proposing redeemer indices count in)
#[verifier::external_body] pub struct VotingProposals { _p: core::marker::PhantomData<u8> }
impl VotingProposals {
    pub uninterp spec fn items(&self) -> Seq<VotingProposal>;
    /// first-occurrence de-duplication (PROVED in unit dedup_voting_proposals); used here only on a duplicate-free vector, which it keeps as it is
    #[verifier::external_body] pub fn from_vec(v: Vec<VotingProposal>) -> (r: VotingProposals)
        ensures (forall|i: int, j: int| 0 <= i < j < v@.len() ==> v@[i] != v@[j]) ==> r.items() == v@ { unimplemented!() }
}

// ---- VotingBuilder::build: the voters written into the body are exactly the builder's voters (the vote redeemer ranks are ranks among them)
impl VotesOfVoter {
    pub uninterp spec fn pairs(&self) -> Seq<(GovernanceActionId, VotingProcedure)>;
    /// `&voter_votes.votes` (iteration of the BTreeMap of one voter's votes; R-btree)
    #[verifier::external_body] pub fn pairs_(&self) -> (r: Vec<(GovernanceActionId, VotingProcedure)>) ensures r@ == self.pairs() { unimplemented!() }
}
/// BTreeMap<Voter, BTreeMap<..>> being filled (R-btree): the sequence of inserted voters (keys are distinct here: they come from a map)
#[verifier::external_body] pub struct VoterMap { _p: core::marker::PhantomData<u8> }
impl VoterMap {
    pub uninterp spec fn voters(&self) -> Seq<Voter>;
    #[verifier::external_body] pub fn new_() -> (r: VoterMap) ensures r.voters() == Seq::<Voter>::empty() { unimplemented!() }
    #[verifier::external_body] pub fn insert(&mut self, k: Voter, v: VotesOfVoter) -> (r: Option<VotesOfVoter>) ensures final(self).voters() == old(self).voters().push(k) { unimplemented!() }
}
pub struct VotingProcedures(pub VoterMap);

// ---- NoneOrEmpty for VotingProcedures (C03: key 19 is written only when there is at least one vote)
impl VoterMap {
    /// every voter's vote map is empty (`self.0.values().all(|v| v.is_empty())`; R-valuesall)
    pub uninterp spec fn all_votes_empty(&self) -> bool;
    #[verifier::external_body] pub fn is_empty(&self) -> (r: bool) ensures r == (self.voters().len() == 0) { unimplemented!() }
    #[verifier::external_body] pub fn values_all_empty_(&self) -> (r: bool) ensures r == self.all_votes_empty() { unimplemented!() }
}
