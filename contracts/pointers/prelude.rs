pub type Coin = BigNum;
opaque_types!(PlutusScriptSourceEnum, DatumSourceEnum, PlutusData, ExUnits, NativeScriptSourceEnum, Certificate, RewardAddress, ScriptHash, AssetMintMap);
pub type PolicyID = ScriptHash;
clone_eq!(PlutusScriptSourceEnum, DatumSourceEnum, PlutusData, ExUnits, RedeemerTag);
impl vstd::std_specs::convert::FromSpecImpl<usize> for BigNum {
    open spec fn obeys_from_spec() -> bool { true }
    open spec fn from_spec(v: usize) -> BigNum { BigNum(v as u64) }
}
impl From<usize> for BigNum { #[verifier::external_body] fn from(x: usize) -> (r: BigNum) { unimplemented!() } }
