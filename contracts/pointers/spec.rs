impl Clone for PlutusWitness { #[verifier::external_body] fn clone(&self) -> (r: Self) ensures r == *self { unimplemented!() } }
/// what a script use looks like once it is given its pointer (purpose tag, index): everything else is the caller's
pub open spec fn with_ptr(w: PlutusWitness, idx: nat, tag: RedeemerTag) -> PlutusWitness {
    PlutusWitness { script: w.script, datum: w.datum, redeemer: Redeemer { tag: tag, index: BigNum(idx as u64), data: w.redeemer.data, ex_units: w.redeemer.ex_units } }
}
/// C10 (certificates): the Plutus witnesses of a certificate builder, each pointing at the POSITION of its certificate in the sequence
/// the builder holds (= the sequence written into the body, unit deposits / CertificatesBuilder::build)
pub open spec fn cert_ptrs(s: Seq<(Certificate, Option<ScriptWitnessType>)>, tag: RedeemerTag) -> Seq<PlutusWitness> decreases s.len() {
    if s.len() == 0 { Seq::empty() } else {
        let p = cert_ptrs(s.drop_last(), tag);
        match s.last().1 { Some(ScriptWitnessType::PlutusScriptWitness(w)) => p.push(with_ptr(w, (s.len() - 1) as nat, tag)), _ => p }
    }
}
pub proof fn lemma_cert_ptrs_step(s: Seq<(Certificate, Option<ScriptWitnessType>)>, i: int, tag: RedeemerTag)
    requires 0 <= i < s.len()
    ensures cert_ptrs(s.take(i + 1), tag) == (match s[i].1 { Some(ScriptWitnessType::PlutusScriptWitness(w)) => cert_ptrs(s.take(i), tag).push(with_ptr(w, i as nat, tag)), _ => cert_ptrs(s.take(i), tag) })
{ assert(s.take(i + 1).drop_last() =~= s.take(i)); }
/// C10 (withdrawals): reward redeemers index the withdrawals in REWARD-ACCOUNT ORDER (the ledger keeps `Map RewardAccount Coin`): the
/// pointer of a script withdrawal is the number of withdrawals whose reward account precedes its own, whatever the insertion order.
/// ra_lt is the ledger's strict order on reward accounts: network id, then script credentials before key credentials, then hash bytes.
pub open spec fn lex_lt(a: Seq<u8>, b: Seq<u8>) -> bool decreases a.len() {
    if b.len() == 0 { false } else if a.len() == 0 { true } else if a[0] != b[0] { a[0] < b[0] } else { lex_lt(a.subrange(1, a.len() as int), b.subrange(1, b.len() as int)) }
}
pub open spec fn ra_lt(a: RewardAddress, b: RewardAddress) -> bool {
    if a.network != b.network { a.network < b.network }
    else if a.payment.is_script() != b.payment.is_script() { a.payment.is_script() }
    else { lex_lt(a.payment.raw(), b.payment.raw()) }
}
pub open spec fn rank_in(s: Seq<(RewardAddress, (Coin, Option<ScriptWitnessType>))>, a: RewardAddress) -> nat decreases s.len() {
    if s.len() == 0 { 0 } else { rank_in(s.drop_last(), a) + (if ra_lt(s.last().0, a) { 1nat } else { 0nat }) }
}
pub proof fn lemma_rank_step(s: Seq<(RewardAddress, (Coin, Option<ScriptWitnessType>))>, i: int, a: RewardAddress)
    requires 0 <= i < s.len()
    ensures rank_in(s.take(i + 1), a) == rank_in(s.take(i), a) + (if ra_lt(s[i].0, a) { 1nat } else { 0nat }), rank_in(s.take(i), a) <= i
    decreases i
{
    assert(s.take(i + 1).drop_last() =~= s.take(i));
    if i > 0 { lemma_rank_step(s, i - 1, a); }
}
pub open spec fn wd_ptrs(all: Seq<(RewardAddress, (Coin, Option<ScriptWitnessType>))>, s: Seq<(RewardAddress, (Coin, Option<ScriptWitnessType>))>, tag: RedeemerTag) -> Seq<PlutusWitness> decreases s.len() {
    if s.len() == 0 { Seq::empty() } else {
        let p = wd_ptrs(all, s.drop_last(), tag);
        match s.last().1.1 { Some(ScriptWitnessType::PlutusScriptWitness(w)) => p.push(with_ptr(w, rank_in(all, s.last().0), tag)), _ => p }
    }
}
pub proof fn lemma_wd_ptrs_step(all: Seq<(RewardAddress, (Coin, Option<ScriptWitnessType>))>, s: Seq<(RewardAddress, (Coin, Option<ScriptWitnessType>))>, i: int, tag: RedeemerTag)
    requires 0 <= i < s.len()
    ensures wd_ptrs(all, s.take(i + 1), tag) == (match s[i].1.1 { Some(ScriptWitnessType::PlutusScriptWitness(w)) => wd_ptrs(all, s.take(i), tag).push(with_ptr(w, rank_in(all, s[i].0), tag)), _ => wd_ptrs(all, s.take(i), tag) })
{ assert(s.take(i + 1).drop_last() =~= s.take(i)); }

/// C10 (mint): the minting redeemers point at the position of their policy among the builder's policies in ASCENDING policy-id order
/// (the BTreeMap's iteration order, modelled as its sorted entry sequence), the order the mint field is written in
pub open spec fn mint_w(pm: PlutusMints, idx: nat) -> PlutusWitness {
    PlutusWitness { script: pm.script, datum: None, redeemer: Redeemer { tag: RedeemerTag(RedeemerTagKind::Mint), index: BigNum(idx as u64), data: pm.redeemer.data, ex_units: pm.redeemer.ex_units } }
}
pub open spec fn mint_ptrs(s: Seq<(PolicyID, ScriptMint)>) -> Seq<PlutusWitness> decreases s.len() {
    if s.len() == 0 { Seq::empty() } else {
        let p = mint_ptrs(s.drop_last());
        match s.last().1 { ScriptMint::Plutus(pm) => p.push(mint_w(pm, (s.len() - 1) as nat)), _ => p }
    }
}
pub proof fn lemma_mint_ptrs_step(s: Seq<(PolicyID, ScriptMint)>, i: int)
    requires 0 <= i < s.len()
    ensures mint_ptrs(s.take(i + 1)) == (match s[i].1 { ScriptMint::Plutus(pm) => mint_ptrs(s.take(i)).push(mint_w(pm, i as nat)), _ => mint_ptrs(s.take(i)) })
{ assert(s.take(i + 1).drop_last() =~= s.take(i)); }
pub open spec fn mint_reds(s: Seq<(PolicyID, ScriptMint)>) -> Seq<Redeemer> { mint_ptrs(s).map_values(|w: PlutusWitness| w.redeemer) }
#[verifier::external_body] pub struct Redeemers { _p: core::marker::PhantomData<u8> }
impl Redeemers { pub uninterp spec fn items(&self) -> Seq<Redeemer>; }
impl From<Vec<Redeemer>> for Redeemers { #[verifier::external_body] fn from(v: Vec<Redeemer>) -> (r: Redeemers) ensures r.items() == v@ { unimplemented!() } }
impl Clone for Redeemer { #[verifier::external_body] fn clone(&self) -> (r: Self) ensures r == *self { unimplemented!() } }

/// C10 (votes; the property names four purposes, the code has a fifth): a voting redeemer points at the position of its VOTER in the
/// builder's voter map in ascending order (BTreeMap iteration, modelled as the sorted entry sequence) - one pointer per voter, however
/// many votes the voter casts
/// vt_lt is the ledger's strict order on voters (derived Ord of `Voter`): committee hot credential, then DRep, then stake pool; within a role
/// script credentials before key credentials (`Credential = ScriptHashObj | KeyHashObj`), then hash bytes
pub open spec fn v_role(v: Voter) -> int { match v.0 { VoterEnum::ConstitutionalCommitteeHotCred(_) => 0, VoterEnum::DRep(_) => 1, VoterEnum::StakingPool(_) => 2 } }
pub open spec fn v_is_script(v: Voter) -> bool { match v.0 { VoterEnum::ConstitutionalCommitteeHotCred(c) => c.is_script(), VoterEnum::DRep(c) => c.is_script(), VoterEnum::StakingPool(_) => false } }
pub open spec fn v_raw(v: Voter) -> Seq<u8> { match v.0 { VoterEnum::ConstitutionalCommitteeHotCred(c) => c.raw(), VoterEnum::DRep(c) => c.raw(), VoterEnum::StakingPool(k) => k.raw() } }
pub open spec fn vt_lt(a: Voter, b: Voter) -> bool {
    if v_role(a) != v_role(b) { v_role(a) < v_role(b) } else if v_is_script(a) != v_is_script(b) { v_is_script(a) } else { lex_lt(v_raw(a), v_raw(b)) }
}
pub open spec fn vrank_in(s: Seq<(Voter, VoterVotes)>, a: Voter) -> nat decreases s.len() {
    if s.len() == 0 { 0 } else { vrank_in(s.drop_last(), a) + (if vt_lt(s.last().0, a) { 1nat } else { 0nat }) }
}
pub proof fn lemma_vrank_step(s: Seq<(Voter, VoterVotes)>, i: int, a: Voter)
    requires 0 <= i < s.len()
    ensures vrank_in(s.take(i + 1), a) == vrank_in(s.take(i), a) + (if vt_lt(s[i].0, a) { 1nat } else { 0nat }), vrank_in(s.take(i), a) <= i
    decreases i
{
    assert(s.take(i + 1).drop_last() =~= s.take(i));
    if i > 0 { lemma_vrank_step(s, i - 1, a); }
}
/// C10 (votes): a voting redeemer points at the RANK of its voter among all voters of the builder in the LEDGER's order (KF-55: it was the position in the
/// library's own voter order, which puts key credentials before script credentials)
pub open spec fn vote_ptrs(all: Seq<(Voter, VoterVotes)>, s: Seq<(Voter, VoterVotes)>, tag: RedeemerTag) -> Seq<PlutusWitness> decreases s.len() {
    if s.len() == 0 { Seq::empty() } else {
        let p = vote_ptrs(all, s.drop_last(), tag);
        match s.last().1.script_witness { Some(ScriptWitnessType::PlutusScriptWitness(w)) => p.push(with_ptr(w, vrank_in(all, s.last().0), tag)), _ => p }
    }
}
pub proof fn lemma_vote_ptrs_step(all: Seq<(Voter, VoterVotes)>, s: Seq<(Voter, VoterVotes)>, i: int, tag: RedeemerTag)
    requires 0 <= i < s.len()
    ensures vote_ptrs(all, s.take(i + 1), tag) == (match s[i].1.script_witness { Some(ScriptWitnessType::PlutusScriptWitness(w)) => vote_ptrs(all, s.take(i), tag).push(with_ptr(w, vrank_in(all, s[i].0), tag)), _ => vote_ptrs(all, s.take(i), tag) })
{ assert(s.take(i + 1).drop_last() =~= s.take(i)); }

pub open spec fn script_mint_entries(m: ScriptMint) -> Seq<(AssetName, Int)> { match m { ScriptMint::Native(n) => n.mints.entries@, ScriptMint::Plutus(p) => p.mints.entries@ } }

// ---- spending pointers: a spend redeemer's index is the position of its input in the body's input set = in the builder's ordered input map
/// position of `input` among the first n inputs, if it is there as a script input
pub open spec fn idx_of(vals: Seq<InEntry>, input: TransactionInput, n: int) -> Option<nat> decreases n {
    if n <= 0 { None } else if vals[n - 1].0.input == input && vals[n - 1].1 is Some { Some((n - 1) as nat) } else { idx_of(vals, input, n - 1) }
}
pub open spec fn group_ptrs(vals: Seq<InEntry>, g: Seq<(TransactionInput, Option<ScriptWitnessType>)>, tag: RedeemerTag) -> Seq<PlutusWitness> decreases g.len() {
    if g.len() == 0 { Seq::empty() } else {
        let p = group_ptrs(vals, g.drop_last(), tag);
        match g.last().1 { Some(ScriptWitnessType::PlutusScriptWitness(w)) => match idx_of(vals, g.last().0, vals.len() as int) { Some(i) => p.push(with_ptr(w, i, tag)), None => p }, _ => p }
    }
}
pub open spec fn spend_ptrs(vals: Seq<InEntry>, t: Seq<(ScriptHash, WitEntries)>, tag: RedeemerTag) -> Seq<PlutusWitness> decreases t.len() {
    if t.len() == 0 { Seq::empty() } else { spend_ptrs(vals, t.drop_last(), tag) + group_ptrs(vals, t.last().1@, tag) }
}
pub proof fn lemma_group_step(vals: Seq<InEntry>, g: Seq<(TransactionInput, Option<ScriptWitnessType>)>, j: int, tag: RedeemerTag)
    requires 0 <= j < g.len()
    ensures group_ptrs(vals, g.take(j + 1), tag) == (match g[j].1 { Some(ScriptWitnessType::PlutusScriptWitness(w)) => match idx_of(vals, g[j].0, vals.len() as int) { Some(i) => group_ptrs(vals, g.take(j), tag).push(with_ptr(w, i, tag)), None => group_ptrs(vals, g.take(j), tag) }, _ => group_ptrs(vals, g.take(j), tag) })
{ assert(g.take(j + 1).drop_last() =~= g.take(j)); }
pub proof fn lemma_spend_step(vals: Seq<InEntry>, t: Seq<(ScriptHash, WitEntries)>, i: int, tag: RedeemerTag)
    requires 0 <= i < t.len() ensures spend_ptrs(vals, t.take(i + 1), tag) == spend_ptrs(vals, t.take(i), tag) + group_ptrs(vals, t[i].1@, tag)
{ assert(t.take(i + 1).drop_last() =~= t.take(i)); }
/// the index map the code builds while walking the first n inputs: exactly idx_of
pub open spec fn map_ok<'a>(m: Map<&'a TransactionInput, BigNum>, vals: Seq<InEntry>, n: int) -> bool {
    forall|k: &'a TransactionInput| (m.contains_key(k) <==> idx_of(vals, *k, n) is Some) && (m.contains_key(k) ==> m[k].0 == idx_of(vals, *k, n)->Some_0)
}

/// C10 (proposals): each Plutus witness of the proposal builder points at the position of its proposal in the builder's sequence
pub open spec fn prop_ptrs(s: Seq<(VotingProposal, Option<ScriptWitnessType>)>, tag: RedeemerTag) -> Seq<PlutusWitness> decreases s.len() {
    if s.len() == 0 { Seq::empty() } else {
        let p = prop_ptrs(s.drop_last(), tag);
        match s.last().1 { Some(ScriptWitnessType::PlutusScriptWitness(w)) => p.push(with_ptr(w, (s.len() - 1) as nat, tag)), _ => p }
    }
}
pub proof fn lemma_prop_ptrs_step(s: Seq<(VotingProposal, Option<ScriptWitnessType>)>, i: int, tag: RedeemerTag)
    requires 0 <= i < s.len()
    ensures prop_ptrs(s.take(i + 1), tag) == (match s[i].1 { Some(ScriptWitnessType::PlutusScriptWitness(w)) => prop_ptrs(s.take(i), tag).push(with_ptr(w, i as nat, tag)), _ => prop_ptrs(s.take(i), tag) })
{ assert(s.take(i + 1).drop_last() =~= s.take(i)); }

/// the (account, coin) pair of the i-th withdrawal the builder holds
pub open spec fn wd_pair(w: Seq<(RewardAddress, (Coin, Option<ScriptWitnessType>))>, i: int) -> (RewardAddress, Coin) { (w[i].0, w[i].1.0) }

/// C20 / C05: the deposit total of the proposal builder is the sum of the deposits of its proposals
pub open spec fn prop_deposits(s: Seq<(VotingProposal, Option<ScriptWitnessType>)>, n: int) -> nat decreases n { if n <= 0 { 0 } else { prop_deposits(s, n - 1) + s[n - 1].0.deposit.0 as nat } }
pub proof fn lemma_prop_deposits_mono(s: Seq<(VotingProposal, Option<ScriptWitnessType>)>, a: int, b: int) requires 0 <= a <= b ensures prop_deposits(s, a) <= prop_deposits(s, b) decreases b - a
{ if a < b { lemma_prop_deposits_mono(s, a, b - 1); } }
/// C10 / C18 (votes): a voter's entry carries a script witness only if the voter is a script credential
pub open spec fn vote_wits_ok(s: Seq<(Voter, VoterVotes)>) -> bool { forall|i: int| 0 <= i < s.len() ==> ((#[trigger] s[i]).1.script_witness is Some ==> v_is_script(s[i].0)) }
