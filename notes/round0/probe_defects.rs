use cardano_serialization_lib::*;
use std::panic::catch_unwind;

fn report(name: &str, r: std::thread::Result<String>) {
    match r { Ok(s) => println!("PROBE {name}: ok {s}"), Err(_) => println!("PROBE {name}: PANIC") }
}

#[test]
fn probes() {
    report("int_min_i64_to_bytes", catch_unwind(|| hex::encode(Int::from_str("-9223372036854775808").unwrap().to_bytes())));
    report("addr_empty", catch_unwind(|| format!("{:?}", Address::from_bytes(vec![]).is_ok())));
    report("from_hex_bad", catch_unwind(|| format!("{:?}", BigNum::from_hex("zz").is_ok())));
    report("int_neg_2_64_as_negative", catch_unwind(|| format!("{:?}", Int::from_bytes(vec![0x3b,0xff,0xff,0xff,0xff,0xff,0xff,0xff,0xff]).map(|i| (i.to_str(), i.as_negative().map(|b| b.to_str()))))));
    report("witset_empty_vkeys", catch_unwind(|| { let w = TransactionWitnessSet::from_bytes(vec![0xa1,0x00,0x80]); match w { Ok(w) => hex::encode(w.to_bytes()), Err(e) => format!("err {:?}", e) } }));
    report("bignum_div0", catch_unwind(|| BigNum::from_str("1").unwrap().div_floor(&BigNum::zero()).to_str()));
    report("xprv128_short", catch_unwind(|| format!("{:?}", Bip32PrivateKey::from_128_xprv(&[0u8; 10]).is_ok())));
}
